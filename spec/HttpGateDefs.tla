----------------------------- MODULE HttpGateDefs -----------------------------
(* Decision table for the HTTP gates in front of the MCP server, property C12 *)
(* part (a):  mcp.StreamableHTTPHandler.ServeHTTP (stateful and stateless),   *)
(* streamableServerConn.servePOST, validateMcpHeaders and mcp.SSEHandler.     *)
(*                                                                            *)
(*  Vals       abstract POST requests: one class per dimension (HttpGate.tla   *)
(*             enumerates those at most K dimensions away from Default)       *)
(*  Expected   the code-shaped procedure: gates in the code's order           *)
(*  Faults     which documented preconditions a request violates              *)
(*  Holds      the property over (case, outcome): a message is observed by    *)
(*             the MCP server only if no precondition is violated, and a      *)
(*             violating request gets the status / error mandated for one of  *)
(*             the preconditions it violates                                  *)
(* TLC evaluates Holds on Expected (design: every disagreement is a lead that *)
(* must be reproduced on the real code) and HttpGateMon evaluates Holds on    *)
(* the outcomes of the real handlers.                                         *)
EXTENDS Integers, Sequences, FiniteSets, TLC

Kinds == {"stateful", "stateless", "sse"}
DimSeq == <<"listener", "host", "ctype", "accept", "body", "vhdr", "meta", "mm", "mn", "mp", "msg">>
NDims == Len(DimSeq)

\* listener: address of the accepting socket (http.LocalAddrContextKey): loopback, other, not available
\* host:     Host header: loopback spelling, other, look-alike of a loopback name, empty
\* ctype:    Content-Type: application/json, with parameters / other case, another type, absent, unparsable
\* accept:   Accept: admits both json and event-stream (literally / by wildcard), only one, neither, absent
\* body:     well-formed message, the same padded to exactly the limit, empty, padded beyond the limit, not a JSON-RPC message,
\*           a well-formed message (or legacy batch) followed by further non-blank bytes, e.g. a second JSON value
\*           (not a JSON text: RFC 8259 allows only one value)
\* vhdr:     Mcp-Protocol-Version header: absent, supported legacy, unsupported (older), 2026-07-28, unsupported (later)
\* meta:     _meta protocolVersion in the body: absent, equal to the header, different and >= 2026-07-28, different and legacy
\* mm/mn/mp: Mcp-Method / Mcp-Name / Mcp-Param-Region header against the body value
\* msg:      a tools/call (call) or a notifications/progress (notif)
Mirror == {"absent", "equal", "different", "b64equal", "b64malformed"}
Vals(kind, d) ==
  CASE d = "listener" -> {"loop", "other", "none"}
    [] d = "host"     -> {"loop", "other", "lookalike", "empty"}
    [] d = "ctype"    -> {"json", "jsonparams", "other", "missing", "malformed"}
    [] d = "accept"   -> IF kind = "sse" THEN {"missing", "both", "other"}
                         ELSE {"both", "wild", "jsononly", "sseonly", "other", "missing"}
    [] d = "body"     -> IF kind = "sse" THEN {"ok", "empty", "malformed", "trailing"}
                         ELSE {"ok", "atlimit", "empty", "oversize", "malformed", "trailing"}
    [] d = "vhdr"     -> IF kind = "sse" THEN {"absent"} ELSE {"absent", "legacy", "badold", "new", "future"}
    [] d = "meta"     -> IF kind = "sse" THEN {"absent"} ELSE {"absent", "eq", "neNew", "neLegacy"}
    [] d \in {"mm", "mn", "mp"} ->
         IF kind = "sse" THEN {"absent"} ELSE IF kind = "stateful" THEN {"absent", "different"} ELSE Mirror
    [] d = "msg"      -> {"call", "notif"}

\* the request a conforming client of that handler sends
Default(kind, d) ==
  CASE d = "listener" -> "loop"
    [] d = "host"     -> "loop"
    [] d = "ctype"    -> "json"
    [] d = "accept"   -> IF kind = "sse" THEN "missing" ELSE "both"
    [] d = "body"     -> "ok"
    [] d = "vhdr"     -> IF kind = "sse" THEN "absent" ELSE IF kind = "stateful" THEN "legacy" ELSE "new"
    [] d = "meta"     -> IF kind = "stateless" THEN "eq" ELSE "absent"
    [] d \in {"mm", "mn", "mp"} -> IF kind = "stateless" THEN "equal" ELSE "absent"
    [] d = "msg"      -> "call"

ToCase(kind, s) == [kind |-> kind, listener |-> s[1], host |-> s[2], ctype |-> s[3], accept |-> s[4], body |-> s[5],
                    vhdr |-> s[6], meta |-> s[7], mm |-> s[8], mn |-> s[9], mp |-> s[10], msg |-> s[11]]
\* "equal to the header" needs a header
ValidCase(c) == c.vhdr = "absent" => c.meta # "eq"

-----------------------------------------------------------------------------
\* Derived attributes
LoopListener(c) == c.listener = "loop"
BadCT == {"other", "missing", "malformed"}
BadAccept == {"jsononly", "sseonly", "other", "missing"}
\* the version the body declares
MetaVer(c) == CASE c.meta = "absent" -> "absent"
                [] c.meta = "eq" -> c.vhdr
                [] c.meta = "neNew" -> (IF c.vhdr = "new" THEN "future" ELSE "new")
                [] c.meta = "neLegacy" -> "legacy"
Supported(kind, v) == v \in {"absent", "legacy"} \/ (v = "new" /\ kind = "stateless")
\* the request is (or claims to be) a 2026-07-28 request
NewProto(c) == c.vhdr \in {"new", "future"} \/ MetaVer(c) \in {"new", "future"}
\* the standard-header mirrors are in force
Enforced(c) == c.kind # "sse" /\ c.vhdr \in {"new", "future"}
Unequal == {"absent", "different", "b64malformed"}   \* b64equal of Mcp-Method / Mcp-Name: neither required nor forbidden

-----------------------------------------------------------------------------
\* Outcome: [status, code, reached]; Expected carries reach \in {"yes", "no", "maybe"}
R(st, code) == [status |-> st, code |-> code, reach |-> "no"]
CodeMismatch == -32020
CodeUnsupportedVersion == -32022
CodeInvalidParams == -32602

Dispatch(c) ==
  IF MetaVer(c) = "future"          \* ServerSession.handle: per-request version not supported
  THEN (IF c.msg = "call" THEN R(400, CodeUnsupportedVersion) ELSE R(202, 0))
  ELSE [status |-> IF c.msg = "call" THEN 200 ELSE 202, code |-> 0,
        \* a stateless POST closes its ephemeral session right after the 202: the notification may or may not be read
        reach |-> IF c.kind = "stateless" /\ c.msg = "notif" THEN "maybe" ELSE "yes"]

ExpectedStreamable(c) ==
  IF LoopListener(c) /\ c.host # "loop" THEN R(403, 0)                    \* ServeHTTP: DNS rebinding protection
  ELSE IF c.vhdr = "badold" THEN R(400, 0)                                \* ServeHTTP: version header
  ELSE IF c.ctype \in BadCT THEN R(415, 0)                                \* serveStateless / serveStatefulPOST
  ELSE IF c.accept \in BadAccept THEN R(400, 0)
  ELSE IF c.body = "oversize" THEN R(413, 0)                              \* ephemeralConnectOpts / servePOST read
  ELSE IF c.body \in {"empty", "malformed", "trailing"} THEN R(400, 0)    \* servePOST (Unmarshal accepts exactly one JSON value)
  ELSE IF (c.vhdr \in {"new", "future"} \/ c.meta # "absent") /\ c.kind = "stateful" THEN R(400, CodeUnsupportedVersion)
  ELSE IF (c.vhdr \in {"new", "future"} \/ c.meta # "absent") /\ c.vhdr = "absent" THEN R(400, CodeMismatch)
  ELSE IF (c.vhdr \in {"new", "future"} \/ c.meta # "absent") /\ c.meta = "absent" THEN R(400, CodeInvalidParams)
  ELSE IF (c.vhdr \in {"new", "future"} \/ c.meta # "absent") /\ c.meta # "eq" THEN R(400, CodeMismatch)
  ELSE IF c.vhdr \in {"new", "future"} /\ c.mm # "equal" THEN R(400, CodeMismatch)                \* validateMcpHeaders
  ELSE IF c.vhdr \in {"new", "future"} /\ c.msg = "call" /\ c.mn # "equal" THEN R(400, CodeMismatch)
  ELSE IF c.vhdr \in {"new", "future"} /\ c.msg = "call" /\ c.mp \notin {"equal", "b64equal"} THEN R(400, CodeMismatch)
  ELSE Dispatch(c)

ExpectedSSE(c) ==
  IF LoopListener(c) /\ c.host # "loop" THEN R(403, 0)
  ELSE IF c.ctype \in BadCT THEN R(415, 0)
  ELSE IF c.body \in {"empty", "malformed", "trailing"} THEN R(400, 0)
  ELSE [status |-> 202, code |-> 0, reach |-> "yes"]

Expected(c) == IF c.kind = "sse" THEN ExpectedSSE(c) ELSE ExpectedStreamable(c)

\* the concrete outcomes Expected allows
Outcomes(c) == LET x == Expected(c)
               IN {[status |-> x.status, code |-> x.code, reached |-> b] :
                     b \in (IF x.reach = "maybe" THEN BOOLEAN ELSE {x.reach = "yes"})}
Matches(c, o) == LET x == Expected(c)
                 IN o.status = x.status /\ o.code = x.code /\ (x.reach = "maybe" \/ (o.reached <=> x.reach = "yes"))

-----------------------------------------------------------------------------
\* The property.
FaultOrder == <<"host", "ctype", "accept", "size", "body", "version", "mirrorver", "mm", "mn", "mp">>
HasFault(c, f) ==
  CASE f = "host"      -> LoopListener(c) /\ c.host # "loop"
    [] f = "ctype"     -> c.ctype \in BadCT
    [] f = "accept"    -> c.kind # "sse" /\ c.accept \in BadAccept
    [] f = "size"      -> c.kind # "sse" /\ c.body = "oversize"
    [] f = "body"      -> c.body \in {"empty", "malformed", "trailing"}
    [] f = "version"   -> c.kind # "sse" /\ (~Supported(c.kind, c.vhdr) \/ ~Supported(c.kind, MetaVer(c)))
    [] f = "mirrorver" -> c.kind # "sse" /\ NewProto(c) /\ c.meta # "eq"
    [] f = "mm"        -> Enforced(c) /\ c.mm \in Unequal
    [] f = "mn"        -> Enforced(c) /\ c.msg = "call" /\ c.mn \in Unequal
    [] f = "mp"        -> Enforced(c) /\ c.msg = "call" /\ c.mp \in Unequal
Faults(c) == {FaultOrder[i] : i \in {j \in DOMAIN FaultOrder : HasFault(c, FaultOrder[j])}}
FirstFault(c) == IF Faults(c) = {} THEN "none"
                 ELSE FaultOrder[CHOOSE i \in DOMAIN FaultOrder : HasFault(c, FaultOrder[i]) /\ \A j \in 1..(i - 1) : ~HasFault(c, FaultOrder[j])]
\* the class that makes f a fault (for signatures)
FaultClass(c, f) ==
  CASE f = "host" -> c.host [] f = "ctype" -> c.ctype [] f = "accept" -> c.accept [] f \in {"size", "body"} -> c.body
    [] f \in {"version", "mirrorver"} -> c.vhdr \o "/" \o c.meta
    [] f = "mm" -> c.mm [] f = "mn" -> c.mn [] f = "mp" -> c.mp [] OTHER -> "-"

\* the response mandated for a violation of precondition f
OutcomeOK(c, f, o) ==
  CASE f = "host"      -> o.status = 403
    [] f = "ctype"     -> o.status = 415
    [] f = "accept"    -> o.status \in {400, 406}
    [] f = "size"      -> o.status = 413
    [] f = "body"      -> o.status = 400
    [] f = "version"   -> o.status = 400 \/ o.code = CodeUnsupportedVersion
    [] f = "mirrorver" -> o.code = CodeMismatch \/ (c.meta = "absent" /\ o.code = CodeInvalidParams)
    [] f \in {"mm", "mn", "mp"} -> o.code = CodeMismatch

Sound(c, o) == o.reached => Faults(c) = {}
Mandated(c, o) == Faults(c) # {} => \E f \in Faults(c) : OutcomeOK(c, f, o)
Holds(c, o) == Sound(c, o) /\ Mandated(c, o)
=============================================================================
