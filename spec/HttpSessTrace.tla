---------------------------- MODULE HttpSessTrace ----------------------------
(* Strict conformance of recorded harness steps against HttpSess: every step  *)
(* of a history is replayed as the HttpSess action of the same name, and the  *)
(* responses it predicts (method, body, target, status, Mcp-Session-Id), the  *)
(* number of tool handlers started, the live sessions and the closed sessions *)
(* must equal what the real handler produced.  A mismatch is DRIFT (the code  *)
(* no longer behaves like the model), never a verdict.  Histories with        *)
(* AdvanceTie are not replayed here (their outcome is a race by design).      *)
EXTENDS HttpSess, VerifTrace

VARIABLE l
tvars == <<vars, l>>

Key(c) == <<c.m, c.body, c.tgt, c.status, c.sid, c.fresh>>
CountRes(key) == Cardinality({j \in DOMAIN res' : Key(res'[j]) = key})
CountObs(e, key) == Cardinality({j \in DOMAIN e.done : Key(e.done[j]) = key})

Match(e) ==
  /\ Len(res') = Len(e.done)
  /\ \A j \in DOMAIN res' : CountRes(Key(res'[j])) = CountObs(e, Key(res'[j]))
  /\ ranNow' = Len(e.ran)
  /\ {i \in Ids : tab'[i].st \in {"live", "closing"}} = {x \in AsSet(e.sess) : x > 0}
  /\ {i \in Ids : tab'[i].st = "dead"} = AsSet(e.closed)

TraceInit == Init /\ l = 1 /\ MarkInit

TraceReset ==
  /\ tab' = [i \in Ids |-> FreeSess] /\ nmint' = 0 /\ slot' = [p \in Slots |-> FreeSlot]
  /\ tiewin' = FALSE /\ store' = "up" /\ res' = <<>> /\ ranNow' = 0 /\ bad' = FALSE

TraceNext ==
  /\ l <= NLines
  /\ l' = l + 1
  /\ LET e == TraceLog[l] IN
       IF e.ev = "reset" THEN TraceReset
       ELSE IF e.op = "Drain" THEN UNCHANGED vars
       ELSE /\ CASE e.op = "Post"    -> Post(e.a1, e.a2, e.a3)
                 [] e.op = "Get"     -> Get(e.a2, e.a3)
                 [] e.op = "Delete"  -> Delete(e.a2, e.a3)
                 [] e.op = "EndPost" -> e.a2 \in Slots /\ EndPost(e.a2)
                 [] e.op = "Close"   -> e.a2 \in Ids /\ Close(e.a2)
                 [] e.op = "Advance" -> Advance(e.a2)
                 [] e.op = "SetStore" -> SetStore(e.a1)
                 [] OTHER -> FALSE
            /\ Match(e)

TraceSpec == TraceInit /\ [][TraceNext]_tvars
TMark == MarkAt(l)
TAccepted == Accepted
=============================================================================
