\* simulation: OAuth
SPECIFICATION SettledSpec
CONSTANTS
  NC = 3
  SASet = {FALSE}
  OAuthSet = {TRUE}
  DelSet = {"405"}
  PostSet = {"json", "badjson", "sse", "202", "badct", "rpcerr", "rpc404", "404", "http", "401", "5xx", "neterr"}
  GetSet = {"405"}
  InitH = {"", "A"}
  HSet = {"", "A"}
  MaxNotify = 1
  MaxSaEv = 0
  MaxAuth = 3
  MaxClose = 2
  AllowCancel = FALSE
  FixCancel = FALSE
  FixStream = FALSE
INVARIANTS TypeOK SessionHeader VersionHeader DeleteOnce
CHECK_DEADLOCK FALSE
