------------------------------ MODULE LogFilter ------------------------------
(* Extension check X03: server-to-client LOGGING of the Go MCP SDK.            *)
(*   mcp/logging.go   levels, compareLevels, slogLevelToMCP / mcpLevelToSlog,  *)
(*                    LoggingHandler (Enabled, Handle, WithAttrs, WithGroup,   *)
(*                    MinInterval rate limiting through x/time/rate)           *)
(*   mcp/server.go    ServerSession.Log, ServerSession.setLevel, the per-      *)
(*                    request level put into the handler context               *)
(*   mcp/shared.go    validatedMeta.logLevel  (io.modelcontextprotocol/logLevel)*)
(*   mcp/streamable.go  level "info" synthesised for old-protocol stateless    *)
(*                    HTTP requests (ephemeralConnectOpts)                      *)
(*                                                                            *)
(* PROPERTIES  (what a user of the SDK relies on; sources in brackets)         *)
(*                                                                            *)
(*  P1 FILTER    A log message is delivered to the client if and only if a     *)
(*               minimum level is in effect for it and the message's severity  *)
(*               is at least that level in the syslog order                    *)
(*               debug < info < notice < warning < error < critical < alert <  *)
(*               emergency; never before the client has set a level; and a     *)
(*               level set by logging/setLevel governs every message logged    *)
(*               after the setLevel response.                                  *)
(*               [SetLoggingLevelParams.Level: "The server should send all     *)
(*               logs at this level and higher (i.e., more severe) to the      *)
(*               client as notifications/message"; docs/server.md: "no log     *)
(*               messages will be sent until the client calls SetLevel";       *)
(*               "It sends a logging notification to the client if the level   *)
(*               of the message is at least the minimum log level".]           *)
(*               The level in effect: for a request of protocol >= 2026-07-28  *)
(*               the level carried in that request's _meta (absent or empty:   *)
(*               none); otherwise the session level.  [ServerSession.Log doc.] *)
(*               For an old-protocol request to a STATELESS HTTP server the    *)
(*               session level is "info".  [docs/server.md.]                   *)
(*  P2 FIDELITY  A delivered notification is delivered once, carries the       *)
(*               level it was logged at (exactly, for the eight named levels), *)
(*               never a level below the level in effect, the configured       *)
(*               logger name, and as data the logged value - for the slog      *)
(*               handler the JSON object of the record (time, msg, attributes, *)
(*               groups) without a "level" member.  [NewLoggingHandler,        *)
(*               LoggingHandlerOptions.LoggerName, LoggingMessageParams.]      *)
(*  P2b ENABLED  Whenever a level is in effect, a record whose slog level is   *)
(*               at least the slog value of that level is reported Enabled and *)
(*               is not then dropped by the level rule (slog levels are        *)
(*               integers: this includes levels between and above the named    *)
(*               ones).  [LoggingHandler.Enabled: "by comparing level to the   *)
(*               ServerSession's level"; slog.Handler contract.]               *)
(*  P3 RATE      With MinInterval = 0 no message is dropped.  With             *)
(*               MinInterval = d > 0 no two messages of one handler (including *)
(*               its WithAttrs / WithGroup clones) are sent less than d apart, *)
(*               and a message that passes the level rule is dropped ONLY when *)
(*               another message of that handler was SENT less than d before   *)
(*               it.  [LoggingHandlerOptions.MinInterval: "Limits the rate at  *)
(*               which log messages are sent.  Excess messages are dropped.    *)
(*               If zero, there is no rate limiting."]                         *)
(*  P4 ORDER     Messages logged one after the other by one goroutine reach    *)
(*               the client's LoggingMessageHandler in that order, and every   *)
(*               message sent is eventually received.                          *)
(*  P5 ISOLATION The level of a new-protocol request governs exactly the       *)
(*               messages logged with that request's context: it neither       *)
(*               changes the session level nor the level of any other request, *)
(*               and the session level does not apply to such a request.       *)
(*                                                                            *)
(* DEVIATIONS of the code from the idealised design (AsIs = TRUE models the    *)
(* code, AsIs = FALSE the idealised design in which all properties hold):      *)
(*  D1  LoggingHandler.handle consults the rate limiter BEFORE the level rule  *)
(*      (ServerSession.Log): a record that is then dropped by the level rule   *)
(*      has consumed the token (breaks the last clause of P3);                 *)
(*  D2  Enabled reports TRUE while no session level is set ("" is mapped to    *)
(*      debug) although nothing can be sent (feeds D1);                        *)
(*  D3  slogLevelToMCP maps every unnamed slog level to "debug" ("for lack of  *)
(*      a better idea"): with a level above debug in effect such a record is   *)
(*      Enabled and then dropped (breaks P2b, feeds D1);                       *)
(*  D4  an unknown level string (set by the client or carried by a message) is *)
(*      treated as debug.  The properties say nothing about unknown strings;   *)
(*      the model follows the code and only drift is reported for them.        *)
(*                                                                            *)
(* STRUCTURE  one action per protocol step / critical section:                 *)
(*   SetLevel(L)            logging/setLevel served (ss.mu: state.LogLevel)     *)
(*   OpenReq(r,L)/CloseReq  a tools/call whose handler context carries L       *)
(*   LogDirect(c,l)         ServerSession.Log(ctx_c, level l)                   *)
(*   SlogEnabled(f,k,c,sl)  slog.Logger -> LoggingHandler.Enabled (reads level)*)
(*   SlogHandle             LoggingHandler.Handle: limiter.Allow, JSON, ss.Log *)
(*   Tick(dt)               virtual time                                       *)
(*   Settle                 the client has handled everything in flight        *)
(* Time is kept as capped ages (ticks since the limiter last admitted / since  *)
(* the family last sent), which makes the state space finite without a bound.  *)
EXTENDS LogFilterDefs

CONSTANTS Eras,         \* subset of {"legacy","modern"}: protocol era of the session
          D,            \* MinInterval of the rate-limited handler family "fd", in ticks
          Fams,         \* subset of {"f0","fd"}: f0 has MinInterval 0
          Clones,       \* subset of {"base","attrs","group"}: handler obtained by WithAttrs / WithGroup
          Reqs,         \* request contexts
          SetLevels,    \* what the client may set
          ReqLevels,    \* what a request may carry ("absent" = no level)
          DirectLevels, \* levels of messages given to ServerSession.Log
          Slog,         \* slog levels (integers) given to the slog.Logger
          Ticks,        \* tick sizes
          MaxFlight,    \* bound on sent-but-unsettled notifications (harness policy)
          Race          \* TRUE: one SetLevel may fall between Enabled and Handle
\* (AsIs - TRUE: the code; FALSE: the idealised design - is declared in LogFilterDefs)

VARIABLES era, sess, reqs, adm, del, pend, flight
vars == <<era, sess, reqs, adm, del, pend, flight>>

-----------------------------------------------------------------------------
MinInt(f) == IF f = "fd" THEN D ELSE 0

Ctxs == {"bg"} \cup Reqs
Open(c) == IF c = "bg" THEN TRUE ELSE reqs[c] # "closed"
\* the level in effect for a log call made with context c (this is P1/P5's definition AND the code's)
ThrOf(c) == IF c # "bg" /\ era = "modern" THEN reqs[c] ELSE sess

PendOff == [on |-> FALSE, f |-> "-", c |-> "-", sl |-> 0, thrE |-> "-", raced |-> FALSE]

\* LoggingHandler.Enabled
EnabledCode(c, sl) ==
  LET L == ThrOf(c) IN
  /\ NoLevel(L) => (AsIs /\ L = "unset")          \* D2: "" is compared as debug; a request's "" is refused
  /\ sl >= McpToSlog(L)

\* LoggingHandler.Handle for the pending record
HandleOutcome ==
  LET L == ThrOf(pend.c)
      lim == MinInt(pend.f) > 0
  IN IF AsIs
     THEN LET tok == ~lim \/ adm = D                      \* limiter.Allow() first (D1)
              nm == SlogToMcp(pend.sl)
          IN [send |-> tok /\ LogDecision(L, nm), took |-> lim /\ tok, nm |-> nm]
     ELSE LET pass == ~NoLevel(L) /\ pend.sl >= McpToSlog(L)
              tok == pass /\ (~lim \/ adm = D)
          IN [send |-> tok, took |-> lim /\ tok, nm |-> SlogToMcp(pend.sl)]

-----------------------------------------------------------------------------
\* actions

Init == /\ era \in Eras /\ sess = "unset" /\ reqs = [r \in Reqs |-> "closed"]
        /\ adm = D /\ del = D /\ pend = PendOff /\ flight = 0

SetLevel(L) ==
  /\ L \in SetLevels
  /\ pend.on => (Race /\ ~pend.raced)
  /\ sess' = L
  /\ pend' = IF pend.on THEN [pend EXCEPT !.raced = TRUE] ELSE pend
  /\ UNCHANGED <<era, reqs, adm, del, flight>>

OpenReq(r, L) ==
  /\ r \in Reqs /\ L \in ReqLevels /\ reqs[r] = "closed" /\ ~pend.on
  /\ reqs' = [reqs EXCEPT ![r] = L]
  /\ UNCHANGED <<era, sess, adm, del, pend, flight>>

CloseReq(r) ==
  /\ r \in Reqs /\ reqs[r] # "closed" /\ ~pend.on
  /\ reqs' = [reqs EXCEPT ![r] = "closed"]
  /\ UNCHANGED <<era, sess, adm, del, pend, flight>>

LogDirect(c, l) ==
  /\ c \in Ctxs /\ l \in DirectLevels /\ Open(c) /\ ~(pend.on /\ pend.c = c)
  /\ flight < MaxFlight
  /\ flight' = IF LogDecision(ThrOf(c), l) THEN flight + 1 ELSE flight
  /\ UNCHANGED <<era, sess, reqs, adm, del, pend>>

SlogEnabled(f, k, c, sl) ==
  /\ f \in Fams /\ k \in Clones /\ c \in Ctxs /\ sl \in Slog /\ Open(c) /\ ~pend.on
  /\ pend' = IF EnabledCode(c, sl)
             THEN [on |-> TRUE, f |-> f, c |-> c, sl |-> sl, thrE |-> ThrOf(c), raced |-> FALSE]
             ELSE pend
  /\ UNCHANGED <<era, sess, reqs, adm, del, flight>>

SlogHandle ==
  /\ pend.on /\ flight < MaxFlight
  /\ LET o == HandleOutcome IN
       /\ adm' = IF o.took THEN 0 ELSE adm
       /\ del' = IF o.send /\ MinInt(pend.f) > 0 THEN 0 ELSE del
       /\ flight' = IF o.send THEN flight + 1 ELSE flight
  /\ pend' = PendOff
  /\ UNCHANGED <<era, sess, reqs>>

Min(a, b) == IF a < b THEN a ELSE b
Tick(dt) ==
  /\ dt \in Ticks
  /\ adm' = Min(D, adm + dt) /\ del' = Min(D, del + dt)
  /\ UNCHANGED <<era, sess, reqs, pend, flight>>

Settle ==
  /\ flight > 0 /\ flight' = 0
  /\ UNCHANGED <<era, sess, reqs, adm, del, pend>>

Next ==
  \/ \E L \in SetLevels : SetLevel(L)
  \/ \E r \in Reqs, L \in ReqLevels : OpenReq(r, L)
  \/ \E r \in Reqs : CloseReq(r)
  \/ \E c \in Ctxs, l \in DirectLevels : LogDirect(c, l)
  \/ \E f \in Fams, k \in Clones, c \in Ctxs, sl \in Slog : SlogEnabled(f, k, c, sl)
  \/ SlogHandle
  \/ \E dt \in Ticks : Tick(dt)
  \/ Settle

Spec == Init /\ [][Next]_vars
Fair == WF_vars(Settle) /\ SF_vars(SlogHandle)   \* SF: the flight bound disables Handle now and then
FairSpec == Spec /\ Fair

-----------------------------------------------------------------------------
\* invariants of the model: every log call possible in the current state satisfies the predicates
HandleWs == IF pend.raced THEN {pend.thrE, ThrOf(pend.c)} ELSE {pend.thrE}
PLim == MinInt(pend.f) > 0

InvNoLeak   == pend.on => NoLeakOK(HandleWs, pend.sl, HandleOutcome.send)
InvComplete == pend.on => CompleteNamedOK(HandleWs, pend.sl, PLim, HandleOutcome.send)
InvLevel    == pend.on => LevelOK(HandleWs, pend.sl, HandleOutcome.send, HandleOutcome.nm)
InvSpacing  == pend.on => SpacingOK(PLim, HandleOutcome.send, del, D)
InvEnabled  == \A c \in Ctxs, sl \in Slog : Open(c) => EnabledOK(ThrOf(c), sl, EnabledCode(c, sl))
InvDirect   == \A c \in Ctxs, l \in DirectLevels \cap NameSet : Open(c) =>
                 LET s == LogDecision(ThrOf(c), l) IN
                 /\ NoLeakOK({ThrOf(c)}, SlogOf(l), s)
                 /\ CompleteNamedOK({ThrOf(c)}, SlogOf(l), FALSE, s)
\* these two hold for the idealised design only (D1..D3)
InvExcess   == pend.on => ExcessOK(HandleWs, pend.sl, PLim, HandleOutcome.send, del, D)
InvAny      == pend.on => CompleteAnyOK(HandleWs, pend.sl, PLim, HandleOutcome.send)

TypeOK == /\ era \in {"legacy", "modern"}
          /\ sess \in {"unset"} \cup SetLevels
          /\ \A r \in Reqs : reqs[r] \in {"closed"} \cup ReqLevels
          /\ adm \in 0..D /\ del \in 0..D /\ adm <= del
          /\ flight \in 0..MaxFlight
          /\ pend.on \in BOOLEAN

\* liveness (under Fair): what is sent is received; a record that passed Enabled is handled
LiveSettle == []<>(flight = 0)
LiveHandle == pend.on ~> ~pend.on

=============================================================================
