------------------------- MODULE CapabilitiesDynGen -------------------------
(* Behaviour generation for the dynamic part of X06: CapabilitiesDyn with a  *)
(* history of the steps taken, in the harness' vocabulary.  Run with         *)
(* -simulate; Export prints every behaviour that reached MaxLen steps.       *)
EXTENDS CapabilitiesDyn

CONSTANT MaxLen
VARIABLE hist
hvars == <<vars, hist>>

H(op, a) == Len(hist) < MaxLen /\ hist' = Append(hist, [op |-> op, a |-> a])

HInit == Init /\ hist = <<>>
HNext == \/ \E k \in DKinds : AddF(k) /\ H("AddF", <<k>>)
         \/ \E k \in DKinds : RemoveF(k) /\ H("RemoveF", <<k>>)
         \/ \E s \in Legacy : ConnectLegacy(s) /\ H("ConnectLegacy", <<s>>)
         \/ \E s \in Modern, W \in Wants : ConnectModern(s, W) /\ H("ConnectModern", <<s, SetToSeq(W)>>)
         \/ \E s \in Sess : Close(s) /\ H("Close", <<s>>)
         \/ Tick /\ H("Tick", <<>>)
HSpec == HInit /\ [][HNext]_hvars

Export == IF Len(hist) = MaxLen
          THEN PrintT(ToJson([why |-> "sim", kinds |-> SetToSeq(DKinds), cfg |-> cfg, steps |-> hist]))
          ELSE TRUE
=============================================================================
