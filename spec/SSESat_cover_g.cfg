SPECIFICATION SettledSpec
CONSTANTS
  NSess = 2
  CC <- C1
  Nest <- NoNest
  NCN = 1
  NSN = 0
  MaxFaults = 1
  FaultKinds <- FCore
  HoldKinds <- HNone
  Combos = TRUE
  HandsAll = TRUE
  Bug = "none"
VIEW CoverView
CHECK_DEADLOCK FALSE
