SPECIFICATION FairSpec
CONSTANTS
  Class = "sse"
  Ideal = FALSE
  KSet = {"n"}
  NW <- W10
  NR <- W11
  NC <- W11
  WMax = 3
  CMax = 2
INVARIANTS TypeOK
PROPERTIES ClosedForGood CloseReturns CloseUnblocksRead CloseUnblocksWrite
CHECK_DEADLOCK FALSE
