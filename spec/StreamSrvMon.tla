---------------------------- MODULE StreamSrvMon ----------------------------
(* Property monitor for C08 (server-side stream resumption) and C10 (routing) *)
(* over observation logs of harness/mcp/c08_streamsrv_test.go.  One log line  *)
(* = one event.  The monitor keeps ghost bookkeeping in `m` (the event store's *)
(* append order per stream as recorded by the wrapping store, the HTTP        *)
(* exchanges with what each has received so far) and evaluates at each event  *)
(* the clauses that event can decide.  It states only what the properties     *)
(* state and knows nothing about streamable.go's internals.                   *)
(*                                                                            *)
(* C08 clauses apply to SSE exchanges of stateful sessions when an event      *)
(* store is configured.  An exchange resumes from index `from` (-1 for a POST *)
(* and for a GET without Last-Event-ID); its j-th event must carry index      *)
(* from+j and the payload the store holds at that index.                      *)
EXTENDS VerifTrace, FiniteSets

VARIABLES l, m
mvars == <<l, m>>

NoX == [s |-> "", kind |-> "", reqs |-> {}, rids |-> {}, from |-> -1, leid |-> "", stream |-> "?", status |-> 0, sse |-> FALSE,
        n |-> 0, cut |-> FALSE, ended |-> FALSE, mayConflict |-> FALSE, known |-> FALSE,
        tags |-> {},          \* tags of the messages received so far
        lastpos |-> 0,        \* position in the stream's history of the latest message received (C03)
        purged |-> FALSE]     \* the store reported that the requested events were purged (its contract, see C20)

M0 == [store |-> FALSE, json |-> FALSE, stateless |-> FALSE,
       sid   |-> <<>>,     \* session name -> real session id
       dead  |-> {},       \* sessions whose termination has begun (DELETE issued) or that were closed
       xs    |-> <<>>,     \* exchange name -> record
       st    |-> <<>>,     \* <<session, stream>> -> sequence of tags: the store's append order (ground truth)
       own   |-> <<>>,     \* <<session, stream>> -> requests of the POST that created the stream
       ownid |-> <<>>,     \* <<session, stream>> -> their JSON-RPC ids
       ids   |-> <<>>,     \* <<session, stream, idx>> -> tag first delivered under that event id
       rets  |-> {},       \* <<session, request>> whose handler has returned its result
       aband |-> {},       \* abandoned nested calls whose cancellation notice is due: <<session, request, tag, exchange>>
       cleanup |-> FALSE]

Get(f, k, d) == IF k \in DOMAIN f THEN f[k] ELSE d
Put(f, k, v) == [y \in DOMAIN f \cup {k} |-> IF y = k THEN v ELSE f[y]]
X(n) == Get(m.xs, n, NoX)
Log(s, t) == Get(m.st, <<s, t>>, <<>>)
Own(s, t) == Get(m.own, <<s, t>>, {})
OwnId(s, t) == Get(m.ownid, <<s, t>>, {})
\* the requests whose responses / nested messages belong on exchange xr
ReqsOf(xr) == IF xr.kind = "get" THEN (IF xr.stream = "" THEN {} ELSE Own(xr.s, xr.stream)) ELSE xr.reqs
RidsOf(xr) == IF xr.kind = "get" THEN (IF xr.stream = "" THEN {} ELSE OwnId(xr.s, xr.stream)) ELSE xr.rids
Standalone(xr) == xr.kind = "get" /\ xr.stream = ""
\* C08's scope
Scope(xr) == m.store /\ ~m.stateless /\ xr.sse /\ xr.kind \in {"init", "sub", "call", "get"}
TagOf(e) == IF e.kind = "prime" THEN "prime" ELSE e.tag
Finished(s, t) == \E r \in Own(s, t) : \E i \in DOMAIN Log(s, t) : Log(s, t)[i] = s \o "." \o r \o ".resp"

\* first position after `after` at which the history lg holds tag (0 if none)
PosIn(lg, tag, after) == LET S == {i \in DOMAIN lg : i > after /\ lg[i] = tag} IN
                         IF S = {} THEN 0 ELSE CHOOSE i \in S : \A k \in S : i <= k

MInit == l = 1 /\ m = M0 /\ MarkInit

OnBegin(e) ==
  LET strm == IF e.kind = "get" THEN e.stream ELSE "?"
      busy == \E y \in DOMAIN m.xs : m.xs[y].s = e.s /\ m.xs[y].stream = strm /\ ~m.xs[y].ended /\ m.xs[y].kind \in {"init", "sub", "call", "get"}
  IN m' = [m EXCEPT !.xs = Put(m.xs, e.x, [NoX EXCEPT !.s = e.s, !.kind = e.kind, !.reqs = AsSet(e.reqs), !.rids = AsSet(e.rids), !.from = e.lidx,
                                                       !.leid = e.leid, !.stream = strm, !.mayConflict = busy, !.known = TRUE])]

OnOpen(e) ==
  IF e.x \in DOMAIN m.xs /\ e.stream # "" /\ ~e.err
  THEN m' = [m EXCEPT !.xs = Put(m.xs, e.x, [X(e.x) EXCEPT !.stream = e.stream]),
                      !.own = Put(m.own, <<e.s, e.stream>>, X(e.x).reqs),
                      !.ownid = Put(m.ownid, <<e.s, e.stream>>, X(e.x).rids)]
  ELSE m' = m

OnAppend(e) ==
  IF e.err THEN m' = m
  ELSE /\ m' = [m EXCEPT !.st = Put(m.st, <<e.s, e.stream>>, Append(Log(e.s, e.stream), e.tag))]
       \* the wrapping store numbers the appends itself; its index is the position in the log
       /\ Check(l, "X.StoreIndex", e.idx = Len(Log(e.s, e.stream)))

OnHdr(e) ==
  LET xr == X(e.x) IN
  /\ m' = [m EXCEPT !.xs = Put(m.xs, e.x, [xr EXCEPT !.status = e.status, !.sse = (e.ctype = "sse")])]
  \* a resumption from an id issued before is served unless another exchange may still hold the stream
  /\ IF xr.kind = "get" /\ m.store /\ ~m.stateless /\ xr.s \notin m.dead /\ ~xr.mayConflict /\ ~xr.cut /\ ~m.cleanup /\ ~xr.purged
     THEN IF xr.stream # "" /\ Finished(xr.s, xr.stream)
          THEN Check(l, "C08.FinalObtainable", e.status = 200)
          ELSE Check(l, "C08.Resumable", e.status = 200)
     ELSE TRUE

OnEv(e) ==
  LET xr == X(e.x)
      j == xr.n + 1
      lg == Log(xr.s, xr.stream)
      pos == xr.from + j + 1                      \* 1-based position in the store log
      idk == <<xr.s, e.stream, e.idx>>
      msg == e.kind \in {"resp", "notif", "sreq", "bcast", "cancel"}
      hp == PosIn(lg, TagOf(e), xr.lastpos)       \* where the stream's history has this message (0: nowhere after lastpos)
  IN
  /\ m' = [m EXCEPT !.xs = Put(m.xs, e.x, [xr EXCEPT !.n = j, !.tags = @ \cup {e.tag}, !.lastpos = IF hp > 0 THEN hp ELSE @]),
                    !.ids = IF e.idx >= 0 /\ idk \notin DOMAIN m.ids THEN Put(m.ids, idk, TagOf(e)) ELSE @]
  /\ Check(l, "X.Known", xr.known)
  \* ---- C08
  /\ IF Scope(xr) /\ ~m.cleanup
     THEN /\ Check(l, "C08.IdsDense", e.idx = xr.from + j /\ e.stream = xr.stream)
          /\ Check(l, "C08.StoreBeforeDeliver", Len(lg) >= pos)
          /\ Check(l, "C08.ResumeExact", Len(lg) >= pos => lg[pos] = TagOf(e))
          /\ Check(l, "C08.IdStable", (e.idx >= 0 /\ idk \in DOMAIN m.ids) => m.ids[idk] = TagOf(e))
          \* ---- C03 (server-to-client order on one stream): a message never arrives after one the server wrote
          \* to the same stream later.  Loss and duplication are C08's business, not this clause's.
          /\ Check(l, "C03.SameStreamOrder", TagOf(e) = "" \/ ~(\E i \in 1..(xr.lastpos - 1) : lg[i] = TagOf(e)) \/ hp > 0)
     ELSE TRUE
  \* a call's response arrives at most once on one HTTP exchange (C02)
  /\ IF e.kind = "resp" /\ e.tag # "" /\ ~m.cleanup
     THEN Check(l, "C02.HttpAnsweredAtMostOnce", e.tag \notin xr.tags)
     ELSE TRUE
  \* ---- C10
  /\ IF msg /\ e.tag # "" /\ ~m.cleanup
     THEN /\ Check(l, "C10.NoCrossSession", e.kind = "bcast" \/ e.os = xr.s)
          /\ IF e.kind = "bcast"
             \* a broadcast (resource updated) reaches every subscribed session; for each receiver it is a
             \* message issued outside any of its requests
             \* (the issuing session may also get it on the issuing request's stream)
             THEN Check(l, "C10.NestedOnStandalone", Standalone(xr) \/ (e.os = xr.s /\ e.or \in ReqsOf(xr)))
             ELSE IF e.kind = "resp"
             THEN Check(l, "C10.ResponseOnOwnExchange", e.os = xr.s /\ e.or \in ReqsOf(xr))
             \* the notice that a nested server->client call was abandoned is a message of the request whose
             \* handler made the call
             ELSE IF e.kind = "cancel" /\ ~m.json
             THEN Check(l, "C10.CancelNoticeOnRequestStream", e.os = xr.s /\ e.or \in ReqsOf(xr))
             ELSE IF e.or = "sa" \/ m.json
                  THEN Check(l, "C10.NestedOnStandalone", e.os = xr.s /\ Standalone(xr))
                  ELSE Check(l, "C10.NestedOnRequestStream", e.os = xr.s /\ e.or \in ReqsOf(xr))
     ELSE IF e.kind = "resp" /\ e.tag = "" /\ ~m.cleanup
          \* a response the SDK produced itself (an error): attributable by its JSON-RPC id only
          THEN Check(l, "C10.ResponseOnOwnExchange", e.rid \in RidsOf(xr))
          ELSE TRUE

\* the server ended the exchange (not the client, not a session termination): the client has everything
OnEnd(e) ==
  LET xr == X(e.x) IN
  /\ m' = [m EXCEPT !.xs = Put(m.xs, e.x, [xr EXCEPT !.ended = TRUE])]
  /\ IF Scope(xr) /\ e.how = "server" /\ e.status = 200 /\ ~xr.cut /\ xr.s \notin m.dead /\ ~m.cleanup /\ xr.stream # "?"
     THEN Check(l, "C08.CompleteAtEnd", xr.from + xr.n + 1 = Len(Log(xr.s, xr.stream)))
     ELSE TRUE

\* "including messages written while no connection was attached": with a store, every message the server
\* writes on a live session (attached or not) becomes part of some stream's history
Recorded(s, tag) == \E k \in DOMAIN m.st : k[1] = s /\ \E i \in DOMAIN m.st[k] : m.st[k][i] = tag
OnEmitEnd(e) ==
  /\ m' = m
  /\ IF m.store /\ ~m.stateless /\ e.s \notin m.dead /\ ~m.cleanup
     THEN Check(l, "C08.WriteRecorded", e.err = "" /\ Recorded(e.s, e.tag))
     ELSE TRUE

\* A handler abandons a nested call.  The exchange on which the notice is due: the one attached to the
\* request's stream (the standalone stream in JSON mode), if any.
Attached(s, r) == {n \in DOMAIN m.xs : LET xr == m.xs[n] IN
                      xr.s = s /\ ~xr.ended /\ ~xr.cut /\ xr.kind \in {"call", "get"}
                      /\ (IF m.json THEN Standalone(xr) ELSE r \in ReqsOf(xr))}
OnAbandon(e) ==
  m' = [m EXCEPT !.aband = @ \cup {<<e.s, e.r, e.tag, IF Attached(e.s, e.r) = {} THEN "" ELSE CHOOSE n \in Attached(e.s, e.r) : TRUE>>}]
\* the stream of request r in the store's terms
StreamsOf(s, r) == {k \in DOMAIN m.own : k[1] = s /\ r \in m.own[k]}
\* once the SDK is at rest after the step (and nothing is held inside a stream lock), the notice has travelled
\* on the request's stream: received by the exchange attached to it, and part of its history
OnStep(e) ==
  /\ m' = [m EXCEPT !.aband = IF e.held = 0 THEN {} ELSE @]
  /\ IF e.held = 0 /\ ~m.cleanup /\ ~m.stateless
     THEN \A p \in m.aband :
            IF p[1] \in m.dead THEN TRUE
            ELSE /\ (p[4] # "" /\ ~X(p[4]).cut /\ ~X(p[4]).ended) =>
                      Check(l, "C10.CancelNoticeOnRequestStream", p[3] \in X(p[4]).tags)
                 \* C04: with the request's exchange attached the connection is healthy, so the notice reaches the
                 \* peer (on whichever exchange of the session) and the peer's handler can be cancelled
                 /\ (p[4] # "" /\ ~X(p[4]).cut /\ ~X(p[4]).ended) =>
                      Check(l, "C04.CancelNoticeReachesPeer",
                            \E n \in DOMAIN m.xs : m.xs[n].s = p[1] /\ p[3] \in m.xs[n].tags)
                 /\ m.store =>
                      Check(l, "C10.CancelNoticeOnRequestStream",
                            IF m.json THEN \E i \in DOMAIN Log(p[1], "") : Log(p[1], "")[i] = p[3]
                            ELSE \E k \in StreamsOf(p[1], p[2]) : \E i \in DOMAIN m.st[k] : m.st[k][i] = p[3])
     ELSE TRUE

\* the handler of a request runs in the session the request was posted to
OnHStart(e) ==
  /\ m' = m
  /\ Check(l, "C10.NoCrossSession", m.stateless \/ (e.s \in DOMAIN m.sid /\ m.sid[e.s] = e.sid))

\* at rest, with everything the environment owes discharged: an exchange that is still attached has everything
OnQuiesce(e) ==
  /\ m' = m
  /\ IF m.store /\ ~m.stateless
     THEN \A p \in m.rets : p[1] \notin m.dead => Check(l, "C08.WriteRecorded", Recorded(p[1], p[1] \o "." \o p[2] \o ".resp"))
     ELSE TRUE
  \* C02 on the streamable transport: a POSTed call whose handler has returned its result has its response on
  \* that POST's exchange (unless the client cut the exchange or the session was terminated)
  /\ \A n \in DOMAIN m.xs :
       LET xr == m.xs[n] IN
       IF xr.kind = "call" /\ ~xr.cut /\ xr.s \notin m.dead /\ xr.status \in {0, 200} /\ ~m.cleanup
       THEN \A r \in xr.reqs : <<xr.s, r>> \in m.rets =>
               Check(l, "C02.HttpCallAnswered", (xr.s \o "." \o r \o ".resp") \in xr.tags)
       ELSE TRUE
  /\ \A n \in DOMAIN m.xs :
       LET xr == m.xs[n] IN
       IF Scope([xr EXCEPT !.sse = (xr.sse \/ (xr.status = 0 /\ ~m.json))]) /\ ~xr.ended /\ ~xr.cut
          /\ xr.status \in {0, 200} /\ xr.s \notin m.dead /\ xr.stream # "?"
       THEN Check(l, "C08.CompleteAtRest", xr.from + xr.n + 1 = Len(Log(xr.s, xr.stream)))
       ELSE TRUE

Step(e) ==
  CASE e.ev = "reset"    -> m' = [M0 EXCEPT !.store = e.store, !.json = e.json, !.stateless = e.stateless]
    [] e.ev = "cleanup"  -> m' = [m EXCEPT !.cleanup = TRUE]
    [] e.ev = "sess.id"  -> m' = [m EXCEPT !.sid = Put(m.sid, e.s, e.sid)]
    [] e.ev = "x.begin"  -> OnBegin(e)
    [] e.ev = "st.open"  -> OnOpen(e)
    [] e.ev = "st.append" -> OnAppend(e)
    [] e.ev = "st.closed" -> m' = [m EXCEPT !.dead = @ \cup {e.s}]
    [] e.ev = "del"      -> m' = [m EXCEPT !.dead = @ \cup {e.s}]
    [] e.ev = "x.hdr"    -> IF X(e.x).known THEN OnHdr(e) ELSE m' = m
    [] e.ev = "x.ev"     -> OnEv(e)
    [] e.ev = "cut"      -> m' = [m EXCEPT !.xs = Put(m.xs, e.x, [X(e.x) EXCEPT !.cut = TRUE])]
    [] e.ev = "x.end"    -> IF X(e.x).known THEN OnEnd(e) ELSE m' = m
    [] e.ev = "h.emit.end" -> OnEmitEnd(e)
    [] e.ev = "h.start"  -> OnHStart(e)
    [] e.ev = "h.abandon" -> OnAbandon(e)
    [] e.ev = "step"     -> OnStep(e)
    [] e.ev = "h.end"    -> m' = [m EXCEPT !.rets = IF e.how = "ret" THEN @ \cup {<<e.s, e.r>>} ELSE @]
    [] e.ev = "quiesce"  -> OnQuiesce(e)
    [] e.ev = "st.after" -> m' = IF e.err /\ e.x \in DOMAIN m.xs THEN [m EXCEPT !.xs = Put(m.xs, e.x, [X(e.x) EXCEPT !.purged = TRUE])] ELSE m
    [] e.ev = "panic"    -> m' = m /\ Fail(l, "C08.NoPanic") /\ Fail(l, "C10.NoPanic")
    [] e.ev = "setup.error" -> m' = m /\ Fail(l, "X.Setup")
    [] e.ev = "settle.timeout" -> m' = m /\ Fail(l, "X.Settle")
    [] OTHER             -> m' = m

MNext == /\ l <= NLines /\ l' = l + 1
         /\ Step(TraceLog[l])
MSpec == MInit /\ [][MNext]_mvars
MMark == MarkAt(l)
MAccepted == Accepted
=============================================================================
