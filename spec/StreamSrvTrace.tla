--------------------------- MODULE StreamSrvTrace ---------------------------
(* Strict trace specification (binding / drift signal): every scenario that   *)
(* harness/mcp/c08_streamsrv_test.go recorded must be explained by StreamSrv. *)
(* A `step` line is one environment action of the specification (chosen by    *)
(* the logged op and arguments) followed by SDK actions until the SDK is      *)
(* quiescent; the snapshot logged with the step -- for every HTTP exchange its *)
(* status, whether it has ended, and the (event index, payload tag) list it    *)
(* has received -- must equal the specification's state.  Where several SDK    *)
(* interleavings are possible TLC explores them all; the trace is accepted if  *)
(* one of them matches.  The design invariants of StreamSrv are evaluated on   *)
(* every state of every explained trace.  The verdict never depends on this    *)
(* module: a mismatch is reported as DRIFT.                                    *)
EXTENDS StreamSrv, VerifTrace

VARIABLES l, ph, armed, on
tvars == <<vars, l, ph, armed, on>>

TraceDupOf == [d1 |-> "r1", d2 |-> "r2", d3 |-> "r3"]
TraceCfgs == {[store |-> FALSE, json |-> FALSE, stateless |-> FALSE, prime |-> [s \in Sess |-> FALSE]]}

ResetAll(e) ==
  /\ cfg' = [store |-> e.store, json |-> e.json, stateless |-> e.stateless,
             prime |-> [s \in Sess |-> IF s \in DOMAIN e.prime THEN e.prime[s] ELSE FALSE]]
  /\ alive' = [s \in Sess |-> TRUE]
  /\ str' = [s \in Sess |-> [t \in Streams |-> IF t = "sa" THEN [NoStream EXCEPT !.ex = TRUE] ELSE NoStream]]
  /\ tmp' = [s \in Sess |-> [t \in Streams |-> None]]
  /\ rs' = [s \in Sess |-> {}]
  /\ log' = [s \in Sess |-> [t \in Streams |-> <<>>]]
  /\ lock' = [s \in Sess |-> [t \in Streams |-> None]]
  /\ tlock' = [s \in Sess |-> [t \in Streams |-> None]]
  /\ x' = [e2 \in Exch |-> NoExch]
  /\ recv' = [e2 \in Exch |-> <<>>]
  /\ h' = [s \in Sess |-> [r \in Reqs |-> [pc |-> "none", n |-> 0, q |-> 0, b |-> 0, bp |-> {}]]]
  /\ wr' = [s \in Sess |-> [o \in Origins |-> NoWrite]]
  /\ nsa' = [s \in Sess |-> 0]
  /\ issued' = [s \in Sess |-> [t \in Streams |-> {}]]
  /\ okEnd' = [e2 \in Exch |-> TRUE]

Same == UNCHANGED vars

Tag(pl) == CASE pl.k = "prime" -> "prime"
             [] pl.k = "resp" -> pl.s \o "." \o pl.o \o ".resp"
             [] pl.k = "bcast" -> pl.os \o "." \o pl.o \o ".b" \o ToString(pl.n)
             [] pl.k = "cancel" -> pl.s \o "." \o pl.o \o ".c" \o ToString(pl.n)
             [] pl.k = "sreq" -> pl.s \o "." \o pl.o \o ".q" \o ToString(pl.n)
             [] OTHER -> pl.s \o "." \o pl.o \o ".n" \o ToString(pl.n)
IdxTag(ev) == ToString(ev.idx) \o "|" \o Tag(ev.pl)

\* the projection of the specification state that the harness also records
SnapOK(e) ==
  /\ {e.snap[i].x : i \in DOMAIN e.snap} = {y \in Exch : x[y].pc # "idle"}
  /\ \A i \in DOMAIN e.snap :
       LET sn == e.snap[i] IN
       /\ sn.x \in Exch
       /\ sn.evs = [j \in 1..Len(recv[sn.x]) |-> IdxTag(recv[sn.x][j])]
       /\ sn.ended = (x[sn.x].pc = "done")
       \* (a replay held in its first Write has already sent its header; the specification holds it earlier
       \* in the same critical section)
       /\ (sn.status # 0 /\ ~x[sn.x].held) => sn.status = x[sn.x].status

Armed(k) == k \in armed /\ cfg.store
\* gateW holds a GET in the first Write of its replay (the harness disarms it when the GET wrote nothing):
\* the same critical section as After; it is reached iff there is something to write
WillWrite(s, t, i) == t = "sa" \/ Len(log[s][t]) > i + 1

\* the environment action named by a step line
EnvStep(e) ==
  CASE ~e.applied -> Same /\ armed' = armed
    [] e.op = "post" -> PostStart(e.a1, e.a2, Armed(<<"O", PX(e.a1, e.a2)>>)) /\ armed' = armed \ {<<"O", PX(e.a1, e.a2)>>}
    [] e.op = "upd"  -> HBcast(e.a1, e.a2) /\ armed' = armed
    [] e.op = "gateO" -> Same /\ armed' = armed \cup {<<"O", e.a1>>}
    [] e.op = "gateW" -> Same /\ armed' = armed \cup {<<"W", e.a1>>}
    [] e.op = "emit" -> HEmit(e.a1, e.a2, Armed(<<"A", e.a1, e.a2>>)) /\ armed' = armed \ {<<"A", e.a1, e.a2>>}
    [] e.op = "sreq" -> HSreq(e.a1, e.a2, Armed(<<"A", e.a1, e.a2>>)) /\ armed' = armed \ {<<"A", e.a1, e.a2>>}
    [] e.op = "ret"  -> HRet(e.a1, e.a2, Armed(<<"A", e.a1, e.a2>>)) /\ armed' = armed \ {<<"A", e.a1, e.a2>>}
    [] e.op = "ans"  -> Ans(e.a1, e.a2) /\ armed' = armed
    [] e.op = "abandon" -> HAbandon(e.a1, e.a2) /\ armed' = armed
    [] e.op = "sa"   -> Sa(e.a1, Armed(<<"A", e.a1, "sa">>)) /\ armed' = armed \ {<<"A", e.a1, "sa">>}
    [] e.op = "get"  -> Get(e.a1, e.a2, e.a3, e.ri, Armed(<<"F", e.a1>>) \/ (Armed(<<"W", e.a1>>) /\ WillWrite(e.a2, e.a3, e.ri)))
                        /\ armed' = armed \ {<<"F", e.a1>>, <<"W", e.a1>>}
    [] e.op = "cut"  -> Cut(e.a1) /\ armed' = armed
    [] e.op = "del"  -> Del(e.a1) /\ armed' = armed
    [] e.op = "gateA" -> Same /\ armed' = armed \cup {<<"A", e.a1, e.a2>>}   \* (not applied while that gate is holding)
    [] e.op = "gateF" -> Same /\ armed' = armed \cup {<<"F", e.a1>>}
    [] e.op = "open" -> (IF ENABLED GateOpen THEN GateOpen ELSE Same) /\ armed' = {}
    [] OTHER -> FALSE

TInit == Init /\ l = 1 /\ ph = "act" /\ armed = {} /\ on = FALSE /\ MarkInit

TNext ==
  \/ /\ l <= NLines /\ ph = "act"
     /\ LET e == TraceLog[l] IN
          CASE e.ev = "reset"      -> ResetAll(e) /\ on' = FALSE /\ armed' = {} /\ l' = l + 1 /\ ph' = ph
            [] e.ev = "ready"      -> Same /\ on' = TRUE /\ UNCHANGED <<armed, ph>> /\ l' = l + 1
            [] e.ev = "script.end" -> Same /\ on' = FALSE /\ UNCHANGED <<armed, ph>> /\ l' = l + 1
            [] on /\ e.ev = "step" -> EnvStep(e) /\ ph' = "run" /\ UNCHANGED <<l, on>>
            [] OTHER               -> Same /\ UNCHANGED <<armed, ph, on>> /\ l' = l + 1
  \/ /\ l <= NLines /\ ph = "run"
     /\ \/ SdkNext /\ UNCHANGED <<l, ph, armed, on>>
        \/ /\ ~SdkEnabled /\ SnapOK(TraceLog[l])
           /\ Same /\ l' = l + 1 /\ ph' = "act" /\ UNCHANGED <<armed, on>>
TSpec == TInit /\ [][TNext]_tvars
TMark == MarkAt(l)
TAccepted == Accepted
=============================================================================
