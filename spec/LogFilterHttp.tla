---------------------------- MODULE LogFilterHttp ----------------------------
(* X03, stateless HTTP decision table: design check (the code-shaped          *)
(* expectation satisfies the property on every case) and case export.         *)
EXTENDS LogFilterDefs, Json
ASSUME HttpDesignOK
\* vacuity: both outcomes occur in both eras
ASSUME \A e \in {"legacy", "modern"}, b \in BOOLEAN : \E c \in HttpCases : c.era = e /\ HttpExpected(c) = b
ASSUME \A c \in HttpCases : PrintT(ToJson([http |-> c, exp |-> HttpExpected(c)]))
=============================================================================
