SPECIFICATION Spec
CONSTANTS
  URIs = {"u1","u2"}
  FirstURI = "u1"
  CCalls = {"k1"}
  Flavours = {"err","rej"}
  LCs = {"lc","nolc"}
  MaxPre = 2
  MaxPost = 4
  MaxLen = 6
  MaxNotif = 2
  MaxFaults = 2
CONSTRAINT EmitC
CHECK_DEADLOCK FALSE
