------------------------------ MODULE BearerMon ------------------------------
(* Monitor for C14: evaluates Bearer!Holds (verdict) and equality with        *)
(* Bearer!ExpectedAt (strict / drift) on outcomes of the real middleware.     *)
(* One line = one abstract case, concretised once and presented twice to one  *)
(* middleware instance (o1, o2: the verifier hands out the same cached        *)
(* TokenInfo both times); the property speaks about every request.            *)
(* Every outcome carries its instants (arrival; decision = entry of the       *)
(* handler or answer of the refusal) counted in verifier calls since the      *)
(* first arrival of the case: the clock of the run moves only while the       *)
(* scripted verifier is at work.                                              *)
EXTENDS VerifTrace, FiniteSets
B == INSTANCE BearerDefs

VARIABLE l
MInit == l = 1 /\ MarkInit
Case(e) == [hdr |-> e.c.hdr, ver |-> e.c.ver, req |-> AsSet(e.c.req), rform |-> e.c.rform, granted |-> AsSet(e.c.granted), gform |-> e.c.gform,
            exp |-> e.c.exp, skew |-> e.c.skew, allow |-> e.c.allow, url |-> e.c.url, opts |-> e.c.opts, dur |-> e.c.dur]
Out(o) == [status |-> o.status, ran |-> o.ran, sameInfo |-> o.sameInfo, chal |-> o.chal,
           chalUrl |-> o.chalUrl, chalScope |-> o.chalScope, verCalled |-> o.verCalled, arr |-> o.arr, dec |-> o.dec]
\* The instants of the outcome are multiples of the verifier's duration (-1: they are not, i.e. something else than the
\* scripted verifier let time pass; the abstract instants are then unknown and the outcome is not judged, only reported)
OnGrid(o) == o.arr >= 0 /\ o.dec >= 0
Judge(c, o, sfx) ==
  \* the verdict; the name says which clause of Holds fails first: Holds.OnlyIf, Holds.If, Holds.SameInfo, Holds.Status,
  \* Holds.Challenge
  /\ (IF OnGrid(o) => B!Holds(c, Out(o)) THEN TRUE ELSE Fail(l, "Holds." \o B!FailedClause(c, Out(o)) \o sfx))
  \* the verifier is asked about a credential the request presents
  /\ Check(l, "TokenPassed" \o sfx, o.verCalled => o.tokenOk)
  /\ Check(l, "drift" \o sfx, OnGrid(o) /\ Out(o) = B!ExpectedAt(c, o.arr))
MNext == /\ l <= NLines /\ l' = l + 1
         /\ LET e == TraceLog[l]
                c == Case(e) IN
              /\ Judge(c, e.o1, "")
              /\ Judge(c, e.o2, "#2")
MSpec == MInit /\ [][MNext]_l
MMark == MarkAt(l)
MAccepted == Accepted
=============================================================================
