------------------------------ MODULE BearerMon ------------------------------
(* Monitor for C14: evaluates Bearer!Holds (verdict) and equality with        *)
(* Bearer!Expected (strict / drift) on outcomes of the real middleware.       *)
EXTENDS VerifTrace, FiniteSets
B == INSTANCE BearerDefs

VARIABLE l
MInit == l = 1 /\ MarkInit
Case(e) == [hdr |-> e.c.hdr, ver |-> e.c.ver, req |-> AsSet(e.c.req), granted |-> AsSet(e.c.granted), dup |-> e.c.dup, exp |-> e.c.exp,
            skew |-> e.c.skew, allow |-> e.c.allow, url |-> e.c.url, opts |-> e.c.opts]
Out(e) == [status |-> e.o.status, ran |-> e.o.ran, sameInfo |-> e.o.sameInfo, chal |-> e.o.chal,
           chalUrl |-> e.o.chalUrl, chalScope |-> e.o.chalScope]
MNext == /\ l <= NLines /\ l' = l + 1
         /\ LET e == TraceLog[l] IN
              /\ Check(l, "Holds", B!Holds(Case(e), Out(e)))
              /\ Check(l, "TokenPassed", e.o.verCalled => e.o.tokenOk)
              /\ Check(l, "drift", Out(e) = B!Expected(Case(e)) /\ (e.o.verCalled <=> B!ValidSyntax(e.c.hdr)))
MSpec == MInit /\ [][MNext]_l
MMark == MarkAt(l)
MAccepted == Accepted
=============================================================================
