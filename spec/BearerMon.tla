------------------------------ MODULE BearerMon ------------------------------
(* Monitor for C14: evaluates Bearer!Holds (verdict) and equality with        *)
(* Bearer!Expected (strict / drift) on outcomes of the real middleware.       *)
(* One line = one abstract case, concretised once and presented twice to one  *)
(* middleware instance (o1, o2: the verifier hands out the same cached        *)
(* TokenInfo both times); the property speaks about every request.            *)
EXTENDS VerifTrace, FiniteSets
B == INSTANCE BearerDefs

VARIABLE l
MInit == l = 1 /\ MarkInit
Case(e) == [hdr |-> e.c.hdr, ver |-> e.c.ver, req |-> AsSet(e.c.req), rform |-> e.c.rform, granted |-> AsSet(e.c.granted), gform |-> e.c.gform,
            exp |-> e.c.exp, skew |-> e.c.skew, allow |-> e.c.allow, url |-> e.c.url, opts |-> e.c.opts]
Out(o) == [status |-> o.status, ran |-> o.ran, sameInfo |-> o.sameInfo, chal |-> o.chal,
           chalUrl |-> o.chalUrl, chalScope |-> o.chalScope]
Judge(c, o, sfx) ==
  /\ Check(l, "Holds" \o sfx, B!Holds(c, Out(o)))
  \* the verifier is asked about a credential the request presents
  /\ Check(l, "TokenPassed" \o sfx, o.verCalled => o.tokenOk)
  /\ Check(l, "drift" \o sfx, Out(o) = B!Expected(c) /\ (o.verCalled <=> B!CodeValid(c.hdr)))
MNext == /\ l <= NLines /\ l' = l + 1
         /\ LET e == TraceLog[l]
                c == Case(e) IN
              /\ Judge(c, e.o1, "")
              /\ Judge(c, e.o2, "#2")
MSpec == MInit /\ [][MNext]_l
MMark == MarkAt(l)
MAccepted == Accepted
=============================================================================
