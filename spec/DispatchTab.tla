----------------------------- MODULE DispatchTab -----------------------------
(* X15 tables: design-level check and case export; definitions in             *)
(* DispatchDefs.  TLC enumerates the complete products, evaluates every clause *)
(* on the code-shaped outcome of every case, requires that the clauses fail    *)
(* EXACTLY where a deviation is named (and exactly the clauses named), checks  *)
(* reachability witnesses and exports the cases for the Go harness.            *)
EXTENDS DispatchDefs, Json, SequencesExt

Tables == <<RCases, SCases, GCases, ZCases>>
Judged == {1, 2, 3, 4}
DesignOK == \A i \in Judged : \A c \in Tables[i] : Failing(c, Expected(c)) = DevClauses(Deviation(c), c)
Leads(S) == {c \in S : ~Holds(c, Expected(c))}

Some(S, P(_)) == \E c \in S : P(c)
W1(c) == RExpected(c).ran = 1 /\ RExpected(c).pseen = "meta" /\ RExpected(c).kind = "result"
W2(c) == RExpected(c).kind = "error" /\ RExpected(c).code = -32602 /\ c.meth = "custom"
W3(c) == RExpected(c).src = "builtin"
W4(c) == RExpected(c).replies = 0 /\ c.meth = "custom"
W5(c) == SExpected(c).ret = "result" /\ SExpected(c).val = "zero" /\ c.meth = "custom"
W6(c) == SExpected(c).ret = "error" /\ SExpected(c).code = PeerCode /\ c.meth = "builtin"
W7(c) == SExpected(c).wparams = "absent"
W8(c) == SExpected(c).wrote = 0
Witnesses == Some(RCases, W1) /\ Some(RCases, W2) /\ Some(RCases, W3) /\ Some(RCases, W4)
             /\ Some(SCases, W5) /\ Some(SCases, W6) /\ Some(SCases, W7) /\ Some(SCases, W8)
             /\ (\E x \in RCases : Deviation(x) = "DR-PEERSTD")
             /\ (\A d \in {"DS-NOTIF", "DS-STD", "DS-PEERSTD", "DS-PEERSTD+NULL", "DS-NULL"} : \E y \in SCases : Deviation(y) = d)
             /\ (\E z \in GCases : Deviation(z) = "DG-FLOAT")
\* the linearizability predicate accepts sequential compositions and rejects broken ones
ASelf == LET ac == [t |-> "A", tgt |-> "s.recv", g |-> 2, calls |-> 2, len |-> 2, inflight |-> FALSE] IN
         /\ Linearizable(ac, <<<<2, 2, 1>>, <<2, 2, 2>>, <<1, 2, 1>>, <<1, 2, 2>>, <<2, 1, 1>>, <<2, 1, 2>>, <<1, 1, 1>>, <<1, 1, 2>>>>)
         /\ ~Linearizable(ac, <<<<2, 2, 1>>, <<1, 2, 1>>, <<2, 2, 2>>, <<1, 2, 2>>, <<2, 1, 1>>, <<2, 1, 2>>, <<1, 1, 1>>, <<1, 1, 2>>>>)
         /\ ~Linearizable(ac, <<<<2, 1, 1>>, <<2, 1, 2>>, <<2, 2, 1>>, <<2, 2, 2>>, <<1, 2, 1>>, <<1, 2, 2>>, <<1, 1, 1>>, <<1, 1, 2>>>>)
         /\ ~Linearizable(ac, <<<<2, 2, 2>>, <<2, 2, 1>>, <<1, 2, 1>>, <<1, 2, 2>>, <<2, 1, 1>>, <<2, 1, 2>>, <<1, 1, 1>>, <<1, 1, 2>>>>)
         /\ ~Linearizable(ac, <<<<2, 2, 1>>, <<2, 2, 2>>, <<1, 2, 1>>, <<1, 2, 2>>, <<2, 1, 1>>, <<2, 1, 2>>, <<1, 1, 1>>>>)

CaseSeq == SetToSeq(RCases) \o SetToSeq(SCases) \o SetToSeq(GCases) \o SetToSeq(ACases) \o SetToSeq(ZCases)
Export == ndJsonSerialize("cases.ndjson", CaseSeq)

ASSUME DesignOK
ASSUME Witnesses
ASSUME ASelf
ASSUME PrintT(ToJson([R |-> Cardinality(RCases), S |-> Cardinality(SCases), G |-> Cardinality(GCases), A |-> Cardinality(ACases),
                      Z |-> Cardinality(ZCases), leadsR |-> Cardinality(Leads(RCases)), leadsS |-> Cardinality(Leads(SCases)),
                      leadsG |-> Cardinality(Leads(GCases)), leadsZ |-> Cardinality(Leads(ZCases))]))
ASSUME Export
=============================================================================
