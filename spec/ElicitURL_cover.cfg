SPECIFICATION Spec
CONSTANTS
  Unknown = "u"
  MaxLen = 1
  Calls = {1, 2}
  HResults = {"accept"}
  Ids = {"x"}
  MaxSpur = 0
  Handlers = {TRUE}
  AllowCancel = FALSE
  DeclineNoCompl = FALSE
  TrackOwed = TRUE
  ListsOf <- ListsCover
  KindsOf <- CoverKinds
VIEW MCView
CHECK_DEADLOCK FALSE
