------------------------------ MODULE NotifyMC ------------------------------
(* Bounded configurations of Notify (property C18).                          *)
(*  Notify_mc_core.cfg    untimed, exhaustive: debounce + fan-out + sessions  *)
(*                        connecting / subscribing / unsubscribing / closing *)
(*                        + list calls in flight, ttl 0.  All clauses.       *)
(*  Notify_mc_shared.cfg  two kinds sharing one notification (resources and  *)
(*                        templates), ttl 0.                                 *)
(*  Notify_mc_ttl.cfg     positive ttl, calls never in flight while a        *)
(*                        notification is handled (Stepwise discipline, no gates) *)
(*  Notify_mc_timed.cfg   metric time (D = 2): changes before / at / after   *)
(*                        the timer's instant.                               *)
(*  Notify_mc_off.cfg     capability disabled.                               *)
(*  Notify_mc_listen.cfg  subscriptions/listen requests over several URIs   *)
(*                        with the SubscribeHandler rejecting any subset,    *)
(*                        every interleaving of the loop with resource       *)
(*                        updates, other subscribers, cancellation, close.   *)
(*  Notify_mc_caps.cfg    feature sets that become EMPTY and non-empty again *)
(*                        (add / rm / clear) under an INFERRED capability,   *)
(*                        sessions connecting while the set is empty or not: *)
(*                        who was told listChanged is owed the notifications *)
(*                        - also the one for the change that empties the set *)
(*  Notify_mc_caps_shared(_t).cfg  the same for resources + templates, whose *)
(*                        one capability is inferred from either set.        *)
(*  Notify_lead_*.cfg     configurations in which TLC is EXPECTED to find a  *)
(*                        counterexample (DESIGN.md section 9 lead 7 and the *)
(*                        listen clean-up); run on NotifyGen so that the     *)
(*                        counterexample carries its scenario.               *)
EXTENDS Notify

NotifStd == [k \in Kinds |-> IF k = "templates" THEN "resources" ELSE k]
WantAll == [s \in Sessions |-> {NotifOf[k] : k \in Kinds}]
\* M2 listens for prompts only
WantM2 == [s \in Sessions |-> IF s = "M2" THEN {"prompts"} ELSE {NotifOf[k] : k \in Kinds}]

\* where the capability of a notification comes from, and the initial sizes of the feature sets
ModeInferred == [n \in Notifs |-> "inferred"]
ModeFixed == [n \in Notifs |-> "fixed"]
Size3 == [k \in Kinds |-> 3]
Size1 == [k \in Kinds |-> 1]
Size0 == [k \in Kinds |-> 0]
SizeR1T0 == [k \in Kinds |-> IF k = "templates" THEN 0 ELSE 1]

\* reachability witnesses (each must be VIOLATED, otherwise the configuration is vacuous)
NeverWindow == ~(\E n \in Notifs : cbs[n] > 0 /\ ref[n] = "armed")       \* a Reset landed in the firedPending window
NeverOrphan == ~(\E n \in Notifs, d \in Instants : orph[n][d] > 0)
NeverGot == ~(\E s \in Sessions, n \in Notifs : got[s][n])
NeverStopped == ~(\E n \in Notifs : cbs[n] > 0 /\ OnSessions = {} /\ budget.chg > 1)
\* a listen request fails after the server has already entered an earlier URI of it
NeverPartial == ~(\E s \in Sessions : /\ lst[s].st = "run" /\ lst[s].n >= 1 /\ lst[s].n < Len(lst[s].uris)
                                        /\ lst[s].uris[lst[s].n + 1] \in lst[s].rej)
\* a session that was told listChanged is owed a notification for a change that left every set of the notification empty
NeverEmptied == ~(\E s \in Sessions, n \in Notifs : ent[s][n] /\ ~got[s][n] /\ \A k \in KindsOf(n) : size[k] = 0)
\* ... and a session connected while the sets were empty (it was not told) sees the capability appear later
NeverUntold == ~(\E s \in Sessions, n \in Notifs : sess[s] = "on" /\ ~told[s][n] /\ Adv(n, size))
NeverHit == ~(\E s \in Sessions, c \in Slots : call[s][c].hit)
=============================================================================
