SPECIFICATION HSpec
CONSTANTS
  NSess = 2
  CC <- C2
  Nest <- C2
  NCN = 2
  NSN = 2
  MaxFaults = 3
  FaultKinds <- FAll
  HoldKinds <- HBoth
  Combos = TRUE
  HandsAll = TRUE
  Bug = "none"
CONSTRAINT Export
CHECK_DEADLOCK FALSE
