---------------------------- MODULE EventStoreLin ----------------------------
(* Linearizability of concurrent MemoryEventStore histories against the       *)
(* sequential specification EventStore.  The log has invoke ("inv") and       *)
(* return ("ret") lines in real-time order; the silent action Lin(c) applies  *)
(* a pending operation anywhere between its two lines.  TLC searches for a    *)
(* linearization; acceptance is by high-water mark of consumed lines.         *)
EXTENDS EventStore, VerifTrace

VARIABLES l, pend
lvars == <<svars, l, pend>>

Item2(q) == [i \in DOMAIN q |-> IF q[i].sz = 0 THEN <<-1, 0>> ELSE <<q[i].n, q[i].sz>>]

LReset == /\ open' = {} /\ first' = [p \in Pairs |-> 0] /\ data' = [p \in Pairs |-> <<>>]
          /\ nBytes' = 0 /\ maxBytes' = DefaultMax
          /\ appended' = [p \in Pairs |-> <<>>] /\ lastSz' = 0 /\ cnt' = 0
          /\ res' = [kind |-> "none"] /\ panicked' = FALSE
          /\ its' = [k \in Iters |-> NoIter]

\* A read is the RANGING of After's iterator: the "after" operation is invoked when the ranging starts (the
\* iterator may have been obtained long before: After itself touches nothing) and returns when it ends; it
\* takes effect atomically in between (EventStore!Begin is its linearization point, After is Get+Begin+Next*).
Apply(e) == CASE e.op = "open"   -> Open(e.s, e.t)
              [] e.op = "append" -> AppendItem(e.s, e.t, e.n, e.sz)
              [] e.op = "after"  -> After(e.s, e.t, e.idx)
              [] e.op = "setmax" -> SetMax(e.max)
              [] e.op = "closed" -> Closed(e.s)

Lin(c) == /\ ~pend[c].done
          /\ Apply(pend[c].e)
          /\ pend' = [pend EXCEPT ![c].done = TRUE, ![c].res = res']
          /\ UNCHANGED l

ResOK(e, r) == e.op = "after" =>
                  /\ e.res.kind = r.kind
                  /\ r.kind = "items" => e.res.items = Item2(r.items)

FinalOK(e) ==
  /\ e.curmax = maxBytes
  /\ \A i \in DOMAIN e.state :
       LET st == e.state[i]  p == <<st.s, st.t>> IN
         IF p \in open THEN st.open /\ st.first = first[p] /\ st.items = Item2(data[p])
         ELSE ~st.open

Consume ==
  /\ l <= NLines /\ l' = l + 1
  /\ LET e == TraceLog[l] IN
       CASE e.ev = "reset" -> LReset /\ pend' = <<>>
         [] e.ev = "inv"   -> /\ pend' = (e.cid :> [e |-> e, done |-> FALSE, res |-> [kind |-> "none"]]) @@ pend
                              /\ UNCHANGED svars
         [] e.ev = "ret"   -> /\ e.panic = ""   \* no operation of the store panics (NoPanic): such a line is never explained
                              /\ e.cid \in DOMAIN pend /\ pend[e.cid].done /\ ResOK(e, pend[e.cid].res)
                              /\ pend' = [c \in DOMAIN pend \ {e.cid} |-> pend[c]]
                              /\ UNCHANGED svars
         [] e.ev = "final" -> /\ e.panic = "" /\ DOMAIN pend = {} /\ FinalOK(e)
                              /\ UNCHANGED <<svars, pend>>

LInit == Init /\ l = 1 /\ pend = <<>> /\ MarkInit
LNext == Consume \/ \E c \in DOMAIN pend : Lin(c)
LSpec == LInit /\ [][LNext]_lvars
LMark == MarkAt(l)
LAccepted == Accepted
=============================================================================
