CONSTANT AsIs = TRUE
