SPECIFICATION GenSpec
CONSTANTS
  Sessions = {"M1"}
  Legacy = {}
  InitOn = {"M1"}
  InitSub = {}
  Kinds = {}
  NotifOf <- NotifStd
  Uris = {"u1"}
  Want <- WantAll
  CapOff = {}
  CapMode <- ModeInferred
  InitSize <- Size3
  MaxSize = 3
  Dirs = {"mod"}
  SendGate = "configured"
  TTLPos = TRUE
  D = 2
  MaxTime = 4
  MaxChanges = 0
  MaxUpdates = 1
  MaxCalls = 2
  NPages = 1
  ListenOwns = TRUE
  ResubRace = TRUE
  GenCheck = TRUE
  ColdBump = FALSE
  ModernUnsub = FALSE
  ForeignUnsub = FALSE
  Listeners = {}
  MaxListens = 0
  FailUndo = TRUE
  Stepwise = TRUE
  Gates = TRUE
  GateNames = {"put"}
  ClientFirst = FALSE
  MinSteps = 1
  MaxSteps = 9
  Bias = FALSE
  Script <- ScriptNone
  GenOps = {"subscribe", "updated", "list", "expire", "hold", "release"}
INVARIANTS LeadFresh
CHECK_DEADLOCK FALSE
