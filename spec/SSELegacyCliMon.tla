--------------------------- MODULE SSELegacyCliMon ---------------------------
(* Property monitor of X02, CLIENT side, evaluated by TLC over observations   *)
(* recorded from a real mcp.SSEClientTransport talking to a scripted          *)
(* http.RoundTripper.  Every line is a cumulative snapshot taken after the    *)
(* SDK has settled; clauses K1..K6 of SSELegacyCli.tla.                       *)
(*                                                                            *)
(*  reset trace                                                               *)
(*  step  n op a1 a2 applied                                                  *)
(*        conn none|connecting|up|failed   what Connect has returned          *)
(*        status first ep aborted          what the scripted server did /     *)
(*                                         whether Connect's context was      *)
(*                                         cancelled                          *)
(*        gets accept hasbody bodyclosed   GET requests seen, Accept header,  *)
(*                                         response body handed out / closed  *)
(*        stream ended                     events written after the first     *)
(*                                         one, how the stream was ended      *)
(*        rds [r i]   Read results: msg (serial of the event) | decode | eof  *)
(*                    | blocked                                               *)
(*        wrs [r posted cls]   Write results, whether a POST was made, the    *)
(*                    scripted answer                                         *)
(*        posts [urlok origin ctype bodyok cls url]                           *)
(*        closes closed panic leak                                            *)
EXTENDS VerifTrace, FiniteSets

VARIABLES l, prev
mvars == <<l, prev>>

Is2xx(w) == w \in {"202", "200", "204"}
Blank == [stream |-> <<>>, ended |-> "", closed |-> FALSE, rds |-> <<>>, wrs |-> <<>>, conn |-> "none"]
\* the non-comment events of the stream, with what End appended
Kinds(e) == LET base == SelectSeq(e.stream, LAMBDA k : k # "comment") IN
            IF e.ended = "cutdata" THEN Append(base, "trunc")
            ELSE IF e.ended = "cutblank" THEN Append(base, "msg") ELSE base
MsgSerials(rds) == {rds[j].i : j \in {k \in DOMAIN rds : rds[k].r = "msg"}}

Step(e) ==
  LET S == Kinds(e)
      newR == {j \in DOMAIN e.rds : j > Len(prev.rds)}
      newW == {j \in DOMAIN e.wrs : j > Len(prev.wrs)}
      over == prev.ended # "" \/ prev.closed
      takenBefore == Cardinality({j \in DOMAIN prev.rds : prev.rds[j].r \in {"msg", "decode"}})
  IN
  /\ Check(l, "NoPanic", e.panic = "")
  /\ Check(l, "K6.NoGoroutineLeft", e.leak = "")
  \* K1
  /\ Check(l, "K1.EndpointFirst", e.conn = "up" => (e.status = "ok" /\ e.first = "endpoint" /\ e.ep \notin {"", "bad"}))
  /\ Check(l, "K1.WaitsForEndpoint", (e.status = "ok" /\ e.first = "" /\ ~e.aborted) => e.conn = "connecting")
  /\ Check(l, "K1.Connects", (e.status = "ok" /\ e.first = "endpoint" /\ e.ep \notin {"", "bad"} /\ ~e.aborted) => e.conn = "up")
  /\ Check(l, "K1.FailsOtherwise", (e.status \notin {"", "ok"} \/ e.first \notin {"", "endpoint"} \/ e.ep = "bad" \/ e.aborted)
                                     => e.conn \in {"failed", "up"} /\ (e.conn = "up" => e.first = "endpoint" /\ e.ep # "bad"))
  /\ Check(l, "K1.NoGetLeftBehind", (e.conn = "failed" /\ e.hasbody) => e.bodyclosed)
  /\ Check(l, "Drift.OneGet", e.gets <= 1 /\ (e.gets = 1 => e.accept))
  \* K2
  /\ Check(l, "K2.NoPostBeforeEndpoint", Len(e.posts) > 0 => e.conn = "up")
  /\ Check(l, "K2.PostTarget", \A j \in DOMAIN e.posts : e.posts[j].urlok)
  /\ Check(l, "K2.PostShape", \A j \in DOMAIN e.posts : e.posts[j].ctype /\ e.posts[j].bodyok)
  /\ Check(l, "K2.OnePostPerWrite", Len(e.posts) = Cardinality({j \in DOMAIN e.wrs : e.wrs[j].posted}))
  \* K3
  /\ Check(l, "K3.WriteResult", \A j \in DOMAIN e.wrs : e.wrs[j].r = "ok" <=> (e.wrs[j].posted /\ Is2xx(e.wrs[j].cls)))
  /\ Check(l, "K3.WriteReturns", \A j \in DOMAIN e.wrs : e.wrs[j].r # "blocked")
  \* K4
  /\ Check(l, "K4.ReadOrder", \A j, k \in DOMAIN e.rds :
        (j < k /\ e.rds[j].r = "msg" /\ e.rds[k].r = "msg") => e.rds[j].i < e.rds[k].i)
  /\ Check(l, "K4.ReadOrder", \A j \in DOMAIN e.rds : e.rds[j].r = "msg" =>
        (e.rds[j].i \in DOMAIN S /\ S[e.rds[j].i] \in {"msg", "named"}))
  /\ Check(l, "K4.NoneSkipped", \A j \in DOMAIN e.rds : e.rds[j].r = "msg" =>
        \A k \in 1..(e.rds[j].i - 1) : (k \in DOMAIN S /\ S[k] = "msg") => k \in MsgSerials(SubSeq(e.rds, 1, j)))
  /\ Check(l, "K4.DecodeOnlyJunk", Cardinality({j \in DOMAIN e.rds : e.rds[j].r = "decode"})
                                     <= Cardinality({k \in DOMAIN S : S[k] \in {"junk", "trunc"}}))
  \* K5
  /\ Check(l, "K5.EndSurfaces", \A j \in newR : over => e.rds[j].r \in {"eof", "decode", "err"})
  /\ Check(l, "K5.NeverBlocksAfterEnd", \A j \in newR : over => e.rds[j].r # "blocked")
  /\ Check(l, "K4.PendingIsReturned", \A j \in newR :
        (~over /\ takenBefore < Len(Kinds(prev))) => e.rds[j].r \in {"msg", "decode"})
  \* K6
  /\ Check(l, "K6.CloseEnds", ((e.closed \/ e.ended # "") /\ e.hasbody) => e.bodyclosed)
  /\ Check(l, "K6.NoPostAfterClose", \A j \in newW : over => (e.wrs[j].r = "err" /\ ~e.wrs[j].posted))
  /\ Check(l, "K6.CloseEnds", e.op = "Drain" => ((e.hasbody => e.bodyclosed) /\ e.conn # "connecting"))
  /\ prev' = e

MInit == l = 1 /\ prev = Blank /\ MarkInit
MNext == /\ l <= NLines
         /\ l' = l + 1
         /\ LET e == TraceLog[l] IN IF e.ev = "reset" THEN prev' = Blank ELSE Step(e)
MSpec == MInit /\ [][MNext]_mvars
MMark == MarkAt(l)
MAccepted == Accepted
=============================================================================
