------------------------------ MODULE PairSub ------------------------------
(* Application-level environment of a MODERN client/server pair of real       *)
(* sessions (harness/mcp/conn_pairsub_test.go): the client speaks protocol    *)
(* 2026-07-28, so every resource subscription - and, when the client has a    *)
(* list-changed handler ("lc"), the list-changed subscription opened by       *)
(* Connect - is a long-lived subscriptions/listen call that only ends when it *)
(* is cancelled; and the transport of either side may start failing every     *)
(* WRITE while its reads keep working.                                        *)
(*                                                                            *)
(* Like PairEnv this module does not model the SDK: it enumerates the scripts *)
(* of application / environment actions.  A script is                         *)
(*   <<"setup", lc>>  followed by                                             *)
(*   a BUILD phase  (subscribe / unsubscribe / start a gated tool call; these *)
(*                   commute at quiescence, so only one order of the call     *)
(*                   relative to the subscription traffic is generated), and  *)
(*   a SHUTDOWN phase that starts with the first disruptive action (a Close,  *)
(*                   writes of one side start failing - with a plain error or *)
(*                   with one wrapping jsonrpc2.ErrRejected -, a pipe end is  *)
(*                   closed abruptly) and then interleaves EVERYTHING freely: *)
(*                   further subscription traffic, server notifications,      *)
(*                   calls, releases, cancellations, more faults, Close of    *)
(*                   the other side ("at any moment, from either side,        *)
(*                   concurrently with traffic ... also when the peer         *)
(*                   vanishes or writes start failing midway").               *)
(* Both applications Wait from the start (Wait has no effect on the session), *)
(* so Wait is not a script action.  TLC prints each complete script; the      *)
(* verdict comes from PairSubMon over what the real pair did.                 *)
EXTENDS Integers, Sequences, FiniteSets, TLC, Json

CONSTANTS URIs,        \* resource names
          FirstURI,    \* the one that is subscribed first (the resources are interchangeable: symmetry)
          CCalls,      \* client->server tool calls with a gated handler
          Flavours,    \* write-failure flavours: "err" (plain error), "rej" (wraps ErrRejected)
          LCs,         \* subset of {"lc","nolc"}
          MaxPre,      \* bound on the build phase
          MaxPost,     \* bound on the shutdown phase
          MaxLen,      \* bound on both together
          MaxNotif,    \* bound on server notifications (supd / sadd)
          MaxFaults    \* bound on faults (wfail / peergone)

VARIABLES hist, phase, npre, npost, callSeen, subs, ever, started, rel, cancelled, closes, cfail, sfail, gone, nnotif
evars == <<hist, phase, npre, npost, callSeen, subs, ever, started, rel, cancelled, closes, cfail, sfail, gone, nnotif>>

UriSet == URIs
\* another resource is used only after the first one has been
Next1(u) == u = FirstURI \/ FirstURI \in ever

Init == /\ hist = <<>> /\ phase = "setup" /\ npre = 0 /\ npost = 0 /\ callSeen = FALSE
        /\ subs = {} /\ ever = {} /\ started = {} /\ rel = {} /\ cancelled = {} /\ closes = {}
        /\ cfail = "no" /\ sfail = "no" /\ gone = "no" /\ nnotif = 0

Step(s) == hist' = Append(hist, s)
nfaults == (IF cfail = "no" THEN 0 ELSE 1) + (IF sfail = "no" THEN 0 ELSE 1) + (IF gone = "no" THEN 0 ELSE 1)

Setup == /\ phase = "setup"
         /\ \E lc \in LCs : Step(<<"setup", lc>>)
         /\ phase' = "pre"
         /\ UNCHANGED <<npre, npost, callSeen, subs, ever, started, rel, cancelled, closes, cfail, sfail, gone, nnotif>>

\* ---- actions that exist in both phases
Sub(u)   == /\ u \notin subs /\ (u \in ever \/ Next1(u))
            /\ Step(<<"csub", u>>) /\ subs' = subs \cup {u} /\ ever' = ever \cup {u}
            /\ UNCHANGED <<started, rel, cancelled, closes, cfail, sfail, gone, nnotif>>
Unsub(u) == /\ u \in subs
            /\ Step(<<"cunsub", u>>) /\ subs' = subs \ {u}
            /\ UNCHANGED <<ever, started, rel, cancelled, closes, cfail, sfail, gone, nnotif>>
Call(k)  == /\ k \notin started
            /\ Step(<<"ccall", k>>) /\ started' = started \cup {k}
            /\ UNCHANGED <<subs, ever, rel, cancelled, closes, cfail, sfail, gone, nnotif>>

\* ---- build phase: subscription traffic first, then the call (they commute)
Pre == /\ phase = "pre" /\ npre < MaxPre /\ Len(hist) < MaxLen
       /\ \/ \E u \in UriSet : ~callSeen /\ (Sub(u) \/ Unsub(u)) /\ UNCHANGED callSeen
          \/ \E k \in CCalls : Call(k) /\ callSeen' = TRUE
       /\ npre' = npre + 1 /\ UNCHANGED <<phase, npost>>

\* ---- disruptive actions
Close(side) == /\ side \notin closes
               /\ Step(<<side \o "close", side \o "1">>) /\ closes' = closes \cup {side}
               /\ UNCHANGED <<subs, ever, started, rel, cancelled, cfail, sfail, gone, nnotif>>
WFail(side, f) == /\ nfaults < MaxFaults
                  /\ IF side = "c" THEN cfail = "no" /\ cfail' = f /\ UNCHANGED sfail
                                   ELSE sfail = "no" /\ sfail' = f /\ UNCHANGED cfail
                  /\ Step(<<side \o "wfail", f>>)
                  /\ UNCHANGED <<subs, ever, started, rel, cancelled, closes, gone, nnotif>>
PeerGone(side) == /\ nfaults < MaxFaults /\ gone = "no" /\ gone' = side
                  /\ Step(<<side \o "peergone">>)
                  /\ UNCHANGED <<subs, ever, started, rel, cancelled, closes, cfail, sfail, nnotif>>
Disrupt == \/ \E side \in {"c", "s"} : Close(side) \/ PeerGone(side)
           \/ \E side \in {"c", "s"}, f \in Flavours : WFail(side, f)

\* ---- traffic that only matters while something is going on
Upd(u)    == /\ u \in ever /\ nnotif < MaxNotif
             /\ Step(<<"supd", u>>) /\ nnotif' = nnotif + 1
             /\ UNCHANGED <<subs, ever, started, rel, cancelled, closes, cfail, sfail, gone>>
Add       == /\ nnotif < MaxNotif
             /\ Step(<<"sadd", "x">>) /\ nnotif' = nnotif + 1
             /\ UNCHANGED <<subs, ever, started, rel, cancelled, closes, cfail, sfail, gone>>
Rel(k)    == /\ k \in started \ rel
             /\ Step(<<"rel", k>>) /\ rel' = rel \cup {k}
             /\ UNCHANGED <<subs, ever, started, cancelled, closes, cfail, sfail, gone, nnotif>>
Cancel(k) == /\ k \in started \ cancelled
             /\ Step(<<"cancel", k>>) /\ cancelled' = cancelled \cup {k}
             /\ UNCHANGED <<subs, ever, started, rel, closes, cfail, sfail, gone, nnotif>>

Post == /\ phase \in {"pre", "post"} /\ npost < MaxPost /\ Len(hist) < MaxLen
        /\ IF phase = "pre" THEN Disrupt
           ELSE \/ Disrupt
                \/ \E u \in UriSet : Sub(u) \/ Unsub(u) \/ Upd(u)
                \/ Add
                \/ \E k \in CCalls : Call(k) \/ Rel(k) \/ Cancel(k)
        /\ phase' = "post" /\ npost' = npost + 1 /\ UNCHANGED <<npre, callSeen>>

Next == Setup \/ Pre \/ Post
Spec == Init /\ [][Next]_evars

\* every script whose shutdown phase is complete (or that has reached the length bound) and that contains a
\* Close or a vanished peer is printed; shorter ones are prefixes of those.  MaxLen counts the setup step.
Complete == phase = "post" /\ (npost = MaxPost \/ Len(hist) = MaxLen) /\ (closes # {} \/ gone # "no")
Emit == Complete => PrintT(ToJson([steps |-> hist]))
EmitC == Emit
=============================================================================
