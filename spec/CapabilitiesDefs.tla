-------------------------- MODULE CapabilitiesDefs --------------------------
(* Vocabulary, case spaces, code-shaped Expected and declarative Holds for   *)
(* extension check X06 (capability declaration and capability gating).  The  *)
(* PROPERTIES block is at the top of Capabilities.tla.                       *)
(*                                                                           *)
(*  Server table   ServerCases: ServerOptions.Capabilities (nil / explicit   *)
(*                 field per capability) x HasTools/HasPrompts/HasResources  *)
(*                 x features registered before the session x Subscribe /    *)
(*                 Completion handlers.  Every case is observed on three     *)
(*                 paths (initialize result, server/discover result over the *)
(*                 in-memory transport, server/discover over a stateless     *)
(*                 streamable HTTP handler).                                 *)
(*  Client table   ClientCases: ClientOptions.Capabilities (nil / RootsV2 /  *)
(*                 legacy Roots / Sampling / Elicitation) x handlers x path  *)
(*                 (initialize 2025-06-18, initialize 2025-11-25, discover + *)
(*                 per-request _meta over in-memory and stateless HTTP).     *)
(*  Dynamic part   pure step operators shared by CapabilitiesDyn.tla (the    *)
(*                 state machine) and CapabilitiesDynMon.tla (its monitor).  *)
(*                                                                           *)
(* Code anchors: mcp/server.go capabilities(), shouldSendListChanged-        *)
(* Notification, changeAndNotify, notifySessions, allowedSubscriptions,      *)
(* complete, subscribe, Elicit, CreateMessage(WithTools), ListRoots,         *)
(* assertServerInitiatedRequestAllowed; mcp/client.go capabilities(),        *)
(* shouldSendListChangedNotification, createMessage, elicit, listRoots,      *)
(* discover, injectRequestMeta.                                              *)
EXTENDS Integers, Sequences, FiniteSets, TLC, Json, SequencesExt

\* -------------------------------------------------------------------------
\* Server side
\* -------------------------------------------------------------------------
Kinds == {"tools", "prompts", "resources"}
\* explicit ToolCapabilities / PromptCapabilities field of ServerOptions.Capabilities
ExLC  == {"nil", "lcF", "lcT"}
\* explicit ResourceCapabilities field (ListChanged x Subscribe)
ExRes == {"nil", "lcF", "lcT", "lcFsub", "lcTsub"}
\* what was registered before the session: nothing / a resource / a resource template
RegRes == {"none", "res", "tmpl"}

\* A server configuration.  cn: ServerOptions.Capabilities is nil; x?: explicit field; h?: Has<Kind>;
\* r?: feature of that kind registered; sh: Subscribe/UnsubscribeHandler set; xc: explicit Completions;
\* ch: CompletionHandler set; xl: explicit Logging.
ServerProduct ==
  [cn : BOOLEAN, xt : ExLC, ht : BOOLEAN, rt : BOOLEAN, xp : ExLC, hp : BOOLEAN, rp : BOOLEAN,
   xr : ExRes, hr : BOOLEAN, rr : RegRes, sh : BOOLEAN, xc : BOOLEAN, ch : BOOLEAN, xl : BOOLEAN]
\* Capabilities = nil leaves no explicit field
ServerValid(c) == c.cn => (c.xt = "nil" /\ c.xp = "nil" /\ c.xr = "nil" /\ ~c.xc /\ ~c.xl)
ServerCases == {c \in ServerProduct : ServerValid(c)}

\* The abstract capability object a server advertises:
\*   lg / co : logging / completions present;  t / p : "absent" | "lcF" | "lcT";
\*   r : "absent" | "lcF" | "lcT" | "lcFsub" | "lcTsub"
WithSub(x) == IF x = "lcF" THEN "lcFsub" ELSE IF x = "lcT" THEN "lcTsub" ELSE x

\* ---- declarative: what the documentation promises (ServerOptions.Capabilities doc, docs/server.md)
\* "Any non-nil field in Capabilities overrides the inferred value" / "If a capability is already present as a
\* field in Capabilities, adding a feature or handler will not change its configuration"; otherwise the inferred
\* value: {listChanged:true} iff a feature of the kind is registered (or Has<Kind>), subscribe iff the
\* SubscribeHandler is set, completions iff the CompletionHandler is set, logging iff Capabilities is nil.
KindDecl(ex, has, reg) == IF ex # "nil" THEN ex ELSE IF has \/ reg THEN "lcT" ELSE "absent"
ResDecl(c) == IF c.xr # "nil" THEN c.xr
              ELSE IF c.hr \/ c.rr # "none" THEN (IF c.sh THEN "lcTsub" ELSE "lcT") ELSE "absent"
AdvDecl(c) == [lg |-> IF c.cn THEN TRUE ELSE c.xl,
               co |-> c.xc \/ c.ch,
               t  |-> KindDecl(c.xt, c.ht, c.rt),
               p  |-> KindDecl(c.xp, c.hp, c.rp),
               r  |-> ResDecl(c)]

\* ---- code-shaped: Server.capabilities() transcribed branch by branch
ResCode(c) ==
  LET start == IF c.xr = "nil" THEN "absent" ELSE c.xr IN
  IF c.hr \/ c.rr # "none" THEN
       LET a == IF start = "absent" THEN "lcT" ELSE start IN
       IF c.sh THEN WithSub(a) ELSE a           \* caps.Resources.Subscribe = true even on an explicit field
  ELSE start
AdvCode(c) == [lg |-> IF c.cn THEN TRUE ELSE c.xl,
               co |-> c.xc \/ c.ch,
               t  |-> KindDecl(c.xt, c.ht, c.rt),
               p  |-> KindDecl(c.xp, c.hp, c.rp),
               r  |-> ResCode(c)]

ServerPaths == {"init", "discmem", "dischttp"}

\* Outcome of a server case:
\*   adv       [ServerPaths -> capability object]        read from the wire
\*   extra     TRUE if some capability object carried a member nobody configured
\*   complete  [err, code, ran]   completion/complete issued on the legacy session
\*   subscribe [err, code, ran]   resources/subscribe issued on the legacy session
\*   mutated   the ServerCapabilities value passed in the options differs after the run
NotFound == -32601
CallOK     == [err |-> FALSE, code |-> 0, ran |-> TRUE]
CallRefused(code) == [err |-> TRUE, code |-> code, ran |-> FALSE]
ServerExpected(c) ==
  [adv |-> [p \in ServerPaths |-> AdvCode(c)], extra |-> FALSE,
   complete  |-> IF c.ch THEN CallOK ELSE CallRefused(NotFound),
   subscribe |-> IF c.sh THEN CallOK ELSE CallRefused(NotFound),
   mutated |-> FALSE]

\* ---- the property, clause by clause (names are the monitor's clause names)
S_Adv(c, o, f)   == \A p \in ServerPaths : o.adv[p][f] = AdvDecl(c)[f]
S_SamePath(c, o) == \A p, q \in ServerPaths : o.adv[p] = o.adv[q]
S_NoExtra(c, o)  == ~o.extra
S_NoMutation(c, o) == ~o.mutated
\* a feature that is not advertised on any path is refused with an error and reaches no handler;
\* a configured handler serves
S_Complete(c, o)  == /\ ((\A p \in ServerPaths : ~o.adv[p].co) => (o.complete.err /\ ~o.complete.ran))
                     /\ (c.ch => (~o.complete.err /\ o.complete.ran))
S_Subscribe(c, o) == /\ (~c.sh => (o.subscribe.err /\ ~o.subscribe.ran))
                     /\ (c.sh => (~o.subscribe.err /\ o.subscribe.ran))
ServerFields == {"lg", "co", "t", "p", "r"}
ServerHolds(c, o) == /\ \A f \in ServerFields : S_Adv(c, o, f)
                     /\ S_SamePath(c, o) /\ S_NoExtra(c, o) /\ S_NoMutation(c, o)
                     /\ S_Complete(c, o) /\ S_Subscribe(c, o)
\* the one place where the code-shaped procedure leaves the documented rule (deviation S-D1, a lead)
ServerLead(c) == ~ServerHolds(c, ServerExpected(c))

\* -------------------------------------------------------------------------
\* Client side
\* -------------------------------------------------------------------------
ExRoots == {"nil", "lcF", "lcT"}                       \* ClientCapabilities.RootsV2
ExSamp  == {"nil", "empty", "tools", "ctx", "both"}    \* ClientCapabilities.Sampling (Tools / Context members)
ExElic  == {"nil", "empty", "form", "url", "both"}     \* ClientCapabilities.Elicitation (Form / URL members)
SampHandlers == {"none", "basic", "tools"}             \* CreateMessageHandler / CreateMessageWithToolsHandler
ClientPaths == {"init0618", "init1125", "modmem", "modhttp"}
LegacyPaths == {"init0618", "init1125"}
ModernPaths == ClientPaths \ LegacyPaths

\* cn: ClientOptions.Capabilities nil; r2: RootsV2; r1: the deprecated Roots.ListChanged value ("ignored");
\* xs / xe: explicit Sampling / Elicitation; hs: sampling handler; he: ElicitationHandler set
ClientProduct == [cn : BOOLEAN, r2 : ExRoots, r1 : BOOLEAN, xs : ExSamp, xe : ExElic,
                  hs : SampHandlers, he : BOOLEAN, path : ClientPaths]
ClientValid(c) == c.cn => (c.r2 = "nil" /\ ~c.r1 /\ c.xs = "nil" /\ c.xe = "nil")
ClientCases == {c \in ClientProduct : ClientValid(c)}

\* capability object of a client: ro "absent"|"lcF"|"lcT"; sa "absent"|"empty"|"tools"|"ctx"|"both";
\* el "absent"|"empty"|"form"|"url"|"both"
\* ---- declarative (ClientOptions doc comments, docs/client.md "Capabilities")
RootsDecl(c) == IF c.cn THEN "lcT" ELSE IF c.r2 = "nil" THEN "absent" ELSE c.r2   \* Capabilities.Roots is ignored
SampDecl(c)  == IF c.xs # "nil" THEN c.xs
                ELSE IF c.hs = "none" THEN "absent" ELSE IF c.hs = "tools" THEN "tools" ELSE "empty"
\* "if the handler is set but no Capabilities.Elicitation is specified, the client defaults to form elicitation":
\* {} and {"form":{}} both mean form only
FormOnly == {"empty", "form"}
ElicDeclSet(c) == IF c.xe # "nil" THEN {c.xe} ELSE IF c.he THEN FormOnly ELSE {"absent"}
\* ---- code-shaped: Client.capabilities(protocolVersion)
ElicCode(c) == IF c.xe # "nil" THEN c.xe ELSE IF ~c.he THEN "absent"
               ELSE IF c.path = "init0618" THEN "empty" ELSE "form"      \* Form member only from 2025-11-25 on
CAdvCode(c) == [ro |-> RootsDecl(c), sa |-> SampDecl(c), el |-> ElicCode(c)]

\* ---- gated server-to-client requests
Gated == {"samp", "samptools", "elicform", "elicurl", "roots"}
\* MCP: "Servers MUST NOT send tool-enabled sampling requests to clients that have not declared sampling.tools";
\* "servers MUST NOT send elicitation requests with modes that are not supported by the client" ("an empty
\* capabilities object is equivalent to declaring support for form mode only"); lifecycle: both parties MUST
\* "only use capabilities that were successfully negotiated".
Allowed(g, a) ==
  CASE g = "samp"      -> a.sa # "absent"
    [] g = "samptools" -> a.sa \in {"tools", "both"}
    [] g = "elicform"  -> a.el \in {"empty", "form", "both"}
    [] g = "elicurl"   -> a.el \in {"url", "both"}
    [] g = "roots"     -> a.ro # "absent"
\* what ServerSession.CreateMessage / CreateMessageWithTools / Elicit / ListRoots check before sending
\* (deviation C-D1: only Elicit looks at the client's capabilities)
AllowedCode(g, a) == IF g \in {"elicform", "elicurl"} THEN Allowed(g, a) ELSE TRUE
\* whether the client can serve the request once it arrives
Serves(g, c) == CASE g \in {"samp", "samptools"} -> c.hs # "none"
                  [] g \in {"elicform", "elicurl"} -> c.he
                  [] g = "roots" -> TRUE
\* code with which the client refuses (client.go createMessage / elicit): information for drift only
RefuseCode(g) == IF g \in {"samp", "samptools"} THEN -31001 ELSE -32602

\* Outcome of a client case (built by the monitor from an observation line):
\*   adv     the capability object at the first observation point (legacy: initialize params; modern:
\*           server/discover _meta)
\*   same    every other observation point (the _meta of every later request, and what
\*           ServerRequest.ClientCapabilities() returned inside server handlers) equals adv
\*   extra   some capability object carried a member nobody configured
\*   calls   [Gated -> [err, wire, ran, code]]  the server issues each gated request once
\*   notif   a notifications/roots/list_changed message was written after Client.AddRoots
\*   mutated the ClientCapabilities value passed in the options differs after the run
GCall(err, wire, ran, code) == [err |-> err, wire |-> wire, ran |-> ran, code |-> code]
ShouldNotifyRootsCode(c) == IF c.cn THEN TRUE ELSE IF c.r2 # "nil" THEN c.r2 = "lcT" ELSE c.r1
ClientExpectedCall(g, c) ==
  LET a == CAdvCode(c) IN
  IF c.path \in ModernPaths THEN GCall(TRUE, FALSE, FALSE, 0)      \* assertServerInitiatedRequestAllowed
  ELSE IF ~AllowedCode(g, a) THEN GCall(TRUE, FALSE, FALSE, 0)
  ELSE IF Serves(g, c) THEN GCall(FALSE, TRUE, TRUE, 0)
  ELSE GCall(TRUE, TRUE, FALSE, RefuseCode(g))
ClientExpected(c) ==
  [adv |-> CAdvCode(c), same |-> TRUE, extra |-> FALSE,
   calls |-> [g \in Gated |-> ClientExpectedCall(g, c)],
   notif |-> ShouldNotifyRootsCode(c), mutated |-> FALSE]

C_Roots(c, o)    == o.adv.ro = RootsDecl(c)
C_Sampling(c, o) == o.adv.sa = SampDecl(c)
C_Elicitation(c, o) == o.adv.el \in ElicDeclSet(c)
C_SamePath(c, o) == o.same
C_NoExtra(c, o)  == ~o.extra
C_NoMutation(c, o) == ~o.mutated
\* the reference is what the client really declared on this connection (o.adv), not what it should have declared
C_NoUngated(c, o, g) == (c.path \in LegacyPaths /\ ~Allowed(g, o.adv)) =>
                          (o.calls[g].err /\ ~o.calls[g].wire /\ ~o.calls[g].ran)
C_GatedWorks(c, o, g) == (c.path \in LegacyPaths /\ Allowed(g, o.adv) /\ Serves(g, c)) =>
                           (~o.calls[g].err /\ o.calls[g].ran)
C_RefusedWithoutHandler(c, o, g) == ~Serves(g, c) => (o.calls[g].err /\ ~o.calls[g].ran)
C_ModernNoServerRequest(c, o, g) == c.path \in ModernPaths => (o.calls[g].err /\ ~o.calls[g].wire /\ ~o.calls[g].ran)
C_RootsNotif(c, o) == o.notif <=> (o.adv.ro = "lcT")
ClientHolds(c, o) == /\ C_Roots(c, o) /\ C_Sampling(c, o) /\ C_Elicitation(c, o)
                     /\ C_SamePath(c, o) /\ C_NoExtra(c, o) /\ C_NoMutation(c, o)
                     /\ \A g \in Gated : /\ C_NoUngated(c, o, g) /\ C_GatedWorks(c, o, g)
                                         /\ C_RefusedWithoutHandler(c, o, g) /\ C_ModernNoServerRequest(c, o, g)
                     /\ C_RootsNotif(c, o)
ClientLead(c) == ~ClientHolds(c, ClientExpected(c))

\* -------------------------------------------------------------------------
\* Dynamic part: features come and go while sessions exist
\* -------------------------------------------------------------------------
\* K   : the feature kinds in play (a subset of Kinds)
\* cfg : [K -> ExLC]    explicit capability per kind (no Has<Kind>, no handlers)
\* reg : [K -> BOOLEAN] a feature of the kind is registered
DynAdv(K, cfg, reg) == [k \in K |-> KindDecl(cfg[k], FALSE, reg[k])]
\* Server.shouldSendListChangedNotification: looks at the OPTIONS, not at what was advertised
DynShouldSend(cfg, k) == cfg[k] # "lcF"
\* Server.allowedSubscriptions: the wanted list-changed kinds the capabilities of this moment allow
DynAck(want, adv) == {k \in want : adv[k] = "lcT"}
\* changeAndNotify: (re)arm the debounce timer, or stop it when nobody is connected
DynArm(cfg, pend, k, changed, anyOpen) ==
  IF changed /\ DynShouldSend(cfg, k) THEN [pend EXCEPT ![k] = anyOpen] ELSE pend
\* notifySessions when the timer fires: every legacy session, and the modern sessions subscribed to k
DynDeliveries(K, pend, openLegacy, openModern, subs) ==
  {<<s, k>> \in openLegacy \X K : pend[k]} \cup
  {<<s, k>> \in openModern \X K : pend[k] /\ k \in subs[s]}
=============================================================================
