------------------------------ MODULE StreamSrv ------------------------------
(* Server side of the streamable HTTP transport (mcp/streamable.go:            *)
(* streamableServerConn, stream, acquireStream, servePOST, Write), at lock     *)
(* granularity, for properties C08 (resumption) and C10 (routing).             *)
(*                                                                            *)
(* Per session: the logical streams (one per POSTed call, named after the      *)
(* request, plus the standalone stream "sa") with the fields of `stream`       *)
(* (requests, w, done, lastIdx, pendingJSONMessages), the routing table        *)
(* requestStreams, the event store log (ground truth = append order), and per  *)
(* HTTP exchange what the client received.  One action per critical section:   *)
(*   Post        servePOST: register the stream BEFORE publishing the call;    *)
(*               priming event (stored, index 0) when a store is configured    *)
(*               and the negotiated version is >= 2025-11-25                   *)
(*   WRoute      Write, under c.mu: choose the stream from the related request *)
(*               (a response: its own request; other messages: the request in  *)
(*               whose context they were issued, or the standalone stream in   *)
(*               JSON mode / outside any request); drop the routing entry of a *)
(*               response                                                     *)
(*   WLock/WCS   Write, under stream.mu: append to the store THEN deliver, the *)
(*               event id computed from lastIdx+1; complete/delete the stream  *)
(*   AcqLookup   acquireStream under c.mu: find the stream or claim a          *)
(*               temporary entry for a finished one                            *)
(*   AcqLock/CS  acquireStream under stream.mu: conflict check, After, replay, *)
(*               re-attach with lastIdx -- atomically w.r.t. new writes        *)
(*   Wake/Rel    hangResponse returns (client gone, stream complete, session   *)
(*               closed); stream.release under stream.mu                       *)
(* The environment posts calls, tells handlers to send a notification / a      *)
(* server->client request / to return, sends notifications outside any         *)
(* request, disconnects exchanges, resumes with any Last-Event-ID issued so    *)
(* far, deletes the session, and may hold a write (inside EventStore.Append)   *)
(* or a replay (inside EventStore.After) INSIDE the stream lock.               *)
EXTENDS Integers, Sequences, FiniteSets, TLC

CONSTANTS Sess,       \* session names
          Reqs,       \* request names; request r carries the same JSON-RPC id in every session
          Gets,       \* names available for GET exchanges
          Cfgs,       \* the handler configurations explored (the configuration is chosen initially and never
                      \* changes): [store: an EventStore is configured, json: StreamableHTTPOptions.JSONResponse,
                      \* stateless: StreamableHTTPOptions.Stateless (a "session" is then one POST's ephemeral
                      \* session), prime: [Sess -> BOOLEAN] negotiated version >= 2025-11-25]
          MaxEmit,    \* notifications per handler
          MaxSreq,    \* server->client requests per handler
          MaxSa,      \* notifications outside any request, per session
          MaxBc,      \* broadcasts (Server.ResourceUpdated called with a handler's context), per handler
          DupOf,      \* function: requests that re-use the JSON-RPC id of another request of the session
          Gates       \* may the environment hold writes / replays inside the stream lock?

None == "none"
Streams == Reqs \cup {"sa"}
CN(r) == "c." \o r                   \* the goroutine announcing that a nested call of request r was abandoned
Origins == Streams \cup {"bc"} \cup {CN(r) : r \in Reqs}
                                     \* who writes: the handler of a request, code outside any request, a
                                     \* broadcast, a cancellation notifier
WireId(r) == IF r \in DOMAIN DupOf THEN DupOf[r] ELSE r
PX(s, r) == "p." \o s \o "." \o r
Posts == {PX(s, r) : s \in Sess, r \in Reqs}
Exch == Posts \cup Gets
WName(s, o) == "w." \o s \o "." \o o

VARIABLES cfg,     \* the configuration (constant along a behaviour)
          alive,   \* [Sess -> BOOLEAN]            ~c.isDone
          str,     \* [Sess -> [Streams -> stream]] the stream objects (ex: present in c.streams)
          tmp,     \* [Sess -> [Streams -> Exch \cup {None}]] temporary entry of a finished stream (its w)
          rs,      \* [Sess -> SUBSET Reqs]        keys of c.requestStreams
          log,     \* [Sess -> [Streams -> Seq(payload)]] event store, append order
          lock,    \* [Sess -> [Streams -> holder]] stream.mu of the real stream objects
          tlock,   \* same for the temporary stream objects
          x,       \* [Exch -> exchange record]
          recv,    \* [Exch -> Seq([idx, pl])]     what the client received on the exchange
          h,       \* [Sess -> [Reqs -> handler]]
          wr,      \* [Sess -> [Streams -> write in progress]] one writer per origin (handler r / outside = "sa")
          nsa,     \* [Sess -> Nat]
          issued,  \* [Sess -> [Streams -> SUBSET Int]] event indices handed to the client so far
          okEnd    \* [Exch -> BOOLEAN] ghost: when the server ended the exchange the client had everything

vars == <<cfg, alive, str, tmp, rs, log, lock, tlock, x, recv, h, wr, nsa, issued, okEnd>>

Store == cfg.store
Json == cfg.json
Stateless == cfg.stateless
Prime == cfg.prime

NoStream == [ex |-> FALSE, reqs |-> {}, w |-> None, open |-> FALSE, lastIdx |-> -1, json |-> FALSE, pend |-> <<>>]
NoExch == [pc |-> "idle", s |-> None, st |-> None, from |-> -1, cut |-> FALSE, status |-> 0, obj |-> None, held |-> FALSE]
NoWrite == [pc |-> "idle", pl |-> None, resp |-> FALSE, tgt |-> None, held |-> FALSE]

PrimePl(s, r) == [s |-> s, o |-> r, k |-> "prime", n |-> 0]
RespPl(s, r) == [s |-> s, o |-> r, k |-> "resp", n |-> 0]
Primed(s) == Store /\ Prime[s] /\ ~Json
GateChoice == IF Gates /\ Store THEN BOOLEAN ELSE {FALSE}
IsSse(e) == x[e].st = "sa" \/ ~Json

Init ==
  /\ cfg \in Cfgs
  /\ alive = [s \in Sess |-> TRUE]
  /\ str = [s \in Sess |-> [t \in Streams |-> IF t = "sa" THEN [NoStream EXCEPT !.ex = TRUE] ELSE NoStream]]
  /\ tmp = [s \in Sess |-> [t \in Streams |-> None]]
  /\ rs = [s \in Sess |-> {}]
  /\ log = [s \in Sess |-> [t \in Streams |-> <<>>]]
  /\ lock = [s \in Sess |-> [t \in Streams |-> None]]
  /\ tlock = [s \in Sess |-> [t \in Streams |-> None]]
  /\ x = [e \in Exch |-> NoExch]
  /\ recv = [e \in Exch |-> <<>>]
  /\ h = [s \in Sess |-> [r \in Reqs |-> [pc |-> "none", n |-> 0, q |-> 0, b |-> 0, bp |-> {}]]]
  /\ wr = [s \in Sess |-> [o \in Origins |-> NoWrite]]
  /\ nsa = [s \in Sess |-> 0]
  /\ issued = [s \in Sess |-> [t \in Streams |-> {}]]
  /\ okEnd = [e \in Exch |-> TRUE]

-----------------------------------------------------------------------------
\* POST of a call (servePOST).  newStream (EventStore.Open) runs before any lock is taken: the
\* environment may hold the POST there.
PostStart(s, r, g) ==
  LET e == PX(s, r) IN
  /\ alive[s] /\ x[e].pc = "idle" /\ h[s][r].pc = "none" /\ g \in GateChoice
  /\ Stateless => \A r2 \in Reqs : h[s][r2].pc = "none" /\ x[PX(s, r2)].pc = "idle"
  /\ x' = [x EXCEPT ![e] = [NoExch EXCEPT !.pc = "open", !.s = s, !.st = r, !.obj = "real", !.held = g]]
  /\ UNCHANGED <<cfg, alive, str, tmp, rs, log, lock, tlock, recv, h, wr, nsa, issued, okEnd>>

\* One critical section (c.mu): a call whose JSON-RPC id is in flight on the session is refused, otherwise
\* the stream is registered in c.streams / c.requestStreams -- atomically, and BEFORE the call is published
\* to the session.  Then the priming event is appended to the store and written, and the handler starts.
PostReg(s, r) ==
  LET e == PX(s, r) pr == Primed(s)
      clash == \E q \in rs[s] : WireId(q) = WireId(r)
  IN
  /\ x[e].pc = "open" /\ ~x[e].held
  /\ IF clash
     THEN /\ x' = [x EXCEPT ![e].pc = "done", ![e].status = 400]
          /\ UNCHANGED <<str, rs, log, recv, issued, h>>
     ELSE /\ str' = [str EXCEPT ![s][r] = [ex |-> TRUE, reqs |-> {r}, w |-> e, open |-> TRUE,
                                           lastIdx |-> IF pr THEN 0 ELSE -1, json |-> Json, pend |-> <<>>]]
          /\ rs' = [rs EXCEPT ![s] = @ \cup {r}]
          /\ log' = IF pr THEN [log EXCEPT ![s][r] = <<PrimePl(s, r)>>] ELSE log
          /\ recv' = IF pr /\ ~x[e].cut THEN [recv EXCEPT ![e] = <<[idx |-> 0, pl |-> PrimePl(s, r)]>>] ELSE recv
          /\ issued' = IF pr /\ ~x[e].cut THEN [issued EXCEPT ![s][r] = {0}] ELSE issued
          /\ x' = [x EXCEPT ![e].pc = "hang", ![e].status = 200]
          /\ h' = [h EXCEPT ![s][r].pc = "run"]
  /\ UNCHANGED <<cfg, alive, tmp, lock, tlock, wr, nsa, okEnd>>

\* the handler of (s, r) sends a request-scoped notification (blocks until Write returns)
HEmit(s, r, g) ==
  /\ h[s][r].pc = "run" /\ h[s][r].n < MaxEmit /\ wr[s][r].pc = "idle" /\ g \in GateChoice
  /\ wr' = [wr EXCEPT ![s][r] = [NoWrite EXCEPT !.pc = "route", !.held = g,
                                                !.pl = [s |-> s, o |-> r, k |-> "notif", n |-> h[s][r].n + 1]]]
  /\ h' = [h EXCEPT ![s][r].pc = "busy", ![s][r].n = @ + 1]
  /\ UNCHANGED <<cfg, alive, str, tmp, rs, log, lock, tlock, x, recv, nsa, issued, okEnd>>

\* the handler issues a server->client request and waits for the client's answer
HSreq(s, r, g) ==
  /\ h[s][r].pc = "run" /\ h[s][r].q < MaxSreq /\ wr[s][r].pc = "idle" /\ g \in GateChoice
  /\ wr' = [wr EXCEPT ![s][r] = [NoWrite EXCEPT !.pc = "route", !.held = g,
                                                !.pl = [s |-> s, o |-> r, k |-> "sreq", n |-> h[s][r].q + 1]]]
  /\ h' = [h EXCEPT ![s][r].pc = "busyq", ![s][r].q = @ + 1]
  /\ UNCHANGED <<cfg, alive, str, tmp, rs, log, lock, tlock, x, recv, nsa, issued, okEnd>>

\* the client answers (POST of a response: 202, no stream); only a request it has seen
Ans(s, r) ==
  /\ h[s][r].pc = "wait" /\ alive[s]
  /\ \E e \in Exch : \E j \in 1..Len(recv[e]) : recv[e][j].pl = [s |-> s, o |-> r, k |-> "sreq", n |-> h[s][r].q]
  /\ h' = [h EXCEPT ![s][r].pc = "run"]
  /\ UNCHANGED <<cfg, alive, str, tmp, rs, log, lock, tlock, x, recv, wr, nsa, issued, okEnd>>

\* the handler abandons its pending server->client call (the call's context is cancelled): the call returns
\* at once and `notifications/cancelled` is sent off the return path, with the values of the handler's
\* context (context.WithoutCancel), i.e. still related to request r
HAbandon(s, r) ==
  /\ h[s][r].pc = "wait" /\ wr[s][CN(r)].pc = "idle"
  /\ wr' = [wr EXCEPT ![s][CN(r)] = [NoWrite EXCEPT !.pc = "route",
                                                    !.pl = [s |-> s, o |-> r, k |-> "cancel", n |-> h[s][r].q]]]
  /\ h' = [h EXCEPT ![s][r].pc = "run"]
  /\ UNCHANGED <<cfg, alive, str, tmp, rs, log, lock, tlock, x, recv, nsa, issued, okEnd>>

\* the handler returns: the response is written
HRet(s, r, g) ==
  /\ h[s][r].pc = "run" /\ wr[s][r].pc = "idle" /\ g \in GateChoice
  /\ wr' = [wr EXCEPT ![s][r] = [NoWrite EXCEPT !.pc = "route", !.held = g, !.resp = TRUE, !.pl = RespPl(s, r)]]
  /\ h' = [h EXCEPT ![s][r].pc = "ret"]
  /\ UNCHANGED <<cfg, alive, str, tmp, rs, log, lock, tlock, x, recv, nsa, issued, okEnd>>

\* a notification outside any request (detached context)
Sa(s, g) ==
  /\ alive[s] /\ ~Stateless /\ nsa[s] < MaxSa /\ wr[s]["sa"].pc = "idle" /\ g \in GateChoice
  /\ wr' = [wr EXCEPT ![s]["sa"] = [NoWrite EXCEPT !.pc = "route", !.held = g,
                                                   !.pl = [s |-> s, o |-> "sa", k |-> "notif", n |-> nsa[s] + 1]]]
  /\ nsa' = [nsa EXCEPT ![s] = @ + 1]
  /\ UNCHANGED <<cfg, alive, str, tmp, rs, log, lock, tlock, x, recv, h, issued, okEnd>>

\* the handler calls Server.ResourceUpdated with its own context: every (subscribed, live) session is
\* notified, one after the other in an unspecified order (a Go map); for each of them the message is
\* issued outside any of ITS requests
HBcast(s, r) ==
  /\ h[s][r].pc = "run" /\ h[s][r].b < MaxBc /\ ~Stateless
  /\ \A s2 \in Sess, r2 \in Reqs : h[s2][r2].pc # "busyb"
  /\ h' = [h EXCEPT ![s][r].pc = "busyb", ![s][r].b = @ + 1, ![s][r].bp = {s2 \in Sess : alive[s2]}]
  /\ UNCHANGED <<cfg, alive, str, tmp, rs, log, lock, tlock, x, recv, wr, nsa, issued, okEnd>>

BcastNext(s, r, s2) ==
  /\ h[s][r].pc = "busyb" /\ s2 \in h[s][r].bp
  /\ \A s3 \in Sess : wr[s3]["bc"].pc = "idle"
  /\ wr' = [wr EXCEPT ![s2]["bc"] = [NoWrite EXCEPT !.pc = "route",
                          !.pl = [s |-> s2, o |-> r, k |-> "bcast", n |-> h[s][r].b, os |-> s]]]
  /\ h' = [h EXCEPT ![s][r].bp = @ \ {s2}]
  /\ UNCHANGED <<cfg, alive, str, tmp, rs, log, lock, tlock, x, recv, nsa, issued, okEnd>>

BcastDone(s, r) ==
  /\ h[s][r].pc = "busyb" /\ h[s][r].bp = {} /\ \A s2 \in Sess : wr[s2]["bc"].pc = "idle"
  /\ h' = [h EXCEPT ![s][r].pc = "run"]
  /\ UNCHANGED <<cfg, alive, str, tmp, rs, log, lock, tlock, x, recv, wr, nsa, issued, okEnd>>

\* the write of origin o has returned to its caller
HandlerAfter(hh, s, o, ok) ==
  IF o \notin Reqs THEN hh
  ELSE [hh EXCEPT ![s][o].pc = CASE @ = "busy" -> "run"
                                 [] @ = "busyq" -> IF ok THEN "wait" ELSE "run"
                                 [] @ = "ret" -> "done"
                                 [] OTHER -> @]

\* Write, first critical section (c.mu): routing
WRoute(s, o) ==
  LET w == wr[s][o]
      rel == IF w.resp THEN o ELSE IF Json \/ o \in {"sa", "bc"} THEN None ELSE w.pl.o
      tgt == IF rel # None THEN (IF rel \in rs[s] /\ str[s][rel].ex THEN rel ELSE None) ELSE "sa"
      refused == w.pl.k = "sreq" /\ Stateless
  IN
  /\ w.pc = "route"
  /\ rs' = IF w.resp /\ ~refused THEN [rs EXCEPT ![s] = @ \ {o}] ELSE rs
  /\ IF refused \/ tgt = None \/ ~alive[s]
     THEN wr' = [wr EXCEPT ![s][o] = NoWrite] /\ h' = HandlerAfter(h, s, o, FALSE)
     ELSE wr' = [wr EXCEPT ![s][o].pc = "lock", ![s][o].tgt = tgt] /\ h' = h
  /\ UNCHANGED <<cfg, alive, str, tmp, log, lock, tlock, x, recv, nsa, issued, okEnd>>

\* stream.mu.Lock()
WLock(s, o) ==
  /\ wr[s][o].pc = "lock" /\ lock[s][wr[s][o].tgt] = None
  /\ lock' = [lock EXCEPT ![s][wr[s][o].tgt] = WName(s, o)]
  /\ wr' = [wr EXCEPT ![s][o].pc = "cs"]
  /\ UNCHANGED <<cfg, alive, str, tmp, rs, log, tlock, x, recv, h, nsa, issued, okEnd>>

\* Write, second critical section (stream.mu): store, then deliver
WCS(s, o) ==
  LET w == wr[s][o]  t == w.tgt  sr == str[s][t]  pl == w.pl
      reqs1 == IF w.resp THEN sr.reqs \ {o} ELSE sr.reqs
      fin == reqs1 = {} /\ t # "sa"
      conn == sr.open                              \* s.done # nil
      e == sr.w
      live == conn /\ ~x[e].cut                    \* the bytes reach the client
      idx == IF Store THEN sr.lastIdx + 1 ELSE -1
      pend1 == Append(sr.pend, pl)
      ok == Store \/ live
  IN
  /\ w.pc = "cs" /\ ~w.held
  /\ log' = IF Store THEN [log EXCEPT ![s][t] = Append(@, pl)] ELSE log
  /\ str' = [str EXCEPT ![s][t] =
               [sr EXCEPT !.reqs = reqs1,
                          !.ex = IF fin THEN FALSE ELSE @,
                          !.open = IF conn /\ fin THEN FALSE ELSE @,
                          !.lastIdx = IF conn /\ ~sr.json THEN @ + 1 ELSE @,
                          !.pend = IF conn /\ sr.json THEN pend1 ELSE @]]
  /\ recv' = IF ~live THEN recv
             ELSE IF sr.json
                  THEN (IF fin THEN [recv EXCEPT ![e] = [j \in 1..Len(pend1) |-> [idx |-> -1, pl |-> pend1[j]]]] ELSE recv)
                  ELSE [recv EXCEPT ![e] = Append(@, [idx |-> idx, pl |-> pl])]
  /\ issued' = IF live /\ ~sr.json /\ Store THEN [issued EXCEPT ![s][t] = @ \cup {idx}] ELSE issued
  /\ lock' = [lock EXCEPT ![s][t] = None]
  /\ wr' = [wr EXCEPT ![s][o] = NoWrite]
  /\ h' = HandlerAfter(h, s, o, ok)
  /\ UNCHANGED <<cfg, alive, tmp, rs, tlock, x, nsa, okEnd>>

-----------------------------------------------------------------------------
\* GET.  i = -1: no Last-Event-ID (standalone stream only); otherwise an id issued before.
Get(g, s, t, i, hg) ==
  /\ g \in Gets /\ x[g].pc = "idle" /\ ~Stateless /\ hg \in GateChoice
  /\ (i = -1 /\ t = "sa") \/ (Store /\ i \in issued[s][t])
  /\ x' = [x EXCEPT ![g] = IF alive[s]
                           THEN [NoExch EXCEPT !.pc = "lookup", !.s = s, !.st = t, !.from = i, !.held = hg]
                           ELSE [NoExch EXCEPT !.pc = "done", !.s = s, !.st = t, !.from = i, !.status = 404]]
  /\ UNCHANGED <<cfg, alive, str, tmp, rs, log, lock, tlock, recv, h, wr, nsa, issued, okEnd>>

\* acquireStream, under c.mu
AcqLookup(g) ==
  LET s == x[g].s t == x[g].st IN
  /\ x[g].pc = "lookup"
  /\ IF str[s][t].ex THEN x' = [x EXCEPT ![g].pc = "lock", ![g].obj = "real"] /\ tmp' = tmp
     ELSE IF tmp[s][t] # None THEN x' = [x EXCEPT ![g].pc = "lock", ![g].obj = "tmpo"] /\ tmp' = tmp
     ELSE x' = [x EXCEPT ![g].pc = "lock", ![g].obj = "tmp"] /\ tmp' = [tmp EXCEPT ![s][t] = g]
  /\ UNCHANGED <<cfg, alive, str, rs, log, lock, tlock, recv, h, wr, nsa, issued, okEnd>>

AcqLock(g) ==
  LET s == x[g].s t == x[g].st IN
  /\ x[g].pc = "lock"
  /\ IF x[g].obj = "real"
     THEN lock[s][t] = None /\ lock' = [lock EXCEPT ![s][t] = g] /\ tlock' = tlock
     ELSE tlock[s][t] = None /\ tlock' = [tlock EXCEPT ![s][t] = g] /\ lock' = lock
  /\ x' = [x EXCEPT ![g].pc = "cs"]
  /\ UNCHANGED <<cfg, alive, str, tmp, rs, log, recv, h, wr, nsa, issued, okEnd>>

\* acquireStream, under stream.mu throughout: conflict check, After, replay, re-attach
AcqCS(g) ==
  LET s == x[g].s t == x[g].st obj == x[g].obj sr == str[s][t] from == x[g].from
      conflict == (obj = "real" /\ sr.w # None) \/ obj = "tmpo"
      L == log[s][t]
      rep == IF Store THEN SelectSeq(SubSeq(L, from + 2, Len(L)), LAMBDA p : p.k # "prime") ELSE <<>>
      evs == [j \in 1..Len(rep) |-> [idx |-> from + j, pl |-> rep[j]]]
      broken == x[g].cut /\ Len(rep) > 0            \* a replay write fails: return without attaching
      fin == obj = "tmp" \/ (sr.reqs = {} /\ t # "sa")
      unlock == IF obj = "real" THEN lock' = [lock EXCEPT ![s][t] = None] /\ tlock' = tlock
                ELSE tlock' = [tlock EXCEPT ![s][t] = None] /\ lock' = lock
  IN
  /\ x[g].pc = "cs" /\ (~x[g].held \/ conflict)
  /\ unlock
  /\ IF conflict
     THEN /\ x' = [x EXCEPT ![g].pc = "done", ![g].status = 409, ![g].held = FALSE]
          /\ UNCHANGED <<cfg, str, tmp, recv, issued, okEnd>>
     ELSE /\ recv' = IF x[g].cut THEN recv ELSE [recv EXCEPT ![g] = evs]
          /\ issued' = IF x[g].cut THEN issued ELSE [issued EXCEPT ![s][t] = @ \cup {from + j : j \in 1..Len(rep)}]
          /\ tmp' = IF obj = "tmp" THEN [tmp EXCEPT ![s][t] = None] ELSE tmp
          /\ IF fin \/ broken
             THEN /\ x' = [x EXCEPT ![g].pc = "done", ![g].status = 200]
                  /\ str' = str
                  /\ okEnd' = [okEnd EXCEPT ![g] = x[g].cut \/ ~Store \/ from + Len(evs) + 1 = Len(L)]
             ELSE /\ x' = [x EXCEPT ![g].pc = "hang", ![g].status = 200]
                  /\ str' = [str EXCEPT ![s][t].w = g, ![s][t].open = TRUE, ![s][t].lastIdx = from + Len(rep)]
                  /\ okEnd' = okEnd
  /\ UNCHANGED <<cfg, alive, rs, log, h, wr, nsa>>

\* the client disconnects: the request context of that exchange is cancelled
Cut(e) ==
  /\ x[e].pc \in {"open", "lock", "cs", "hang", "rel", "closing"} /\ ~x[e].cut
  \* (a stateless POST abandoned before its call is published races the ephemeral session's Close: not modelled)
  /\ x[e].pc = "open" => ~Stateless
  /\ x' = [x EXCEPT ![e].cut = TRUE]
  /\ UNCHANGED <<cfg, alive, str, tmp, rs, log, lock, tlock, recv, h, wr, nsa, issued, okEnd>>

\* hangResponse returns: context cancelled, stream complete (done closed), or session closed
Wake(e) ==
  LET s == x[e].s t == x[e].st sr == str[s][t]
      completed == sr.w = e /\ ~sr.open
  IN
  /\ x[e].pc = "hang"
  /\ x[e].cut \/ ~alive[s] \/ completed
  /\ x' = [x EXCEPT ![e].pc = "rel"]
  /\ okEnd' = [okEnd EXCEPT ![e] = x[e].cut \/ ~alive[s] \/ ~Store \/ ~IsSse(e)
                                   \/ x[e].from + Len(recv[e]) + 1 = Len(log[s][t])]
  /\ UNCHANGED <<cfg, alive, str, tmp, rs, log, lock, tlock, recv, h, wr, nsa, issued>>

\* stream.release(), under stream.mu.  A stateless handler then closes the POST's ephemeral session,
\* which waits for the call's handler (graceful close) before ServeHTTP returns.
Rel(e) ==
  LET s == x[e].s t == x[e].st
      waits == Stateless /\ e \in Posts /\ h[s][t].pc # "done"
  IN
  /\ x[e].pc = "rel" /\ lock[s][t] = None
  /\ str' = [str EXCEPT ![s][t].w = None, ![s][t].open = FALSE]
  /\ x' = [x EXCEPT ![e].pc = IF waits THEN "closing" ELSE "done"]
  /\ UNCHANGED <<cfg, alive, tmp, rs, log, lock, tlock, recv, h, wr, nsa, issued, okEnd>>

SessClosed(e) ==
  /\ x[e].pc = "closing" /\ h[x[e].s][x[e].st].pc = "done"
  /\ x' = [x EXCEPT ![e].pc = "done"]
  /\ UNCHANGED <<cfg, alive, str, tmp, rs, log, lock, tlock, recv, h, wr, nsa, issued, okEnd>>

\* DELETE: the session closes once nothing is in flight (graceful close)
Del(s) ==
  /\ alive[s] /\ ~Stateless
  /\ \A r \in Reqs : h[s][r].pc \in {"none", "done"}
  /\ \A o \in Origins : wr[s][o].pc = "idle"
  /\ \A r \in Reqs : x[PX(s, r)].pc # "open"
  /\ alive' = [alive EXCEPT ![s] = FALSE]
  /\ UNCHANGED <<cfg, str, tmp, rs, log, lock, tlock, x, recv, h, wr, nsa, issued, okEnd>>

\* the environment opens every gate it holds
GateOpen ==
  /\ (\E s \in Sess, o \in Origins : wr[s][o].held) \/ (\E e \in Exch : x[e].held)
  /\ wr' = [s \in Sess |-> [o \in Origins |-> [wr[s][o] EXCEPT !.held = FALSE]]]
  /\ x' = [e \in Exch |-> [x[e] EXCEPT !.held = FALSE]]
  /\ UNCHANGED <<cfg, alive, str, tmp, rs, log, lock, tlock, recv, h, nsa, issued, okEnd>>

-----------------------------------------------------------------------------
SdkNext ==
  \/ \E s \in Sess, o \in Origins : WRoute(s, o) \/ WLock(s, o) \/ WCS(s, o)
  \/ \E s \in Sess, r \in Reqs : PostReg(s, r) \/ BcastDone(s, r) \/ (\E s2 \in Sess : BcastNext(s, r, s2))
  \/ \E g \in Gets : AcqLookup(g) \/ AcqLock(g) \/ AcqCS(g)
  \/ \E e \in Exch : Wake(e) \/ Rel(e) \/ SessClosed(e)
\* ENABLED SdkNext, written out (cheaper for TLC; StreamSrvMC checks the equivalence)
SdkEnabled ==
  \/ \E s \in Sess, r \in Reqs :
        \/ x[PX(s, r)].pc = "open" /\ ~x[PX(s, r)].held
        \/ h[s][r].pc = "busyb" /\ \A s2 \in Sess : wr[s2]["bc"].pc = "idle"   \* BcastNext or BcastDone
  \/ \E s \in Sess, o \in Origins :
        \/ wr[s][o].pc = "route"
        \/ wr[s][o].pc = "lock" /\ lock[s][wr[s][o].tgt] = None
        \/ wr[s][o].pc = "cs" /\ ~wr[s][o].held
  \/ \E g \in Gets :
        \/ x[g].pc = "lookup"
        \/ x[g].pc = "lock" /\ (IF x[g].obj = "real" THEN lock[x[g].s][x[g].st] = None ELSE tlock[x[g].s][x[g].st] = None)
        \/ x[g].pc = "cs" /\ (~x[g].held \/ x[g].obj = "tmpo" \/ (x[g].obj = "real" /\ str[x[g].s][x[g].st].w # None))
  \/ \E e \in Exch :
        \/ x[e].pc = "hang" /\ (x[e].cut \/ ~alive[x[e].s] \/ (str[x[e].s][x[e].st].w = e /\ ~str[x[e].s][x[e].st].open))
        \/ x[e].pc = "rel" /\ lock[x[e].s][x[e].st] = None
        \/ x[e].pc = "closing" /\ h[x[e].s][x[e].st].pc = "done"
EnvNext ==
  \/ \E s \in Sess, r \in Reqs : Ans(s, r) \/ HBcast(s, r) \/ HAbandon(s, r) \/ (\E g \in BOOLEAN : PostStart(s, r, g) \/ HEmit(s, r, g) \/ HSreq(s, r, g) \/ HRet(s, r, g))
  \/ \E s \in Sess, g \in BOOLEAN : Sa(s, g)
  \/ \E g \in Gets, s \in Sess, t \in Streams, i \in -1..(MaxEmit + MaxSreq + MaxSa + 3 * MaxBc + 2), hg \in BOOLEAN : Get(g, s, t, i, hg)
  \/ \E e \in Exch : Cut(e)
  \/ \E s \in Sess : Del(s)
  \/ GateOpen
Next == SdkNext \/ EnvNext
Spec == Init /\ [][Next]_vars

-----------------------------------------------------------------------------
\* Properties.  Judged(e): an exchange on an SSE stream of a session with a store (C08's scope)
Range(q) == {q[i] : i \in DOMAIN q}
Judged(e) == x[e].pc # "idle" /\ x[e].status = 200 /\ Store /\ IsSse(e)
L(e) == log[x[e].s][x[e].st]

\* C08: what an exchange receives from its resume point on is exactly the store's append order after that point
ResumeExact == \A e \in Exch : Judged(e) =>
                 \A j \in 1..Len(recv[e]) : x[e].from + j + 1 <= Len(L(e)) /\ recv[e][j].pl = L(e)[x[e].from + j + 1]
IdsDense == \A e \in Exch : Judged(e) => \A j \in 1..Len(recv[e]) : recv[e][j].idx = x[e].from + j
IdStable == \A e1, e2 \in Exch : (Judged(e1) /\ Judged(e2) /\ x[e1].s = x[e2].s /\ x[e1].st = x[e2].st) =>
              \A a \in 1..Len(recv[e1]), b \in 1..Len(recv[e2]) :
                 recv[e1][a].idx = recv[e2][b].idx => recv[e1][a].pl = recv[e2][b].pl
StoreBeforeDeliver == \A e \in Exch : Judged(e) => \A j \in 1..Len(recv[e]) : recv[e][j].idx + 1 <= Len(L(e))
\* ... equal at completion, and whenever the SDK is quiescent with the exchange still attached
CompleteAtEnd == \A e \in Exch : okEnd[e]
CompleteAtRest == (~SdkEnabled) =>
                    \A e \in Exch : (Judged(e) /\ x[e].pc = "hang" /\ ~x[e].cut) => x[e].from + Len(recv[e]) + 1 = Len(L(e))
\* the final response stays obtainable: a replay that the server ended contains it
FinalObtainable == \A g \in Gets :
     (Judged(g) /\ x[g].pc = "done" /\ ~x[g].cut /\ alive[x[g].s] /\ x[g].st # "sa") =>
        LET r == x[g].st  p == RespPl(x[g].s, r) IN
          (\E i \in 1..Len(L(g)) : L(g)[i] = p /\ i > x[g].from + 1) => (recv[g] # <<>> /\ recv[g][Len(recv[g])].pl = p)
\* a resumption with an id issued before is refused only while another exchange holds the stream
RefusedOnlyOnConflict == \A g \in Gets : x[g].pc # "idle" => x[g].status \in {0, 200, 404, 409}

\* C10
ResponseOnOwnExchange == \A e \in Exch : \A j \in 1..Len(recv[e]) :
     recv[e][j].pl.k = "resp" => recv[e][j].pl.s = x[e].s /\ recv[e][j].pl.o = x[e].st
NestedRouting == \A e \in Exch : \A j \in 1..Len(recv[e]) :
     /\ recv[e][j].pl.k \in {"notif", "sreq", "cancel"} =>
          /\ recv[e][j].pl.s = x[e].s
          /\ IF recv[e][j].pl.o = "sa" \/ Json THEN x[e].st = "sa" ELSE x[e].st = recv[e][j].pl.o
     \* a broadcast is, for every receiving session, a message outside any of its requests
     \* (the issuing session may also get it on the issuing request's stream)
     /\ recv[e][j].pl.k = "bcast" => x[e].st = "sa" \/ (recv[e][j].pl.os = x[e].s /\ recv[e][j].pl.o = x[e].st)
NoCrossSession == \A e \in Exch : \A j \in 1..Len(recv[e]) : recv[e][j].pl.s = x[e].s
\* a response is written at most once per request and only after its stream was registered
RoutingEntryLifecycle == \A s \in Sess, r \in Reqs : r \in rs[s] => h[s][r].pc \in {"run", "busy", "busyq", "busyb", "wait", "ret"}
\* duplicate in-flight ids are refused atomically: at most one registered request per JSON-RPC id and session
IdUnique == \A s \in Sess : \A q1, q2 \in rs[s] : WireId(q1) = WireId(q2) => q1 = q2
LockDiscipline == \A s \in Sess, t \in Streams :
     /\ lock[s][t] # None => (\E o \in Origins : lock[s][t] = WName(s, o) /\ wr[s][o].pc = "cs" /\ wr[s][o].tgt = t)
                             \/ (\E g \in Gets : lock[s][t] = g /\ x[g].pc = "cs" /\ x[g].obj = "real")
     /\ tlock[s][t] # None => \E g \in Gets : tlock[s][t] = g /\ x[g].pc = "cs" /\ x[g].obj # "real"
=============================================================================
