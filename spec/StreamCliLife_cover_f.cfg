\* cover: the DELETE is never answered (closeDeleteTimeout); only non-terminal answers: see D7
SPECIFICATION SettledSpec
CONSTANTS
  NC = 1
  SASet = {TRUE}
  OAuthSet = {FALSE}
  DelSet = {"timeout"}
  PostSet = {"json", "sse", "5xx"}
  GetSet = {"sse", "405"}
  InitH = {"A"}
  HSet = {""}
  MaxNotify = 0
  MaxSaEv = 0
  MaxAuth = 0
  MaxClose = 2
  AllowCancel = FALSE
  FixCancel = FALSE
  FixStream = FALSE
INVARIANTS TypeOK SessionHeader VersionHeader OnePostPerMessage Standalone PerMessage Usable GoneStops GoneNoDelete GoneFailsAll
  TerminalFailsPending DeleteOnce DeleteWhenLive CloseWaits StandaloneCancelled RetiredOnce
VIEW CoverView
CHECK_DEADLOCK FALSE
