\* switch: transport closed without waiting for idle; RunningHandlersFinish must be violated
SPECIFICATION MCSpec
CONSTANTS
  Calls = {"k1"}
  CCl = {"c1"}
  SCl = {"s1"}
  Stateless = FALSE
  Timeout = TRUE
  Sse = TRUE
  Nested = FALSE
  Faults = {}
  DelModes = {}
  Helds = FALSE
  Notifs = FALSE
  Cancels = FALSE
  AwaitHandlers = FALSE
  StopSseOnClose = TRUE
VIEW MCView
INVARIANTS RunningHandlersFinish
CHECK_DEADLOCK FALSE
