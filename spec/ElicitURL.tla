------------------------------ MODULE ElicitURL ------------------------------
(* Extension check X10, part (b): the URL-elicitation retry loop of the       *)
(* client - mcp/client.go urlElicitationMiddleware, registerElicitationWaiter *)
(* (await / cleanup), Client.elicit in url mode, callElicitationComplete-     *)
(* Handler - against a server that answers a call with the                    *)
(* "URL elicitation required" error (-32042, mcp/shared.go                    *)
(* URLElicitationRequiredError) and later sends                               *)
(* notifications/elicitation/complete.                                        *)
(*                                                                            *)
(* PROPERTIES.  Sources: doc comments of urlElicitationMiddleware             *)
(* ("automatically handles URL elicitation required errors by executing the   *)
(* elicitation handler, waiting for completion notifications, and retrying    *)
(* the operation"), registerElicitationWaiter ("must be called before         *)
(* triggering the elicitation to avoid a race condition where the             *)
(* notification arrives before the waiter is registered", "The cleanup        *)
(* function must be called even if the await function is never called, to     *)
(* prevent leaking the registration"), CodeURLElicitationRequired ("The client*)
(* should execute the elicitation handler with the elicitations provided in   *)
(* the error data"), URLElicitationRequiredError ("the elicitation requests   *)
(* that must be completed"), ElicitationCompleteParams ("the elicitation that *)
(* has completed. This must correspond to the elicitationId from the original *)
(* elicitation/create request"), the middleware's own messages ("must only    *)
(* contain URL mode elicitations", "URL elicitation failed", "context         *)
(* cancelled while waiting for elicitation completion").                      *)
(*                                                                            *)
(*  U1 ExactlyOnce  Every call made through the middleware returns exactly    *)
(*     once - with the server's answer to its last attempt, or an error.      *)
(*  U2 RetryJustified  A call is sent a second time only after its first      *)
(*     attempt was answered with the URL-elicitation-required error naming    *)
(*     url-mode elicitations only, the ElicitationHandler was consulted for   *)
(*     every named elicitation and none of these consultations failed, and a  *)
(*     completion notification for every named id was handled after that      *)
(*     error had been received.  It is never sent a third time.               *)
(*  U3 HandlerJustified  The handler is consulted only for elicitations named *)
(*     in the error answered to the first attempt of a call in progress, once *)
(*     each, in the order of the error, never after one of them failed and    *)
(*     never for an elicitation that is not a well-formed url-mode request.   *)
(*  U4 NoLeak  When a call has returned, no waiter it registered is left in   *)
(*     the session, whatever path it took.                                    *)
(*  U5 CompletionReachesWaiter  A completion notification handled while a     *)
(*     call is registered for that id releases that call's wait for it; a     *)
(*     completion for an id nobody is registered for changes nothing, and the *)
(*     user's ElicitationCompleteHandler sees every completion exactly once.  *)
(*  U6 Returns (liveness)  A call whose attempts are answered, whose handler  *)
(*     consultations return and whose named elicitations all complete after   *)
(*     it registered - or whose context ends - eventually returns.            *)
(*                                                                            *)
(* DEVIATIONS of the code from an idealised design, modelled as the code is:  *)
(*  E1 one waiter per ID per session: registerElicitationWaiter overwrites    *)
(*     pendingElicitations[id] and cleanup deletes whatever is registered     *)
(*     under the id.  Two calls in progress that name the same id (or one     *)
(*     error that names an id twice) steal each other's waiter: one           *)
(*     completion releases only the last one registered, and the clean-up of  *)
(*     one call unregisters the other.  (breaks U5 / U6 when SharedIds; the   *)
(*     configurations with distinct ids satisfy them.)                        *)
(*  E2 the result of the handler (accept / decline / cancel) is ignored: a    *)
(*     declined elicitation is waited for like an accepted one (only the      *)
(*     caller's context ends the wait).  No documented rule is broken - U6    *)
(*     presupposes the completion - but see ElicitURL_lead_decline.cfg.       *)
(*  E3 exactly one retry: a second URL-elicitation-required error is returned *)
(*     to the caller as it is (U2 "never a third time").                      *)
(*  E4 the deferred clean-up runs after the retried call has returned: the    *)
(*     waiters stay registered during the second attempt.                     *)
(*                                                                            *)
(* One action per step of the code.  Calls are identified by their number;    *)
(* the waiter (channel) registered by call c for the k-th named elicitation   *)
(* is <<c, k>>.                                                               *)
EXTENDS Integers, Sequences, FiniteSets, TLC

CONSTANTS Calls,        \* call numbers
          Ids,          \* elicitation ids the server may name
          Unknown,      \* an id the server never names (spurious completions)
          MaxLen,       \* longest list of elicitations in one error
          MaxSpur,      \* completions the server may send without owing them
          Handlers,     \* subset of BOOLEAN: the client has an ElicitationHandler
          HResults,     \* what a consultation may return: accept decline cancel herr
          AllowCancel,  \* BOOLEAN: the caller's context may end
          DeclineNoCompl \* BOOLEAN: the server owes no completion for a declined / cancelled elicitation

\* ListsOf(c): the id lists the server may name in an error for call c; KindsOf(c): the kinds of answer it may give
\* (ok err urlreq urlbad urlnourl); both overridden per configuration
CONSTANT ListsOf(_), KindsOf(_)
\* TrackOwed: distinguish the completions the server owes (liveness configurations) from spurious ones
CONSTANT TrackOwed

VARIABLES cfgH, pc, try, resp, first, lst, idx, nreg, tok, pending, ctx, out, nq, nspur,
          asked, hres, got, used, seen, ucalls, rets, owedSent

vars == <<cfgH, pc, try, resp, first, lst, idx, nreg, tok, pending, ctx, out, nq, nspur,
          asked, hres, got, used, seen, ucalls, rets, owedSent>>
\* the part of the state that is the implementation's (no ghosts)
implVars == <<cfgH, pc, try, resp, lst, idx, nreg, tok, pending, ctx, out, nq>>

IdsAll == Ids \cup {Unknown}
Nil == <<0, 0>>
NoResp == [kind |-> "none", ids |-> <<>>]
Slots == 1..MaxLen

Resps(c) == {[kind |-> k, ids |-> <<>>] : k \in {"ok", "err"} \cap KindsOf(c)}
            \cup {[kind |-> "urlreq", ids |-> L] : L \in (IF "urlreq" \in KindsOf(c) THEN ListsOf(c) ELSE {})}
            \cup {[kind |-> k, ids |-> L] : k \in {"urlbad", "urlnourl"} \cap KindsOf(c), L \in {L2 \in ListsOf(c) : Len(L2) = 1}}

Init ==
  /\ cfgH \in Handlers
  /\ pc = [c \in Calls |-> "idle"] /\ try = [c \in Calls |-> 0]
  /\ resp = [c \in Calls |-> NoResp] /\ first = [c \in Calls |-> NoResp]
  /\ lst = [c \in Calls |-> <<>>] /\ idx = [c \in Calls |-> 1] /\ nreg = [c \in Calls |-> 0]
  /\ tok = [c \in Calls |-> [k \in Slots |-> 0]]
  /\ pending = [i \in IdsAll |-> Nil]
  /\ ctx = [c \in Calls |-> FALSE] /\ out = [c \in Calls |-> ""]
  /\ nq = <<>> /\ nspur = 0
  /\ asked = [c \in Calls |-> <<>>] /\ hres = [c \in Calls |-> <<>>]
  /\ got = [c \in Calls |-> {}] /\ used = [c \in Calls |-> {}] /\ seen = [c \in Calls |-> {}]
  /\ ucalls = 0 /\ rets = [c \in Calls |-> 0] /\ owedSent = {}

Ghosts == <<first, asked, hres, got, used, seen, ucalls, rets, owedSent>>

-----------------------------------------------------------------------------
\* The application and the caller's context
Start(c) == /\ pc[c] = "idle"
            /\ pc' = [pc EXCEPT ![c] = "send"]
            /\ UNCHANGED <<cfgH, try, resp, first, lst, idx, nreg, tok, pending, ctx, out, nq, nspur,
                           asked, hres, got, used, seen, ucalls, rets, owedSent>>
CtxCancel(c) == /\ AllowCancel /\ ~ctx[c] /\ pc[c] \notin {"idle", "done"}
                /\ ctx' = [ctx EXCEPT ![c] = TRUE]
                /\ UNCHANGED <<cfgH, pc, try, resp, first, lst, idx, nreg, tok, pending, out, nq, nspur,
                               asked, hres, got, used, seen, ucalls, rets, owedSent>>

\* next(ctx, method, req): the request goes out
Send(c) == /\ pc[c] = "send"
           /\ pc' = [pc EXCEPT ![c] = "inflight"] /\ try' = [try EXCEPT ![c] = @ + 1]
           /\ UNCHANGED <<cfgH, resp, first, lst, idx, nreg, tok, pending, ctx, out, nq, nspur,
                          asked, hres, got, used, seen, ucalls, rets, owedSent>>
\* ... and comes back: the server's answer, or the caller's context ended while it was in flight
Deliver(c, r) ==
  /\ pc' = [pc EXCEPT ![c] = "gotresp"] /\ resp' = [resp EXCEPT ![c] = r]
  /\ first' = IF try[c] = 1 THEN [first EXCEPT ![c] = r] ELSE first
  /\ UNCHANGED <<cfgH, try, lst, idx, nreg, tok, pending, ctx, out, nq, nspur, asked, hres, got, used, seen, ucalls, rets, owedSent>>
SrvRespond(c, r) == pc[c] = "inflight" /\ r \in Resps(c) /\ Deliver(c, r)
CtxAbort(c) == pc[c] = "inflight" /\ ctx[c] /\ Deliver(c, [kind |-> "ctxerr", ids |-> <<>>])

\* the code between `res, err := next(...)` and the registration loop
Finish(c, o, p) == /\ out' = [out EXCEPT ![c] = o] /\ pc' = [pc EXCEPT ![c] = p] /\ idx' = [idx EXCEPT ![c] = 1]
OutcomeOf(r) == CASE r.kind = "ok" -> "ok" [] r.kind = "err" -> "err" [] r.kind = "ctxerr" -> "ctxerr" [] OTHER -> "urlreq"
Decide(c) ==
  /\ pc[c] = "gotresp"
  /\ IF try[c] = 2 THEN Finish(c, OutcomeOf(resp[c]), "cleanup") /\ UNCHANGED lst            \* E3, E4
     ELSE IF resp[c].kind \in {"ok", "err", "ctxerr"} THEN Finish(c, OutcomeOf(resp[c]), "ret") /\ UNCHANGED lst
     ELSE IF ~cfgH THEN Finish(c, "urlreq", "ret") /\ UNCHANGED lst
     ELSE IF resp[c].kind = "urlbad" THEN Finish(c, "badmode", "ret") /\ UNCHANGED lst
     ELSE /\ lst' = [lst EXCEPT ![c] = resp[c].ids] /\ idx' = [idx EXCEPT ![c] = 1]
          /\ pc' = [pc EXCEPT ![c] = "reg"] /\ UNCHANGED out
  /\ UNCHANGED <<cfgH, try, resp, first, nreg, tok, pending, ctx, nq, nspur, asked, hres, got, used, seen, ucalls, rets, owedSent>>

\* registerElicitationWaiter, one per named elicitation (each takes pendingElicitationsMu)
Register(c) ==
  /\ pc[c] = "reg"
  /\ IF idx[c] <= Len(lst[c])
     THEN /\ pending' = [pending EXCEPT ![lst[c][idx[c]]] = <<c, idx[c]>>]                    \* overwrites (E1)
          /\ tok' = [tok EXCEPT ![c][idx[c]] = 0]
          /\ nreg' = [nreg EXCEPT ![c] = idx[c]] /\ idx' = [idx EXCEPT ![c] = @ + 1]
          /\ UNCHANGED pc
     ELSE /\ pc' = [pc EXCEPT ![c] = "ask"] /\ idx' = [idx EXCEPT ![c] = 1]
          /\ UNCHANGED <<pending, tok, nreg>>
  /\ UNCHANGED <<cfgH, try, resp, first, lst, ctx, out, nq, nspur, asked, hres, got, used, seen, ucalls, rets, owedSent>>

\* cs.client.elicit for each elicitation: refused without the handler when it has no URL, else the handler runs
AskBegin(c) ==
  /\ pc[c] = "ask"
  /\ IF idx[c] > Len(lst[c]) THEN pc' = [pc EXCEPT ![c] = "await"] /\ idx' = [idx EXCEPT ![c] = 1] /\ UNCHANGED <<out, asked>>
     ELSE IF resp[c].kind = "urlnourl" THEN Finish(c, "elicitfail", "cleanup") /\ UNCHANGED asked
     ELSE /\ pc' = [pc EXCEPT ![c] = "hwait"] /\ asked' = [asked EXCEPT ![c] = Append(@, lst[c][idx[c]])]
          /\ UNCHANGED <<out, idx>>
  /\ UNCHANGED <<cfgH, try, resp, first, lst, nreg, tok, pending, ctx, nq, nspur, hres, got, used, seen, ucalls, rets, owedSent>>
AskEnd(c, h) ==
  /\ pc[c] = "hwait" /\ h \in HResults
  /\ hres' = [hres EXCEPT ![c] = Append(@, h)]
  /\ IF h = "herr" THEN Finish(c, "elicitfail", "cleanup")
     ELSE pc' = [pc EXCEPT ![c] = "ask"] /\ idx' = [idx EXCEPT ![c] = @ + 1] /\ UNCHANGED out          \* E2
  /\ UNCHANGED <<cfgH, try, resp, first, lst, nreg, tok, pending, ctx, nq, nspur, asked, got, used, seen, ucalls, rets, owedSent>>

\* w.await(ctx) for each waiter in order: a Go select over ctx.Done() and the channel
AwaitOk(c) ==
  /\ pc[c] = "await" /\ idx[c] <= Len(lst[c]) /\ tok[c][idx[c]] = 1
  /\ tok' = [tok EXCEPT ![c][idx[c]] = 0] /\ used' = [used EXCEPT ![c] = @ \cup {idx[c]}]
  /\ idx' = [idx EXCEPT ![c] = @ + 1]
  /\ UNCHANGED <<cfgH, pc, try, resp, first, lst, nreg, pending, ctx, out, nq, nspur, asked, hres, got, seen, ucalls, rets, owedSent>>
AwaitCtx(c) ==
  /\ pc[c] = "await" /\ idx[c] <= Len(lst[c]) /\ ctx[c]
  /\ Finish(c, "ctxerr", "cleanup")
  /\ UNCHANGED <<cfgH, try, resp, first, lst, nreg, tok, pending, ctx, nq, nspur, asked, hres, got, used, seen, ucalls, rets, owedSent>>
AwaitDone(c) ==
  /\ pc[c] = "await" /\ idx[c] > Len(lst[c])
  /\ pc' = [pc EXCEPT ![c] = "send"]
  /\ UNCHANGED <<cfgH, try, resp, first, lst, idx, nreg, tok, pending, ctx, out, nq, nspur, asked, hres, got, used, seen, ucalls, rets, owedSent>>

\* the deferred clean-up: delete(pendingElicitations, id) for each waiter
Cleanup(c) ==
  /\ pc[c] = "cleanup"
  /\ IF idx[c] <= nreg[c]
     THEN /\ pending' = [pending EXCEPT ![lst[c][idx[c]]] = Nil]                               \* whoever owns it (E1)
          /\ idx' = [idx EXCEPT ![c] = @ + 1] /\ UNCHANGED pc
     ELSE pc' = [pc EXCEPT ![c] = "ret"] /\ UNCHANGED <<pending, idx>>
  /\ UNCHANGED <<cfgH, try, resp, first, lst, nreg, tok, ctx, out, nq, nspur, asked, hres, got, used, seen, ucalls, rets, owedSent>>
Return(c) ==
  /\ pc[c] = "ret"
  /\ pc' = [pc EXCEPT ![c] = "done"] /\ rets' = [rets EXCEPT ![c] = @ + 1]
  /\ UNCHANGED <<cfgH, try, resp, first, lst, idx, nreg, tok, pending, ctx, out, nq, nspur, asked, hres, got, used, seen, ucalls, owedSent>>

-----------------------------------------------------------------------------
\* The server's completions and the client's notification handler
\* waiting(c): c has received the error and not yet given up waiting / sent its retry
Waiting(c) == pc[c] \in {"reg", "ask", "hwait", "await"}
\* what the server still owes: a completion for each elicitation of a waiting call that it has not sent since
Declined(c, k) == k <= Len(hres[c]) /\ hres[c][k] \in {"decline", "cancel"}
Owed == {i \in Ids : TrackOwed /\ \E c \in Calls : Waiting(c) /\ \E k \in 1..nreg[c] :
            /\ lst[c][k] = i /\ <<c, k>> \notin owedSent
            /\ ~(DeclineNoCompl /\ Declined(c, k))}
SrvNotify(i) ==
  /\ i \in IdsAll
  /\ \/ i \in Owed
     \/ nspur < MaxSpur
  /\ nspur' = IF i \in Owed THEN nspur ELSE nspur + 1
  /\ owedSent' = IF TrackOwed THEN owedSent \cup {w \in Calls \X Slots : Waiting(w[1]) /\ w[2] <= nreg[w[1]] /\ lst[w[1]][w[2]] = i}
                 ELSE owedSent
  /\ nq' = Append(nq, i)
  /\ UNCHANGED <<cfgH, pc, try, resp, first, lst, idx, nreg, tok, pending, ctx, out, asked, hres, got, used, seen, ucalls, rets>>
\* callElicitationCompleteHandler: under the mutex, a non-blocking send to the registered channel; then the user's handler
CliNotify ==
  /\ nq # <<>>
  /\ LET i == Head(nq)  w == pending[i] IN
       /\ tok' = IF w # Nil THEN [tok EXCEPT ![w[1]][w[2]] = 1] ELSE tok
       /\ got' = [c \in Calls |-> IF Waiting(c) THEN got[c] \cup {k \in 1..nreg[c] : lst[c][k] = i} ELSE got[c]]
       /\ seen' = [c \in Calls |-> IF Waiting(c) THEN seen[c] \cup {i} ELSE seen[c]]
  /\ nq' = Tail(nq) /\ ucalls' = ucalls + 1
  /\ UNCHANGED <<cfgH, pc, try, resp, first, lst, idx, nreg, pending, ctx, out, nspur, asked, hres, used, rets, owedSent>>

ClientStep(c) == Send(c) \/ CtxAbort(c) \/ Decide(c) \/ Register(c) \/ AskBegin(c) \/ AwaitOk(c) \/ AwaitCtx(c)
                 \/ AwaitDone(c) \/ Cleanup(c) \/ Return(c)
Next == \/ \E c \in Calls : Start(c) \/ CtxCancel(c) \/ ClientStep(c)
        \/ \E c \in Calls : \E r \in Resps(c) : SrvRespond(c, r)
        \/ \E c \in Calls : \E h \in HResults : AskEnd(c, h)
        \/ \E i \in IdsAll : SrvNotify(i)
        \/ CliNotify
Spec == Init /\ [][Next]_vars

-----------------------------------------------------------------------------
\* Properties
TypeOK == /\ \A c \in Calls : pc[c] \in {"idle", "send", "inflight", "gotresp", "reg", "ask", "hwait", "await", "cleanup", "ret", "done"}
          /\ \A c \in Calls : try[c] \in 0..2 /\ nreg[c] <= Len(lst[c]) /\ Len(lst[c]) <= MaxLen
U1_ExactlyOnce == \A c \in Calls : /\ rets[c] <= 1
                                   /\ (pc[c] = "done" <=> rets[c] = 1)
                                   /\ pc[c] = "done" => out[c] # ""
\* the outcome is the server's answer to the last attempt, or a local error with its cause
U1_Faithful == \A c \in Calls : pc[c] = "done" =>
                  CASE out[c] \in {"ok", "err"} -> resp[c].kind = out[c]
                    [] out[c] = "urlreq" -> resp[c].kind \in {"urlreq", "urlbad", "urlnourl"} /\ (try[c] = 2 \/ ~cfgH)
                    [] out[c] = "badmode" -> first[c].kind = "urlbad" /\ try[c] = 1
                    [] out[c] = "elicitfail" -> try[c] = 1 /\ (first[c].kind = "urlnourl" \/ (hres[c] # <<>> /\ hres[c][Len(hres[c])] = "herr"))
                    [] out[c] = "ctxerr" -> ctx[c]
                    [] OTHER -> FALSE
U2_RetryJustified == \A c \in Calls : try[c] = 2 =>
                        /\ cfgH /\ first[c].kind = "urlreq"
                        /\ asked[c] = first[c].ids /\ Len(hres[c]) = Len(asked[c])
                        /\ \A k \in 1..Len(hres[c]) : hres[c][k] # "herr"
                        /\ \A k \in 1..Len(first[c].ids) : first[c].ids[k] \in seen[c]
IsPrefix(s, t) == Len(s) <= Len(t) /\ \A k \in 1..Len(s) : s[k] = t[k]
U3_HandlerJustified == \A c \in Calls :
                        /\ asked[c] # <<>> => (cfgH /\ first[c].kind = "urlreq" /\ IsPrefix(asked[c], first[c].ids))
                        /\ Len(hres[c]) <= Len(asked[c]) /\ Len(asked[c]) <= Len(hres[c]) + 1
                        /\ \A k \in 1..Len(hres[c]) : (hres[c][k] = "herr" => k = Len(asked[c]))
U4_NoLeak == \A i \in IdsAll : pending[i] # Nil => pc[pending[i][1]] \notin {"idle", "done"}
U4_AllGone == (\A c \in Calls : pc[c] \in {"idle", "done"}) => \A i \in IdsAll : pending[i] = Nil
\* a completion handled while c was registered for the id is in c's channel until c consumes it
U5_CompletionReachesWaiter == \A c \in Calls : Waiting(c) => \A k \in got[c] : tok[c][k] = 1 \/ k \in used[c]
U5_UnknownHarmless == pending[Unknown] = Nil
Safety == TypeOK /\ U1_ExactlyOnce /\ U1_Faithful /\ U2_RetryJustified /\ U3_HandlerJustified /\ U4_NoLeak /\ U4_AllGone
          /\ U5_UnknownHarmless

\* Liveness: the environment answers every attempt, lets every consultation return, and completes what it owes
Fair == /\ \A c \in Calls : WF_vars(ClientStep(c))
        /\ WF_vars(CliNotify)
        /\ \A c \in Calls : WF_vars(\E r \in Resps(c) : SrvRespond(c, r))
        /\ \A c \in Calls : WF_vars(\E h \in HResults : AskEnd(c, h))
        /\ WF_vars(\E i \in Owed : SrvNotify(i))
FairSpec == Spec /\ Fair
U6_Returns == \A c \in Calls : (pc[c] = "send") ~> (pc[c] = "done")
=============================================================================
