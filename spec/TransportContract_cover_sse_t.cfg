SPECIFICATION Spec
CONSTANTS
  Class = "sse"
  Ideal = FALSE
  KSet = {"n"}
  NW <- W01
  NR <- W11
  NC <- W11
  WMax = 3
  CMax = 2
VIEW CoverView
CHECK_DEADLOCK FALSE
