SPECIFICATION Spec
CONSTANTS
  Class = "stream"
  Ideal = FALSE
  KSet = {"n", "orph"}
  NW <- W11
  NR <- W11
  NC <- W11
  WMax = 3
  CMax = 2
INVARIANTS ClosedStopsReads
CHECK_DEADLOCK FALSE
