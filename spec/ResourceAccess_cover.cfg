SPECIFICATION Spec
CONSTANTS
  Readers = {"r1", "r2"}
  XE = {"E2"}
  XT = {"Tda", "Tp"}
  MaxMut = 3
  MaxRead = 2
CONSTANT XU <- URIs2
VIEW CoverView
INVARIANTS Linearizable
CHECK_DEADLOCK FALSE
