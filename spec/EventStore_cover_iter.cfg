SPECIFICATION IterCoverSpec
CONSTANTS
  Sessions = {"s1","s2"}
  Streams = {"t1"}
  Sizes = {2}
  Limits = {2,3}
  Iters = {"k1"}
  CoverIdxN = 2
  DefaultMax = 100
  MaxAppends = 3
CONSTRAINT Bound
VIEW IterCoverView
