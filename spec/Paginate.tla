------------------------------ MODULE Paginate ------------------------------
(* Specification of paginated feature listing, property C17.                  *)
(*                                                                            *)
(* Code modelled: mcp/features.go (featureSet: features map + lazily rebuilt  *)
(* sortedKeys index, add/remove/above/all), mcp/server.go paginateList        *)
(* (keyset pagination: the cursor encodes the unique id of the last item of   *)
(* the page; the next page is "ids strictly greater"; pageSize+1 items are    *)
(* probed to decide whether a next cursor is issued), mcp/client.go paginate  *)
(* (the iterator: call List with the cursor of the previous result until the  *)
(* cursor comes back empty).                                                  *)
(*                                                                            *)
(* Ids are 1..N; their numeric order stands for the byte order of the unique  *)
(* ids.  A cursor is a number 0..N: 0 is the empty cursor (first page), c > 0 *)
(* is a token whose decoded uid has exactly c universe ids <= it (an issued   *)
(* cursor for id c, or a forged one for a string between id c and id c+1).    *)
(* BadCur is any string that does not decode to a page token.                 *)
(*                                                                            *)
(* Identifier classes: what an id looks like is part of the state.  A server  *)
(* lists one feature kind; every id of the universe has a class "size/flav":  *)
(* how long its unique id is (tool names end at the 128-byte limit, prompt    *)
(* names, resource URIs and URI templates have no limit: ~150 bytes, ~1 KB,   *)
(* several KB) and which unusual but legal characters it is made of           *)
(* (percent-escapes, query strings, non-ASCII, characters that JSON or        *)
(* base64 must escape).  The cursor a page carries embeds the unique id of    *)
(* the page's last item, so its length follows that id's class: tEndCls is    *)
(* the class of the identifier that ended the last non-final page, and the    *)
(* cursor made from it must be accepted like any other (ListResult does not   *)
(* look at the class: there is no bound on an issued cursor).                 *)
(*                                                                            *)
(* Visibility filter: between the server's paginateList and the client there  *)
(* may be a receiving middleware (or a proxy, or the peer is not this SDK's   *)
(* server at all) that hides a class of features: the page ARRIVES with the   *)
(* hidden items removed but with the server's next cursor.  A page can thus   *)
(* be shortened or EMPTY on arrival and still carry a cursor.  A traversal    *)
(* (manual or through the client iterator) runs under one hidden set H; what  *)
(* is registered from the client's point of view is registered \ H.           *)
EXTENDS Integers, Sequences, FiniteSets, TLC

CONSTANTS Ids,        \* e.g. 1..5
          PageSizes,  \* e.g. {1,2,3}
          MaxMut,     \* bound on the number of mutations in a history
          MaxTrav,    \* bound on the number of traversals in a history
          HiddenSets, \* the hidden sets a traversal may run under (subsets of Ids; {} = no filter)
          ClassMaps   \* [kind -> the assignments Ids -> identifier class a history may start from]

\* feature kinds and, per kind, the identifier classes (size x flavour)
Kinds == {"tools", "prompts", "resources", "templates"}
SizesOf(k) == CASE k = "tools"     -> {"short", "n64", "n128"}          \* validateToolName: at most 128 bytes
                [] k = "prompts"   -> {"short", "n128", "n150", "k1"}   \* no limit on prompt names
                [] k = "resources" -> {"short", "n150", "k1", "k4"}     \* no limit on URIs
                [] k = "templates" -> {"short", "n150", "k1", "k4"}     \* no limit on URI templates
FlavoursOf(k) == CASE k = "tools"     -> {"plain", "punct"}                        \* [A-Za-z0-9_.-] only
                   [] k = "prompts"   -> {"plain", "utf8", "esc"}
                   [] k = "resources" -> {"plain", "pct", "query", "utf8", "esc"}
                   [] k = "templates" -> {"plain", "pct", "utf8", "esc", "expr"}
ClassTable == [k \in Kinds |-> {s \o "/" \o f : s \in SizesOf(k), f \in FlavoursOf(k)}]  \* (a constant: evaluated once)
Classes(k) == ClassTable[k]
ShortClass == "short/plain"
\* nominal byte length of a unique id of a size (lower, upper bound); k4 is "several KB"
SizeRange(s) == CASE s = "short" -> <<1, 60>>    [] s = "n64" -> <<64, 64>>     [] s = "n128" -> <<128, 128>>
                  [] s = "n150"  -> <<150, 200>> [] s = "k1"  -> <<1000, 1100>> [] s = "k4"   -> <<4000, 6500>>
NoClass == "none"

BadCur == -1
Cursors == 0..Cardinality(Ids)

VARIABLES registered,  \* featureSet.features (key set)
          idxValid,    \* sortedKeys # nil
          idx,         \* sortedKeys (<<>> when not valid)
          pageSize,    \* ServerOptions.PageSize
          kind,        \* the feature kind this server lists
          cls,         \* identifier class of every id of the universe (fixed for a history)
          tActive,     \* a manual traversal is in progress or finished
          tDone,       \* ... and has received an empty cursor
          tCursor,     \* cursor to use for the next fetch
          tEndCls,     \* class of the identifier that ended the last non-final page (its unique id is inside tCursor)
          tHidden,     \* ids the visibility filter hides during this traversal
          tSeen,       \* ghost: concatenation of the pages received so far
          tStable,     \* ghost: ids registered at every moment since the traversal started
          tInit,       \* ghost: registered set when the traversal started
          tMut,        \* ghost: some mutation happened since the traversal started
          nMut, nTrav, \* history bounds
          res          \* result of the last operation (output only)

svars == <<registered, idxValid, idx, pageSize, kind, cls, tActive, tDone, tCursor, tEndCls, tHidden, tSeen, tStable, tInit, tMut,
           nMut, nTrav, res>>

\* ascending sequence of a set of integers
RECURSIVE SortedSeq(_)
SortedSeq(S) == IF S = {} THEN <<>>
                ELSE LET m == CHOOSE x \in S : \A y \in S : x <= y IN <<m>> \o SortedSeq(S \ {m})

Range(q) == {q[i] : i \in DOMAIN q}
Count(q, x) == Cardinality({i \in DOMAIN q : q[i] = x})
Min(a, b) == IF a < b THEN a ELSE b
\* what arrives of a page when the filter hides H
Visible(q, H) == SelectSeq(q, LAMBDA x : x \notin H)

\* featureSet.sortKeys: rebuild only when nil
SortKeys == IF idxValid THEN idx ELSE SortedSeq(registered)

\* featureSet.above(uid) on index k: binary search; found -> index+1; yieldFrom(index)
\* (0-based `index` = number of keys < c; if key c is present skip it)
StartIndex(k, c) ==
  LET below == Cardinality({i \in DOMAIN k : k[i] < c})
      found == \E i \in DOMAIN k : k[i] = c
  IN IF found THEN below + 1 ELSE below

\* paginateList: result for cursor c over index k with page size ps
PageOf(k, ps, c) ==
  LET start == IF c = 0 THEN 0 ELSE StartIndex(k, c)     \* all() vs above()
      avail == Len(k) - start
      count == Min(avail, ps + 1)                        \* the loop breaks at pageSize+1
      items == SubSeq(k, start + 1, start + Min(avail, ps))
      next  == IF count < ps + 1 THEN 0 ELSE items[Len(items)]
  IN [kind |-> "page", items |-> items, full |-> items, next |-> next]

\* the server's answer (`full`: the page as built by paginateList; `items`: the page as it arrives)
ListResult(c) == IF c = BadCur THEN [kind |-> "invalid-params", items |-> <<>>, full |-> <<>>, next |-> 0]
                 ELSE PageOf(SortKeys, pageSize, c)
\* ... seen through a filter that hides H: items removed, cursor untouched
Arrives(r, H) == [r EXCEPT !.items = Visible(r.full, H)]

TravUnchanged == UNCHANGED <<tActive, tDone, tCursor, tEndCls, tHidden, tSeen, tStable, tInit, tMut, nTrav>>

Init == /\ registered \in SUBSET Ids
        /\ idxValid = FALSE /\ idx = <<>>
        /\ pageSize \in PageSizes
        /\ kind \in Kinds /\ cls \in ClassMaps[kind]
        /\ tActive = FALSE /\ tDone = FALSE /\ tCursor = 0 /\ tEndCls = NoClass /\ tHidden = {} /\ tSeen = <<>>
        /\ tStable = {} /\ tInit = {} /\ tMut = FALSE
        /\ nMut = 0 /\ nTrav = 0
        /\ res = [kind |-> "none"]

\* featureSet.add of a new id / of an existing id (replace); both reset the index
Add(i) ==
  /\ i \notin registered
  /\ registered' = registered \cup {i}
  /\ idxValid' = FALSE /\ idx' = <<>>
  /\ tMut' = (tMut \/ (tActive /\ ~tDone))
  /\ nMut' = nMut + 1
  /\ res' = [kind |-> "ok"]
  /\ UNCHANGED <<pageSize, kind, cls, tActive, tDone, tCursor, tEndCls, tHidden, tSeen, tStable, tInit, nTrav>>

Replace(i) ==
  /\ i \in registered
  /\ idxValid' = FALSE /\ idx' = <<>>
  /\ tMut' = (tMut \/ (tActive /\ ~tDone))
  /\ nMut' = nMut + 1
  /\ res' = [kind |-> "ok"]
  /\ UNCHANGED <<registered, pageSize, kind, cls, tActive, tDone, tCursor, tEndCls, tHidden, tSeen, tStable, tInit, nTrav>>

\* featureSet.remove: resets the index only when something was removed
Remove(i) ==
  /\ registered' = registered \ {i}
  /\ IF i \in registered THEN idxValid' = FALSE /\ idx' = <<>> ELSE UNCHANGED <<idxValid, idx>>
  /\ tStable' = tStable \ {i}
  /\ tMut' = (tMut \/ (tActive /\ ~tDone /\ i \in registered))
  /\ nMut' = nMut + 1
  /\ res' = [kind |-> "ok"]
  /\ UNCHANGED <<pageSize, kind, cls, tActive, tDone, tCursor, tEndCls, tHidden, tSeen, tInit, nTrav>>

\* a manual traversal starts under the filter H
StartTraversal(H) ==
  /\ ~tActive \/ tDone
  /\ tActive' = TRUE /\ tDone' = FALSE /\ tCursor' = 0 /\ tHidden' = H /\ tSeen' = <<>>
  /\ tStable' = registered /\ tInit' = registered /\ tMut' = FALSE
  /\ nTrav' = nTrav + 1
  /\ res' = [kind |-> "ok"]
  /\ tEndCls' = NoClass
  /\ UNCHANGED <<registered, idxValid, idx, pageSize, kind, cls, nMut>>

\* one page of the manual traversal (= one round of the client iterator's loop): the items that
\* arrive are appended, and the NEXT CURSOR ALONE decides whether the traversal goes on - an
\* empty or shortened page with a cursor is followed like any other
FetchPage ==
  /\ tActive /\ ~tDone
  /\ LET r == Arrives(ListResult(tCursor), tHidden) IN
       /\ res' = r
       /\ tSeen' = tSeen \o r.items
       /\ tCursor' = r.next
       /\ tDone' = (r.next = 0)
       \* the next cursor embeds the unique id of the page's last item as built by the server, whatever its class
       /\ tEndCls' = IF r.next = 0 THEN NoClass ELSE cls[r.next]
  /\ idxValid' = TRUE /\ idx' = SortKeys
  /\ UNCHANGED <<registered, pageSize, kind, cls, tActive, tHidden, tStable, tInit, tMut, nMut, nTrav>>

\* a list request with an arbitrary cursor, outside any traversal (a well-formed token for position c may embed a
\* unique id of any class - issued, stale or forged; the answer does not depend on it)
Probe(c) ==
  /\ res' = [ListResult(c) EXCEPT !.kind = IF c = BadCur THEN "invalid-params" ELSE "probe"]
  /\ IF c = BadCur THEN UNCHANGED <<idxValid, idx>> ELSE idxValid' = TRUE /\ idx' = SortKeys
  /\ UNCHANGED <<registered, pageSize, kind, cls, nMut>>
  /\ TravUnchanged

BadCursor == Probe(BadCur)

\* the client iterator run to completion in one go (no mutation in between) under the filter H:
\* yield what arrives, go on while there is a cursor
RECURSIVE Walk(_, _, _, _, _)
Walk(k, ps, c, fuel, H) ==
  LET r == Arrives(PageOf(k, ps, c), H) IN
  IF r.next = 0 \/ fuel = 0 THEN r.items ELSE r.items \o Walk(k, ps, r.next, fuel - 1, H)

Iterate(H) ==
  /\ res' = [kind |-> "iter", items |-> Walk(SortKeys, pageSize, 0, Cardinality(Ids) + 1, H), set |-> registered \ H]
  /\ idxValid' = TRUE /\ idx' = SortKeys
  /\ UNCHANGED <<registered, pageSize, kind, cls, nMut>>
  /\ TravUnchanged

Next ==
  \/ \E i \in Ids : Add(i) \/ Remove(i) \/ Replace(i)
  \/ \E H \in HiddenSets : StartTraversal(H)
  \/ FetchPage
  \/ \E c \in Cursors : Probe(c)
  \/ BadCursor
  \/ \E H \in HiddenSets : Iterate(H)

Spec == Init /\ [][Next]_svars

-----------------------------------------------------------------------------
\* Properties (C17)

IsStrictlyIncreasing(q) == \A i, j \in DOMAIN q : i < j => q[i] < q[j]

\* a full traversal without mutation returns exactly the registered (visible) set, each item once
ExactlyOnceNoMutation ==
  (tDone /\ ~tMut) => /\ Range(tSeen) = tInit \ tHidden
                      /\ Len(tSeen) = Cardinality(tInit \ tHidden)

\* items registered throughout a traversal appear exactly once, whatever else was added or removed
StableExactlyOnce == tDone => \A i \in tStable \ tHidden : Count(tSeen, i) = 1

\* the filter works: nothing hidden ever arrives
HiddenNeverSeen == Range(tSeen) \cap tHidden = {}

\* one stable order: ascending unique id, also across pages and under mutation
StrictlyIncreasing == IsStrictlyIncreasing(tSeen)

\* nothing is ever listed twice, stable or not
NoDuplicates == \A i \in Ids : Count(tSeen, i) <= 1

\* a traversal ends: the cursor is empty exactly when done, and progress is strict
EndsWithEmptyCursor ==
  /\ (tActive /\ tDone) => tCursor = 0
  /\ (tActive /\ ~tDone /\ tSeen # <<>>) => /\ tCursor >= tSeen[Len(tSeen)]
                                            /\ tHidden = {} => tCursor = tSeen[Len(tSeen)]
  /\ Len(tSeen) <= Cardinality(Ids)

\* the identifier that ended a non-final page is explicit: it is the one inside the cursor, and the cursor
\* made from it is accepted whatever its class (an issued cursor is never refused)
EndClassExplicit ==
  /\ tEndCls = IF tActive /\ ~tDone /\ tCursor # 0 THEN cls[tCursor] ELSE NoClass
  /\ (tActive /\ ~tDone) => ListResult(tCursor).kind = "page"

BadCursorRejected == res.kind = "invalid-params" => (res.items = <<>> /\ res.next = 0)

\* as built by the server (`full`) pages never exceed the page size, a non-final page is full and a cursor
\* names the page's last item; what arrives (`items`) is a subsequence of it
PageShape ==
  res.kind \in {"page", "probe"} =>
     /\ Len(res.full) <= pageSize
     /\ res.next # 0 => (Len(res.full) = pageSize /\ res.next = res.full[Len(res.full)])
     /\ \A i \in DOMAIN res.full : res.full[i] \in registered
     /\ Range(res.items) \subseteq Range(res.full) /\ Len(res.items) <= Len(res.full)

IteratorEqualsManual ==
  res.kind = "iter" => res.items = SortedSeq(res.set)

\* the lazily rebuilt index is never stale
IndexFresh == idxValid => idx = SortedSeq(registered)

TypeOK == /\ registered \subseteq Ids /\ pageSize \in PageSizes /\ tCursor \in Cursors
          /\ tStable \subseteq registered /\ tHidden \subseteq Ids
          \* (kind and cls never change: outside a traversal is enough; tEndCls is pinned down by EndClassExplicit)
          /\ kind \in Kinds /\ (~tActive => cls \in [Ids -> Classes(kind)])
=============================================================================
