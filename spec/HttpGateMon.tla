----------------------------- MODULE HttpGateMon -----------------------------
(* Monitor for C12 part (a): evaluates HttpGateDefs!Holds (verdict) and       *)
(* agreement with HttpGateDefs!Expected (strict / drift) on the outcomes of   *)
(* the real StreamableHTTPHandler / SSEHandler.  One observation per line:    *)
(*   [c |-> abstract request, o |-> [status, code, reached]]                  *)
EXTENDS VerifTrace, FiniteSets
G == INSTANCE HttpGateDefs

VARIABLE l
MInit == l = 1 /\ MarkInit
Case(e) == [kind |-> e.c.kind, listener |-> e.c.listener, host |-> e.c.host, ctype |-> e.c.ctype, accept |-> e.c.accept,
            body |-> e.c.body, vhdr |-> e.c.vhdr, meta |-> e.c.meta, mm |-> e.c.mm, mn |-> e.c.mn, mp |-> e.c.mp, msg |-> e.c.msg]
Out(e) == [status |-> e.o.status, code |-> e.o.code, reached |-> e.o.reached]
\* report with the abstract failing class so that the runner can build the signature
Report(inv, c) == PrintT(ToJson([monfail |-> inv, line |-> l, first |-> G!FirstFault(c), cls |-> G!FaultClass(c, G!FirstFault(c))]))
MNext == /\ l <= NLines /\ l' = l + 1
         /\ LET e == TraceLog[l]
                c == Case(e)
                o == Out(e)
            IN /\ (IF G!Sound(c, o) THEN TRUE ELSE Report("Sound", c))
               /\ (IF G!Mandated(c, o) THEN TRUE ELSE Report("Mandated", c))
               /\ Check(l, "drift", G!Matches(c, o))
MSpec == MInit /\ [][MNext]_l
MMark == MarkAt(l)
MAccepted == Accepted
=============================================================================
