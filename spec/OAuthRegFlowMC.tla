--------------------------- MODULE OAuthRegFlowMC ---------------------------
(* Configurations of OAuthRegFlow (X13):                                      *)
(*   OAuthRegFlow_mc.cfg     exhaustive design check, Rounds = 2, every        *)
(*                           outcome set but the lead; safety + liveness       *)
(*   OAuthRegFlow_lead.cfg   with the lead outcome (issued_token_type is not   *)
(*                           id-jag): OnlyIDJAGForwarded must be violated      *)
(*   OAuthRegFlow_cover.cfg  the state graph modulo ghosts, dumped for the     *)
(*                           transition cover and the seeded samples           *)
(*   OAuthRegFlow_gen.cfg    reduced outcome sets: every terminal behaviour    *)
(*                           is replayed in the thorough tier                  *)
(*   OAuthRegFlow_wit1/2.cfg witnesses (must be violated: reachable states)    *)
EXTENDS OAuthRegFlow

GenCfgURLs == {"https", "http"}
GenIdOutcomes == {"ok", "missing"}
GenMetaOutcomes == {"good", "good_lo", "notoken", "tok_http", "none404"}
GenExOutcomes == {"idjag", "othertype", "noissued", "err400"}
GenJwtOutcomes == {"good", "err400", "noat"}
=============================================================================
