----------------------------- MODULE DispatchFn -----------------------------
(* X15: the variable-free definitions shared by the design specification      *)
(* (Dispatch.tla) and the monitor (DispatchMon.tla): the vocabulary and THE   *)
(* DOCUMENTED COMPOSITION of middleware as pure functions of a chain, the     *)
(* behaviour of its members and what the layer below returns.                 *)
EXTENDS Integers, Sequences, FiniteSets, TLC

\* ------------------------------------------------------------ vocabulary
\* kinds: cc = client calls the custom method x/do (CallCustomMethod)        cn = client sends notifications/progress
\*        sc = server calls sampling/createMessage (legacy era only)         sn = server sends notifications/progress
IsCall(k) == k \in {"cc", "sc"}
Snd(k) == IF k \in {"cc", "cn"} THEN "c" ELSE "s"
Rcv(k) == IF Snd(k) = "c" THEN "s" ELSE "c"
Key(p, d) == p \o "." \o d
Keys == {"c.send", "c.recv", "s.send", "s.recv"}

\* outcomes: a result (src = who produced it: handler id 1,2 / 10+m = middleware m short-circuited / 0 = none, for a
\* notification; tags = the middleware that rewrote it, innermost first) or an error (code)
Ok(src, tags) == [ok |-> TRUE, src |-> src, tags |-> tags, code |-> 0]
Err(code) == [ok |-> FALSE, src |-> 0, tags |-> <<>>, code |-> code]
NoOut == Err(0)
CodeUnreg == 1          \* CallCustomMethod: not registered (local, nothing written)
CodeRefused == 2        \* 2026-07-28: the server may not initiate sampling/createMessage (local, nothing written)
CodeNotFound == -32601
CodePanic == 4999       \* a panic below a middleware (the harness's middleware recovers it and returns this code)
FailCode(m) == 4000 + m

\* ------------------------------------------------------------ the documented composition (functional)
\* what the middleware ch[j..] return for a request of kind k when the layer below them returns `bottom`
ShortOut(m, k) == IF IsCall(k) THEN Ok(10 + m, <<>>) ELSE Ok(0, <<>>)
PostEff(b, m, k, out) ==
  CASE b = "tagr" /\ out.ok /\ IsCall(k) -> [out EXCEPT !.tags = Append(@, m)]
    [] b = "fail" -> Err(FailCode(m))
    [] OTHER -> out
RECURSIVE LegOut(_, _, _, _, _)
LegOut(bh, ch, j, k, bottom) ==
  IF j > Len(ch) THEN bottom
  ELSE LET m == ch[j] IN
       IF bh[m] = "short" THEN ShortOut(m, k) ELSE PostEff(bh[m], m, k, LegOut(bh, ch, j + 1, k, bottom))
\* the layers ch[1..n] entered for a request: down to the first short-circuit
RECURSIVE Entered(_, _, _)
Entered(bh, ch, j) == IF j > Len(ch) THEN <<>>
                      ELSE IF bh[ch[j]] = "short" THEN <<ch[j]>> ELSE <<ch[j]>> \o Entered(bh, ch, j + 1)
Through(bh, ch) == \A j \in DOMAIN ch : bh[ch[j]] # "short"
\* the params rewrites a layer at position j of ch sees: those of the layers above it (pt0 = what arrived at the leg)
RECURSIVE TagsAbove(_, _, _, _)
TagsAbove(bh, ch, j, pt0) == IF j <= 1 THEN pt0
                             ELSE LET t == TagsAbove(bh, ch, j - 1, pt0) IN
                                  IF bh[ch[j - 1]] = "tagp" THEN Append(t, ch[j - 1]) ELSE t

=============================================================================
