--------------------------- MODULE CodecWriteDefs ----------------------------
(* Part of the definitions for property C19 (see CodecDefs, section 11), in a *)
(* module of its own so that the state machine CodecWrite.tla does not have   *)
(* to load the decision tables of CodecDefs.                                  *)
EXTENDS Integers, Sequences, FiniteSets
(* Concurrent writers through one newline-delimited connection (C19, 11.)     *)
(* Connection.Write may be called concurrently (mcp/transport.go: "Write may  *)
(* be called concurrently, as calls or responses may occur concurrently in    *)
(* user code"; jsonrpc2.Connection does not serialise its writes), and an     *)
(* io.Writer owes no atomicity to concurrent callers: the writer under an     *)
(* IOTransport may deliver one Write in several pieces and yield in between   *)
(* (a chunking, buffering, compressing or tunnelling writer).  The state      *)
(* machine is CodecWrite.tla; here are the attributes of a case that do not   *)
(* change the machine, and the property on what the peer reads.               *)
\* which branches of ioConn.Write the writers take: requests and notifications / responses (results and errors
\* with data) / one of each
WwMixes == {"requests", "responses", "mixed"}
\* where the underlying writer cuts a Write into its pieces: evenly / the line end is a piece of its own /
\* the first byte is a piece of its own
WwCuts  == {"even", "nl-alone", "first-byte"}

IsPermOf(s, k) == Len(s) = k /\ {s[i] : i \in 1..Len(s)} = 1..k
\* Outcome [errs, frames, peer, peerEnd]: writers whose Write did not return nil; for every line of the byte
\* stream (an unterminated rest counts as a line) the writer whose message it decodes to, 0 if it does not
\* decode or is nobody's message; the same for the messages a real ioConn reads from that stream; how that
\* reader's stream ended ("eof" / "error").
\* The stream is a sequence of whole frames, each decoding to one of the written messages, every message
\* exactly once - for a line-by-line reader and for the SDK's own reader alike.
FramesIntact(c, o) == /\ o.errs = 0
                      /\ IsPermOf(o.frames, c.k)
                      /\ o.peer = o.frames /\ o.peerEnd = "eof"
=============================================================================
