SPECIFICATION Spec
CONSTANTS
  Class = "streamns"
  Ideal = FALSE
  KSet = {"n", "orph"}
  NW <- W21
  NR <- W12
  NC <- W11
  WMax = 3
  CMax = 2
INVARIANTS TypeOK Fifo NoSpuriousError NoLoss RestClose RestRead RestWrite RestNoLoss
PROPERTIES ClosedForGood
CHECK_DEADLOCK FALSE
