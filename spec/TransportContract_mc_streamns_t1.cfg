SPECIFICATION Spec
CONSTANTS
  Class = "streamns"
  Ideal = FALSE
  KSet = {"n", "orph"}
  NW <- W20
  NR <- W02
  NC <- W11
  WMax = 3
  CMax = 2
INVARIANTS TypeOK Fifo NoSpuriousError NoLoss RestAll
PROPERTIES ClosedForGood
CHECK_DEADLOCK FALSE
