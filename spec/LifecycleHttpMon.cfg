SPECIFICATION MSpec
CONSTRAINT MMark
POSTCONDITION MAccepted
CHECK_DEADLOCK FALSE
