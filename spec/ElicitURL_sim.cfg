SPECIFICATION GenSpec
CONSTANTS
  Unknown = "u"
  MaxLen = 2
  Calls = {1, 2, 3}
  HResults = {"accept", "decline", "cancel", "herr"}
  Ids = {"x", "y", "z"}
  MaxSpur = 3
  Handlers = {TRUE, FALSE}
  AllowCancel = TRUE
  DeclineNoCompl = FALSE
  TrackOwed = TRUE
  ListsOf <- ListsSim
  KindsOf <- AllKinds
CONSTRAINT Export
CHECK_DEADLOCK FALSE
