SPECIFICATION FairSpec
CONSTANTS
  Unknown = "u"
  MaxLen = 2
  Calls = {1}
  HResults = {"accept", "decline", "herr"}
  Ids = {"x", "y", "z"}
  MaxSpur = 0
  Handlers = {TRUE}
  AllowCancel = FALSE
  DeclineNoCompl = TRUE
  TrackOwed = TRUE
  ListsOf <- ListsLive
  KindsOf <- LiveKinds
PROPERTIES U6_Returns
CHECK_DEADLOCK FALSE
