SPECIFICATION SeamSpec
CONSTANTS
  Calls = {"k1"}
  CCl = {}
  SCl = {"s1"}
  Stateless = FALSE
  Timeout = TRUE
  Sse = TRUE
  Nested = TRUE
  Faults = {"vanish"}
  DelModes = {}
  Helds = FALSE
  Notifs = FALSE
  Cancels = TRUE
  AwaitHandlers = TRUE
  StopSseOnClose = TRUE
VIEW MCView
INVARIANTS TypeOK NothingDispatchedAfterClose RunningHandlersFinish SessionRemoved
CHECK_DEADLOCK FALSE
