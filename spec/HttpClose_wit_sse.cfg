\* switch: client Close does not stop the standalone stream; CliNoLeftovers must be violated
SPECIFICATION MCLive
CONSTANTS
  Calls = {"k1"}
  CCl = {"c1"}
  SCl = {}
  Stateless = FALSE
  Timeout = TRUE
  Sse = TRUE
  Nested = FALSE
  Faults = {"cut"}
  DelModes = {"fail"}
  Helds = FALSE
  Notifs = FALSE
  Cancels = FALSE
  AwaitHandlers = TRUE
  StopSseOnClose = FALSE
VIEW MCView
PROPERTIES CliNoLeftovers
CHECK_DEADLOCK FALSE
