SPECIFICATION Spec
CONSTANTS
  MaxLen = 3
  AlphaSel = "core"
INVARIANTS TypeOK DesignOK InvGateBeforeInit InvDuplicateInitRejected InvPrematureInitializedRejected
  InvRepeatedInitializedRejected InvPingAlways InvModernServedIffMetaComplete InvRemovedMethodsNotFound
  LeadBreaksGate Export
CHECK_DEADLOCK FALSE
