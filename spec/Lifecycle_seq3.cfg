SPECIFICATION Spec
CONSTANTS
  MaxLen = 3
  AlphaSel = "core"
INVARIANTS TypeOK DesignOK InvGateBeforeInit InvDuplicateInitRejected InvPrematureInitializedRejected
  InvRepeatedInitializedRejected InvFirstInitializedTakesEffect InvPingAlways InvModernServedIffMetaComplete InvRemovedMethodsNotFound
  LeadBreaksGate Export
CHECK_DEADLOCK FALSE
