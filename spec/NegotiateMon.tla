---------------------------- MODULE NegotiateMon ----------------------------
(* Monitor for C07: evaluates the clauses of NegotiateDefs!Holds (verdict)   *)
(* and equality with NegotiateDefs!Expected (strict / drift) on outcomes of  *)
(* real client/server pairs recorded by harness/mcp/c07_negotiate_test.go.   *)
EXTENDS VerifTrace, FiniteSets
N == INSTANCE NegotiateDefs

VARIABLE l
MInit == l = 1 /\ MarkInit
Case(e) == [req |-> e.c.req, tr |-> e.c.tr, json |-> e.c.json, store |-> e.c.store, wrap |-> e.c.wrap,
            adv |-> AsSet(e.c.adv), disc |-> e.c.disc, dbody |-> e.c.dbody, prior |-> e.c.prior, early |-> e.c.early,
            ians |-> e.c.ians]
Out(e) == [kind |-> e.o.kind, version |-> e.o.version, nDisc |-> e.o.nDisc, sentInit |-> e.o.sentInit,
           listOK |-> e.o.listOK, callOK |-> e.o.callOK]
MNext == /\ l <= NLines /\ l' = l + 1
         /\ LET e == TraceLog[l] c == Case(e) o == Out(e) IN
              /\ Check(l, "Sound", N!Sound(c, o))
              /\ Check(l, "NoModernOverLegacyTransport", N!NoModernOverLegacyTransport(c, o))
              /\ Check(l, "Exact", N!Exact(c, o))
              /\ Check(l, "Fallback", N!Fallback(c, o))
              /\ Check(l, "Usable", N!Usable(c, o))
              /\ Check(l, "drift", o = N!Expected(c))
MSpec == MInit /\ [][MNext]_l
MMark == MarkAt(l)
MAccepted == Accepted
=============================================================================
