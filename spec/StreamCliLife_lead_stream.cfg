\* D6 as implemented: must violate NothingLeft
SPECIFICATION SettledSpec
CONSTANTS
  NC = 3
  Profiles <- ProfLeadStream
  FixCancel = FALSE
  FixStream = FALSE
INVARIANTS NothingLeft
CHECK_DEADLOCK FALSE
