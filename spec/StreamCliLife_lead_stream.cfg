\* D6 as implemented: must violate NothingLeft
SPECIFICATION SettledSpec
CONSTANTS
  NC = 2
  SASet = {FALSE}
  OAuthSet = {FALSE}
  DelSet = {"ok"}
  PostSet = {"json", "sse", "404"}
  GetSet = {"405"}
  InitH = {"A"}
  HSet = {""}
  MaxNotify = 0
  MaxSaEv = 0
  MaxAuth = 0
  MaxClose = 1
  AllowCancel = FALSE
  FixCancel = FALSE
  FixStream = FALSE
INVARIANTS NothingLeft
CHECK_DEADLOCK FALSE
