\* thorough: two calls, disconnects and network death, client-side Close only
SPECIFICATION MCSpec
CONSTANTS
  Calls = {"k1", "k2"}
  CCl = {"c1"}
  SCl = {}
  Stateless = FALSE
  Timeout = TRUE
  Sse = TRUE
  Nested = FALSE
  Faults = {"cut", "net"}
  DelModes = {}
  Helds = FALSE
  Notifs = FALSE
  Cancels = FALSE
  AwaitHandlers = TRUE
  StopSseOnClose = TRUE
VIEW MCView
INVARIANTS TypeOK NothingDispatchedAfterClose RunningHandlersFinish SessionRemoved
CHECK_DEADLOCK FALSE
