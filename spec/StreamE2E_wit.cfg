SPECIFICATION Spec
CONSTANTS
  Reqs <- R1
  HasSa = FALSE
  PrimeSet <- Both
  MaxRetries = 2
  MaxWrites = 2
  MaxCuts = 4
  MaxFails = 2
  ArmN = 0
  CutHows <- HowsBasic
  FailKinds <- FailsBasic
  SrvRenumberBug = FALSE
CHECK_DEADLOCK FALSE
