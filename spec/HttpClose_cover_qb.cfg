SPECIFICATION SeamSpec
CONSTANTS
  Calls = {"k1"}
  CCl = {"c1"}
  SCl = {}
  Stateless = FALSE
  Timeout = TRUE
  Sse = TRUE
  Nested = FALSE
  Faults = {"cut", "net"}
  DelModes = {"hang"}
  Helds = FALSE
  Notifs = FALSE
  Cancels = FALSE
  AwaitHandlers = TRUE
  StopSseOnClose = TRUE
VIEW MCView
INVARIANTS TypeOK NothingDispatchedAfterClose RunningHandlersFinish SessionRemoved
CHECK_DEADLOCK FALSE
