SPECIFICATION GSpec
CONSTANTS
  Sess = {"s1"}
  Reqs = {"r1"}
  Gets = {"g1","g2"}
  Cfgs <- CfgStorePrime
  MaxEmit = 1
  MaxSreq = 0
  MaxSa = 0
  MaxBc = 0
  DupOf <- NoDup
  Gates = TRUE
VIEW MCView
INVARIANTS ResumeExact IdsDense IdStable StoreBeforeDeliver CompleteAtEnd CompleteAtRest FinalObtainable RefusedOnlyOnConflict ResponseOnOwnExchange NestedRouting NoCrossSession RoutingEntryLifecycle LockDiscipline IdUnique
CHECK_DEADLOCK FALSE
