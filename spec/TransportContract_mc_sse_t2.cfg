SPECIFICATION Spec
CONSTANTS
  Class = "sse"
  Ideal = FALSE
  KSet = {"n"}
  NW <- W02
  NR <- W20
  NC <- W11
  WMax = 3
  CMax = 2
INVARIANTS TypeOK Fifo NoSpuriousError NoLoss RestAll ClosedStopsWrites
PROPERTIES ClosedForGood
CHECK_DEADLOCK FALSE
