SPECIFICATION Spec
VIEW CoverView
INVARIANT ResultKnown
CHECK_DEADLOCK FALSE
