SPECIFICATION MCSpec
CONSTANTS
  MaxSess = 2
  T = 3
  Stateless = FALSE
  MaxSlots = 2
  MaxParked = 2
INVARIANTS MintOnlyOnCreate DeadStaysDead UserBound NoTimeoutDuringPost StatelessNoIds ClosedAndForgotten TimerDiscipline
PROPERTIES MintStep AtMostOneSession DeadForever ResAlways
VIEW MCView
CHECK_DEADLOCK FALSE
