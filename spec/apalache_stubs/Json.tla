-------------------------------- MODULE Json --------------------------------
(* Stub of the CommunityModules module Json FOR APALACHE ONLY (never seen by  *)
(* TLC: vlib.run_tlc copies only the files directly in spec/).  The real      *)
(* module is not typable by Apalache's type checker (string concatenation);   *)
(* the *MC modules use it only in their Export* operators (PrintT(ToJson(..)))*)
(* which play no part in Init / Next / IndInv.  A check that discharges an    *)
(* inductive invariant with Apalache over a module whose closure contains     *)
(* `EXTENDS Json` puts this file next to the copied specs.                    *)

\* @type: a => Str;
ToJson(value) == "json"
\* @type: a => Str;
ToJsonArray(value) == "json"
\* @type: a => Str;
ToJsonObject(value) == "json"
\* @type: (Str, a) => Bool;
JsonSerialize(absoluteFilename, value) == TRUE
\* @type: (Str, a) => Bool;
ndJsonSerialize(absoluteFilename, value) == TRUE
=============================================================================
