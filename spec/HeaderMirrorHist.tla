--------------------------- MODULE HeaderMirrorHist ---------------------------
(* The client-side history machine of HeaderMirrorDefs (tools/list cache with *)
(* its generation counter, listing split into ListSent / ListAnswered /       *)
(* ListDelivered per page, ToolChanged, NotifiedDelivered) as a behaviour     *)
(* specification: TLC enumerates every history of at most MaxLen steps - each *)
(* reachable state is one history, with the cache state it leads to - and     *)
(* checks the design facts (HeaderMirrorDefs!HistFacts) on each.              *)
(* HeaderMirrorHist_coldnobump.cfg is the sensitivity witness: with           *)
(* "invalidate leaves the generation alone when nothing is cached" the facts  *)
(* NoticeSuffices / NotifiedNeverOutdated fail (first tools/list answered     *)
(* before a change, delivered after its notification).                        *)
(* Histories in which something falls inside a listing are exported when the  *)
(* client is Informed after them (at most RaceLen steps), when it is informed *)
(* by notice (at most NoticeLen steps) and in any case up to DriftLen steps:  *)
(* the Go harness plays them on the real client and server (c12.py crosses    *)
(* them with HeaderMirror!RaceRows).                                          *)
EXTENDS HeaderMirrorDefs, Json, SequencesExt
CONSTANTS MaxLen, RaceLen, NoticeLen, DriftLen
VARIABLES cfg, steps, st
vars == <<cfg, steps, st>>
True == TRUE
\* the configurations explored (the what-if run looks at subscribed clients only: the others get no notification)
CfgSet == Cfgs
SubCfgs == {g \in Cfgs : g.sub}

HInit == cfg \in CfgSet /\ steps = << >> /\ st = St0
HStep(s) == /\ Len(steps) < MaxLen
            /\ s \in Enabled(cfg, st)
            /\ steps' = Append(steps, s)
            /\ st' = Apply(cfg, st, s)
            /\ UNCHANGED cfg
ListAtomic == HStep("list")
Wait == HStep("wait")
ToolChanged == HStep("change")
ToolMoved == HStep("shrink")
NotifiedDelivered == HStep("notify")
ListSent == HStep("send")
ListAnswered == HStep("answer")
ListDelivered == HStep("deliver")
HNext == ListAtomic \/ Wait \/ ToolChanged \/ ToolMoved \/ NotifiedDelivered \/ ListSent \/ ListAnswered \/ ListDelivered
HSpec == HInit /\ [][HNext]_vars

Hist == WithSteps(cfg, steps)
TypeOK == /\ st.fly.ph \in {"idle", "sent", "ans"} /\ st.pend \in 0..MaxLen /\ st.gen \in 0..MaxLen
          /\ (~cfg.sub => st.pend = 0 /\ st.gen = 0 /\ ~st.told)
\* the state is the one HeaderMirrorDefs!Final computes from the steps (what HeaderMirror and the monitor use)
Replayable == WellFormed(Hist) /\ Final(Hist) = st
\* "wait" means something only under a positive ttl
NoIdleWait == cfg.ttl = "pos" \/ ~Has(Hist, "wait")
RacyNow == \/ \E i \in 2..Len(steps) : steps[i] \in {"answer", "deliver"} /\ steps[i - 1] \in EnvSteps
           \/ (Len(steps) > 0 /\ st.fly.ph # "idle")
Exported == /\ RacyNow /\ NoIdleWait
            /\ \/ Len(steps) <= DriftLen
               \/ (Len(steps) <= RaceLen /\ InformedSt(st))
               \/ (Len(steps) <= NoticeLen /\ ByNoticeSt(st))
HistInfoSt == [hist |-> Hist, informed |-> InformedSt(st), bynotice |-> ByNoticeSt(st), racy |-> TRUE,
               kinds |-> SetToSeq(DefKindsSt(st)), src |-> Source(Hist), named |-> FALSE]
Export == IF Exported THEN PrintT(ToJson([racehist |-> HistInfoSt])) ELSE TRUE
FactListedStaysKnown == ListedStaysKnown(Hist, st)
FactNeverListedKnowsNothing == NeverListedKnowsNothing(Hist, st)
FactInformedHoldsCurrent == InformedHoldsCurrent(Hist, st)
FactOutdatedOnlyFromOrphans == OutdatedOnlyFromOrphans(Hist, st)
FactNotifiedNeverOutdated == NotifiedNeverOutdated(Hist, st)
FactNoticeSuffices == NoticeSuffices(Hist, st)
FactStaleNeverStoredAfterNotice == StaleNeverStoredAfterNotice(Hist, st)
=============================================================================
