SPECIFICATION MCCoverSpec
CONSTANTS
  MaxSess = 1
  T = 3
  Stateless = FALSE
  MaxSlots = 2
  MaxParked = 2
  StoreModes = {"nopurge", "down"}
VIEW CoverView
INVARIANTS NoTimeoutDuringPost ClosedAndForgotten TimerDiscipline
CHECK_DEADLOCK FALSE
