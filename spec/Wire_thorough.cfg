CONSTANT MaxBatch = 4
CONSTANT FrameCalls = 3
