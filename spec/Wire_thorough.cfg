CONSTANT MaxBatch = 4
