------------------------------ MODULE NotifyMon ------------------------------
(* Property monitor for C18 over the observation log of the scenario harness  *)
(* (harness/mcp/c18_notify_test.go).  One log line = one event; `m` is ghost  *)
(* bookkeeping built only from what the environment did and what the server   *)
(* and the clients were seen to do:                                           *)
(*   - server feature versions, from the recorded mutations (change.end lists *)
(*     the names registered after the mutation; every version has its own set *)
(*     of names), content versions of resources from updated.begin;           *)
(*   - entitlement as the protocol defines it: a legacy session from connect  *)
(*     to close for the notifications whose listChanged capability the server *)
(*     announced to it in the initialize result (what the session was TOLD at *)
(*     its handshake - whatever the capability came from, and whatever        *)
(*     becomes of the feature sets afterwards: also the change that removes   *)
(*     the last feature of a kind is a change; a legacy session that was not  *)
(*     told is owed nothing but may be sent the notification), a 2026-07-28   *)
(*     session from the acknowledgement of its subscriptions/listen request   *)
(*     (the server grants what it advertises at that moment) to close; a URI subscription from the     *)
(*     successful subscribe to the unsubscribe / close; the URIs of ONE       *)
(*     listen request naming several URIs from its acknowledgement (a request *)
(*     of which the server refused a URI is never acknowledged: the session   *)
(*     is subscribed to none of them) until the stream is cancelled;          *)
(*   - every notification the server hands to a session (server sending       *)
(*     middleware), every notification a client receives (client receiving    *)
(*     middleware) and every invocation of a user handler; the i-th           *)
(*     notification of a topic received by a session is the i-th sent to it;  *)
(*   - list / read calls with the newest version that a notification handled  *)
(*     by the user before the call was issued had announced.                  *)
(* It states what the property states and knows nothing about timers, maps or *)
(* caches.  Failures are reported as "C18.<Clause>".                          *)
EXTENDS VerifTrace, FiniteSets

VARIABLES l, m
mvars == <<l, m>>

ListNotifs == {"tools", "prompts", "resources"}
KindsOfN(n) == IF n = "resources" THEN {"resources", "templates"} ELSE {n}

M0 == [off |-> {}, want |-> <<>>, era |-> <<>>, closed |-> {}, names |-> <<>>, ver |-> <<>>, cv |-> <<>>,
       chgB |-> <<>>, chgE |-> <<>>, sends |-> <<>>, acnt |-> <<>>, ucnt |-> <<>>, handled |-> <<>>,
       ent |-> <<>>, usub |-> <<>>, unsubbing |-> {}, subbing |-> {}, lproc |-> {}, calls |-> <<>>, updB |-> 0, open |-> {}]

Get(f, k, d) == IF k \in DOMAIN f THEN f[k] ELSE d
Put(f, k, v) == [x \in DOMAIN f \cup {k} |-> IF x = k THEN v ELSE f[x]]
MaxI(a, b) == IF a >= b THEN a ELSE b
Topic(e) == IF e.n = "updated" THEN e.u ELSE e.n

\* failure reports that name the abstract case (extra fields are passed through to the check script)
Fail2(inv, s, x) == PrintT(ToJson([monfail |-> inv, line |-> l, s |-> s, x |-> x]))

MInit == l = 1 /\ m = M0 /\ MarkInit

OnReset(e) == m' = [M0 EXCEPT !.off = AsSet(e.capOff), !.want = e.want]

OnReady(e) ==
  m' = [m EXCEPT !.names = [k \in DOMAIN e.names0 |-> <<AsSet(e.names0[k])>>],
                 !.ver = [k \in DOMAIN e.names0 |-> 0]]

OnConnect(e) ==
  IF ~e.ok THEN m' = m
  ELSE m' = [m EXCEPT !.era = Put(m.era, e.s, e.era), !.open = @ \cup {e.s},
                      !.ent = IF e.era = "legacy"
                                THEN [x \in DOMAIN m.ent \cup {<<e.s, n>> : n \in ListNotifs \cap AsSet(e.told)} |->
                                        IF x[1] = e.s THEN e.seq ELSE m.ent[x]]
                                ELSE m.ent]

\* the server granted these notifications to the session's subscriptions/listen request; a matching subscription
\* is one the client asked for (its *ListChangedHandler options) and the server acknowledged
OnAck(e) ==
  LET asked == IF e.s \in DOMAIN m.want THEN AsSet(m.want[e.s]) ELSE {}
      granted == AsSet(e.allowed) \cap asked
      \* URI subscriptions the client is waiting for (the acknowledgement may be processed late, e.g. behind a
      \* notification that the client is slow to handle)
      uris == {u \in AsSet(e.uris) : <<e.s, u>> \in m.subbing} IN
  m' = [m EXCEPT !.ent = [x \in DOMAIN m.ent \cup {<<e.s, n>> : n \in granted} |->
                            IF x[1] = e.s /\ x[2] \in granted /\ Get(m.ent, x, 0) = 0 THEN e.seq ELSE m.ent[x]],
                 !.usub = [u \in DOMAIN m.usub \cup uris |-> IF u \in uris THEN Get(m.usub, u, {}) \cup {e.s} ELSE m.usub[u]],
                 !.subbing = {x \in m.subbing : ~(x[1] = e.s /\ x[2] \in uris)}]

OnChangeBegin(e) == m' = [m EXCEPT !.chgB = Put(m.chgB, e.n, e.seq)]
OnChangeEnd(e) ==
  m' = [m EXCEPT !.chgE = Put(m.chgE, e.n, e.seq),
                 !.ver = Put(m.ver, e.k, m.ver[e.k] + 1),
                 !.names = Put(m.names, e.k, Append(m.names[e.k], AsSet(e.names)))]

OnUpdatedBegin(e) == m' = [m EXCEPT !.cv = Put(m.cv, e.u, e.cv), !.updB = e.seq]
\* ResourceUpdated has returned: it handed the notification to exactly the sessions subscribed to the URI
OnUpdatedEnd(e) ==
  LET to == {s \in DOMAIN m.era : \E i \in DOMAIN Get(m.sends, <<s, e.u>>, <<>>) : m.sends[<<s, e.u>>][i].seq > m.updB}
      sub == Get(m.usub, e.u, {})
      \* a session whose unsubscribe the server is still processing (its UnsubscribeHandler has not returned) may get it
      \* ... and so may one whose subscribe request the server has taken but whose acknowledgement the client has not seen
      \* ... and one whose subscriptions/listen request naming the URI the server is still working on (its handler, which
      \* runs the SubscribeHandler / UnsubscribeHandler of every URI, has not returned)
      may == sub \cup {s \in DOMAIN m.era : <<s, e.u>> \in m.unsubbing \/ <<s, e.u>> \in m.subbing \/ <<s, e.u>> \in m.lproc} IN
  /\ \A s \in to \ may : Fail2("C18.UpdatedExactlySubscribers", s, "extra")
  /\ \A s \in sub \ to : Fail2("C18.UpdatedExactlySubscribers", s, "missing")
  /\ m' = m

OnSend(e) ==
  IF e.n = "ack" \/ e.s = "?" THEN m' = m
  ELSE LET t == Topic(e)
           rec == [seq |-> e.seq, stamp |-> IF e.n = "updated" THEN m.cv ELSE m.ver] IN
       \* only to entitled sessions; a connected legacy session is one (it need not have been told of the capability)
       /\ ((e.n \in ListNotifs /\ Get(m.ent, <<e.s, e.n>>, 0) = 0 /\ ~(Get(m.era, e.s, "") = "legacy" /\ e.s \in m.open))
              => Fail2("C18.OnlyEntitled", e.s, e.n))
       /\ ((e.n \in ListNotifs /\ e.n \in m.off) => Fail2("C18.NoneWhenDisabled", e.s, e.n))
       /\ m' = [m EXCEPT !.sends = Put(m.sends, <<e.s, t>>, Append(Get(m.sends, <<e.s, t>>, <<>>), rec))]

OnArrive(e) == m' = [m EXCEPT !.acnt = Put(m.acnt, <<e.s, Topic(e)>>, Get(m.acnt, <<e.s, Topic(e)>>, 0) + 1)]

\* the user's handler is running for the i-th notification of this topic: from now on the client "has handled" it
OnUser(e) ==
  LET t == Topic(e)
      i == Get(m.ucnt, <<e.s, t>>, 0) + 1
      sent == Get(m.sends, <<e.s, t>>, <<>>)
      items == IF e.n = "updated" THEN {e.u} ELSE KindsOfN(e.n) IN
  /\ Check(l, "X.UnmatchedNotification", i <= Len(sent))
  /\ m' = [m EXCEPT !.ucnt = Put(m.ucnt, <<e.s, t>>, i),
                    !.handled = IF i <= Len(sent)
                                  THEN [x \in DOMAIN m.handled \cup {<<e.s, it>> : it \in items} |->
                                          IF x[1] = e.s /\ x[2] \in items
                                            THEN MaxI(Get(m.handled, x, -1), Get(sent[i].stamp, x[2], 0))
                                            ELSE m.handled[x]]
                                  ELSE m.handled]

OnListBegin(e) ==
  m' = [m EXCEPT !.calls = Put(m.calls, e.id, [s |-> e.s, item |-> e.item, hs |-> Get(m.handled, <<e.s, e.item>>, -1)])]

\* a list or read issued after the client handled a notification reflects state at least as new as the
\* change that notification announced
OnListEnd(e) ==
  LET c == m.calls[e.id] IN
  /\ (IF e.ok => (IF e.kind = "read" THEN e.cv >= c.hs
                    ELSE IF e.pages <= 1
                      \* one answer: it is the list of some version at least that new
                      THEN \E v \in 0..m.ver[e.item] : m.names[e.item][v + 1] = AsSet(e.names) /\ v >= c.hs
                      \* a walk over several pages may see different versions on different pages: whether a feature
                      \* is listed or not is as in some version at least that new
                      ELSE LET R == AsSet(e.names)
                               V == {v \in 0..m.ver[e.item] : v >= c.hs}
                               U == R \cup UNION {m.names[e.item][v + 1] : v \in 0..m.ver[e.item]} IN
                           \A x \in U : \E v \in V : (x \in R) = (x \in m.names[e.item][v + 1]))
        THEN TRUE ELSE Fail2("C18.Fresh", e.s, e.item))
  /\ m' = m

OnSubBegin(e) == m' = [m EXCEPT !.subbing = @ \cup {<<e.s, e.u>>}]
OnSubEnd(e) == m' = IF e.ok THEN [m EXCEPT !.usub = Put(m.usub, e.u, Get(m.usub, e.u, {}) \cup {e.s}), !.subbing = @ \ {<<e.s, e.u>>}] ELSE m
OnUnsubBegin(e) == m' = [m EXCEPT !.usub = Put(m.usub, e.u, Get(m.usub, e.u, {}) \ {e.s}),
                                  !.unsubbing = @ \cup {<<e.s, e.u>>}, !.subbing = @ \ {<<e.s, e.u>>}]
OnSrvUnsubExit(e) == m' = [m EXCEPT !.unsubbing = @ \ {<<e.s, e.u>>}]

\* ONE subscriptions/listen request naming several URIs.  The session is subscribed to them once the request has been
\* acknowledged (OnAck); a request that was not acknowledged (the server's SubscribeHandler refused one of the URIs)
\* subscribes the session to NONE of them.
Pairs(s, us) == {<<s, u>> : u \in us}
OnListenBegin(e) == m' = [m EXCEPT !.subbing = @ \cup Pairs(e.s, AsSet(e.uris))]
OnListenEnd(e) ==
  LET U == AsSet(e.uris) IN
  m' = IF e.ok THEN [m EXCEPT !.usub = [u \in DOMAIN m.usub \cup U |-> IF u \in U THEN Get(m.usub, u, {}) \cup {e.s} ELSE m.usub[u]],
                              !.subbing = @ \ Pairs(e.s, U)]
       ELSE [m EXCEPT !.subbing = @ \ Pairs(e.s, U)]
\* the server's handler of a listen request is running / has returned
OnSrvListenEnter(e) == m' = [m EXCEPT !.lproc = @ \cup Pairs(e.s, AsSet(e.uris))]
OnSrvListenExit(e) == m' = [m EXCEPT !.lproc = @ \ Pairs(e.s, AsSet(e.uris))]

OnCloseBegin(e) ==
  m' = [m EXCEPT !.ent = [x \in DOMAIN m.ent |-> IF x[1] = e.s THEN 0 ELSE m.ent[x]],
                 !.usub = [u \in DOMAIN m.usub |-> m.usub[u] \ {e.s}], !.open = @ \ {e.s},
                 !.unsubbing = {x \in m.unsubbing : x[1] # e.s}, !.subbing = {x \in m.subbing : x[1] # e.s},
                 !.lproc = {x \in m.lproc : x[1] # e.s}]
OnCloseEnd(e) == m' = [m EXCEPT !.closed = @ \cup {e.s}]

\* subscriptions of closed sessions are forgotten (snapshot of the server's maps, taken under its lock)
Forgotten(sn) ==
  \A s \in m.closed :
     /\ s \notin AsSet(sn.sessions)
     /\ \A n \in DOMAIN sn.lsub : s \notin AsSet(sn.lsub[n])
     /\ \A u \in DOMAIN sn.rsub : s \notin AsSet(sn.rsub[u])

ReportForgotten(sn) ==
  \A s \in m.closed :
     /\ (s \in AsSet(sn.sessions) => Fail2("C18.ForgottenOnClose", s, "sessions"))
     /\ \A n \in DOMAIN sn.lsub : (s \in AsSet(sn.lsub[n]) => Fail2("C18.ForgottenOnClose", s, "list-changed:" \o n))
     /\ \A u \in DOMAIN sn.rsub : (s \in AsSet(sn.rsub[u]) => Fail2("C18.ForgottenOnClose", s, "resource-subscription"))

OnSnap(e) == m' = m /\ (IF Forgotten(e.snap) THEN TRUE ELSE ReportForgotten(e.snap))

\* all gates are open and the clock has run far beyond every timer: the burst is over
Lost(s, n) ==
  LET en == Get(m.ent, <<s, n>>, 0)
      sent == Get(m.sends, <<s, n>>, <<>>) IN
  /\ en # 0 /\ en < m.chgB[n]
  /\ ~\E i \in 1..Get(m.acnt, <<s, n>>, 0) : i <= Len(sent) /\ sent[i].seq > m.chgE[n]

OnQuiesce(e) ==
  /\ m' = m
  /\ (IF Forgotten(e.snap) THEN TRUE ELSE ReportForgotten(e.snap))
  \* every session entitled to n when the last change of the burst was made, and ever since, has received a
  \* notification that the server sent after that change
  /\ \A n \in ListNotifs \ m.off : n \in DOMAIN m.chgB =>
        \A s \in DOMAIN m.era : Lost(s, n) => Fail2("C18.NeverLost", s, n)
  \* every resource-updated notification handed to a session that is still open has reached it
  /\ \A x \in DOMAIN m.sends :
        (x[2] \notin ListNotifs /\ x[1] \in m.open /\ Get(m.acnt, x, 0) # Len(m.sends[x])) => Fail2("C18.UpdatedDelivered", x[1], x[2])

Step(e) ==
  CASE e.ev = "reset"         -> OnReset(e)
    [] e.ev = "ready"         -> OnReady(e)
    [] e.ev = "connect"       -> OnConnect(e)
    [] e.ev = "ack"           -> OnAck(e)
    [] e.ev = "change.begin"  -> OnChangeBegin(e)
    [] e.ev = "change.end"    -> OnChangeEnd(e)
    [] e.ev = "updated.begin" -> OnUpdatedBegin(e)
    [] e.ev = "updated.end"   -> OnUpdatedEnd(e)
    [] e.ev = "notif.send"    -> OnSend(e)
    [] e.ev = "notif.arrive"  -> OnArrive(e)
    [] e.ev = "notif.user"    -> OnUser(e)
    [] e.ev = "list.begin"    -> OnListBegin(e)
    [] e.ev = "list.end"      -> OnListEnd(e)
    [] e.ev = "sub.begin"     -> OnSubBegin(e)
    [] e.ev = "sub.end"       -> OnSubEnd(e)
    [] e.ev = "unsub.begin"   -> OnUnsubBegin(e)
    [] e.ev = "srv.unsub.exit" -> OnSrvUnsubExit(e)
    [] e.ev = "listen.begin"  -> OnListenBegin(e)
    [] e.ev = "listen.end"    -> OnListenEnd(e)
    [] e.ev = "srv.listen.enter" -> OnSrvListenEnter(e)
    [] e.ev = "srv.listen.exit" -> OnSrvListenExit(e)
    [] e.ev = "close.begin"   -> OnCloseBegin(e)
    [] e.ev = "close.end"     -> OnCloseEnd(e)
    [] e.ev = "step"          -> OnSnap(e)
    [] e.ev = "quiesce"       -> OnQuiesce(e)
    [] e.ev = "final"         -> OnSnap(e) /\ Check(l, "X.Stuck", ~e.stuck)
    [] e.ev = "panic"         -> m' = m /\ Fail(l, "C18.NoPanic")
    [] OTHER                  -> m' = m

MNext == /\ l <= NLines /\ l' = l + 1
         /\ Step(TraceLog[l])
MSpec == MInit /\ [][MNext]_mvars
MMark == MarkAt(l)
MAccepted == Accepted
=============================================================================
