SPECIFICATION Spec
CONSTANTS
  Class = "streamns"
  Ideal = TRUE
  KSet = {"n", "orph"}
  NW <- W11
  NR <- W11
  NC <- W11
  WMax = 3
  CMax = 2
INVARIANTS TypeOK Fifo NoSpuriousError NoLoss RestAll ClosedStopsReads ClosedStopsWrites
PROPERTIES ClosedForGood
CHECK_DEADLOCK FALSE
