SPECIFICATION HSpec
CONSTANTS
  Reqs <- R2
  HasSa = TRUE
  PrimeSet <- Both
  MaxRetries = 2
  MaxWrites = 6
  MaxCuts = 4
  MaxFails = 4
  ArmN = 2
  CutHows <- HowsAll
  FailKinds <- FailsAll
  SrvRenumberBug = FALSE
CONSTRAINT Export
CHECK_DEADLOCK FALSE
