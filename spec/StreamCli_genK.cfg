\* behaviour export: the same runs against a stuck server (every body after the scripted cuts ends at offset 0, for ever);
\* c09.py keeps the behaviours in which more than MaxCuts bodies were cut
\* (tools/checks/c09.py builds its configurations from the same template - the Fix* switches of the configurations that model
\*  the real code come from its REPAIRED table; this file is the thorough-tier one, for manual runs:
\*  java -cp $TLA_CP tlc2.TLC -config StreamCli_genK.cfg StreamCliMC)
SPECIFICATION Spec
CONSTANTS
  KindSet = {"post", "sa"}
  ShapeSet <- IdShapes
  SchemeSet = {"dec"}
  MSet = {2}
  MRSet = {1, 2, 3}
  MaxCuts = 2
  ClassSet = {"bnd", "data"}
  AnswerSet = {"terr", "ok", "500"}
  TailSet = {"stuck"}
  RetrySet = {"none"}
  FixScanner = FALSE
  FixCursor = TRUE
  Fix5xx = TRUE
CONSTRAINT Runs
INVARIANTS Export
CHECK_DEADLOCK FALSE
