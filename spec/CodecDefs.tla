------------------------------- MODULE CodecDefs ------------------------------
(* Definitions for property C19: wire codec and framing (DESIGN.md 6, C19).   *)
(*                                                                            *)
(* Decision tables, each with the classes of its abstract case space (the     *)
(* case products themselves are in CodecCases, so that the monitor does not   *)
(* have to build them), the code-shaped                                       *)
(* `Expected` (what internal/jsonrpc2/messages.go, wire.go, mcp/content.go,   *)
(* mcp/protocol.go, mcp/event.go, mcp/transport.go, mcp/streamable.go and     *)
(* mcp/sse.go do, transcribed rule by rule) and the property predicates that  *)
(* the monitor CodecMon evaluates on outcomes of the REAL encoders, decoders, *)
(* framers, sessions and transports:                                          *)
(*   Msg*   message shape classes x direction x framing   RoundTrip, Preserve *)
(*   Wire*  raw wire shapes (valid and invalid)           Classify,           *)
(*                                                         CaseSensitive      *)
(*   Val*   MCP content kinds inside their containers     RoundTrip,          *)
(*                                                         RequiredPresent    *)
(*   Req*   required members of messages sent by real     RequiredPresent     *)
(*          server/client sessions                                            *)
(*   Vc*    member names in other letter case into the    CaseSensitiveVal    *)
(*          decoders of MCP values                                            *)
(*   Fr*    frames of every structural edge class through NoPanicFr           *)
(*          the read loops of the real transports                             *)
(*   Ar*    nil / empty / one element in every list- and  round trip of the   *)
(*          map-valued member of every result type        arity (ArNilKept..) *)
(*   Lt*    a decoded message outlives the buffer it was  Lifetime (RoundTrip *)
(*          decoded from, however that buffer is reused   / Preserve later)   *)
(*   Lb*    a burst of calls through a buffer-reusing     BurstIntact         *)
(*          custom connection into a real session                             *)
(*   Ww*    concurrent writers through one newline-       FramesIntact        *)
(*          delimited connection whose io.Writer is not   (state machine:     *)
(*          atomic                                         CodecWrite.tla)    *)
(*   Sc*    a byte stream that BREAKS under the reader:   ScDelivered,        *)
(*          every cut x every end of the stream, SSE and  ScNoGaps (state     *)
(*          newline-delimited                             machine: CodecSSE)  *)
(* plus aggregated arbitrary bytes into the decoders (NeverPanics).           *)
(* Byte-level fidelity cannot be expressed here (TLC integers are 32 bit, a   *)
(* JSON document is not a TLA+ value): the Go harness compares every field of *)
(* the original and of the re-decoded / re-encoded message and reports the    *)
(* RESULT of each comparison; the predicates below judge those results.       *)
EXTENDS Integers, Sequences, FiniteSets, TLC, CodecWriteDefs

-----------------------------------------------------------------------------
(* 1. Messages                                                                *)

Dirs     == {"enc", "dec"}     \* enc: Decode(Encode(m)) vs m    dec: Encode(Decode(w)) vs w
Framings == {"raw", "ndjson", "sse"}
\* raw    jsonrpc.EncodeMessage / DecodeMessage only
\* ndjson ioConn.Write -> io.Pipe -> ioConn.Read          (mcp/transport.go)
\* sse    writeEvent -> bytes -> scanEvents               (mcp/event.go)

Kinds == {"call", "notif", "result", "error", "errordata", "errwrapped", "errplain"}
\* errwrapped / errplain: Response.Error is a Go error that is not a *WireError
\* (toWireError, messages.go:115-132); they exist only in direction enc.

IdSmall == {"zero", "small", "neg"}
\* integers that a float64 represents exactly
IdExact == {"2^53-1", "2^53", "-2^53", "int>2^53rep", "int64min"}
\* integers that a float64 cannot represent (odd beyond 2^53; 2^63-1 rounds to 2^63): the classes a
\* decoder that goes through float64 alters
IdLossy == {"2^53+1", "-2^53-1", "int>2^53", "int<-2^53", "int64max"}
IdInts  == IdSmall \cup IdExact \cup IdLossy
IdStrs  == {"str-empty", "str-ascii", "str-unicode", "str-numeric"}
IdClasses == {"absent"} \cup IdInts \cup IdStrs

Methods == {"std", "flavored", "empty", "na"}

\* params (call, notif) / result (result) / error.data (errordata)
Payloads == {"absent", "null", "emptyobj", "obj", "array", "scalar", "nested", "meta",
             "content-text", "content-image", "content-nested", "list-empty", "list-null",
             "dupkeys", "bignum"}
\* what the strings inside the message look like
Flavors == {"plain", "unicode", "newline", "ssetext", "large"}


ValidMsg(c) ==
  /\ (c.kind = "notif") <=> (c.id = "absent")
  /\ (c.kind \in {"call", "notif"}) <=> (c.method # "na")
  /\ c.kind \in {"call", "notif"} => c.payload # "scalar"        \* params are structured (or null/absent)
  /\ c.kind \in {"result", "errordata"} => c.payload # "absent"
  /\ c.kind \in {"error", "errwrapped", "errplain"} => c.payload = "absent"
  /\ c.kind \in {"errwrapped", "errplain"} => c.dir = "enc"

\* class of the decoded message
WantCls(c) == CASE c.kind = "call" -> "call" [] c.kind = "notif" -> "notif"
                [] c.kind = "result" -> "result" [] OTHER -> "error"

AllFields(b) == [idType |-> b, idValue |-> b, method |-> b, params |-> b, result |-> b,
                 errCode |-> b, errMsg |-> b, errData |-> b]

(* The code-shaped expectation.                                               *)
(*  - decodeID (messages.go) parses an integer literal with strconv.ParseInt, *)
(*    so every int64 id keeps its exact value and its type (before commit     *)
(*    bcf4320 ids went through float64 and the IdLossy classes were altered). *)
(*  - wireCombined.Method is `string,omitempty` (wire.go): Encode drops an    *)
(*    empty method.  DecodeMessage keeps it (wireDecode.Method is a           *)
(*    RawMessage), so dec loses the member on re-encode; in direction enc the *)
(*    encoded object has no method and decodes as a response (id present) or  *)
(*    is rejected (no id).                                                    *)
(*  - toWireError keeps code (of the wrapped *WireError) and the outer        *)
(*    message but not the data of a wrapped error.                            *)
(*  - params / result / error.data are json.RawMessage: passed through.       *)
(*  - the harness reports all fields as not surviving when the decoded        *)
(*    message has another Go type (Request vs Response) or was rejected.      *)
ExpectedMsg(c) ==
  LET encEmpty == c.dir = "enc" /\ c.method = "empty"
      cls == IF encEmpty THEN (IF c.kind = "call" THEN "result" ELSE "reject") ELSE WantCls(c)
      f == IF encEmpty THEN AllFields(FALSE)
           ELSE [AllFields(TRUE) EXCEPT !.method  = c.method # "empty",
                                        !.errData = c.kind # "errwrapped"]
  IN [cls |-> cls, frame |-> "ok", evmeta |-> TRUE, f |-> f]

(* The property, one predicate per member so that a failure names the member. *)
ClsOK(c, o)     == o.cls = WantCls(c)
FrameOK(c, o)   == o.frame = "ok"                    \* exactly the frames written come out, in order
IdTypeOK(c, o)  == ClsOK(c, o) => o.f.idType         \* string stays string, integer stays integer
IdValueOK(c, o) == ClsOK(c, o) => o.f.idValue        \* exact value
MethodOK(c, o)  == ClsOK(c, o) => o.f.method
ParamsOK(c, o)  == ClsOK(c, o) => o.f.params
ResultOK(c, o)  == ClsOK(c, o) => o.f.result
ErrCodeOK(c, o) == ClsOK(c, o) => o.f.errCode
ErrMsgOK(c, o)  == ClsOK(c, o) => o.f.errMsg
\* a Go error that merely wraps a *WireError has no wire form of its own: only code and text are owed
ErrDataOK(c, o) == (ClsOK(c, o) /\ c.kind # "errwrapped") => o.f.errData

FieldsOK(c, o) == /\ ClsOK(c, o) /\ FrameOK(c, o) /\ IdTypeOK(c, o) /\ IdValueOK(c, o) /\ MethodOK(c, o)
                  /\ ParamsOK(c, o) /\ ResultOK(c, o) /\ ErrCodeOK(c, o) /\ ErrMsgOK(c, o) /\ ErrDataOK(c, o)
RoundTrip(c, o) == c.dir = "enc" => FieldsOK(c, o)     \* Decode(Frame^-1(Frame(Encode(m)))) = m
Preserve(c, o)  == c.dir = "dec" => FieldsOK(c, o)     \* Encode(Decode(w)) ~ w on id, method, params, result, error
HoldsMsg(c, o)  == RoundTrip(c, o) /\ Preserve(c, o)

\* Cases in which the code-shaped expectation itself breaks the property: leads to confirm on the real code
MsgLead(c) == c.method = "empty"

-----------------------------------------------------------------------------
(* 2. Wire shapes: Classify transcribes jsonrpc2.DecodeMessage                *)

WVers    == {"2.0", "1.0", "absent", "number"}
WIds     == {"absent", "null", "int", "str", "frac", "bool", "obj"}
WMethods == {"absent", "str", "empty", "null", "number"}
WParams  == {"absent", "obj"}
WResults == {"absent", "obj", "null"}
WErrors  == {"absent", "obj", "objdata", "null", "str"}
\* which member name is written with different letter case (ASCII case, or the Unicode folds
\* U+017F / U+212A that encoding/json's case-insensitive matching accepts)
WCasings == {"exact", "jsonrpc", "id", "method", "params", "result", "error",
             "error.code", "error.message", "error.data"}

HasMember(c, name) ==
  CASE name = "exact" -> TRUE
    [] name = "jsonrpc" -> c.ver # "absent"
    [] name = "id" -> c.id # "absent"
    [] name = "method" -> c.method # "absent"
    [] name = "params" -> c.params # "absent"
    [] name = "result" -> c.result # "absent"
    [] name = "error" -> c.error # "absent"
    [] name \in {"error.code", "error.message"} -> c.error \in {"obj", "objdata"}
    [] name = "error.data" -> c.error = "objdata"

\* the wire as a case-sensitive decoder sees it: a member whose name differs in case is not there
Effective(c) ==
  CASE c.casing = "jsonrpc" -> [c EXCEPT !.ver = "absent"]
    [] c.casing = "id"      -> [c EXCEPT !.id = "absent"]
    [] c.casing = "method"  -> [c EXCEPT !.method = "absent"]
    [] c.casing = "params"  -> [c EXCEPT !.params = "absent"]
    [] c.casing = "result"  -> [c EXCEPT !.result = "absent"]
    [] c.casing = "error"   -> [c EXCEPT !.error = "absent"]
    [] OTHER -> c
\* members of the error object that are seen
ErrSees(c, m) == /\ Effective(c).error \in {"obj", "objdata"}
                 /\ c.casing # ("error." \o m)
                 /\ (m = "data" => c.error = "objdata")

RejectOut(why) == [cls |-> "reject", why |-> why, id |-> "none", params |-> FALSE, result |-> FALSE,
                   err |-> FALSE, code |-> FALSE, msg |-> FALSE, data |-> FALSE]
IdKind(i) == CASE i \in {"int", "frac"} -> "int" [] i = "str" -> "str" [] OTHER -> "none"

\* DecodeMessage, messages.go:186-228, in the code's order
Classify(c) ==
  LET w == Effective(c) IN
  IF w.ver = "number" \/ w.error = "str" THEN RejectOut("syntax")   \* Unmarshal into wireDecode fails
  ELSE IF w.ver # "2.0" THEN RejectOut("version")               \* VersionTag check
  ELSE IF w.id \in {"bool", "obj"} THEN RejectOut("idtype")     \* MakeID
  ELSE IF w.method = "number" THEN RejectOut("syntax")          \* "method" present but not a string
  ELSE IF w.method # "absent" THEN                              \* Request; "", null decode to method ""
         [cls |-> IF IdKind(w.id) = "none" THEN "notif" ELSE "call", why |-> "", id |-> IdKind(w.id),
          params |-> w.params # "absent", result |-> FALSE, err |-> FALSE,
          code |-> FALSE, msg |-> FALSE, data |-> FALSE]
  ELSE IF IdKind(w.id) = "none" THEN RejectOut("invalidreq")    \* response without a valid id
  ELSE [cls |-> IF w.error \in {"obj", "objdata"} THEN "error" ELSE "result", why |-> "", id |-> IdKind(w.id),
        params |-> FALSE, result |-> w.result # "absent",
        err |-> w.error \in {"obj", "objdata"},
        code |-> ErrSees(c, "code"), msg |-> ErrSees(c, "message"), data |-> ErrSees(c, "data")]

ExpectedWire(c) == Classify(c)

\* a wire message that is valid JSON-RPC 2.0 (ids as MCP allows them: string or integer)
ValidWire(c) ==
  /\ c.casing = "exact" /\ c.ver = "2.0"
  /\ \/ c.method = "str" /\ c.id \in {"absent", "int", "str"} /\ c.result = "absent" /\ c.error = "absent"
     \/ c.method = "absent" /\ c.id \in {"int", "str"} /\ c.params = "absent"
          /\ \/ c.result # "absent" /\ c.error = "absent"
             \/ c.result = "absent" /\ c.error \in {"obj", "objdata"}
WantWireCls(c) == IF c.method = "str" THEN (IF c.id = "absent" THEN "notif" ELSE "call")
                  ELSE IF c.error = "absent" THEN "result" ELSE "error"

\* the property on raw wire shapes
NoPanic(o) == o.cls # "panic"                                 \* a message or an error, nothing else
Accepts(c, o) == ValidWire(c) =>                              \* valid messages are accepted with every member
  /\ o.cls = WantWireCls(c)
  /\ o.id = IdKind(c.id)
  /\ o.params = (c.params # "absent") /\ o.result = (c.result # "absent")
  /\ o.err = (c.error # "absent")
  /\ o.err => (o.code /\ o.msg /\ (o.data = (c.error = "objdata")))
\* a member whose name differs in letter case is treated exactly as if it were absent
\* (sib = outcome of decoding the same wire with that member removed)
CaseSensitive(c, o, sib) == c.casing # "exact" => o = sib
HoldsWire(c, o, sib) == NoPanic(o) /\ Accepts(c, o) /\ CaseSensitive(c, o, sib)

-----------------------------------------------------------------------------
(* 3. MCP values: content kinds in their containers                           *)

CKinds == {"text", "image", "audio", "resource_link", "resource_text", "resource_blob", "tool_use", "tool_result"}
Containers == {"calltool", "prompt", "sampling", "samplingv2", "createmsg", "createmsgtools"}
ListContainers == {"calltool", "samplingv2", "createmsgtools"}
Allowed(cont) ==
  CASE cont \in {"calltool", "prompt"} -> CKinds
    [] cont \in {"sampling", "samplingv2"} -> {"text", "image", "audio", "tool_use", "tool_result"}
    [] cont = "createmsg" -> {"text", "image", "audio"}
    [] cont = "createmsgtools" -> {"text", "image", "audio", "tool_use"}
Fills   == {"zero", "full"}                 \* every optional member empty / every member set
Metas   == {"none", "flat", "nested"}
\* content of a tool_result: nil / empty / one text / several kinds / zero-valued text, image and audio
Nesteds == {"na", "nil", "empty", "one", "mixed", "zeros"}
Aritys  == {"single", "nil", "empty", "one", "two"}

ValidVal(c) ==
  /\ c.ckind \in Allowed(c.cont)
  /\ (c.cont \in ListContainers) <=> (c.arity # "single")
  /\ (c.ckind = "tool_result") <=> (c.nested # "na")
  /\ c.arity \in {"nil", "empty"} => (c.ckind = "text" /\ c.fill = "zero" /\ c.meta = "none" /\ c.flavor = "plain")

\* Outcome: [ok, lost, missing]: decoding the encoding succeeded; names of members that did not
\* survive; required members (text / data / content / resource text-or-blob) absent or null in the encoding.
\* Code shape: content.go writes image/audio/tool_result/tool_use through dedicated wire structs without
\* omitempty on required members; TextContent likewise; ResourceContents has `text,omitempty` and
\* `blob,omitzero`, so an empty text resource carries neither (the repository's TestEmbeddedResource pins it).
\* unmarshalContent rejects a JSON null content; SamplingMessageV2 / CreateMessageWithToolsResult.MarshalJSON
\* encode a nil Content slice as [] (since commit 3aa8593; before, it was null and did not decode again).
\* ToolResultContent.MarshalJSON embeds every nested block as that block marshals itself (since commit
\* 8a25e5f; before, it went through the shared wireContent struct, whose omitempty text / data members
\* dropped the required members of zero-valued nested text, image and audio).
ExpectedVal(c) ==
  [ok |-> TRUE,
   lost |-> {},
   missing |-> IF c.ckind = "resource_text" /\ c.fill = "zero" THEN {"resource.text|blob"} ELSE {}]

ValRoundTrip(c, o) == o.ok /\ o.lost = {}
RequiredPresentVal(c, o) == o.missing = {}
HoldsVal(c, o) == ValRoundTrip(c, o) /\ RequiredPresentVal(c, o)
ValLead(c) == c.ckind = "resource_text" /\ c.fill = "zero"

-----------------------------------------------------------------------------
(* 4. Required members in what real sessions send                             *)

\* CallToolResult+...: what else a raw (Server.AddTool) handler put into the result next to Content: a structured
\* content (object / array / raw JSON with _meta), IsError, or both.  The required member is still "content".
CallToolVariants == {"CallToolResult+structured", "CallToolResult+structuredArr", "CallToolResult+structuredMeta",
                     "CallToolResult+isError", "CallToolResult+structured+isError"}
ReqTypes == CallToolVariants \cup
            {"ListToolsResult", "ListPromptsResult", "ListResourcesResult", "ListResourceTemplatesResult",
             "ListRootsResult", "CallToolResult", "GetPromptResult", "ReadResourceResult", "CompleteResult",
             "CreateMessageWithToolsResult", "TextContent", "ImageContent", "AudioContent", "ToolResultContent"}
ReqMember(t) ==
  CASE t = "ListToolsResult" -> "tools" [] t = "ListPromptsResult" -> "prompts"
    [] t = "ListResourcesResult" -> "resources" [] t = "ListResourceTemplatesResult" -> "resourceTemplates"
    [] t = "ListRootsResult" -> "roots" [] t = "CallToolResult" -> "content" [] t \in CallToolVariants -> "content"
    [] t = "GetPromptResult" -> "messages" [] t = "ReadResourceResult" -> "contents"
    [] t = "CompleteResult" -> "completion.values" [] t = "CreateMessageWithToolsResult" -> "content"
    [] t = "TextContent" -> "text" [] t \in {"ImageContent", "AudioContent"} -> "data"
    [] t = "ToolResultContent" -> "content"
\* how the application left the member: nil, empty (non-nil), or with one element / a non-empty value
ReqFills == {"nil", "empty", "one"}
Protos == {"2025-11-25", "latest"}
\* registries (list results) are either empty or not: no nil/empty distinction
\* server-initiated requests (roots/list, sampling) do not exist on protocol 2026-07-28
ValidReq(c) == /\ (c.type \in {"ListToolsResult", "ListPromptsResult", "ListResourcesResult",
                               "ListResourceTemplatesResult", "ListRootsResult", "TextContent"}) => c.fill # "empty"
               /\ c.type \in {"ListRootsResult", "CreateMessageWithToolsResult"} => c.proto = "2025-11-25"

\* Outcome [sent, present, nonnull]: sent \in {"result", "error", "none"}.
\* Code shape: server.go replaces nil by empty for list results, CallToolResult.content,
\* GetPromptResult.messages (since commit e960169) and CompleteResult.completion.values (since 0ffdf39),
\* and answers a read with nil contents by an error; CreateMessageWithToolsResult.MarshalJSON writes a
\* nil Content as [] (since 3aa8593).
ExpectedReq(c) ==
  IF c.type = "ReadResourceResult" /\ c.fill = "nil" THEN [sent |-> "error", present |-> FALSE, nonnull |-> FALSE]
  ELSE [sent |-> "result", present |-> TRUE, nonnull |-> TRUE]

Answered(c, o) == o.sent # "none"
RequiredPresent(c, o) == o.sent = "result" => (o.present /\ o.nonnull)
HoldsReq(c, o) == Answered(c, o) /\ RequiredPresent(c, o)
ReqLead(c) == FALSE

-----------------------------------------------------------------------------
(* 5. Case sensitivity of the decoders of MCP values                          *)
(* Targets: params as a server/client session decodes them (methodInfo.        *)
(* unmarshalParams), content (unmarshalContent), results as a real             *)
(* ClientSession decodes them (jsonrpc2 AsyncCall.Await -> internal/json ->    *)
(* the type's UnmarshalJSON if it has one).                                    *)
VcTable ==
  { <<"params:tools/call", "name">>, <<"params:tools/call", "arguments">>, <<"params:tools/call", "_meta">>,
    <<"params:prompts/get", "name">>, <<"params:prompts/get", "arguments">>,
    <<"params:resources/read", "uri">>,
    <<"params:initialize", "protocolVersion">>, <<"params:initialize", "capabilities">>, <<"params:initialize", "clientInfo">>,
    <<"params:completion/complete", "ref">>, <<"params:completion/complete", "argument">>,
    <<"params:notifications/progress", "progressToken">>, <<"params:notifications/progress", "progress">>,
    <<"params:notifications/progress", "message">>,
    <<"params:logging/setLevel", "level">>,
    <<"content:text", "type">>, <<"content:text", "text">>, <<"content:text", "_meta">>, <<"content:text", "annotations">>,
    <<"content:image", "data">>, <<"content:image", "mimeType">>,
    <<"content:resource", "resource">>,
    <<"content:tool_result", "toolUseId">>, <<"content:tool_result", "content">>, <<"content:tool_result", "isError">>,
    <<"content:tool_result", "structuredContent">>,
    <<"result:CallToolResult", "content">>, <<"result:CallToolResult", "isError">>,
    <<"result:CallToolResult", "structuredContent">>, <<"result:CallToolResult", "_meta">>,
    <<"result:GetPromptResult", "messages">>, <<"result:GetPromptResult", "description">>,
    <<"result:ReadResourceResult", "contents">>,
    <<"result:ListToolsResult", "tools">>, <<"result:ListToolsResult", "nextCursor">>, <<"result:ListToolsResult", "_meta">>,
    <<"result:ListPromptsResult", "prompts">>, <<"result:ListPromptsResult", "nextCursor">>,
    <<"result:ListResourcesResult", "resources">>, <<"result:ListResourcesResult", "nextCursor">>,
    <<"result:CompleteResult", "completion">>, <<"result:CompleteResult", "_meta">> }

\* Code shape: every one of these decoders is built on internal/json, which switches off
\* case-insensitive struct-field matching (DontMatchCaseInsensitiveStructFields).
ExpectedVc(c) == [same |-> TRUE]
\* o.same: decoding the variant with the miscased member = decoding with that member removed
CaseSensitiveVal(c, o) == o.same
HoldsVc(c, o) == CaseSensitiveVal(c, o)
VcLead(c) == FALSE

-----------------------------------------------------------------------------
(* 6. Arbitrary bytes into the decoders: a value or an error, never a panic.  *)
(* o = [n, values, errors, panics] aggregated per (decoder, generator).       *)
NeverPanics(o) == o.panics = 0 /\ o.values + o.errors = o.n

-----------------------------------------------------------------------------
(* 7. Frames through the read loops of the REAL transports                    *)
(* "Never panics on arbitrary bytes" is owed by every place in which a        *)
(* transport turns received bytes into messages, not only by the decode       *)
(* functions: the frame is one JSON text (or a fragment) of a structural edge *)
(* class, laid out with seeded white space, and is handed to                  *)
(*   ioconn.read       ioConn.Read called directly (newline-delimited stream) *)
(*   io.server         a real ServerSession over IOTransport: the jsonrpc2    *)
(*   io.client         / a real ClientSession  read loop calls ioConn.Read    *)
(*   sse.client.read   sseClientConn.Read (data of an SSE event)              *)
(*   sse.server.post   SSEServerTransport.ServeHTTP (POST body)               *)
(*   http.post.*       StreamableHTTPHandler.ServeHTTP (POST body; stateless, *)
(*                     stateful)                                              *)
(*   http.client.json  streamable client: body of an application/json        *)
(*   http.client.sse   response / data of an event of a POST's SSE response   *)
(* A panic in a goroutine of the SDK (the reader goroutines of jsonrpc2, of   *)
(* ioConn and of the streamable client) cannot be recovered: it ends the      *)
(* process, and the run attributes the crash to the case in flight            *)
(* (outcome "crash").                                                         *)

FrScalars   == {"null", "num", "str", "bool"}
FrObjects   == {"obj-empty", "obj-msg", "obj-notif", "obj-resp", "obj-bad"}
FrArrays    == {"arr-empty", "arr-arr-empty", "arr-null", "arr-scalar", "arr-obj-empty", "arr-one", "arr-two",
                "arr-notifs", "arr-resp", "arr-dupid", "arr-bad-last", "arr-bad-first", "arr-nested-msg",
                "arr-huge", "arr-huge-null", "deep"}
FrTruncated == {"truncated-arr", "truncated-obj"}
FrShapes    == {"empty", "ws", "two-values"} \cup FrScalars \cup FrObjects \cup FrArrays \cup FrTruncated
\* white space: none / between the tokens of the frame (`[ ]`, `[\t]`, `[\n]`) / before the frame / after it
\* (on a newline-delimited stream: between the frame and what ends it)
FrPads  == {"none", "inner", "lead", "trail"}
\* what ends the frame on a newline-delimited stream: LF, CR LF, or the end of the stream
FrTerms == {"lf", "crlf", "eof", "na"}
FrNdPaths   == {"ioconn.read", "io.server", "io.client"}
FrHttpPaths == {"sse.client.read", "sse.server.post", "http.post.stateless", "http.post.stateful",
                "http.client.json", "http.client.sse"}
FrPaths == FrNdPaths \cup FrHttpPaths
\* first: the frame is the first thing the reader gets (before any handshake); after: after a complete
\* handshake (sessions) / after a valid message (direct reads), with the protocol version `proto` negotiated
FrPoss   == {"first", "after"}
\* batches are legal JSON-RPC below 2025-06-18 and refused from then on
FrProtos == {"2025-03-26", "2025-11-25"}

ValidFr(c) ==
  /\ (c.term # "na") <=> (c.path \in FrNdPaths)
  /\ c.shape \in FrTruncated => c.term \in {"eof", "na"}        \* nothing can follow an unfinished JSON text
  /\ c.shape \in {"empty", "ws"} => c.pad = "none"
  \* no version has been negotiated before the handshake (the version header of a first POST is `proto`)
  /\ (c.pos = "first" /\ c.path \notin {"http.post.stateless", "http.post.stateful"}) => c.proto = "2025-03-26"
  /\ c.path \in {"sse.server.post", "http.post.stateless"} => c.pos = "first"
  \* the streamable client decodes responses: the frame answers a call of an established session
  /\ c.path \in {"http.client.json", "http.client.sse"} => c.pos = "after"
  /\ c.path \in {"sse.client.read", "sse.server.post"} => c.proto = "2025-03-26"

\* every member of the frame is a message the reader accepts, and a batch is not empty
FrWellFormed(s) == s \in {"obj-msg", "obj-notif", "obj-resp", "arr-one", "arr-two", "arr-notifs", "arr-resp", "arr-huge", "arr-dupid"}
FrIsBatch(s)    == s \in FrArrays \cup {"null"}     \* `null` unmarshals into a (nil) slice of raw messages
\* nothing but white space: the reader of a stream does not see a frame at all
FrVoid(s)       == s \in {"empty", "ws"}

\* Outcome [out]: "value" (a message came out / the POST was accepted / the session is still served after the
\* frame), "error" (a read error, an HTTP error status, the session ended), "panic" (recovered in the calling
\* goroutine), "crash" (the process died while this case was in flight), "hang" (neither within the time limit).
FrOuts == {"value", "error", "panic", "crash", "hang"}

\* Code shape (transport.go readBatch / ioConn.Read, streamable.go servePOST and the client's handleJSON /
\* processStream, sse.go).  A frame that is not well formed is a read error (HTTP: status 400; a session: its
\* end).  ioConn.Read refuses a batch in which two calls have the same id; servePOST does not look.  A
\* well-formed batch is refused once a version >= 2025-06-18 is known to the reader: ioConn learns the
\* version of a server session only (sessionUpdated), the HTTP server reads it from the request header.
\* The legacy SSE paths and the streamable client decode one message per body / event
\* (jsonrpc2.DecodeMessage): every array is an error there.  White space alone is skipped by the decoder of
\* a stream (the next line is read) and is an SSE event without data, which the streamable client skips;
\* anywhere else it is an undecodable body.  A stream that ends with the frame ends the session.  ioConn
\* accepts only a line end directly after a JSON text - if the next byte is already in the decoder's buffer.
ExpectedFr(c) ==
  LET s == c.shape
      nd == c.path \in FrNdPaths
      session == c.path \in {"io.server", "io.client"}
      single == c.path \in {"sse.client.read", "sse.server.post", "http.client.json", "http.client.sse"}
      versioned == \/ c.path \in {"http.post.stateless", "http.post.stateful"}
                   \/ (c.pos = "after" /\ c.path \in {"ioconn.read", "io.server"})
      refused == FrIsBatch(s) /\ versioned /\ c.proto = "2025-11-25"
      wellformed == FrWellFormed(s) /\ (s = "arr-dupid" => ~nd)
  IN IF FrVoid(s) THEN (IF (nd /\ c.term # "eof") \/ c.path = "http.client.sse" THEN {"value"} ELSE {"error"})
     ELSE IF ~wellformed \/ refused \/ (single /\ FrIsBatch(s)) THEN {"error"}
     ELSE IF session /\ c.term = "eof" THEN {"error"}
     ELSE IF nd /\ c.pad = "trail" THEN {"value", "error"}
     ELSE {"value"}

\* the property: whatever the bytes, the reader produces a message or an error
NoPanicFr(c, o) == o.out \notin {"panic", "crash"}
HoldsFr(c, o)   == NoPanicFr(c, o)

-----------------------------------------------------------------------------
(* 8. Arity of the list- and map-valued members of the result types           *)
(* Every result type, every member that is a list or a map, left nil, empty   *)
(* (non-nil) or with one element: encode, decode again (internal/json and the *)
(* type's own UnmarshalJSON, as a receiving session does), compare.           *)
(* Rows: type, member, how nil / empty / one element are spelled on the wire  *)
(* by the type ("absent", "null", "empty", "one", "single" = the element      *)
(* itself instead of a list), and what a wire null decodes to.                *)
ArTable ==
  { <<"CallToolResult", "content", "null", "empty", "one", "empty">>,
    <<"CallToolResult", "_meta", "absent", "absent", "one", "nil">>,
    <<"CallToolResult", "inputRequests", "absent", "empty", "one", "nil">>,
    <<"GetPromptResult", "messages", "null", "empty", "one", "nil">>,
    <<"GetPromptResult", "_meta", "absent", "absent", "one", "nil">>,
    <<"GetPromptResult", "inputRequests", "absent", "empty", "one", "nil">>,
    <<"ReadResourceResult", "contents", "null", "empty", "one", "nil">>,
    <<"ReadResourceResult", "_meta", "absent", "absent", "one", "nil">>,
    <<"ReadResourceResult", "inputRequests", "absent", "empty", "one", "nil">>,
    <<"ListToolsResult", "tools", "null", "empty", "one", "nil">>,
    <<"ListToolsResult", "_meta", "absent", "absent", "one", "nil">>,
    <<"ListPromptsResult", "prompts", "null", "empty", "one", "nil">>,
    <<"ListPromptsResult", "_meta", "absent", "absent", "one", "nil">>,
    <<"ListResourcesResult", "resources", "null", "empty", "one", "nil">>,
    <<"ListResourcesResult", "_meta", "absent", "absent", "one", "nil">>,
    <<"ListResourceTemplatesResult", "resourceTemplates", "null", "empty", "one", "nil">>,
    <<"ListResourceTemplatesResult", "_meta", "absent", "absent", "one", "nil">>,
    <<"ListRootsResult", "roots", "null", "empty", "one", "nil">>,
    <<"ListRootsResult", "_meta", "absent", "absent", "one", "nil">>,
    <<"CompleteResult", "completion.values", "null", "empty", "one", "nil">>,
    <<"CompleteResult", "_meta", "absent", "absent", "one", "nil">>,
    <<"CreateMessageResult", "_meta", "absent", "absent", "one", "nil">>,
    <<"CreateMessageWithToolsResult", "content", "empty", "empty", "single", "nil">>,
    <<"CreateMessageWithToolsResult", "_meta", "absent", "absent", "one", "nil">>,
    <<"InitializeResult", "_meta", "absent", "absent", "one", "nil">>,
    <<"DiscoverResult", "supportedVersions", "null", "empty", "one", "nil">>,
    <<"DiscoverResult", "_meta", "absent", "absent", "one", "nil">>,
    <<"ElicitResult", "content", "absent", "absent", "one", "nil">>,
    <<"ElicitResult", "_meta", "absent", "absent", "one", "nil">>,
    <<"SubscriptionsListenResult", "_meta", "null", "empty", "one", "nil">> }
ArRow(t, m) == CHOOSE r \in ArTable : r[1] = t /\ r[2] = m
ArArities == {"nil", "empty", "one"}
\* the results of the multi-round-trip methods carry a result type ("input_required": the result asks for input)
ArMrtr == {"CallToolResult", "GetPromptResult", "ReadResourceResult"}
ArRts  == {"complete", "input_required"}
\* bare: every other member left zero; full: the other members of the result filled in
ArFills == {"bare", "full"}
ValidAr(c) == c.rt = "input_required" => c.type \in ArMrtr

ArWire(c) == LET r == ArRow(c.type, c.member) IN
             CASE c.arity = "nil" -> r[3] [] c.arity = "empty" -> r[4] [] c.arity = "one" -> r[5]
\* The SDK's own type spells nil and empty differently on the wire, and both spellings are legitimate ones:
\* nil by leaving the member out, empty by an empty container.  (A null is not a spelling a peer may rely
\* on: required members are never null in what the SDK sends, see RequiredPresent.)  For these members
\* "empty" and "nil" are two values - for inputRequests an empty map with result type input_required is the
\* load-shedding signal, nil is a final result - and the round trip has to keep them apart.
ArDistinguished(t, m) == LET r == ArRow(t, m) IN r[3] = "absent" /\ r[4] = "empty"

\* Outcome [ok, wire, isnil, len, same, others]: the encoding decoded again; how the member was spelled in the
\* encoding; the decoded member is nil; its length; its elements equal the original's; every other member
\* (incl. the result type) equals the original's.
ExpectedAr(c) ==
  LET w == ArWire(c) IN
  [ok |-> TRUE, wire |-> w,
   isnil |-> (w = "absent" \/ (w = "null" /\ ArRow(c.type, c.member)[6] = "nil")),
   len |-> IF c.arity = "one" THEN 1 ELSE 0, same |-> TRUE, others |-> TRUE]

ArDecodes(c, o)   == o.ok
ArSameLen(c, o)   == o.ok => o.len = (IF c.arity = "one" THEN 1 ELSE 0)
ArSameElems(c, o) == o.ok => o.same
ArOthersKept(c, o) == o.ok => o.others
\* nil and empty are kept apart where the SDK's types distinguish them on the wire
ArNilKept(c, o)   == (o.ok /\ ArDistinguished(c.type, c.member)) => (o.isnil <=> (c.arity = "nil"))
HoldsAr(c, o) == ArDecodes(c, o) /\ ArSameLen(c, o) /\ ArSameElems(c, o) /\ ArOthersKept(c, o) /\ ArNilKept(c, o)
ArLead(c) == FALSE

-----------------------------------------------------------------------------
(* 9. Lifetime of a decoded message                                           *)
(* "Decoding a valid wire message and re-encoding it preserves ..." is owed   *)
(* by the decoded MESSAGE, not by the moment right after the decode call: a   *)
(* reader hands the decoder a buffer, gets a message, and uses the buffer for *)
(* the next message (bufio.Scanner.Bytes, ReadSlice, a pooled or fixed read   *)
(* buffer, a ring) while the first message is still queued or being handled.  *)
(* Case: message A is decoded from a buffer; the buffer is reused; then A is  *)
(* compared member by member with what was on the wire, and re-encoded.       *)

LtKinds    == {"call", "notif", "result", "error", "errordata"}
LtIds      == {"absent", "small", "int>2^53", "str-ascii", "str-unicode"}
LtPayloads == {"absent", "obj", "array", "nested", "content-text", "bignum"}
\* who owns the buffer:
\*   decode   the caller of jsonrpc.DecodeMessage (the exported entry for authors of transports)
\*   batch    the caller of readBatch (a JSON array of messages; the members are sub-slices of the input)
\*   scanner  a bufio.Scanner whose token is handed to jsonrpc.DecodeMessage (a custom newline-delimited Connection)
\*   ioconn   ioConn's own stream decoder (IOTransport, stdio, in-memory)
\*   sse      scanEvents; the data of an event is handed to jsonrpc.DecodeMessage as the SDK's clients do
LtPaths    == {"decode", "batch", "scanner", "ioconn", "sse"}
\* what happens to the buffer after A has been decoded from it:
\*   next     the next message (same class, other values) is decoded from the same bytes
\*   shifted  the next message is decoded from the same backing array at another offset (ring / compacting buffer)
\*   zero     the buffer is wiped (returned to a pool)
\*   stream   the reader that owns the buffer reads on: several buffers' worth of further messages
LtReuses   == {"next", "shifted", "zero", "stream"}

ValidLt(c) ==
  /\ (c.kind = "notif") <=> (c.id = "absent")
  /\ (c.kind = "error") <=> (c.payload = "absent")
  /\ (c.path \in {"decode", "batch"}) <=> (c.reuse # "stream")

\* The abstract decoder: every member of the decoded message is a value of its own ("own": converted or
\* copied while decoding) or a view of the input buffer ("view").  The members that messages.go keeps as raw
\* JSON text (json.RawMessage) are the ones that CAN be views: params, result, error.data.
LtMembers == {"idType", "idValue", "method", "params", "result", "errCode", "errMsg", "errData"}
LtRaw(k) == CASE k \in {"call", "notif"} -> {"params"} [] k = "result" -> {"result"}
              [] k = "errordata" -> {"errData"} [] OTHER -> {}
LtDecoded(c, aliasing) == [m \in LtMembers |-> IF aliasing /\ m \in LtRaw(c.kind) THEN "view" ELSE "own"]
\* after the buffer has been reused a view reads whatever is in the buffer now: the member is no longer A's
LtSurvive(c, aliasing) == [m \in LtMembers |-> LtDecoded(c, aliasing)[m] = "own"]

\* Outcome [cls, later, enc, f, g]: class of A as decoded; the message decoded after A from the reused buffer
\* is intact too; A re-encodes; f: members of A (the Go value, read after the reuse) equal to the wire's;
\* g: members of A's re-encoding equal to the wire's.
\* Code shape: internal/json.Unmarshal decodes through a Decoder, which copies its input into a read buffer of
\* its own, and RawMessage members are copied out of that: nothing in a decoded message is a view.
LtOutcome(c, aliasing) == [cls |-> WantCls(c), later |-> TRUE, enc |-> TRUE,
                           f |-> LtSurvive(c, aliasing), g |-> LtSurvive(c, aliasing)]
ExpectedLt(c) == LtOutcome(c, FALSE)

LtClsOK(c, o)       == o.cls = WantCls(c)
LtValueOK(c, o, m)  == LtClsOK(c, o) => o.f[m]                    \* RoundTrip.Value: A is still A
LtEncodes(c, o)     == LtClsOK(c, o) => o.enc
LtReencOK(c, o, m)  == (LtClsOK(c, o) /\ o.enc) => o.g[m]         \* Preserve: Encode(A) ~ the wire
LtLaterOK(c, o)     == o.later
HoldsLt(c, o) == /\ LtClsOK(c, o) /\ LtEncodes(c, o) /\ LtLaterOK(c, o)
                 /\ \A m \in LtMembers : LtValueOK(c, o, m) /\ LtReencOK(c, o, m)
LtLead(c) == FALSE

-----------------------------------------------------------------------------
(* 10. A burst of calls through a buffer-reusing connection into a session    *)
(* A custom mcp.Connection (bufio.Scanner + jsonrpc.DecodeMessage, the plain  *)
(* way to write one) feeds a real ServerSession: initialize, initialized and  *)
(* then n tools/call in one burst.  Every call must be executed with the      *)
(* arguments that were on the wire under ITS id.                              *)
LbSizes   == {"few", "many"}     \* few: the burst fits the reader's buffer; many: the buffer is recycled several
                                 \* times while the first calls are still pending
LbIds     == {"int", "str"}
LbFlavors == {"plain", "unicode"}
LbHolds   == {"held", "free"}    \* held: the handlers finish only after the whole burst has been read
                                 \* (handlers slower than the reader; pinned with a gate); free: as they come
\* Outcome [n, answered, intact]: calls in the burst; ids of the burst answered exactly once; results that
\* echo exactly the arguments sent under their id.
ExpectedLb(c, n) == [n |-> n, answered |-> n, intact |-> n]
BurstAnswered(c, o) == o.answered = o.n
BurstIntact(c, o)   == o.intact = o.n
HoldsLb(c, o) == BurstAnswered(c, o) /\ BurstIntact(c, o)

-----------------------------------------------------------------------------
(* 11. Concurrent writers through one newline-delimited connection: the case  *)
(* attributes and the property FramesIntact are in CodecWriteDefs (extended   *)
(* above), the state machine in CodecWrite.tla.                               *)

-----------------------------------------------------------------------------
(* 12. A byte stream that breaks under the reader (a body cut at any byte and *)
(* ended by io.EOF, io.ErrUnexpectedEOF or another read error): what the      *)
(* framing layer delivers is exactly the frames written, in order, without a  *)
(* gap, never a prefix of one.  The alphabet, the writer, the readers and the *)
(* property ScDelivered / ScNoGaps are in CodecSSEDefs (the monitor           *)
(* instantiates it next to this module), the state machine in CodecSSE.tla.   *)
=============================================================================
