SPECIFICATION Spec
CONSTANTS
  NConn = 2
  ServerWide = TRUE
  Fine = TRUE
  Family = "pair"
INVARIANT TypeOK
INVARIANT ConcNoModernOverLegacyTransport
CHECK_DEADLOCK FALSE
