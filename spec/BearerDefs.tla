------------------------------- MODULE BearerDefs ----------------------------
(* Decision table for auth.RequireBearerToken (auth/auth.go), property C14.   *)
(*  classes    of header shapes, verifier outcomes, scope lists, expirations, *)
(*             skew, URL forms and options (a case = one class of each)       *)
(*  Expected   the code-shaped procedure (checks in the code's order)         *)
(*  Holds      the property, stated declaratively over (case, outcome)        *)
(* TLC checks  Holds(c, Expected(c)) for every case of Bearer!CaseParts       *)
(* (design level) and the monitor BearerMon evaluates Holds on outcomes of    *)
(* the real middleware.                                                       *)
(*                                                                            *)
(* This module has the value classes of every dimension, Expected and Holds;  *)
(* the case space itself (a union of products) is in Bearer.tla, so that the  *)
(* monitor does not enumerate it.                                             *)
(*                                                                            *)
(* Time.  A request is not decided in one instant: the middleware calls the   *)
(* TokenVerifier, and a verifier that asks somebody else (introspection, a    *)
(* key set, a session store) takes a duration d.  A presentation of a request *)
(* therefore has TWO instants, the arrival t0 and the instant t1 = t0 + d at  *)
(* which the verifier has answered, the decision is taken and the handler is  *)
(* entered.  "Unexpired" is a predicate of an instant (ExpiredAt); the two    *)
(* halves of the property use it as far as the statement supports (Holds).    *)
(* With d = 0 (every part of the case space except the duration slice) the    *)
(* two instants are one and everything below reduces to the frozen-clock      *)
(* table.                                                                     *)
EXTENDS Integers, Sequences, FiniteSets, TLC, Json, SequencesExt

-----------------------------------------------------------------------------
(* Authorization header shapes *)
HdrCore == {"absent", "bearer", "lower", "upper", "blanks", "tab", "lead", "onefield",
            "threefields", "basic", "glued", "empty"}
\* uspace: the separator between scheme and token is a Unicode space that is not SP / HTAB (NBSP, EM SPACE, VT, NEL ...)
\* two_xy: the request has TWO Authorization header lines; x, y say whether the first / second line alone is a valid
\*         Bearer credential (v) or garbage (g); two_vv repeats one credential
HdrExtra == {"uspace", "two_vg", "two_gv", "two_gg", "two_vv"}
HdrShapes == HdrCore \cup HdrExtra
\* exactly two whitespace-separated fields, the first being "bearer" in any case
ValidSyntax(h) == h \in {"bearer", "lower", "upper", "blanks", "tab", "lead"}
\* Shapes on which the statement does not settle whether the request "carries a syntactically valid Bearer credential"
\* (RFC 9110: Authorization is a singleton field; RFC 6750: the separator is 1*SP).  For these only the safety half is
\* demanded: the handler runs ONLY IF a presented credential is accepted, has the scopes and is unexpired; a refusal
\* may also be the 401 of "no bearer token".
Unsettled(h) == h \in {"uspace", "two_vg", "two_gv", "two_vv"}
\* what the code does: first Authorization line (Header.Get), strings.Fields (unicode.IsSpace)
CodeValid(h) == ValidSyntax(h) \/ h \in {"uspace", "two_vg", "two_vv"}

\* "*_info": the verifier returns an error TOGETHER WITH a non-nil TokenInfo (e.g. claims parsed from a token whose
\* signature check failed): the verifier does not accept the credential
Verifiers == {"ok", "invalid", "wrapinvalid", "oauth", "other", "nilinfo", "invalid_info", "other_info"}

-----------------------------------------------------------------------------
(* Scopes.  c is a scope that is never required (concretised also as a look-alike of a or b: other case, trailing      *)
(* blank, prefix, extension).  Both scope lists are LISTS in the API:                                                  *)
(*   gform  exact   the granted list is the set, shuffled                                                              *)
(*          dup     ... with every element repeated                                                                    *)
(*          near    every granted scope is replaced by a look-alike of itself: none of them IS the scope                *)
(*          joined  the list has ONE element, the blank-separated concatenation of the set (a verifier that did not    *)
(*                  split the scope claim): with two or more scopes that element is none of them                       *)
(*   rform  exact / dup (the required list repeats every element)                                                      *)
ScopeU == {"a", "b", "c"}
Required == {{}, {"a"}, {"a", "b"}}
Granted == {{}, {"a"}, {"b"}, {"a", "b"}, {"a", "b", "c"}}
GForms == {"exact", "dup", "near", "joined"}
RForms == {"exact", "dup"}
\* the scopes the token really has
EffGranted(c) == CASE c.gform = "near" -> {}
                   [] c.gform = "joined" -> (IF Cardinality(c.granted) >= 2 THEN {} ELSE c.granted)
                   [] OTHER -> c.granted

-----------------------------------------------------------------------------
(* Instants and durations.  A quantity is  q*Q + m*S + l  on three scales that never carry into each other:            *)
(*   l  nanoseconds (exact)                                                                                            *)
(*   m  "human" scale, orders of magnitude only: 5 = seconds (1 s .. 30 s), 3600 = an hour or so (1 min .. 2 h, or for   *)
(*      the skew-relative classes up to 1000 h), 100000 = large (1 day .. 10 years)                                    *)
(*   q  quarters of the int64-nanosecond Duration range: Q = 2^61 ns (about 73 years), exact for |q| <= 4; the range   *)
(*      of time.Duration is [-4Q, 4Q-1ns] (about +-292 years); |q| = 5 is "just beyond the Duration range",           *)
(*      |q| = 20 stands for "at least 20 Q away" up to the extreme representable time.Time values                      *)
(* The sign of a sum is decided on the highest scale that does not cancel (the concretisation keeps the classes of one *)
(* scale apart, and checks every representative against the class's verdict with exact integer arithmetic).           *)
N(q, m, l) == [q |-> q, m |-> m, l |-> l]
Plus(x, y) == N(x.q + y.q, x.m + y.m, x.l + y.l)
Minus(x) == N(-x.q, -x.m, -x.l)
Negative(x) == x.q < 0 \/ (x.q = 0 /\ (x.m < 0 \/ (x.m = 0 /\ x.l < 0)))

\* RequireBearerTokenOptions.ClockSkew is a time.Duration: signed, unvalidated, any int64
SkewCore == {"0", "s"}
Skews == {"0", "ns", "s", "large", "q3", "max", "negns", "negs", "neglarge", "min"}
SkewVal(s) == CASE s = "0" -> N(0, 0, 0)
                [] s = "ns" -> N(0, 0, 1)            [] s = "negns" -> N(0, 0, -1)
                [] s = "s" -> N(0, 5, 0)             [] s = "negs" -> N(0, -5, 0)
                [] s = "large" -> N(0, 100000, 0)    [] s = "neglarge" -> N(0, -100000, 0)
                [] s = "q3" -> N(3, 0, 0)            \* 3 Q: a duration that fits, but twice it does not
                [] s = "max" -> N(4, 0, -1)          \* math.MaxInt64 ns
                [] s = "min" -> N(-4, 0, 0)          \* math.MinInt64 ns

\* TokenInfo.Expiration.  "zero": the zero time.Time (IsZero), in any location.
\* ExpNear: given relative to the boundary now - skew (m1 = one ns before it, eq = at it, p1 = one ns after it, far* = hours away)
ExpNear == {"m1", "eq", "p1", "farpast", "farfuture"}
\* ExpAbs: given relative to now, whatever the skew
ExpAbs == {"hrago", "hrahead", "q3ago", "q3ahead", "q5ago", "q5ahead", "agesago", "agesahead"}
ExpCore == {"zero"} \cup ExpNear
Exps == ExpCore \cup ExpAbs
NearDelta(e) == CASE e = "m1" -> N(0, 0, -1) [] e = "eq" -> N(0, 0, 0) [] e = "p1" -> N(0, 0, 1)
                  [] e = "farpast" -> N(0, -3600, 0) [] e = "farfuture" -> N(0, 3600, 0)
AbsOff(e) == CASE e = "hrago" -> N(0, -3600, 0)   [] e = "hrahead" -> N(0, 3600, 0)
               [] e = "q3ago" -> N(-3, 0, 0)      [] e = "q3ahead" -> N(3, 0, 0)      \* now-exp fits a Duration, exp+skew-now may not
               [] e = "q5ago" -> N(-5, 0, 0)      [] e = "q5ahead" -> N(5, 0, 0)      \* now-exp does not fit a Duration
               [] e = "agesago" -> N(-20, 0, 0)   [] e = "agesahead" -> N(20, 0, 0)   \* year 1 + 1ns, year 9999, min / max time.Time
\* Expiration - now
ExpOff(c) == IF c.exp \in ExpNear THEN Plus(Minus(SkewVal(c.skew)), NearDelta(c.exp)) ELSE AbsOff(c.exp)
\* "expired" is a comparison of instants: Expiration + skew is before now (in the integers: nothing wraps, nothing saturates)
\* Expired(c): at the arrival of the first presentation (the only instant there is when the verifier is instantaneous)
Expired(c) == c.exp # "zero" /\ Negative(Plus(ExpOff(c), SkewVal(c.skew)))

\* The duration d of one verifier call.  Life = Expiration + skew - (arrival of the first presentation): what is left of
\* the token, skew included, when the request arrives (negative: already expired beyond the skew).
\*   0     the verifier answers at once (t1 = t0)
\*   secs  seconds (1 s .. 30 s), whatever the life: shorter than a life of hours, longer than one of nanoseconds
\*   Lm1 / L / Lp1   exactly the life minus one ns / the life / the life plus one ns: at t1 the token has 1 ns left / is AT
\*         the boundary Expiration + skew = t1 (not yet "before": unexpired) / is one ns beyond it
\*   long  the life plus seconds: the token runs out while the verifier is at work, by a human margin
\* A duration is not negative (ValidCase); the classes relative to the life need an expiration.
Durs == {"0", "secs", "Lm1", "L", "Lp1", "long"}
RelDurs == {"Lm1", "L", "Lp1", "long"}
Zero == N(0, 0, 0)
Life(c) == Plus(ExpOff(c), SkewVal(c.skew))
DurVal(c) == CASE c.dur = "0" -> Zero
               [] c.dur = "secs" -> N(0, 5, 0)
               [] c.dur = "Lm1" -> Plus(Life(c), N(0, 0, -1))
               [] c.dur = "L" -> Life(c)
               [] c.dur = "Lp1" -> Plus(Life(c), N(0, 0, 1))
               [] c.dur = "long" -> Plus(Life(c), N(0, 5, 0))
\* Instants are counted from the arrival of the first presentation of the case, in verifier calls: the clock moves only
\* while the (scripted) verifier is at work, so every instant of a run is k*d for some k (the second presentation of a
\* request arrives when the first has been answered).
Scale(k, x) == N(k * x.q, k * x.m, k * x.l)
Inst(c, k) == IF k = 0 THEN Zero ELSE Scale(k, DurVal(c))
\* Expiration + skew is before the instant k*d
ExpiredAt(c, k) == c.exp # "zero" /\ Negative(Plus(Life(c), Minus(Inst(c, k))))

\* forms of the configured ResourceMetadataURL: none (""), a plain https URL, one with a query (& = and a comma),
\* one with percent-escapes (%22 %2C %20) and a port, a long one with a fragment
UrlCore == {"none", "plain"}
UrlForms == {"none", "plain", "query", "pct", "long"}

-----------------------------------------------------------------------------
\* A case.  The case space (a union of products over these classes) is Bearer!CaseParts.
RecD(h, v, r, rf, g, gf, e, s, a, u, o, d) ==
  [hdr |-> h, ver |-> v, req |-> r, rform |-> rf, granted |-> g, gform |-> gf, exp |-> e, skew |-> s, allow |-> a, url |-> u, opts |-> o,
   dur |-> d]
\* an instantaneous verifier
Rec(h, v, r, rf, g, gf, e, s, a, u, o) == RecD(h, v, r, rf, g, gf, e, s, a, u, o, "0")
\* nil options configure nothing; list forms need a non-empty list
ValidCase(c) == /\ (c.opts = "nil" => (c.req = {} /\ c.skew = "0" /\ ~c.allow /\ c.url = "none"))
                /\ (c.gform = "dup" => (c.granted # {} /\ c.hdr \in {"bearer", "lower"}))
                /\ (c.gform \in {"near", "joined"} => c.granted # {})
                /\ (c.rform = "dup" => c.req # {})
                /\ (c.dur \in RelDurs => (c.exp # "zero" /\ ~Negative(DurVal(c))))

-----------------------------------------------------------------------------
\* Outcome of ONE presentation: [status, ran, sameInfo, chal, chalUrl, chalScope, verCalled, arr, dec]
\*   chalUrl / chalScope: what a reader of the Bearer challenge (RFC 9110 auth-params, quoted-string unescaped) finds under
\*   resource_metadata / scope: "none" no such parameter, "match" the configured URL / exactly the configured scopes
\*   (as a set), "other" anything else
\*   verCalled: the verifier was called (its duration then elapses)
\*   arr:  the instant t0 at which the request arrived
\*   dec:  the instant t1 at which it was decided, as observed: the handler was entered or, if it did not run, the refusal
\*         was answered; both in verifier calls since the first arrival of the case (Inst)
Admitted(arr) == [status |-> 200, ran |-> TRUE, sameInfo |-> TRUE, chal |-> FALSE, chalUrl |-> "none", chalScope |-> "none",
                  verCalled |-> TRUE, arr |-> arr, dec |-> arr + 1]
Reject(c, st, arr, called) ==
  LET ch == st \in {401, 403} /\ c.opts = "set" /\ (c.url # "none" \/ c.req # {})
  IN [status |-> st, ran |-> FALSE, sameInfo |-> FALSE, chal |-> ch,
      chalUrl |-> IF ch /\ c.url # "none" THEN "match" ELSE "none",
      chalScope |-> IF ch /\ c.req # {} THEN "match" ELSE "none",
      verCalled |-> called, arr |-> arr, dec |-> arr + (IF called THEN 1 ELSE 0)]

\* What the code does with a request that arrives at the instant arr.
ExpectedAt(c, arr) ==
  IF ~CodeValid(c.hdr) THEN Reject(c, 401, arr, FALSE)
  ELSE IF c.ver \in {"invalid", "wrapinvalid", "invalid_info"} THEN Reject(c, 401, arr, TRUE)
  ELSE IF c.ver = "oauth" THEN Reject(c, 400, arr, TRUE)
  ELSE IF c.ver \in {"other", "nilinfo", "other_info"} THEN Reject(c, 500, arr, TRUE)
  ELSE IF c.opts = "set" /\ ~(c.req \subseteq EffGranted(c)) THEN Reject(c, 403, arr, TRUE)    \* slices.Contains per required scope
  ELSE IF c.exp = "zero" THEN (IF c.allow THEN Admitted(arr) ELSE Reject(c, 401, arr, TRUE))
  \* Expiration.Add(ClockSkew).Before(time.Now()): time.Time carries int64 SECONDS and Add saturates, so on every class
  \* here the comparison is the one of the integers.  The clock is read HERE, after the verifier has returned: at arr + 1
  ELSE IF Negative(Plus(Life(c), Minus(Inst(c, arr + 1)))) THEN Reject(c, 401, arr, TRUE)
  ELSE Admitted(arr)
\* A case is presented twice to one middleware instance, the second time when the first has been answered
Arr2(c) == IF CodeValid(c.hdr) THEN 1 ELSE 0
Expected(c) == ExpectedAt(c, 0)
\* The same procedure with the clock read ONCE, on arrival (before the verifier is called).  Not what the code does: it is
\* here as a design-level witness that the property tells the two apart (Bearer!EarlyClockRefuted).
ExpectedEarly(c, arr) ==
  LET o == ExpectedAt(c, arr) IN
  IF CodeValid(c.hdr) /\ c.ver = "ok" /\ ~(c.opts = "set" /\ ~(c.req \subseteq EffGranted(c))) /\ c.exp # "zero"
  THEN (IF ExpiredAt(c, arr) THEN Reject(c, 401, arr, TRUE) ELSE Admitted(arr))
  ELSE o

-----------------------------------------------------------------------------
\* The property.
\* "unexpired within the configured clock skew (or lacks an expiration only when that is explicitly allowed)", at the instant k
UnexpiredAt(c, k) == IF c.exp = "zero" THEN c.allow ELSE ~ExpiredAt(c, k)
\* the credential is accepted, has every required scope and is unexpired within the skew
RestAt(c, k) == c.ver = "ok" /\ c.req \subseteq EffGranted(c) /\ UnexpiredAt(c, k)
AdmitAt(c, k) == ValidSyntax(c.hdr) /\ RestAt(c, k)
MayAdmitAt(c, k) == (ValidSyntax(c.hdr) \/ Unsettled(c.hdr)) /\ RestAt(c, k)
\* at the first arrival (the only instant of a case whose verifier is instantaneous)
Unexpired(c) == UnexpiredAt(c, 0)
Rest(c) == RestAt(c, 0)
Admit(c) == AdmitAt(c, 0)
MayAdmit(c) == MayAdmitAt(c, 0)

\* the statuses that the causes present in c mandate; the cause "expired" is present when the token is expired at one of
\* the instants of the presentation
CredStatuses(c, t0, t1) ==
  IF c.ver \in {"invalid", "wrapinvalid", "invalid_info"} THEN {401}
  ELSE IF c.ver = "oauth" THEN {400}
  ELSE IF c.ver \in {"other", "nilinfo", "other_info"} THEN {500}
  ELSE (IF ~(c.req \subseteq EffGranted(c)) THEN {403} ELSE {}) \cup (IF ~UnexpiredAt(c, t0) \/ ~UnexpiredAt(c, t1) THEN {401} ELSE {})
CauseStatuses(c, t0, t1) ==
  IF ValidSyntax(c.hdr) THEN CredStatuses(c, t0, t1)
  ELSE IF Unsettled(c.hdr) THEN {401} \cup CredStatuses(c, t0, t1)
  ELSE {401}

\* The statement says "unexpired" without naming an instant.  What it supports, and no more:
\*   ONLY IF  the handler runs only if the token is unexpired within the skew at the instant the handler is ENTERED: a
\*            token that is expired beyond the skew when the handler starts must never reach it, however long the
\*            verifier took and whatever the token's state was when the request arrived;
\*   IF       demanded only when the token is unexpired at BOTH instants, arrival t0 and decision t1.  A request whose
\*            token is unexpired at one of them and expired at the other is not covered by this half: there a 401
\*            "expired" and an admission are both acceptable answers to it.  (Time does not run backwards, d >= 0, so
\*            "expired at t0" implies "expired at t1" - Bearer!Monotone - and the window that is left open by BOTH halves
\*            is empty on this case space: unexpired at t0 and expired at t1 is refused by the ONLY-IF half, since no
\*            handler can be entered before t1.  The IF half is nevertheless stated in the weak form: it is all the
\*            statement gives.)
HIf(c, o) == (AdmitAt(c, o.arr) /\ AdmitAt(c, o.dec)) => o.ran
HOnlyIf(c, o) == o.ran => MayAdmitAt(c, o.dec)                 \* Admit = MayAdmit except on the unsettled shapes
HSameInfo(c, o) == o.ran => o.sameInfo                         \* handler sees exactly the verifier's info
HStatus(c, o) == ~o.ran => o.status \in CauseStatuses(c, o.arr, o.dec)    \* status by cause
HChallenge(c, o) ==
  /\ (~o.ran /\ o.status \in {401, 403} /\ c.opts = "set") =>  \* challenge carries what is configured
        /\ c.url # "none" => o.chalUrl = "match"
        /\ c.req # {} => o.chalScope = "match"
  /\ o.chalUrl # "other" /\ (o.chalUrl = "match" => c.url # "none")   \* and nothing that is not configured
  /\ o.chalScope # "other" /\ (o.chalScope = "match" => c.req # {})
Holds(c, o) == HIf(c, o) /\ HOnlyIf(c, o) /\ HSameInfo(c, o) /\ HStatus(c, o) /\ HChallenge(c, o)
\* the first clause of Holds that (c, o) fails (for the report of the monitor)
FailedClause(c, o) == IF ~HOnlyIf(c, o) THEN "OnlyIf" ELSE IF ~HIf(c, o) THEN "If" ELSE IF ~HSameInfo(c, o) THEN "SameInfo"
                      ELSE IF ~HStatus(c, o) THEN "Status" ELSE "Challenge"
=============================================================================
