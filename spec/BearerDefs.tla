------------------------------- MODULE BearerDefs ----------------------------
(* Decision table for auth.RequireBearerToken (auth/auth.go), property C14.   *)
(*  Cases      the abstract product of header shapes, verifier outcomes,      *)
(*             scope sets, expirations, skew and options                      *)
(*  Expected   the code-shaped procedure (checks in the code's order)         *)
(*  Holds      the property, stated declaratively over (case, outcome)        *)
(* TLC checks  \A c \in Cases : Holds(c, Expected(c))  (design level) and the  *)
(* monitor BearerMon evaluates Holds on outcomes of the real middleware.      *)
EXTENDS Integers, Sequences, FiniteSets, TLC, Json, SequencesExt

HdrShapes == {"absent", "bearer", "lower", "upper", "blanks", "tab", "lead", "onefield",
              "threefields", "basic", "glued", "empty"}
\* exactly two whitespace-separated fields, the first being "bearer" in any case
ValidSyntax(h) == h \in {"bearer", "lower", "upper", "blanks", "tab", "lead"}

\* "*_info": the verifier returns an error TOGETHER WITH a non-nil TokenInfo (e.g. claims parsed from a token whose
\* signature check failed): the verifier does not accept the credential
Verifiers == {"ok", "invalid", "wrapinvalid", "oauth", "other", "nilinfo", "invalid_info", "other_info"}
ScopeU == {"a", "b", "c"}
Required == {{}, {"a"}, {"a", "b"}}
Granted == {{}, {"a"}, {"b"}, {"a", "b"}, {"a", "b", "c"}}
\* expiration relative to now, AFTER adding the skew: -1 = one ns before now, 0 = now, 1 = one ns after
Exps == {"zero", "m1", "eq", "p1", "farpast", "farfuture"}
ExpDelta(e) == CASE e = "m1" -> -1 [] e = "eq" -> 0 [] e = "p1" -> 1
                 [] e = "farpast" -> -1000000 [] e = "farfuture" -> 1000000 [] OTHER -> 0
Skews == {0, 5}

\* dup: the granted scope LIST repeats each of its elements (scopes are a list in TokenInfo, not a set)
Cases ==
  { [hdr |-> h, ver |-> v, req |-> r, granted |-> g, dup |-> d, exp |-> e, skew |-> s, allow |-> a, url |-> u, opts |-> o] :
      h \in HdrShapes, v \in Verifiers, r \in Required, g \in Granted, d \in BOOLEAN, e \in Exps, s \in Skews,
      a \in BOOLEAN, u \in BOOLEAN, o \in {"nil", "set"} }
ValidCase(c) == /\ (c.opts = "nil" => (c.req = {} /\ c.skew = 0 /\ ~c.allow /\ ~c.url))
                /\ (c.dup => (c.granted # {} /\ c.hdr \in {"bearer", "lower"}))
CaseSet == {c \in Cases : ValidCase(c)}

-----------------------------------------------------------------------------
\* Outcome: [status, ran, sameInfo, chal, chalUrl, chalScope]
Reject(c, st) ==
  LET ch == st \in {401, 403} /\ c.opts = "set" /\ (c.url \/ c.req # {})
  IN [status |-> st, ran |-> FALSE, sameInfo |-> FALSE,
      chal |-> ch, chalUrl |-> ch /\ c.url, chalScope |-> ch /\ c.req # {}]

Expected(c) ==
  IF ~ValidSyntax(c.hdr) THEN Reject(c, 401)
  ELSE IF c.ver \in {"invalid", "wrapinvalid", "invalid_info"} THEN Reject(c, 401)
  ELSE IF c.ver = "oauth" THEN Reject(c, 400)
  ELSE IF c.ver \in {"other", "nilinfo", "other_info"} THEN Reject(c, 500)
  ELSE IF c.opts = "set" /\ ~(c.req \subseteq c.granted) THEN Reject(c, 403)
  ELSE IF c.exp = "zero" THEN (IF c.allow THEN [status |-> 200, ran |-> TRUE, sameInfo |-> TRUE, chal |-> FALSE, chalUrl |-> FALSE, chalScope |-> FALSE]
                               ELSE Reject(c, 401))
  ELSE IF ExpDelta(c.exp) < 0 THEN Reject(c, 401)      \* Expiration + skew is before now
  ELSE [status |-> 200, ran |-> TRUE, sameInfo |-> TRUE, chal |-> FALSE, chalUrl |-> FALSE, chalScope |-> FALSE]

-----------------------------------------------------------------------------
\* The property.
Unexpired(c) == IF c.exp = "zero" THEN c.allow ELSE ExpDelta(c.exp) >= 0
Admit(c) == /\ ValidSyntax(c.hdr) /\ c.ver = "ok"
            /\ c.req \subseteq c.granted
            /\ Unexpired(c)

\* the statuses that the causes present in c mandate
CauseStatuses(c) ==
  IF ~ValidSyntax(c.hdr) THEN {401}
  ELSE IF c.ver \in {"invalid", "wrapinvalid", "invalid_info"} THEN {401}
  ELSE IF c.ver = "oauth" THEN {400}
  ELSE IF c.ver \in {"other", "nilinfo", "other_info"} THEN {500}
  ELSE (IF ~(c.req \subseteq c.granted) THEN {403} ELSE {}) \cup (IF ~Unexpired(c) THEN {401} ELSE {})

Holds(c, o) ==
  /\ o.ran <=> Admit(c)                                       \* iff
  /\ o.ran => o.sameInfo                                      \* handler sees exactly the verifier's info
  /\ ~o.ran => o.status \in CauseStatuses(c)                  \* status by cause
  /\ (~o.ran /\ o.status \in {401, 403} /\ c.opts = "set") =>  \* challenge carries what is configured
        /\ c.url => o.chalUrl
        /\ c.req # {} => o.chalScope
  /\ o.chalUrl => c.url
  /\ o.chalScope => c.req # {}
=============================================================================
