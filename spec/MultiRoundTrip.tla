--------------------------- MODULE MultiRoundTrip ---------------------------
(* Extension check X01 - multi round-trip requests (SEP-2322).                *)
(*                                                                            *)
(* PROPERTIES (what a user of the SDK relies on; sources: docs/client.md and  *)
(* docs/server.md "Multi Round-Trip Requests", design/mrtr.md, the doc        *)
(* comments of MultiRoundTripOptions, CallToolParams.InputResponses /         *)
(* RequestState, CallToolResult.InputRequests / RequestState / NeedsInput,    *)
(* serverMultiRoundTripMiddleware, assertServerInitiatedRequestAllowed).      *)
(* "The three methods" are tools/call, prompts/get and resources/read; a      *)
(* "new" client negotiated protocol >= 2026-07-28, a "legacy" client an older *)
(* one; "the middleware" is the client's default multi round-trip middleware. *)
(*                                                                            *)
(*  P1 Terminates/Bounded  Every call of one of the three methods returns,    *)
(*     and never causes more than maxMultiRoundTripRetries (10) handler       *)
(*     invocations through a new client with the middleware (at most 3 of     *)
(*     them load-shedding results), exactly one per request the application   *)
(*     issues with the middleware Disabled,                                   *)
(*     and at most two per request the server receives from a legacy client   *)
(*     ("re-invokes your handler exactly once").                              *)
(*  P2 EchoExact  Every handler invocation after the first one of a call      *)
(*     receives exactly the responses to the input requests of the            *)
(*     immediately preceding invocation of that call - same ids, each answer  *)
(*     of the kind of its request and produced for that very request, nothing *)
(*     from an older round - together with the requestState of that           *)
(*     invocation, unchanged ("echo the IDs back", "threads RequestState back *)
(*     unchanged").                                                           *)
(*  P3 FirstRequestClean  The first handler invocation of a call receives     *)
(*     only the inputResponses / requestState the application itself put into *)
(*     the params (none, for a plain call): nothing left over from an earlier *)
(*     call ("provided when retrying a call after receiving a result with     *)
(*     ResultTypeInputRequired").                                             *)
(*  P4 CliJustified  A client elicitation / sampling handler is only ever     *)
(*     invoked for an input request contained in the latest handler result of *)
(*     the call in progress, with that request's payload, and at most once    *)
(*     per request per round.                                                 *)
(*  P5 NoRetryAfterFailure  If a client handler fails, or the client has no   *)
(*     handler for a requested kind, the call ends with an error; the server  *)
(*     handler is never re-invoked with a response missing ("If any of these  *)
(*     calls fail, the entire request fails").                                *)
(*  P6 FinalOutcome  With the middleware, the application never sees an       *)
(*     input-required result: a call returns the complete result of the last  *)
(*     handler invocation, or an error.  With the middleware Disabled (new    *)
(*     client) the result is returned as the handler produced it:             *)
(*     NeedsInput() is true iff the handler returned input requests (also an  *)
(*     empty map: load shedding), and InputRequests / RequestState are the    *)
(*     handler's.                                                             *)
(*  P7 EndsForAReason  A call whose last handler result asked for input ends  *)
(*     only because a client handler failed / is missing, a retry limit was   *)
(*     reached, the server shed load to a legacy client, or the middleware is *)
(*     Disabled; in particular a legacy client's input requests are bridged   *)
(*     for all three methods ("a handler written in the MRTR style works      *)
(*     against both old and new clients without code changes").               *)
(*  P8 InvalidIsInternalError  A handler result with both content and input   *)
(*     requests never reaches the client: the call fails with -32603 and no   *)
(*     client handler is invoked for it.                                      *)
(*  P9 ResultTypeIffNew  On the wire a result of the three methods carries    *)
(*     resultType iff the client is new; it is "input_required" iff the       *)
(*     result has inputRequests, else "complete".                             *)
(*  P10 Channel  A new client never receives elicitation/create,              *)
(*     sampling/createMessage or roots/list as server-initiated requests; a   *)
(*     legacy client receives one such request per input request of the       *)
(*     round and never an input_required resultType.                          *)
(*  P11 PassThrough  Other methods go through both middlewares untouched: one *)
(*     request on the wire per application call, no handler re-invocation.    *)
(*  P12 ReachesHandler  Every request the application issues for one of the   *)
(*     three methods - a first call, or with the middleware Disabled the call *)
(*     re-issued "with InputResponses set and RequestState echoed back" - is  *)
(*     answered by at least one invocation of the handler, which receives     *)
(*     exactly what the application sent (P2 holds for the application's own  *)
(*     retries as well).                                                      *)
(*                                                                            *)
(* DEVIATIONS of the code from the idealised design, modelled as the code is: *)
(*  D1 the server-side bridge re-invokes the handler once only (documented).  *)
(*     If the second invocation asks for input again the result is passed to  *)
(*     the legacy client unbridged and WITHOUT resultType: a legacy client    *)
(*     with the middleware Disabled sees an empty "complete-looking" result   *)
(*     whose InputRequests are set (outcome "rawinput"); a legacy SDK client  *)
(*     with the middleware continues the rounds on the client side (hybrid),  *)
(*     so its bound is 2 * maxMultiRoundTripRetries invocations.              *)
(*  D2 the load-shedding counter is cumulative over the call, not             *)
(*     consecutive, and is checked before the retry counter.                  *)
(*  D3 for a legacy client a load-shedding first result becomes the error     *)
(*     "the server is busy, retry later" (no retry by the server).            *)
(*  D4 when one bridged request fails the server stops waiting for the        *)
(*     others (errgroup context); a legacy client's handler may therefore     *)
(*     still be running when the call has already failed (orphan).  On a new  *)
(*     client every handler of the round has returned before the call does.   *)
(*                                                                            *)
(* Code modelled: mcp/mrtr.go (clientMultiRoundTripMiddleware,                *)
(* serverMultiRoundTripMiddleware, handleMultiRoundTripResult,                *)
(* fulfillInputRequests / fulfillServerInputRequests,                         *)
(* setMultiRoundTripRetryParams), the call sites in mcp/server.go (callTool,  *)
(* getPrompt, readResource) and mcp/client.go (NewClient, elicit,             *)
(* createMessage, listRoots).  One action per protocol step.                  *)
(*                                                                            *)
(* An input-request map is a total function Keys -> Kinds \cup {"-"} ("-":    *)
(* the id is not used); the empty map (all "-") is load shedding.  A          *)
(* requestState is 0 (none) or the number of the invocation that issued it.   *)
EXTENDS Integers, Sequences, FiniteSets, TLC

CONSTANTS Keys,        \* ids a handler gives its input requests, e.g. {"a","b"}
          MaxRetries,  \* maxMultiRoundTripRetries (10 in mcp/mrtr.go)
          MaxShed,     \* maxLoadSheddingMultiRoundTripRetries (3)
          MaxCalls,    \* application calls per behaviour
          MaxManual,   \* retries the application itself performs per call when the middleware is Disabled
          Modes,       \* subset of {"new","newoff","old","oldoff"}
          Others       \* {FALSE} or {FALSE,TRUE}: may a call be of another method

Kinds == {"elicit", "sample", "roots"}
KindOrNone == Kinds \cup {"-"}
AllMaps == [Keys -> KindOrNone]
Empty == [k \in Keys |-> "-"]
Dom(R) == {k \in Keys : R[k] # "-"}
\* the maps a handler may return (a configuration may override this with a subset of AllMaps)
HandlerMaps == AllMaps

VARIABLES mode,    \* "new": >= 2026-07-28 with middleware; "newoff": Disabled; "old"/"oldoff": legacy client
          hasE,    \* the client has an ElicitationHandler (and advertises the capability)
          hasS,    \* the client has a CreateMessageHandler
          callno,  \* number of the application call in progress
          other,   \* the call in progress is of a method other than the three
          pc,      \* protocol step
          params,  \* the request's params object on the client (mutated by the middleware)
          tries,   \* `retries` of clientMultiRoundTripMiddleware
          shed,    \* loadSheddingFailures
          sreq,    \* the params the server-side request carries (mutated by the server middleware)
          sround,  \* handler invocations for the request the server is serving
          res,     \* the handler's latest result
          inv,     \* handler invocations of this application call
          first,   \* ghost: no handler invocation yet in this call
          wres,    \* the reply on the wire
          who,     \* who is fulfilling the input requests of `res`: "client" | "server" | "none"
          fpend,   \* requests whose fulfilment has not started
          frun,    \* requests whose client handler is running
          fdone,   \* Keys -> "-" | "ok" | "fail"
          orphan,  \* legacy: client handlers still running although the server gave up (D4)
          late,    \* legacy: requests sent and given up before the client's handler began (D4)
          manual,  \* retries the application has performed itself in this call (middleware Disabled)
          outcome  \* what the application call returned

vars == <<mode, hasE, hasS, callno, other, pc, params, tries, shed, sreq, sround, res, inv, first, wres,
          who, fpend, frun, fdone, orphan, late, manual, outcome>>

IsNew == mode \in {"new", "newoff"}
MwOn  == mode \in {"new", "old"}

NoAnswer == [kind |-> "-", rnd |-> 0]
Fresh == [resp |-> [k \in Keys |-> NoAnswer], st |-> 0]
NoRes == [t |-> "none", reqs |-> Empty, st |-> 0, rt |-> ""]
NoWire == [k |-> "none", code |-> "", res |-> NoRes]
NoOutcome == [t |-> "none", code |-> "", reqs |-> Empty, st |-> 0]
NoneDone == [k \in Keys |-> "-"]

\* the params a retry must carry after result r of invocation n (P2)
Echo(r, n) == [resp |-> [k \in Keys |-> IF r.reqs[k] = "-" THEN NoAnswer ELSE [kind |-> r.reqs[k], rnd |-> n]],
               st |-> r.st]

Has(kind) == CASE kind = "elicit" -> hasE [] kind = "sample" -> hasS [] OTHER -> TRUE
Failed == \E k \in Keys : fdone[k] = "fail"

Init ==
  /\ mode \in Modes /\ hasE \in BOOLEAN /\ hasS \in BOOLEAN
  /\ callno = 0 /\ other = FALSE /\ pc = "idle"
  /\ params = Fresh /\ tries = 0 /\ shed = 0
  /\ sreq = Fresh /\ sround = 0 /\ res = NoRes /\ inv = 0 /\ first = TRUE /\ wres = NoWire
  /\ who = "none" /\ fpend = {} /\ frun = {} /\ fdone = NoneDone /\ orphan = {} /\ late = {}
  /\ manual = 0 /\ outcome = NoOutcome

FulfilUnchanged == UNCHANGED <<who, fpend, frun, fdone, orphan, late>>
ConfigUnchanged == UNCHANGED <<mode, hasE, hasS>>

\* ---- application ---------------------------------------------------------
\* ClientSession.CallTool / GetPrompt / ReadResource (o = FALSE) or another method (o = TRUE) with params
\* that carry no inputResponses / requestState (P3: this is the ideal; the code re-uses a params object
\* as the middleware left it)
AppCall(o) ==
  /\ pc \in {"idle", "done"} /\ callno < MaxCalls /\ orphan = {} /\ late = {}
  /\ callno' = callno + 1 /\ other' = o
  /\ params' = Fresh /\ tries' = 1 /\ shed' = 0 /\ inv' = 0 /\ first' = TRUE
  /\ res' = NoRes /\ wres' = NoWire /\ outcome' = NoOutcome /\ manual' = 0
  /\ pc' = "c_send"
  /\ UNCHANGED <<sreq, sround>> /\ FulfilUnchanged /\ ConfigUnchanged

\* MultiRoundTripOptions.Disabled: "callers must handle the retry loop themselves" - the application fulfils the
\* input requests of the result it got and re-issues the call with InputResponses set and RequestState echoed
AppRetry ==
  /\ pc = "done" /\ mode = "newoff" /\ ~other /\ outcome.t = "needsinput" /\ manual < MaxManual
  /\ manual' = manual + 1
  /\ params' = Echo(res, inv) /\ tries' = 1
  /\ outcome' = NoOutcome /\ wres' = NoWire
  /\ pc' = "c_send"
  /\ UNCHANGED <<callno, other, shed, sreq, sround, res, inv, first>> /\ FulfilUnchanged /\ ConfigUnchanged

\* next(ctx, method, req): the request goes onto the wire with the params as they are now
CSend ==
  /\ pc = "c_send"
  /\ sreq' = params /\ sround' = 0
  /\ pc' = "s_recv"
  /\ UNCHANGED <<callno, other, params, tries, shed, res, inv, first, wres, manual, outcome>> /\ FulfilUnchanged /\ ConfigUnchanged

Reply(w) == wres' = w /\ pc' = "c_got"
ReplyErr(c) == Reply([k |-> "err", code |-> c, res |-> NoRes])

\* ---- server --------------------------------------------------------------
\* a method the middlewares do not look at: served once (P11)
SOther ==
  /\ pc = "s_recv" /\ other
  /\ Reply([k |-> "res", code |-> "", res |-> [NoRes EXCEPT !.t = "complete"]])
  /\ UNCHANGED <<callno, other, params, tries, shed, sreq, sround, res, inv, first, manual, outcome>> /\ FulfilUnchanged /\ ConfigUnchanged

\* the tool / prompt / resource handler runs and returns what it likes:
\*   t = "complete"  content, no inputRequests
\*   t = "input"     inputRequests R (R = Empty: load shedding) and requestState (s: some / none)
\*   t = "invalid"   content AND inputRequests
\*   t = "err"       an error
SInvoke(t, R, s) ==
  /\ pc = "s_recv" /\ ~other
  /\ t \in {"complete", "input", "invalid", "err"} /\ R \in AllMaps /\ s \in BOOLEAN
  /\ t \in {"complete", "err"} => (R = Empty /\ ~s)
  /\ t = "invalid" => ~s
  /\ inv' = inv + 1 /\ sround' = sround + 1 /\ first' = FALSE
  /\ res' = [t |-> t, reqs |-> R, st |-> IF s THEN inv + 1 ELSE 0, rt |-> ""]
  /\ pc' = "s_post"
  /\ UNCHANGED <<callno, other, params, tries, shed, sreq, wres, manual, outcome>> /\ FulfilUnchanged /\ ConfigUnchanged

\* callTool / getPrompt / readResource after the handler: handleMultiRoundTripResult
SPost ==
  /\ pc = "s_post"
  /\ CASE res.t = "err"     -> ReplyErr("handler") /\ UNCHANGED res
       [] res.t = "invalid" -> ReplyErr("internal") /\ UNCHANGED res               \* P8
       [] OTHER -> /\ res' = [res EXCEPT !.rt = IF ~IsNew THEN ""                   \* P9
                                                 ELSE IF res.t = "input" THEN "input_required" ELSE "complete"]
                   /\ pc' = "s_mw" /\ UNCHANGED wres
  /\ UNCHANGED <<callno, other, params, tries, shed, sreq, sround, inv, first, manual, outcome>> /\ FulfilUnchanged /\ ConfigUnchanged

\* serverMultiRoundTripMiddleware, after next() returned without error
SMw ==
  /\ pc = "s_mw"
  /\ IF IsNew \/ sround = 2 \/ res.t # "input"
     THEN Reply([k |-> "res", code |-> "", res |-> res]) /\ FulfilUnchanged         \* new client, or D1
     ELSE IF res.reqs = Empty
     THEN ReplyErr("busy") /\ FulfilUnchanged                                       \* D3
     ELSE /\ who' = "server" /\ fpend' = Dom(res.reqs) /\ frun' = {} /\ fdone' = NoneDone
          /\ pc' = "fulfil" /\ UNCHANGED <<wres, orphan, late>>
  /\ UNCHANGED <<callno, other, params, tries, shed, sreq, sround, res, inv, first, manual, outcome>> /\ ConfigUnchanged

\* ---- fulfilling the input requests of `res` (errgroup: all started at once) ---
\* new client: fulfillInputRequest calls the client's handler directly;
\* legacy client: ServerSession.Elicit / CreateMessageWithTools / ListRoots send a request the client serves
FBegin(k) ==
  /\ pc = "fulfil" /\ k \in fpend
  /\ fpend' = fpend \ {k}
  /\ IF Has(res.reqs[k])
     THEN frun' = frun \cup {k} /\ UNCHANGED fdone     \* the handler is invoked (roots: the SDK's own root list)
     ELSE fdone' = [fdone EXCEPT ![k] = "fail"] /\ UNCHANGED frun   \* no handler / capability: an error, nothing is invoked
  /\ UNCHANGED <<callno, other, pc, params, tries, shed, sreq, sround, res, inv, first, wres, who, orphan, late, manual, outcome>> /\ ConfigUnchanged

FEnd(k, r) ==
  /\ pc = "fulfil" /\ k \in frun
  /\ r \in (IF res.reqs[k] = "roots" THEN {"ok"} ELSE {"ok", "fail"})
  /\ frun' = frun \ {k} /\ fdone' = [fdone EXCEPT ![k] = r]
  /\ UNCHANGED <<callno, other, pc, params, tries, shed, sreq, sround, res, inv, first, wres, who, fpend, orphan, late, manual, outcome>> /\ ConfigUnchanged

\* D4 (legacy only): after a failure the errgroup context is cancelled - a request not sent yet is not sent,
\* one in flight is abandoned (the server's call returns, the client's handler keeps running)
FSkip(k) ==
  /\ pc = "fulfil" /\ who = "server" /\ k \in fpend /\ Failed
  /\ fpend' = fpend \ {k} /\ fdone' = [fdone EXCEPT ![k] = "fail"]
  /\ UNCHANGED <<callno, other, pc, params, tries, shed, sreq, sround, res, inv, first, wres, who, frun, orphan, late, manual, outcome>> /\ ConfigUnchanged

FAbandon(k) ==
  /\ pc = "fulfil" /\ who = "server" /\ k \in frun /\ Failed
  /\ frun' = frun \ {k} /\ orphan' = orphan \cup {k} /\ fdone' = [fdone EXCEPT ![k] = "fail"]
  /\ UNCHANGED <<callno, other, pc, params, tries, shed, sreq, sround, res, inv, first, wres, who, fpend, late, manual, outcome>> /\ ConfigUnchanged

\* ... or one that was sent is given up before the client's handler has begun: the handler may still begin
\* (and end) later, or the cancellation overtakes it
FLate(k) ==
  /\ pc = "fulfil" /\ who = "server" /\ k \in fpend /\ Failed /\ Has(res.reqs[k])
  /\ fpend' = fpend \ {k} /\ late' = late \cup {k} /\ fdone' = [fdone EXCEPT ![k] = "fail"]
  /\ UNCHANGED <<callno, other, pc, params, tries, shed, sreq, sround, res, inv, first, wres, who, frun, orphan, manual, outcome>> /\ ConfigUnchanged

LBegin(k) ==
  /\ k \in late /\ late' = late \ {k} /\ orphan' = orphan \cup {k}
  /\ UNCHANGED <<callno, other, pc, params, tries, shed, sreq, sround, res, inv, first, wres, who, fpend, frun, fdone, manual, outcome>> /\ ConfigUnchanged

LDrop(k) ==
  /\ k \in late /\ late' = late \ {k}
  /\ UNCHANGED <<callno, other, pc, params, tries, shed, sreq, sround, res, inv, first, wres, who, fpend, frun, fdone, orphan, manual, outcome>> /\ ConfigUnchanged

OEnd(k) ==
  /\ k \in orphan /\ orphan' = orphan \ {k}
  /\ UNCHANGED <<callno, other, pc, params, tries, shed, sreq, sround, res, inv, first, wres, who, fpend, frun, fdone, late, manual, outcome>> /\ ConfigUnchanged

Return(o) == outcome' = o /\ pc' = "done"
RetErr(c) == Return([NoOutcome EXCEPT !.t = "error", !.code = c])

\* g.Wait() returned: everything is answered, or something failed (P5)
FJoin ==
  /\ pc = "fulfil" /\ fpend = {} /\ frun = {}
  /\ who' = "none"
  /\ IF who = "client"
     THEN IF Failed
          THEN RetErr("cfail") /\ UNCHANGED <<params, tries, sreq, wres>>
          ELSE /\ params' = Echo(res, inv) /\ tries' = tries + 1                   \* setMultiRoundTripRetryParams
               /\ pc' = "c_send" /\ UNCHANGED <<sreq, wres, manual, outcome>>
     ELSE IF Failed
          THEN ReplyErr("cfail") /\ UNCHANGED <<params, tries, sreq, manual, outcome>>
          ELSE /\ sreq' = Echo(res, inv)                                           \* re-invoke the handler once
               /\ pc' = "s_recv" /\ UNCHANGED <<params, tries, wres, manual, outcome>>
  /\ UNCHANGED <<callno, other, shed, sround, res, inv, first, fpend, frun, fdone, orphan, late, manual>> /\ ConfigUnchanged

\* ---- client, reply received ------------------------------------------------
Visible(w) ==
  IF w.k = "err" THEN [NoOutcome EXCEPT !.t = "error", !.code = w.code]
  ELSE IF w.res.rt = "input_required" THEN [t |-> "needsinput", code |-> "", reqs |-> w.res.reqs, st |-> w.res.st]
  ELSE IF w.res.t = "input" THEN [t |-> "rawinput", code |-> "", reqs |-> w.res.reqs, st |-> w.res.st]   \* D1
  ELSE [NoOutcome EXCEPT !.t = "complete"]

\* no middleware in the way (Disabled, or a method it passes through)
CPass ==
  /\ pc = "c_got" /\ (other \/ ~MwOn)
  /\ Return(Visible(wres))
  /\ UNCHANGED <<callno, other, params, tries, shed, sreq, sround, res, inv, first, wres, manual>> /\ FulfilUnchanged /\ ConfigUnchanged

\* clientMultiRoundTripMiddleware: error, or a result without inputRequests
CFinal ==
  /\ pc = "c_got" /\ ~other /\ MwOn
  /\ wres.k = "err" \/ wres.res.t # "input"
  /\ Return(Visible(wres))
  /\ UNCHANGED <<callno, other, params, tries, shed, sreq, sround, res, inv, first, wres, manual>> /\ FulfilUnchanged /\ ConfigUnchanged

\* ... a result with inputRequests: limits (D2), then fulfil
CInput ==
  /\ pc = "c_got" /\ ~other /\ MwOn
  /\ wres.k = "res" /\ wres.res.t = "input"
  /\ LET shed1 == IF wres.res.reqs = Empty THEN shed + 1 ELSE shed IN
     /\ shed' = shed1
     /\ IF shed1 >= MaxShed THEN RetErr("shedlimit") /\ FulfilUnchanged
        ELSE IF tries >= MaxRetries THEN RetErr("limit") /\ FulfilUnchanged
        ELSE /\ who' = "client" /\ fpend' = Dom(wres.res.reqs) /\ frun' = {} /\ fdone' = NoneDone
             /\ pc' = "fulfil" /\ UNCHANGED <<manual, outcome, orphan, late>>
  /\ UNCHANGED <<callno, other, params, tries, sreq, sround, res, inv, first, wres, manual>> /\ ConfigUnchanged

Next ==
  \/ \E o \in Others : AppCall(o)
  \/ AppRetry
  \/ CSend
  \/ SOther
  \/ \E t \in {"complete", "input", "invalid", "err"}, R \in HandlerMaps, s \in BOOLEAN : SInvoke(t, R, s)
  \/ SPost
  \/ SMw
  \/ \E k \in Keys : FBegin(k)
  \/ \E k \in Keys, r \in {"ok", "fail"} : FEnd(k, r)
  \/ \E k \in Keys : FSkip(k)
  \/ \E k \in Keys : FAbandon(k)
  \/ \E k \in Keys : FLate(k)
  \/ \E k \in Keys : LBegin(k)
  \/ \E k \in Keys : LDrop(k)
  \/ \E k \in Keys : OEnd(k)
  \/ FJoin
  \/ CPass
  \/ CFinal
  \/ CInput

Spec == Init /\ [][Next]_vars
FairSpec == Spec /\ WF_vars(Next)

\* ---- properties ------------------------------------------------------------
TypeOK ==
  /\ mode \in {"new", "newoff", "old", "oldoff"} /\ hasE \in BOOLEAN /\ hasS \in BOOLEAN
  /\ callno \in 0..MaxCalls /\ other \in BOOLEAN
  /\ pc \in {"idle", "c_send", "s_recv", "s_post", "s_mw", "fulfil", "c_got", "done"}
  /\ tries \in 0..MaxRetries /\ shed \in 0..MaxShed /\ sround \in 0..2 /\ inv \in 0..(2 * MaxRetries)
  /\ res.reqs \in AllMaps /\ fpend \subseteq Keys /\ frun \subseteq Keys /\ orphan \subseteq Keys /\ late \subseteq Keys
  /\ fdone \in [Keys -> {"-", "ok", "fail"}]
  /\ who \in {"none", "client", "server"} /\ manual \in 0..MaxManual

\* P1
InvBound == CASE mode = "new" -> MaxRetries [] mode = "old" -> 2 * MaxRetries [] mode = "newoff" -> 1 + manual [] OTHER -> 2
Bounded == inv <= InvBound /\ sround <= (IF IsNew THEN 1 ELSE 2) /\ shed <= MaxShed /\ tries <= MaxRetries
Terminates == (pc = "c_send") ~> (pc = "done")

\* P2 + P3: what the handler is about to see (the server-side request when the handler is entered)
EchoExact == (pc = "s_recv" /\ ~other) => sreq = (IF first THEN Fresh ELSE Echo(res, inv))

\* P4: while a round is being fulfilled every request of the latest result is in exactly one stage
\* (so a handler runs only for a request of that result, and once)
CliJustified ==
  pc = "fulfil" =>
    /\ res.t = "input"
    /\ fpend \cup frun \cup {k \in Keys : fdone[k] # "-"} = Dom(res.reqs)
    /\ fpend \cap frun = {} /\ \A k \in fpend \cup frun : fdone[k] = "-"
OnlyWhileFulfilling == pc # "fulfil" => (frun = {} /\ fpend = {})

\* P5 (action property): leaving the fulfilment towards another handler invocation needs every answer
NoRetryAfterFailure ==
  [][(pc = "fulfil" /\ pc' \in {"c_send", "s_recv"}) => (\A k \in Dom(res.reqs) : fdone[k] = "ok")]_vars

\* P6
FinalOutcome ==
  (pc = "done" /\ ~other) =>
    /\ outcome.t \in {"complete", "error", "needsinput", "rawinput"}
    /\ outcome.t = "complete" => res.t = "complete"
    /\ mode \in {"new", "old"} => outcome.t \in {"complete", "error"}
    /\ mode = "newoff" => /\ (outcome.t = "needsinput") = (res.t = "input")
                          /\ outcome.t = "needsinput" => (outcome.reqs = res.reqs /\ outcome.st = res.st)
                          /\ outcome.t # "rawinput"
    /\ mode = "oldoff" => /\ outcome.t # "needsinput"
                          /\ outcome.t = "rawinput" => (sround = 2 /\ res.t = "input")          \* D1

\* P7
EndsForAReason ==
  (pc = "done" /\ ~other /\ outcome.t = "error") =>
    /\ outcome.code \in {"handler", "internal", "cfail", "limit", "shedlimit", "busy"}
    /\ outcome.code = "handler" => res.t = "err"
    /\ outcome.code = "internal" => res.t = "invalid"
    /\ outcome.code = "cfail" => (res.t = "input" /\ Failed)
    /\ outcome.code = "limit" => (res.t = "input" /\ MwOn /\ tries = MaxRetries)
    /\ outcome.code = "shedlimit" => (res.t = "input" /\ MwOn /\ shed = MaxShed /\ res.reqs = Empty)
    /\ outcome.code = "busy" => (res.t = "input" /\ ~IsNew /\ res.reqs = Empty /\ sround = 1)

\* P8 + P9: what travels
WireOK ==
  (wres.k = "res" /\ ~other) =>
    /\ wres.res.t \in {"complete", "input"}
    /\ (wres.res.rt # "") = IsNew
    /\ (wres.res.rt = "input_required") = (IsNew /\ wres.res.t = "input")

\* P10: only a legacy client is asked by the server
Channel == who = "server" => ~IsNew
\* D4: on a new client nothing outlives the call
NoOrphanOnNew == IsNew => (orphan = {} /\ late = {})

\* P11
PassThrough == (other /\ pc = "done") => (inv = 0 /\ tries = 1 /\ outcome.t = "complete")
=============================================================================
