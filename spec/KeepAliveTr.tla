---------------------------- MODULE KeepAliveTr ----------------------------
(* Property C13, the dimension "transport x how a ping fails" (KeepAlive.tla  *)
(* Part 1b).  A case is a transport, a threshold and a script of CLASSES of   *)
(* that transport (what concretely happens to ping 1, 2, ...); for the        *)
(* property the script is the script of the classes' verdicts (Abstract), and *)
(* it is that script the ticker loop of KeepAlive.tla runs on - the loop does *)
(* not know transports.  (Where the table is permissive the loop needs one of *)
(* the two permitted readings to run on: CodeScript; TrProp checks the run    *)
(* against the table's verdicts all the same.)  That is the statement checked *)
(* on the real code: a "429", a "500", a refused connection or an             *)
(* undeliverable ping is a miss like a time-out (tolerated below the          *)
(* threshold, Accuracy), a "404 session not found" or a broken pipe may end   *)
(* the session at once.                                                       *)
(*                                                                            *)
(* Scripts: every script of at most Norm(T) + 1 classes that can be consumed  *)
(* to its end (nothing before its last ping ends keep-alive or the session),  *)
(* for every threshold of the configuration; scripts longer than 2 may be     *)
(* limited to TrDistinct distinct classes.  The owner closes the session      *)
(* between two pings after the script (the other ways of closing, the         *)
(* handshake, the Connect context, held pings and the ways of establishing    *)
(* the session are KeepAliveMC's business).                                   *)
(*   KeepAliveTr_gen.cfg       quick: thresholds 1..3, TrDistinct = 2         *)
(*   KeepAliveTr_thorough.cfg  thresholds 0..3, no limit                      *)
(* Both check every invariant and property of the design on these runs and    *)
(* export each terminal state as a case for the Go harness.                   *)
EXTENDS KeepAliveMC

CONSTANTS TrSet,       \* the transports of this configuration
          TrDistinct   \* scripts longer than 2: at most this many distinct classes

VARIABLES tr,          \* the transport of the case
          cls          \* its script of classes

trvars == <<vars, tr, cls>>

NoStalls == {}
OnlyInit == {"init"}
AllTransports == Transports

\* Code-shaped (for the expectation "drift" compares with, never for a verdict): where the table is
\* permissive (basis "none": the session may end at once or count a failed ping) the run needs to know
\* which it is expected to be.  The streamable client turns an event stream that ended before the
\* response into an error reply to the call ("request terminated without response"): a miss.  Every other
\* permissive class is expected to end the session.
CodeAs(t, c) == IF t = "httpc" /\ c = "ssecut" THEN "c" ELSE VerdictOf(t, c)
ASSUME \A r \in ClassTable : CodeAs(r[1], r[2]) # r[3] => (r[3] = "d" /\ r[4] = "none")
CodeScript(t, cs) == [i \in 1..Len(cs) |-> CodeAs(t, cs[i])]
\* classes after which the script goes on: the ping is answered or is counted as a miss
Goes(t) == {c \in ClassesOf(t) : CodeAs(t, c) \in {"a", "t", "c"}}
AsPings(s) == [i \in 1..Len(s) |-> [o |-> s[i]]]
Distinct(s) == Cardinality({s[i] : i \in 1..Len(s)})
\* scripts of n classes after each of which the script goes on: no ping of theirs completes a run of
\* Norm(T) failures (filtered before they are extended: the enumeration stays small)
Prefixes(t, T, n) ==
  {p \in [1..n -> Goes(t)] :
     /\ n + 1 > 2 => Distinct(p) <= TrDistinct
     /\ LET ps == AsPings(CodeScript(t, p)) IN \A i \in 1..n : ~Run(ps, i, Norm(T))}
ClassScripts(t, T) ==
  UNION {{s \in {Append(p, c) : p \in Prefixes(t, T, n - 1), c \in ClassesOf(t)} :
             Len(s) > 2 => Distinct(s) <= TrDistinct} : n \in 1..(Norm(T) + 1)}

TrInit ==
  /\ tr \in TrSet /\ thr0 \in Thresholds
  /\ cls \in ClassScripts(tr, thr0)
  /\ endMode = "idle"
  /\ InitWith({CodeScript(tr, cls)})
TrNext == Next /\ UNCHANGED <<tr, cls>>
TrSpec == TrInit /\ [][TrNext]_trvars /\ WF_trvars(TrNext)

\* code-shaped only (drift): a server session that its client ends with DELETE is over when the ping it
\* has outstanding is (Close waits for it), that is a ping timeout after the instant the model ends it
DLag == IF tr = "https" /\ closedAt >= 0 /\ cls[Len(hist)] = "deleted" THEN PingTimeout(Interval) ELSE 0
TrCaseJson == ("tr" :> tr) @@ ("cls" :> cls) @@ ("verdicts" :> Abstract(tr, cls)) @@ ("dlag" :> DLag) @@ CaseJson
TrExport == IF Terminal THEN PrintT(ToJson(TrCaseJson)) ELSE TRUE

\* the run is made of the classes' (code-shaped) outcomes, and a "d" is the last thing a session sees
TrInv == /\ \A i \in 1..Len(hist) : hist[i].o = CodeAs(tr, cls[i])
         /\ \A i \in 1..Len(hist) : hist[i].o = "d" => (i = Len(hist) /\ (pc = "ping" \/ closedAt = hist[i].at))
\* a miss of any class below the threshold never ends the session (the point of the dimension)
TrTolerant == (closedAt >= 0 /\ VerdictOf(tr, cls[Len(hist)]) # "d") => Run(hist, Len(hist), Norm(thr0))
\* and the run satisfies the property as the monitor will judge it: with the TABLE's verdicts
PropObs == [ObsOf EXCEPT !.pings = [i \in 1..Len(hist) |-> [hist[i] EXCEPT !.o = VerdictOf(tr, cls[i])]]]
TrProp == /\ Accuracy(PropObs) /\ Timing(PropObs) /\ SilentStop(PropObs)
          /\ pc # "ping" => Completeness(PropObs)
          /\ Terminal => Holds(PropObs)
=============================================================================
