SPECIFICATION MCSpec
CONSTANTS
  Ids = {1,2,3,4,5}
  PageSizes = {1,2,3}
  MaxMut = 4
  MaxTrav = 2
CONSTRAINT Bound
CONSTANT HiddenSets <- NoHidden
CONSTANT ClassMaps <- MixedMap
VIEW MCView
INVARIANTS TypeOK HiddenNeverSeen ExactlyOnceNoMutation StableExactlyOnce StrictlyIncreasing NoDuplicates EndsWithEmptyCursor BadCursorRejected PageShape IndexFresh EndClassExplicit ProbesOK WalkOK
