SPECIFICATION Spec
CONSTANTS
  NSess = 1
  CC <- C1
  Nest <- NoNest
  NCN = 1
  NSN = 1
  MaxFaults = 1
  FaultKinds <- FCore
  HoldKinds <- HNone
  Combos = TRUE
  HandsAll = TRUE
  Bug = "asyncnote"
INVARIANTS C03_NotificationCompletesFirst
CHECK_DEADLOCK FALSE
