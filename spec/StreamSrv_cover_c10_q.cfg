SPECIFICATION SeamSpec
CONSTANTS
  Sess = {"s1","s2"}
  Reqs = {"r1"}
  Gets = {}
  Cfgs <- CfgPlainSse
  MaxEmit = 1
  MaxSreq = 1
  MaxSa = 0
  MaxBc = 0
  DupOf <- NoDup
  Gates = FALSE
VIEW MCView
CHECK_DEADLOCK FALSE
