SPECIFICATION SeamSpec
CONSTANTS
  Sess = {"s1","s2"}
  Reqs = {"r1"}
  Gets = {"g1"}
  Cfgs <- CfgPlainSse
  MaxEmit = 1
  MaxSreq = 1
  MaxSa = 1
  Gates = FALSE
VIEW MCView
CHECK_DEADLOCK FALSE
