SPECIFICATION Spec
CONSTANTS
  Rounds = 2
  CfgURLs <- GenCfgURLs
  IdOutcomes <- GenIdOutcomes
  MetaOutcomes <- GenMetaOutcomes
  ExOutcomes <- GenExOutcomes
  JwtOutcomes <- GenJwtOutcomes
VIEW CoverView
INVARIANT ResultKnown
CHECK_DEADLOCK FALSE
