------------------------------- MODULE Fanout -------------------------------
(* C03, fan-out satellite.  ONE sender goroutine executes a program of        *)
(* notifying methods and calls over 1-3 sessions:                             *)
(*   <<"F", 0>>   a notifying method that fans out over ALL sessions          *)
(*                (Client.AddRoots/RemoveRoots -> notifySessions;             *)
(*                 Server.ResourceUpdated -> notifySessions +                 *)
(*                 notifySubscribedSessions)                                  *)
(*   <<"N", i>>   a per-session notifying method (NotifyProgress, Log)        *)
(*   <<"C", i>>   an ordinary call on session i (CallTool, CreateMessage)     *)
(* Every message <<k, i>> (op index, session) goes down session i's outgoing  *)
(* path: sending middleware ("mw"), where the ENVIRONMENT may hold it (a slow *)
(* write, a tracing / credentials hook), then the explicit hand-over to the   *)
(* transport ("wire": appended to the peer's inbox).  The peer of session i   *)
(* dispatches its inbox in order; the handler of a notification blocks the    *)
(* dispatcher until it returns (and the environment may make it slow), the    *)
(* handler of a call is asynchronous.  A notifying method returns when its    *)
(* last message has been handed over, a call when its handler has finished.   *)
(*                                                                            *)
(* Mode = "sync" is the design of the code: notifySessions hands every        *)
(* message over on the caller's goroutine.  The what-if modes detach the      *)
(* hand-over (a goroutine per session) and return early:                      *)
(*   "asyncMulti"   when the fan-out has two or more targets                  *)
(*   "asyncButLast" for every target but the last                             *)
(* and must violate ObservedInOrder (sensitivity witnesses).                  *)
(*                                                                            *)
(* Property (per session i, m1 = <<k1,i>>, m2 = <<k2,i>>, k1 < k2, the method *)
(* of op k1 had RETURNED when op k2 was issued): the peer starts handling m2  *)
(* only after m1 was started (ObservedInOrder) and, if m1 is a notification,  *)
(* only after m1's handler finished (NotificationCompletesFirst).             *)
EXTENDS Integers, Sequences, FiniteSets, TLC, Json

CONSTANTS NS,           \* number of sessions
          MinLen,       \* program length bounds
          MaxLen,
          CallOK,       \* sessions on which ordinary calls may be made (none on 2026-07-28 server->client)
          MaxHeld,      \* bound on the number of gates the environment arms in one behaviour
          Mode,         \* "sync" | "asyncMulti" | "asyncButLast"
          LateRelease,  \* TRUE: a gate is released only when nothing else can move (what the harness does)
          AnyOrder,     \* TRUE: a fan-out visits the sessions in any order; FALSE: ascending
          SymReduce,    \* TRUE (exhaustive configurations with AnyOrder = TRUE and CallOK = all sessions only): the sessions
                        \* are interchangeable, so only programs that name them in order of first use are explored
          Canon         \* TRUE (scenario generation only, Mode = "sync"): between two releases the SDK's steps are taken in one
                        \* fixed order (peers by number, then the sender).  The synchronous design is a deterministic data-flow
                        \* network, so the order of its internal steps changes neither what the environment can choose (which
                        \* gates to arm, which to release when nothing else can move) nor the outcome: every scenario
                        \* <<program, armed gates, release order>> is still generated, once.

VARIABLES prog,       \* the program (chosen initially)
          pc,         \* index of the op the sender is at
          sst,        \* "idle" (about to issue op pc) | "busy" (handing messages over) | "await" (call: waits for the answer)
          todo,       \* sessions the sender still has to hand the current op's message to (head = in progress)
          det,        \* messages whose hand-over was detached from the sender (what-if modes)
          stage,      \* message -> "none" | "mw" | "sheld" | "rdy" | "wire" | "started" | "hheld" | "resumed" | "finished"
          inbox,      \* session -> messages handed to the transport, not yet dispatched by the peer
          running,    \* session -> the notification whose handler blocks the peer's dispatcher (or None)
          retd,       \* ops whose method has returned
          retBefore,  \* op -> the ops that had returned when it was issued
          armS, armH, \* environment decisions: send gates / handler gates armed
          rel         \* order in which the environment released the gates
vars == <<prog, pc, sst, todo, det, stage, inbox, running, retd, retBefore, armS, armH, rel>>

Sessions == 1..NS
None == <<0, 0>>
Ops == {<<"F", 0>>} \cup {<<"N", i>> : i \in Sessions} \cup {<<"C", i>> : i \in CallOK}
Targets(o) == IF o[1] = "F" THEN Sessions ELSE {o[2]}
Ids == (1..MaxLen) \X Sessions
Len0 == Len(prog)
IsMsg(m) == m[1] <= Len0 /\ m[2] \in Targets(prog[m[1]])
Msgs == {m \in Ids : IsMsg(m)}
IsNotif(m) == prog[m[1]][1] # "C"
\* a later op of the program reaches the same session: only then can a delay of m be observed at all
Relevant(m) == \E k \in (m[1] + 1)..Len0 : m[2] \in Targets(prog[k])
Useful(p) == \E k1, k2 \in DOMAIN p : k1 < k2 /\ Targets(p[k1]) \cap Targets(p[k2]) # {}
\* the sessions are named in order of first use (a fan-out names none)
FirstUse(p) == \A k \in DOMAIN p : p[k][1] = "F" \/ \A i \in 1..(p[k][2] - 1) : \E j \in 1..(k - 1) : p[j][1] # "F" /\ p[j][2] = i
Programs == {p \in UNION {[1..n -> Ops] : n \in MinLen..MaxLen} : Useful(p) /\ (SymReduce => FirstUse(p))}

Orders(S) == LET n == Cardinality(S)
                 all == {f \in [1..n -> S] : \A a, b \in 1..n : a # b => f[a] # f[b]}
             IN IF AnyOrder THEN all ELSE {f \in all : \A a, b \in 1..n : a < b => f[a] < f[b]}
\* the targets whose hand-over is detached from the caller's goroutine
Detached(ord) == CASE Mode = "sync" -> {}
                   [] Mode = "asyncMulti" -> IF Len(ord) >= 2 THEN {ord[j] : j \in 1..Len(ord)} ELSE {}
                   [] Mode = "asyncButLast" -> {ord[j] : j \in 1..(Len(ord) - 1)}

Init == /\ prog \in Programs
        /\ pc = 1 /\ sst = "idle" /\ todo = <<>> /\ det = {}
        /\ stage = [m \in Ids |-> "none"]
        /\ inbox = [i \in Sessions |-> <<>>]
        /\ running = [i \in Sessions |-> None]
        /\ retd = {} /\ retBefore = [k \in 1..MaxLen |-> {}]
        /\ armS = {} /\ armH = {} /\ rel = <<>>

NHeld == Cardinality(armS) + Cardinality(armH)
Started(m) == stage[m] \in {"started", "hheld", "resumed", "finished"}
Finished(m) == stage[m] = "finished"

\* who can move
PeerEn(i) == \/ running[i] = None /\ inbox[i] # <<>>
             \/ \E m \in Ids : IsMsg(m) /\ m[2] = i /\ stage[m] \in {"started", "resumed"}
SenderEn == \/ sst = "idle" /\ pc <= Len0
            \/ \E m \in Ids : IsMsg(m) /\ stage[m] \in {"mw", "rdy"}
PeerTurn(i) == Canon => \A j \in 1..(i - 1) : ~PeerEn(j)
SenderTurn == Canon => \A j \in Sessions : ~PeerEn(j)

\* ---------------------------------------------------------------- the sender
Return == /\ retd' = retd \cup {pc} /\ pc' = pc + 1 /\ sst' = "idle"

Issue == /\ sst = "idle" /\ pc <= Len0 /\ SenderTurn
         /\ retBefore' = [retBefore EXCEPT ![pc] = retd]
         /\ \E ord \in Orders(Targets(prog[pc])) :
              LET d    == IF prog[pc][1] = "F" THEN Detached(ord) ELSE {}
                  keep == SelectSeq(ord, LAMBDA i : i \notin d)
                  ent  == {<<pc, i>> : i \in d} \cup (IF keep = <<>> THEN {} ELSE {<<pc, Head(keep)>>})
              IN /\ det' = det \cup {<<pc, i>> : i \in d}
                 /\ stage' = [m \in Ids |-> IF m \in ent THEN "mw" ELSE stage[m]]
                 /\ IF keep = <<>> THEN Return /\ todo' = <<>>
                    ELSE sst' = "busy" /\ todo' = keep /\ UNCHANGED <<pc, retd>>
         /\ UNCHANGED <<prog, inbox, running, armS, armH, rel>>

\* the environment holds the message in the sending path
ArmS(m) == /\ stage[m] = "mw" /\ Relevant(m) /\ NHeld < MaxHeld /\ SenderTurn
           /\ stage' = [stage EXCEPT ![m] = "sheld"] /\ armS' = armS \cup {m}
           /\ UNCHANGED <<prog, pc, sst, todo, det, inbox, running, retd, retBefore, armH, rel>>

\* the message is handed to the transport; whoever carried it goes on
HandOver(m) ==
  /\ stage[m] \in {"mw", "rdy"} /\ SenderTurn
  /\ inbox' = [inbox EXCEPT ![m[2]] = Append(@, m)]
  /\ IF m \in det
     THEN /\ det' = det \ {m} /\ stage' = [stage EXCEPT ![m] = "wire"]
          /\ UNCHANGED <<pc, sst, todo, retd>>
     ELSE /\ sst = "busy" /\ m = <<pc, Head(todo)>>
          /\ todo' = Tail(todo) /\ UNCHANGED det
          /\ IF Tail(todo) # <<>>
             THEN /\ stage' = [stage EXCEPT ![m] = "wire", ![<<pc, Head(Tail(todo))>>] = "mw"]
                  /\ UNCHANGED <<pc, sst, retd>>
             ELSE /\ stage' = [stage EXCEPT ![m] = "wire"]
                  /\ IF prog[pc][1] = "C" THEN sst' = "await" /\ UNCHANGED <<pc, retd>> ELSE Return
  /\ UNCHANGED <<prog, running, retBefore, armS, armH, rel>>

\* ------------------------------------------------------------------ the peer
Start(i) == /\ running[i] = None /\ inbox[i] # <<>> /\ PeerTurn(i)
            /\ LET m == Head(inbox[i]) IN
                 /\ stage' = [stage EXCEPT ![m] = "started"]
                 /\ running' = [running EXCEPT ![i] = IF IsNotif(m) THEN m ELSE None]
            /\ inbox' = [inbox EXCEPT ![i] = Tail(@)]
            /\ UNCHANGED <<prog, pc, sst, todo, det, retd, retBefore, armS, armH, rel>>

\* the environment makes the notification's handler slow
ArmH(m) == /\ stage[m] = "started" /\ IsNotif(m) /\ Relevant(m) /\ NHeld < MaxHeld /\ PeerTurn(m[2])
           /\ stage' = [stage EXCEPT ![m] = "hheld"] /\ armH' = armH \cup {m}
           /\ UNCHANGED <<prog, pc, sst, todo, det, inbox, running, retd, retBefore, armS, rel>>

Finish(m) == /\ stage[m] \in {"started", "resumed"} /\ PeerTurn(m[2])
             /\ stage' = [stage EXCEPT ![m] = "finished"]
             /\ running' = [running EXCEPT ![m[2]] = IF @ = m THEN None ELSE @]
             /\ IF IsNotif(m) THEN UNCHANGED <<pc, sst, retd>>
                ELSE sst = "await" /\ pc = m[1] /\ Return     \* the answer reaches the caller
             /\ UNCHANGED <<prog, todo, det, inbox, retBefore, armS, armH, rel>>

\* -------------------------------------------------------- releasing the gates
Quiet == ~SenderEn /\ \A i \in Sessions : ~PeerEn(i)
ReleaseS(m) == /\ stage[m] = "sheld" /\ (LateRelease => Quiet)
               /\ stage' = [stage EXCEPT ![m] = "rdy"] /\ rel' = Append(rel, <<"s", m[1], m[2]>>)
               /\ UNCHANGED <<prog, pc, sst, todo, det, inbox, running, retd, retBefore, armS, armH>>
ReleaseH(m) == /\ stage[m] = "hheld" /\ (LateRelease => Quiet)
               /\ stage' = [stage EXCEPT ![m] = "resumed"] /\ rel' = Append(rel, <<"h", m[1], m[2]>>)
               /\ UNCHANGED <<prog, pc, sst, todo, det, inbox, running, retd, retBefore, armS, armH>>

Next == \/ Issue
        \/ \E m \in Msgs : ArmS(m) \/ HandOver(m) \/ ArmH(m) \/ Finish(m) \/ ReleaseS(m) \/ ReleaseH(m)
        \/ \E i \in Sessions : Start(i)
Spec == Init /\ [][Next]_vars

\* ----------------------------------------------------------------- property
Pairs == {<<m1, m2>> \in Msgs \X Msgs : m1[2] = m2[2] /\ m1[1] < m2[1] /\ m1[1] \in retBefore[m2[1]]}
ObservedInOrder == \A p \in Pairs : Started(p[2]) => Started(p[1])
NotificationCompletesFirst == \A p \in Pairs : (Started(p[2]) /\ IsNotif(p[1])) => Finished(p[1])

Done == pc = Len0 + 1 /\ \A m \in Msgs : Finished(m)
\* nothing the environment owes is outstanding, nothing can move: then the program is over
NoStuck == (Quiet /\ \A m \in Msgs : stage[m] \notin {"sheld", "hheld"}) => Done
TypeOK == /\ pc \in 1..(MaxLen + 1) /\ sst \in {"idle", "busy", "await"}
          /\ \A i \in Sessions : running[i] = None \/ (IsMsg(running[i]) /\ IsNotif(running[i]))
          /\ det \subseteq Msgs

\* vacuity witnesses: each must be VIOLATED in "sync" mode
\* (a message queues up behind a slow notification handler; the sender is blocked on a held message)
WitNeverQueuedBehind == \A i \in Sessions : running[i] # None => inbox[i] = <<>>
WitNeverSenderHeld == ~(sst = "busy" /\ stage[<<pc, Head(todo)>>] = "sheld" /\ \E m \in Msgs : stage[m] = "hheld")

\* ------------------------------------------------------------------- export
SetSeq(S) == LET RECURSIVE R(_)
                 R(T) == IF T = {} THEN <<>> ELSE LET x == CHOOSE x \in T : \A y \in T : x[1] < y[1] \/ (x[1] = y[1] /\ x[2] <= y[2])
                                                  IN <<x>> \o R(T \ {x})
             IN R(S)
Emit == Done => PrintT(ToJson([prog |-> prog, armS |-> SetSeq(armS), armH |-> SetSeq(armH), rel |-> rel]))
EmitC == Emit
\* for the exhaustive configurations: the property does not depend on the bookkeeping of the environment's choices
MCView == <<prog, pc, sst, todo, det, stage, inbox, running, retd, retBefore>>
=============================================================================
