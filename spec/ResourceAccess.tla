---------------------------- MODULE ResourceAccess ----------------------------
(* X07 ResourceAccess (extension check): how an mcp.Server resolves           *)
(* resources/read to a registered resource or resource template, and the      *)
(* file-system resource handler.                                              *)
(*                                                                            *)
(* PROPERTIES                                                                 *)
(*  (sources: docs/server.md "Resources": "The SDK ensures that a read        *)
(*   succeeds only if the URI matches a registered resource exactly, or       *)
(*   matches the URI pattern of a resource template"; doc comments of         *)
(*   ResourceHandler, ResourceNotFoundError, AddResource, RemoveResources,    *)
(*   AddResourceTemplate, RemoveResourceTemplates, fileResourceHandler,       *)
(*   readResource "This is a security check as well as an information         *)
(*   lookup", "Treat an unregistered resource the same as a registered one    *)
(*   that couldn't be found")                                                 *)
(*                                                                            *)
(*  P1 Resolution.  For every set of registered resources and templates and   *)
(*     every requested URI u, a resources/read of u invokes at most one       *)
(*     handler: the handler of the resource registered for exactly u if there *)
(*     is one, otherwise the handler of a registered template whose pattern   *)
(*     matches u, and if there is neither it invokes no handler and fails     *)
(*     with the resource-not-found error for u (the same error a handler      *)
(*     produces with ResourceNotFoundError); a read never succeeds without a  *)
(*     registered handler having produced the result.                         *)
(*     (Which of several matching templates is chosen is not documented; the  *)
(*     code takes the first in bytewise order of the template text - the      *)
(*     code-shaped Expected says so, a different choice is drift.)            *)
(*  P2 Confinement.  For every URI whatsoever (dot-dot segments, percent-     *)
(*     encoded separators and dots, absolute paths, symbolic links that leave *)
(*     the directory directly, through a directory link, through a chain or   *)
(*     by an absolute target, empty path, other scheme, host part, query,     *)
(*     fragment, NUL) the file resource handler never returns the contents of *)
(*     a file outside its directory; whatever it returns is the contents of   *)
(*     the file the path denotes; it answers only file: URIs; a regular file  *)
(*     of the directory addressed by a plain path is served and a plain path  *)
(*     to nothing yields resource-not-found.                                  *)
(*  P3 Roots.  When the client has declared roots, the file resource handler  *)
(*     ("honors client roots") returns only files that lie under one of them. *)
(*     DEVIATION D1: the check is lexical; a symbolic link below a root that  *)
(*     leads to a file of the directory outside every root is served.         *)
(*  P4 Results.  A read succeeds only if the selected handler returned a      *)
(*     result with contents; the contents arrive in order and unaltered       *)
(*     (fields the handler left empty may be filled in: URI with the          *)
(*     requested URI, MIME type with the registered one - code-shaped); an    *)
(*     error of the handler reaches the client with its code.                 *)
(*  P5 Registration.  AddResource / AddResourceTemplate panic exactly when    *)
(*     the URI (template) is invalid or has an empty scheme.                  *)
(*     DEVIATION D2: only the syntax is checked; URIs without a scheme are    *)
(*     accepted and served.                                                   *)
(*  P6 Histories.  For every history of AddResource, RemoveResources,         *)
(*     AddResourceTemplate, RemoveResourceTemplates and concurrent reads:     *)
(*     the outcome of each read is the resolution (P1) in the registry as it  *)
(*     was at some moment between the start and the end of the read; hence a  *)
(*     read that starts after a removal has returned is never served by the   *)
(*     removed handler, a read that starts after a re-registration has        *)
(*     returned is served by the new handler only ("or replaces one with the  *)
(*     same URI"), a read in flight during a change may see either; removing  *)
(*     what is not registered changes nothing; every read ends (liveness,     *)
(*     under fairness of the server's steps and handlers that return).        *)
(*                                                                            *)
(* This module is the state machine for P6, shaped like the code:             *)
(*   Mut       Server.changeAndNotify: one critical section under Server.mu   *)
(*             (featureSet.add / remove)                                      *)
(*   ReadStart the client sends resources/read (the request is on its way /   *)
(*             held in a receiving middleware of the server)                  *)
(*   ReadLookup Server.lookupResourceHandler: one critical section under      *)
(*             Server.mu; binds the handler (or fails with not-found)         *)
(*   ReadReturn the bound handler - user code, outside the lock - returns and *)
(*             the response goes back                                         *)
(* A handler is identified by (kind, key, generation); generations number the *)
(* registrations, so that a re-registration is distinguishable.               *)
EXTENDS ResourceAccessDefs

CONSTANTS Readers,    \* reader ids, e.g. {"r1", "r2"}
          XE,         \* exact resources that may be registered (names of ExactSeq)
          XT,         \* templates that may be registered (names of TemplateSeq)
          XU,         \* URIs that are read
          MaxMut,     \* bound on the number of mutations
          MaxRead     \* bound on the number of reads started

VARIABLES ex,     \* [XE -> Nat]: generation of the registered handler, 0 = not registered  (Server.resources)
          tm,     \* [XT -> Nat]                                                           (Server.resourceTemplates)
          gen,    \* generations issued so far
          rd,     \* [Readers -> [st, u, bind, poss, seen, noexact]]  (poss, seen, noexact: ghosts)
          nMut, nRead,
          res     \* result of the last step (output only)
vars == <<ex, tm, gen, rd, nMut, nRead, res>>

NotFound == [k |-> "N", key |-> "", g |-> 0]
Tag(k, key, g) == [k |-> k, key |-> key, g |-> g]
Idle == [st |-> "idle", u |-> <<>>, bind |-> NotFound, poss |-> {}, seen |-> {}, noexact |-> FALSE]

\* the match relation of the configuration, evaluated once (constant level)
MatchSet == {p \in XT \X XU : Match(p[1], p[2])}
Mt(y, u) == <<y, u>> \in MatchSet
ExactSet == {p \in XE \X XU : ExactU(p[1]) = p[2]}
Eq(x, u) == <<x, u>> \in ExactSet

\* P1 on a registry (e, t): the set of outcomes the property allows for a read of u
Allowed(e, t, u) ==
  LET hit == {x \in DOMAIN e : e[x] > 0 /\ Eq(x, u)}
      mt  == {y \in DOMAIN t : t[y] > 0 /\ Mt(y, u)} IN
  IF hit # {} THEN {Tag("E", x, e[x]) : x \in hit}
  ELSE IF mt # {} THEN {Tag("T", y, t[y]) : y \in mt}
  ELSE {NotFound}
\* what the code does: exact first, then the first matching template in the order of the feature set
Lookup(e, t, u) ==
  LET hit == {x \in DOMAIN e : e[x] > 0 /\ Eq(x, u)}
      mt  == {y \in DOMAIN t : t[y] > 0 /\ Mt(y, u)} IN
  IF hit # {} THEN LET x == CHOOSE x \in hit : TRUE IN Tag("E", x, e[x])
  ELSE IF mt # {} THEN LET y == CHOOSE y \in mt : \A z \in mt : TemplateRank(y) <= TemplateRank(z) IN Tag("T", y, t[y])
  ELSE NotFound

Init == /\ ex = [x \in XE |-> 0] /\ tm = [y \in XT |-> 0] /\ gen = 0
        /\ rd = [r \in Readers |-> Idle]
        /\ nMut = 0 /\ nRead = 0
        /\ res = [kind |-> "none"]

\* ghosts of a read in flight: poss = the outcomes P1 allows in some registry of its window; seen = the handlers
\* registered at some moment of its window; noexact = at some moment no resource was registered for exactly its URI
Handlers(e, t) == {Tag("E", x, e[x]) : x \in {x \in DOMAIN e : e[x] > 0}} \cup {Tag("T", y, t[y]) : y \in {y \in DOMAIN t : t[y] > 0}}
NoExact(e, u) == ~\E x \in DOMAIN e : e[x] > 0 /\ Eq(x, u)
Widen(e2, t2) == [r \in Readers |-> IF rd[r].st = "idle" THEN rd[r]
                                    ELSE [rd[r] EXCEPT !.poss = @ \cup Allowed(e2, t2, rd[r].u),
                                                       !.seen = @ \cup Handlers(e2, t2),
                                                       !.noexact = @ \/ NoExact(e2, rd[r].u)]]

Mutate(e2, t2, g2, op, key) ==
  /\ nMut < MaxMut
  /\ ex' = e2 /\ tm' = t2 /\ gen' = g2
  /\ rd' = Widen(e2, t2)
  /\ nMut' = nMut + 1
  /\ res' = [kind |-> "mut", op |-> op, key |-> key, g |-> g2]
  /\ UNCHANGED nRead

\* (the first conjunct keeps each of the four a named action of its own for TLC's action labels and coverage)
AddRes(x) == x \in XE /\ Mutate([ex EXCEPT ![x] = gen + 1], tm, gen + 1, "addres", x)          \* adds, or replaces
RemoveRes(x) == x \in XE /\ Mutate([ex EXCEPT ![x] = 0], tm, gen, "rmres", x)                  \* also when x is not registered
AddTmpl(y) == y \in XT /\ Mutate(ex, [tm EXCEPT ![y] = gen + 1], gen + 1, "addtmpl", y)
RemoveTmpl(y) == y \in XT /\ Mutate(ex, [tm EXCEPT ![y] = 0], gen, "rmtmpl", y)

ReadStart(r, u) ==
  /\ rd[r].st = "idle" /\ nRead < MaxRead
  /\ rd' = [rd EXCEPT ![r] = [st |-> "sent", u |-> u, bind |-> NotFound, poss |-> Allowed(ex, tm, u),
                                seen |-> Handlers(ex, tm), noexact |-> NoExact(ex, u)]]
  /\ nRead' = nRead + 1
  /\ res' = [kind |-> "start", r |-> r]
  /\ UNCHANGED <<ex, tm, gen, nMut>>

ReadLookup(r) ==
  /\ rd[r].st = "sent"
  /\ LET b == Lookup(ex, tm, rd[r].u) IN
       IF b = NotFound
       THEN /\ rd' = [rd EXCEPT ![r] = Idle]
            /\ res' = [kind |-> "read", r |-> r, out |-> NotFound, poss |-> rd[r].poss, u |-> rd[r].u,
                       seen |-> rd[r].seen, noexact |-> rd[r].noexact]
       ELSE /\ rd' = [rd EXCEPT ![r].st = "handler", ![r].bind = b]
            /\ res' = [kind |-> "bound", r |-> r, out |-> b]
  /\ UNCHANGED <<ex, tm, gen, nMut, nRead>>

ReadReturn(r) ==
  /\ rd[r].st = "handler"
  /\ rd' = [rd EXCEPT ![r] = Idle]
  /\ res' = [kind |-> "read", r |-> r, out |-> rd[r].bind, poss |-> rd[r].poss, u |-> rd[r].u,
             seen |-> rd[r].seen, noexact |-> rd[r].noexact]
  /\ UNCHANGED <<ex, tm, gen, nMut, nRead>>

Next == \/ \E x \in XE : AddRes(x) \/ RemoveRes(x)
        \/ \E y \in XT : AddTmpl(y) \/ RemoveTmpl(y)
        \/ \E r \in Readers : (\E u \in XU : ReadStart(r, u)) \/ ReadLookup(r) \/ ReadReturn(r)
Spec == Init /\ [][Next]_vars
FairSpec == Spec /\ \A r \in Readers : WF_vars(ReadLookup(r)) /\ WF_vars(ReadReturn(r))

-----------------------------------------------------------------------------
\* P6, on the model
TypeOK == /\ \A x \in XE : ex[x] \in 0..gen
          /\ \A y \in XT : tm[y] \in 0..gen
          /\ \A r \in Readers : rd[r].st \in {"idle", "sent", "handler"}
\* the outcome of a read is a resolution in some registry of its window
Linearizable == res.kind = "read" => res.out \in res.poss
BoundInWindow == \A r \in Readers : rd[r].st = "handler" => rd[r].bind \in rd[r].poss
\* no two registrations share a generation, so (key, generation) identifies a handler
GensDistinct == \A x \in XE, y \in XT : ex[x] > 0 => ex[x] # tm[y]
\* consequences, stated without reference to the resolution rule:
\* a handler that was not registered at any moment of the read never serves it (after RemoveResources has returned the
\* removed handler serves no new read; after a re-registration has returned the replaced handler serves no new read)
NeverServedByUnregistered == (res.kind = "read" /\ res.out # NotFound) => res.out \in res.seen
\* a template serves a read only if at some moment of the read no resource was registered for exactly that URI
ExactBeatsTemplates == (res.kind = "read" /\ res.out.k = "T") => (res.noexact /\ Match(res.out.key, res.u))
\* an exact resource serves only its own URI
ExactServesOwnURI == (res.kind = "read" /\ res.out.k = "E") => ExactU(res.out.key) = res.u
\* liveness: every read ends
ReadsEnd == \A r \in Readers : (rd[r].st # "idle") ~> (rd[r].st = "idle")
=============================================================================
