SPECIFICATION GenSpec
CONSTANTS
  Callers = {"k1","k2"}
  Reqs = {"r1","r2","n1","x1"}
  CallReqs = {"r1","r2"}
  CancelOf <- Cancel1
  DupOf <- NoDupOf
  Closers = {"c1","c2"}
  Waiters = {"w1"}
  WriteOutcomes = {"ok","broken","rejected"}
  EnvEOF = TRUE
CHECK_DEADLOCK FALSE
