SPECIFICATION Spec
CONSTANTS
  TD = 8
  Slack = 0
  Classes <- BoundaryClasses
INVARIANT FaithfulIdeal
CHECK_DEADLOCK FALSE
