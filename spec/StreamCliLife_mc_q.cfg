SPECIFICATION FairSpec
CONSTANTS
  NC = 2
  SA = TRUE
  OAuth = FALSE
  DelCls = "ok"
  PostSet = {"json", "sse", "202", "rpcerr", "404", "http", "5xx"}
  GetSet = {"sse", "405", "503sse"}
  InitH = {"", "A"}
  HSet = {"", "B"}
  MaxNotify = 1
  MaxSaEv = 1
  MaxAuth = 0
  MaxClose = 1
  AllowCancel = FALSE
  FixCancel = FALSE
  FixStream = FALSE
INVARIANTS TypeOK SessionHeader VersionHeader OnePostPerMessage Standalone PerMessage Usable GoneStops GoneNoDelete GoneFailsAll
  TerminalFailsPending DeleteOnce DeleteWhenLive CloseWaits StandaloneCancelled RetiredOnce
PROPERTIES ConnectReturns CallsReturn NotifyReturns CloseReturns FailureEnds
CHECK_DEADLOCK FALSE
