---------------------------- MODULE KeepAliveMon ----------------------------
(* Property monitor for C13, evaluated by TLC over observations of the real   *)
(* keep-alive code (one line per scenario: the pings a scripted peer saw and  *)
(* what it did with each, when the session terminated, when its owner closed  *)
(* it, what was left behind; for each ping for how long the session's own     *)
(* transport held it, and whether the protocol version the session ended up   *)
(* with has ping at all).  The verdict predicates are the ones the design      *)
(* check of KeepAlive.tla proves about the model (Accuracy, Completeness,     *)
(* Timing, SilentStop, NoLeftovers); "drift" compares with the code-shaped    *)
(* expectation TLC exported for the case (tick alignment, exact closing       *)
(* instant, number of pings, per-ping deadline) and never yields a verdict.   *)
EXTENDS VerifTrace, FiniteSets

\* Only the constant-level part of KeepAlive is used; its variables are bound to dummies.
KA == INSTANCE KeepAlive WITH
        Interval <- 16, MaxLen <- 0, Thresholds <- {1}, AnswerDelays <- {0}, DrainLens <- {1},
        HsSlots <- {0}, CtxSlots <- {-1}, EnvMaxLen <- 0, EnvProduct <- FALSE, hs <- 0, cc <- -1,
        StallKinds <- {"l0", "l1", "l2"}, MaxStalls <- 0, StallMaxLen <- 0, EstModes <- {"init"}, EstMaxLen <- 0,
        est <- "init", pendTick <- FALSE, slots <- 0,
        drain <- 0, drainedAt <- -1,
        script <- <<>>, thr0 <- 1, endMode <- "idle", now <- 0, pc <- "done", tickerOn <- FALSE,
        nextTick <- 0, ctxDone <- TRUE, cf <- 0, k <- 0, pend <- [o |-> "a", d |-> 0],
        resolveAt <- 0, hist <- <<>>, closedAt <- -1, userAt <- -1

VARIABLE l
MInit == l = 1 /\ MarkInit

\* e.pings[i]: at = when the session handed the ping to its transport (= when the peer saw it,
\* unless the transport held it for h), o = what became of it; e.pingable = the protocol
\* version the session negotiated has ping
\*
\* Transport dimension (e.tr # "": KeepAlive.tla Part 1b, cases of KeepAliveTr): the harness reports, per
\* ping, the CLASS the scripted peer played (p.cls); what that class is for the property is the model's
\* table.  A ping beyond the script is left unanswered: a time-out if the session then lasted for at least
\* a ping timeout, unresolved otherwise.
SessEnd0(e) == IF e.closed >= 0 THEN e.closed ELSE e.userClose
POut(e, p) == IF e.tr = "" THEN p.o
              ELSE IF p.cls = "unscripted"
                   THEN (IF SessEnd0(e) >= 0 /\ SessEnd0(e) - p.at >= KA!PingTimeout(e.I) THEN "t" ELSE "u")
              ELSE KA!VerdictOf(e.tr, p.cls)
Pings(e) == [i \in 1..Len(e.pings) |-> [at |-> e.pings[i].at, o |-> POut(e, e.pings[i]), h |-> e.pings[i].h]]
\* A session that ended because its connection was reported dead (neither keep-alive nor the owner closed
\* it) leaves a keep-alive loop that can only find out by its own pings failing - which, by the property,
\* it has after the threshold's intervals and a ping timeout: the census that applies is the one taken then.
DeadEnd(e) == /\ e.tr # "" /\ e.closed >= 0
              /\ LET P == KA!Before(Pings(e), e.closed) IN Len(P) > 0 /\ P[Len(P)].o = "d"
Obs(e) == [T |-> e.T, I |-> e.I, start |-> e.start, pings |-> Pings(e), pingable |-> e.pingable,
           attempts |-> e.attempts,
           closed |-> e.closed, userClose |-> e.userClose, kaEarly |-> e.kaEarly,
           kaAlive |-> (IF DeadEnd(e) THEN e.kaLate ELSE e.kaAlive), left |-> e.left, exit |-> e.exit]

\* code-shaped expectation (strict): exported by TLC in units of I / e.exp.unit
U(e) == e.I \div e.exp.unit
SessEnd(e) == IF e.closed >= 0 THEN e.closed ELSE e.userClose
Strict(e) ==
  /\ Len(e.pings) = e.exp.nping
  /\ \A i \in 1..Len(e.pings) :
        /\ i <= Len(e.exp.ticks) => e.pings[i].at = e.start + e.exp.ticks[i] * U(e)
        /\ e.tr = "" => e.pings[i].o = (IF i <= Len(e.pattern) THEN KA!ObsOutcome(e.pattern[i]) ELSE "u")
        /\ e.tr # "" => (i <= Len(e.cls) /\ e.pings[i].cls = e.cls[i])     \* the peer played the script
        /\ i <= Len(e.exp.holds) => e.pings[i].h = e.exp.holds[i] * U(e)
        /\ e.level = "func" => e.pings[i].dl = KA!PingTimeout(e.I)
  \* (e.exp.dlag: a server session that its client ends with DELETE while a ping is outstanding is over when
  \* that ping is - KeepAliveTr!DLag)
  /\ e.closed = (IF e.exp.closeAt < 0 THEN -1 ELSE e.start + (e.exp.closeAt + e.exp.dlag) * U(e))
  /\ e.start = 0
  \* every attempt reaches the peer (on a connection that was reported dead the loop's remaining attempts cannot)
  /\ Len(e.attempts) = Len(e.pings) \/ (DeadEnd(e) /\ Len(e.attempts) > Len(e.pings))
  /\ \A i \in 1..Len(e.attempts) : i <= Len(e.pings) => e.attempts[i] = e.pings[i].at
  /\ e.ended >= 0
  \* the environment was as the case says: handshake completed (unless the session was over
  \* by then) and Connect context cancelled at the slot's instant
  /\ \/ e.hsAt = (IF e.exp.hsAt <= 0 THEN e.exp.hsAt ELSE e.exp.hsAt * U(e))
     \/ e.hsAt = -1 /\ SessEnd(e) >= 0 /\ SessEnd(e) < e.exp.hsAt * U(e)
  /\ e.ccAt = (IF e.exp.ccAt < 0 THEN -1 ELSE e.exp.ccAt * U(e))
  \* the session was established as the case says: a legacy one unless server/discover succeeded
  /\ e.pingable = (e.est # "modern")
  /\ e.est = "fallback" => e.probes >= 1

MNext == /\ l <= NLines /\ l' = l + 1
         /\ LET e == TraceLog[l]  o == Obs(e) IN
              /\ Check(l, "Accuracy", KA!Accuracy(o))
              /\ Check(l, "Completeness", KA!Completeness(o))
              /\ Check(l, "Timing", KA!Timing(o))
              /\ Check(l, "SilentStop", KA!SilentStop(o))
              /\ Check(l, "NoLeftovers", KA!NoLeftovers(o))
              /\ Check(l, "drift", Strict(e))
MSpec == MInit /\ [][MNext]_l
MMark == MarkAt(l)
MAccepted == Accepted
=============================================================================
