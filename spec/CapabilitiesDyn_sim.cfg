SPECIFICATION HSpec
CONSTANTS
  DKinds = {"tools", "prompts", "resources"}
  Legacy = {"L1", "L2"}
  Modern = {"M1", "M2"}
  Wants <- AllWants
  MaxLen = 24
INVARIANTS TypeOK InvDisabled InvModernAcked InvAckExact InvSnapCurrent InvOwedArmed Export
CHECK_DEADLOCK FALSE
