CONSTANTS
  TailLen = 3
  PathLen = 3
