------------------------------ MODULE CodecSSE -------------------------------
(* C19, read side of the framings when the byte stream BREAKS.                *)
(*                                                                            *)
(* A writer has put a sequence of frames on a byte stream (SSE: events with   *)
(* the fields event / id / retry / data in the SDK's and in foreign orders,   *)
(* several data lines, comment lines, line ends LF, CR LF and CR, the space   *)
(* after the colon present or not; newline-delimited: JSON texts with LF or   *)
(* CR LF).  The channel is the adversary: it delivers the stream byte by byte *)
(* (the bytes are the classes of CodecSSEDefs) and at ANY point ends it - in  *)
(* the middle of a field name, of a value, between the CR and the LF of a     *)
(* line end, before the empty line that ends an event, on a frame boundary,   *)
(* after the whole stream - with io.EOF, io.ErrUnexpectedEOF or another read  *)
(* error.  The reader yields frames as the bytes arrive and when the stream   *)
(* ends.                                                                      *)
(*                                                                            *)
(* Reader "spec" is the specification (the framing texts quoted in            *)
(* CodecSSEDefs): TLC checks on every reachable state that what it has        *)
(* yielded is what was written, in order (ScDelivered), with no frame missing *)
(* that was whole before the cut (ScNoGaps), and that feeding the bytes one   *)
(* by one or all at once is the same (ChunkIndependent): the case space of    *)
(* the harness - every cut x every end x every way of chunking the Reads - is *)
(* covered by the machine.                                                    *)
(* Reader "code" is mcp/event.go scanEvents / ioConn's decoder transcribed:   *)
(* TLC checks that it breaks the property ONLY in the lead classes (CodeLeads:*)
(* a clean io.EOF inside an event, where it yields the half-read event, and   *)
(* line ends that are a bare CR, which it does not see), and exports every    *)
(* (stream, cut, end) with the code-shaped outcome for the Go harness, which  *)
(* feeds the REAL scanEvents, streamableClientConn.processStream and          *)
(* ioConn.Read from an io.Reader that implements exactly that cut and end;    *)
(* the monitor CodecMon judges what they yield (ScDelivered, ScNoGaps).       *)
(* Reader "anyeof" is the witness: a reader that takes io.ErrUnexpectedEOF    *)
(* for the end of the stream hands up cut-off events (TLC must report         *)
(* CodeLeads violated).                                                       *)
EXTENDS Integers, Sequences, FiniteSets, TLC, Json, CodecSSEDefs

CONSTANTS Readers,   \* the readers explored (subset of ScReaders)
          Size       \* "quick" | "thorough" | "one": which streams

VARIABLES cs,      \* the case: [framing, shapes, eol, colon, comment]
          rdr,     \* the reader
          pos,     \* bytes delivered so far
          rd,      \* the reader's state
          end      \* "" while the stream is open, then how it ended
vars == <<cs, rdr, pos, rd, end>>

Sse(sh, e, co, cm) == [framing |-> "sse", shapes |-> sh, eol |-> e, colon |-> co, comment |-> cm]
Nd(n, e) == [framing |-> "ndjson", shapes |-> [i \in 1..n |-> "frame"], eol |-> e, colon |-> "na", comment |-> "na"]
Twice == {<<s, s>> : s \in ScSseShapes}
Pairs == {<<s, t>> : s, t \in ScSseShapes}
AllLayouts == ScColons \X ScComments
CaseSet ==
  CASE Size = "one" -> {Sse(<<"id-data", "id-data2">>, "lf", "sp", "none")}
    [] Size = "quick" ->
         \* the SDK's own layout for every shape; the other layouts and line ends on fewer shapes
         {Sse(sh, "lf", "sp", "none") : sh \in Twice}
         \cup {Sse(sh, "lf", l[1], l[2]) : sh \in {<<"all", "all">>, <<"id-data2", "id-data2">>}, l \in {<<"tight", "inner">>, <<"sp", "lead">>}}
         \cup {Sse(sh, "crlf", "tight", "inner") : sh \in Twice}
         \cup {Sse(sh, "cr", "sp", "none") : sh \in {<<"id-data", "id-data">>, <<"data2", "data2">>}}
         \cup {Nd(2, e) : e \in {"lf", "crlf"}}
    [] OTHER ->
         \* every ordered pair of shapes in the SDK's layout, every layout on the pairs of equal shapes and on a stream
         \* of three events; bare CRs (a lead class of the code-shaped reader whatever the cut) on fewer streams
         {Sse(sh, e, "sp", "none") : sh \in Pairs, e \in {"lf", "crlf"}}
         \cup {Sse(sh, e, l[1], l[2]) : sh \in Twice, e \in {"lf", "crlf"}, l \in AllLayouts}
         \cup {Sse(sh, "cr", l[1], l[2]) : sh \in Twice, l \in {<<"sp", "none">>, <<"tight", "inner">>}}
         \cup {Sse(<<"all", "id-only", "data2">>, e, l[1], l[2]) : e \in ScEols, l \in AllLayouts}
         \cup {Nd(n, e) : n \in {2, 3}, e \in {"lf", "crlf"}}
StreamOf == [c \in CaseSet |-> ScStream(c)]

Init == /\ cs \in CaseSet /\ rdr \in Readers
        /\ pos = 0 /\ rd = InitRd /\ end = ""
\* the channel delivers the next byte
Deliver == /\ end = "" /\ pos < Len(StreamOf[cs])
           /\ pos' = pos + 1
           /\ rd' = Step(cs, rdr, rd, StreamOf[cs][pos + 1])
           /\ UNCHANGED <<cs, rdr, end>>
\* the channel ends the stream here
End(e) == /\ end = ""
          /\ end' = e
          /\ rd' = Finish(cs, rdr, rd, e)
          /\ UNCHANGED <<cs, rdr, pos>>
Done == end # "" /\ UNCHANGED vars
Next == Deliver \/ (\E e \in ScEnds : End(e)) \/ Done
Spec == Init /\ [][Next]_vars

N == ScN(cs)
K == ScWholeBefore(cs, pos)
Outcome == ScOutcome(cs, rd)

TypeOK == /\ pos \in 0..Len(StreamOf[cs]) /\ end \in ScEnds \cup {""}
          /\ rd.err \in {"none", "error", "malformed"}
          /\ (end = "" /\ rdr = "spec") => rd.err = "none"
\* the specification's reader: at every moment, and however the stream ends
SpecHolds == rdr = "spec" => ScHolds(N, K, Outcome)
\* a stream that ends otherwise than by io.EOF is reported as broken
SpecReports == (rdr = "spec" /\ end # "") => ((Outcome.err = "error") <=> (end # "eof"))
\* the readers are folds: the bytes one by one or all in one Read
ChunkIndependent == end = "" => rd = FeedAll(cs, rdr, InitRd, SubSeq(StreamOf[cs], 1, pos))
\* where the code-shaped reader is known to break the property
Lead == cs.framing = "sse" /\ (cs.eol = "cr" \/ (end = "eof" /\ ScInside(cs, pos)))
CodeLeads == (rdr # "spec" /\ end # "") => (ScHolds(N, K, Outcome) \/ Lead)

Export ==
  IF rdr = "code" /\ end = "" /\ pos = 0
  THEN PrintT(ToJson([scs |-> TRUE, c |-> cs, toks |-> StreamOf[cs]]))
  ELSE IF rdr = "code" /\ end # ""
  THEN PrintT(ToJson([sc |-> TRUE, c |-> cs, cut |-> pos, len |-> Len(StreamOf[cs]), end |-> end, n |-> N, k |-> K,
                      nm |-> ScMsgN(cs), km |-> ScMsgWholeBefore(cs, pos), inside |-> ScInside(cs, pos),
                      lead |-> ~ScHolds(N, K, Outcome), exp |-> Outcome]))
  ELSE TRUE
=============================================================================
