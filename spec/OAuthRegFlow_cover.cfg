SPECIFICATION Spec
CONSTANTS
  Rounds = 2
VIEW CoverView
INVARIANT ResultKnown
CHECK_DEADLOCK FALSE
