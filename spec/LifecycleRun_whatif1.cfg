SPECIFICATION Spec
CONSTANTS
  MaxEv = 3
  MaxHeld = 1
  MaxWait = 1
  Variant = "sync_until_init"
  AlphaSel = "core"
INVARIANTS TypeOK InvPingAlwaysServed
CHECK_DEADLOCK FALSE
