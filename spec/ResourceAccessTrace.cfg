SPECIFICATION TSpec
CONSTANTS
  Readers = {"r1", "r2"}
  XE = {"E1", "E2"}
  XT = {"Tda", "Tp", "Tab"}
  MaxMut = 1000000
  MaxRead = 1000000
CONSTANT XU <- TraceURIs
CONSTRAINT TMark
INVARIANTS Linearizable BoundInWindow NeverServedByUnregistered ExactBeatsTemplates ExactServesOwnURI
POSTCONDITION TAccepted
CHECK_DEADLOCK FALSE
