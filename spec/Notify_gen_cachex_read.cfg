SPECIFICATION GenSpec
CONSTANTS
  Sessions = {"M1"}
  Legacy = {}
  InitOn = {"M1"}
  InitSub = {"M1"}
  Kinds = {}
  NotifOf <- NotifStd
  Uris = {"u1"}
  Want <- WantAll
  CapOff = {}
  CapMode <- ModeInferred
  InitSize <- Size3
  MaxSize = 3
  Dirs = {"mod"}
  SendGate = "configured"
  TTLPos = TRUE
  D = 2
  MaxTime = 3
  MaxChanges = 0
  MaxUpdates = 1
  MaxCalls = 2
  NPages = 1
  ListenOwns = TRUE
  ResubRace = TRUE
  GenCheck = TRUE
  ColdBump = TRUE
  ModernUnsub = FALSE
  ForeignUnsub = FALSE
  Listeners = {}
  MaxListens = 0
  FailUndo = TRUE
  Stepwise = TRUE
  Gates = TRUE
  GateNames = {"put"}
  ClientFirst = FALSE
  MinSteps = 1
  MaxSteps = 6
  Bias = FALSE
  Script <- ScriptNone
  GenOps = {"change", "tchange", "updated", "list", "tick", "hold", "release"}
INVARIANTS Export
CHECK_DEADLOCK FALSE
