\* thorough: liveness under fairness, two calls
SPECIFICATION FairSpec
CONSTANTS
  NC = 2
  SASet = {TRUE, FALSE}
  OAuthSet = {FALSE}
  DelSet = {"timeout", "ok"}
  PostSet = {"json", "sse", "404", "http"}
  GetSet = {"sse", "405"}
  InitH = {"A"}
  HSet = {""}
  MaxNotify = 0
  MaxSaEv = 0
  MaxAuth = 0
  MaxClose = 1
  AllowCancel = FALSE
  FixCancel = FALSE
  FixStream = FALSE
INVARIANTS TypeOK SessionHeader VersionHeader OnePostPerMessage Standalone PerMessage Usable GoneStops GoneNoDelete GoneFailsAll
  TerminalFailsPending DeleteOnce DeleteWhenLive CloseWaits StandaloneCancelled RetiredOnce
PROPERTIES ConnectReturns CallsReturn NotifyReturns CloseReturns FailureEnds
CHECK_DEADLOCK FALSE
