SPECIFICATION Spec
CONSTANTS
  Class = "rdv"
  Ideal = FALSE
  KSet = {"n"}
  NW <- W22
  NR <- W22
  NC <- W10
  WMax = 3
  CMax = 2
INVARIANTS TypeOK Fifo NoSpuriousError NoLoss RestClose RestRead RestWrite RestNoLoss ClosedStopsReads ClosedStopsWrites
PROPERTIES ClosedForGood
CHECK_DEADLOCK FALSE
