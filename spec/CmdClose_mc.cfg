SPECIFICATION FairSpec
CONSTANTS
  TD = 8
  Slack = 0
  Classes <- AllClasses
INVARIANT TypeOK TermNotEarly KillAfterTerm NoNeedlessTerm NoNeedlessKill Bounded Responsive ReturnsAtExit Reaped Faithful SecondCloseSame PreExitedUnsignalled PureClean Determined
PROPERTY Terminates
CHECK_DEADLOCK FALSE
