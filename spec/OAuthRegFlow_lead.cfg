SPECIFICATION Spec
CONSTANTS
  Rounds = 1
INVARIANTS OnlyIDJAGForwarded
CHECK_DEADLOCK FALSE
