------------------------- MODULE StreamCliLifeTrace -------------------------
(* Strict conformance of recorded harness steps against StreamCliLife: every   *)
(* step line is one environment / application action; between lines TLC may    *)
(* take the SDK's internal steps and must arrive in a settled state whose      *)
(* projection equals the recorded snapshot.  The final Drain line stands for    *)
(* any number of benign environment actions (the server discharges what it      *)
(* owes, the application closes).  A mismatch is DRIFT, never a verdict.        *)
EXTENDS StreamCliLife, VerifTrace

VARIABLES l,
          d    \* the drain of the current (Drain) line has begun
tvars == <<vars, l, d>>

\* the profile of a recorded behaviour: its configuration, and no restriction on what the environment may do
AllPost == {"json", "badjson", "sse", "202", "badct", "rpcerr", "rpc404", "404", "http", "401", "5xx", "neterr"}
AllGet  == {"sse", "405", "404", "4xx", "500", "200plain", "503sse", "neterr"}
TraceProfile(psa, poauth, pdel) ==
  [name |-> "trace", nc |-> NC, sa |-> psa, oauth |-> poauth, del |-> pdel, post |-> AllPost, get |-> AllGet,
   inith |-> {"", "A", "B"}, hset |-> {"", "A", "B"}, notify |-> 1, saev |-> 99, auth |-> 99, close |-> 99, cancel |-> TRUE]
TraceProfiles == {TraceProfile(TRUE, FALSE, "ok")}

TagOfK(a) == IF a = "1" THEN "c1" ELSE IF a = "2" THEN "c2" ELSE "c3"
KOf(a) == IF a = "1" THEN 1 ELSE IF a = "2" THEN 2 ELSE 3
SentIdx(e) == {i \in DOMAIN e.reqs : e.reqs[i].st # "still"}
LatestOf(e, t) == LET c == {i \in SentIdx(e) : e.reqs[i].tag = t} IN
                  IF c = {} THEN 0 ELSE CHOOSE i \in c : \A j \in c : e.reqs[j].seq <= e.reqs[i].seq
StOf(s) == IF s = "aborted" THEN "done" ELSE s

Match(e) ==
  /\ Settled
  /\ conn = e.conn /\ (e.conn = "err" => connres = e.connres)
  /\ (e.conn = "ok" => (sid = e.sid /\ jdone = e.waitret))
  /\ \A t \in Tags :
       LET i == LatestOf(e, t) IN
       IF i = 0 THEN rq[t].att = 0
       ELSE /\ rq[t].att = e.reqs[i].att /\ rq[t].st = StOf(e.reqs[i].st)
            /\ rq[t].hsid = e.reqs[i].sid /\ rq[t].hpv = (e.reqs[i].pv = "ok")
  /\ \A i \in SentIdx(e) : e.reqs[i].tag \in Tags
  /\ \A k \in 1..NC :
       LET t == CallTag(k)
           c == {j \in DOMAIN e.calls : e.calls[j].k = k} IN
       IF c = {} THEN rq[t].att = 0 /\ ret[t] = ""
       ELSE \A j \in c : IF e.calls[j].st = "pending" THEN (~Back(S, t) \/ Locked)
                         ELSE Back(S, t) /\ ret[t] = e.calls[j].res
  /\ \A j \in DOMAIN e.calls : e.calls[j].k \in 1..NC
  /\ IF e.notifs = <<>> THEN nt = "new"
     ELSE IF e.notifs[1].st = "pending" THEN (nt = "writing" \/ (Locked /\ nt # "new")) ELSE nt = e.notifs[1].res
  /\ closeIss = e.closeiss /\ closeRet = e.closeret /\ (e.closeret > 0 => closeErr = (e.closeerr # ""))
  /\ sanotes = e.sanotes
  /\ (sa = "open") = (\E i \in DOMAIN e.reqs : e.reqs[i].meth = "GET" /\ e.reqs[i].cls = "sse" /\ e.reqs[i].rbody = "open")

EnvStep(e) ==
  IF ~e.applied THEN UNCHANGED vars
  ELSE CASE e.op = "Connect" -> Connect
         [] e.op = "CancelConnect" -> CancelConnect
         [] e.op = "Call" -> Call(KOf(e.a1))
         [] e.op = "Notify" -> Notify
         [] e.op = "Close" -> Close
         [] e.op = "Ans" /\ e.a1 = "get" -> AnsGet(e.a2)
         [] e.op = "Ans" /\ e.a1 = "del" -> DelTimeout
         [] e.op = "Ans" /\ e.a1 \notin {"get", "del"} -> AnsPost(e.a1, e.a2, e.a3)
         [] e.op = "Auth" -> Auth(e.a1, e.a2)
         [] e.op = "Ev" -> Ev(e.a1, e.a2)
         [] e.op = "SaEv" -> SaEv(e.a1)
         [] e.op = "Drain" -> UNCHANGED vars
         [] OTHER -> FALSE

\* what the harness does when it drains: benign answers, successful authorizations, the responses calls are waiting
\* for, one Close, the passing of closeDeleteTimeout
DrainEnv ==
  \/ \E t \in PostTags : AnsPost(t, IF t \in CallTags THEN "json" ELSE "202", "")
  \/ AnsGet("405")
  \/ \E t \in PostTags : Auth(t, "ok")
  \/ \E t \in CallTags : (~Back(S, t) \/ (t = "init" /\ conn = "running")) /\ Ev(t, "resp")
  \/ closeIss = 0 /\ Close
  \/ DelTimeout

SDK == SDKNext

PrevOK == IF l = 1 THEN TRUE ELSE IF TraceLog[l - 1].ev = "reset" THEN TRUE ELSE Match(TraceLog[l - 1])
ResetTo(e) ==
  /\ P' = TraceProfile(e.sa, e.oauth, e.del)
  /\ conn' = "none" /\ cph' = "-" /\ connres' = "" /\ cancelled' = FALSE /\ sid' = "" /\ pv' = FALSE /\ fail' = ""
  /\ rq' = [t \in Tags |-> NoReq] /\ reg' = {} /\ ret' = [t \in CallTags |-> ""] /\ stream' = [t \in CallTags |-> "none"]
  /\ inbox' = <<>> /\ nt' = "new" /\ sa' = (IF e.sa THEN "none" ELSE "off") /\ ping' = "none" /\ nsaev' = 0 /\ sanotes' = 0
  /\ closing' = FALSE /\ rerr' = "" /\ werr' = FALSE /\ reading' = TRUE /\ nnotif' = 0 /\ incoming' = 0 /\ tc' = "open" /\ jdone' = FALSE
  /\ closeIss' = 0 /\ closeRet' = 0 /\ closeErr' = FALSE /\ nauth' = 0
  /\ issued' = {} /\ ndel' = 0 /\ goneAt' = FALSE /\ late' = FALSE /\ fatalSeen' = FALSE

TraceInit == Init /\ l = 1 /\ d = FALSE /\ MarkInit
TraceNext ==
  \/ SDK /\ l' = l /\ d' = d
  \/ /\ l <= NLines /\ TraceLog[l].ev = "step" /\ TraceLog[l].op = "Drain" /\ (d \/ PrevOK) /\ Settled
     /\ (DelTimeout \/ (~Locked /\ DrainEnv)) /\ l' = l /\ d' = TRUE
  \/ /\ l <= NLines /\ (d \/ PrevOK)
     /\ l' = l + 1 /\ d' = FALSE
     /\ LET e == TraceLog[l] IN
          IF e.ev = "reset" THEN ResetTo(e)
          ELSE (Settled /\ (Locked => e.op = "Ans" /\ e.a1 = "del") /\ EnvStep(e))
TraceSpec == TraceInit /\ [][TraceNext]_tvars
TMark == MarkAt(l)
TAccepted == Accepted
=============================================================================
