------------------------------ MODULE KeepAlive ------------------------------
(* Property C13: the keep-alive loop of mcp/shared.go (startKeepalive).       *)
(*                                                                            *)
(* Part 1 (constant level) states the property over an OBSERVATION of one     *)
(* keep-alive run: the pings a peer saw (when, and what the peer did with      *)
(* each), when the session terminated on the SDK's own initiative, when its   *)
(* owner closed it, and what was left behind.  These operators are shared by  *)
(* the design check below and by the monitor KeepAliveMon, which evaluates    *)
(* them on observations of the real code.                                     *)
(*                                                                            *)
(* Part 1b (constant level) is the dimension "transport x how a ping fails":  *)
(* for a stream connection, the streamable HTTP client, the streamable HTTP   *)
(* server pinging its client and the legacy SSE client, the concrete ways in  *)
(* which a ping goes unanswered and what each is FOR THE PROPERTY - a miss of *)
(* a possibly-live peer (tolerated up to the threshold) or the connection     *)
(* being dead / the session terminated (outcome "d": it may end at once).     *)
(* KeepAliveTr.tla runs the loop of Part 2 on scripts of these classes.       *)
(*                                                                            *)
(* Part 2 is the code-shaped state machine of the ticker loop: a ticker of    *)
(* period Interval, one ping per tick with a timeout of Interval \div 2, the  *)
(* consecutiveFailures counter, threshold normalisation, silent stop on       *)
(* method-not-found, exit on context cancellation (session Close).  The       *)
(* environment fixes the peer's outcome script, the configured threshold,     *)
(* the instant at which the owner closes the session and for how long that   *)
(* Close has to wait for a running request handler, for how long the          *)
(* session's own transport holds a ping before it lets it out (a write that   *)
(* stalls and cannot be interrupted: longer than the ping timeout, or longer  *)
(* than one or more whole ticker periods), how the session was established    *)
(* (legacy initialize / initialize after a rejected server/discover / a       *)
(* protocol version without ping) on which side, the instant at which the     *)
(* peer completes the protocol handshake (keep-alive is started by Connect,   *)
(* before any handshake) and the fate of the context that was given to        *)
(* Connect once Connect has returned.  Time is explicit (`now` jumps to the   *)
(* next event).                                                               *)
EXTENDS Integers, Sequences, FiniteSets, TLC

-----------------------------------------------------------------------------
(* Part 1: the property over observations                                     *)

\* What a peer can do with a ping:
\*   "a" answer within the ping timeout      "t" not answer within the timeout
\*   "m" reply "method not found"            "c" connection / delivery error
\*   "u" still unresolved when the owner closed the session (not a verdict on the peer)
\*   "l" late: the session's transport held the ping for p.h > PingTimeout before it went out
\*       (a stalled write), then the peer answered at once: the answer came after the ping's
\*       deadline, so the ping was missed.  p.at is the instant the session handed the ping to
\*       its transport; p.h = 0 for every ping the transport did not hold.
\*   "d" the ping was not answered and what came back instead says that the CONNECTION is dead or
\*       that the peer has TERMINATED the session (a broken pipe, "404 session not found", the
\*       peer's DELETE): not a miss of a possibly-live peer but the end of the session, which may
\*       therefore end at once, whatever the threshold.  It need not: a session that carries on
\*       counts the ping as failed like any other.  Which concrete events of which transport are
\*       "c"/"t" (a miss: tolerated up to the threshold) and which are "d" is Part 1b's table.
Outcomes == {"a", "t", "m", "c"}
Failures == {"t", "c", "l", "d"}

Norm(T) == IF T < 1 THEN 1 ELSE T            \* a threshold below 1 means 1
PingTimeout(I) == I \div 2

MaxOf(S) == CHOOSE x \in S : \A y \in S : y <= x
MinOf(S) == CHOOSE x \in S : \A y \in S : x <= y
Max2(a, b) == IF a >= b THEN a ELSE b
RECURSIVE SeqSum(_)
SeqSum(s) == IF s = <<>> THEN 0 ELSE Head(s) + SeqSum(Tail(s))
\* for how long a ping can be outstanding: its timeout, or for as long as the transport holds it
Span(p, I) == Max2(PingTimeout(I), p.h)

\* pings k-n+1 .. k all failed
Run(ps, k, n) == k >= n /\ \A i \in (k - n + 1)..k : ps[i].o \in Failures
\* keep-alive has not been told "method not found" up to and including ping k
NoM(ps, k) == \A i \in 1..k : ps[i].o # "m"
\* indices at which n consecutive failures are complete while keep-alive is active
Hits(ps, n) == {k \in 1..Len(ps) : Run(ps, k, n) /\ NoM(ps, k)}
\* the pings seen up to time t
Before(ps, t) == SelectSeq(ps, LAMBDA p : p.at <= t)
\* when the peer last did not fail a ping (the start of keep-alive if never)
LastOK(ps, start) == LET S == {i \in 1..Len(ps) : ps[i].o \notin Failures}
                     IN IF S = {} THEN start ELSE ps[MaxOf(S)].at

\* o.closed >= 0: the session terminated at that time without its owner closing it.

\* "never live ones": a closure is justified only by Norm(T) consecutive failed pings
\* immediately before it, and never after the peer declared ping unsupported.  o.pings are
\* the pings that were really put to the peer (handed to the transport): an attempt the
\* session itself refuses (o.attempts has it, o.pings has not) is not a miss of the peer's.
Accuracy(o) ==
  o.closed >= 0 =>
    LET P == Before(o.pings, o.closed)  n == Norm(o.T)
    IN /\ \/ Run(P, Len(P), n)
          \/ (Len(P) > 0 /\ P[Len(P)].o = "d")  \* or the connection was reported dead / the session terminated
       /\ NoM(P, Len(P))
       /\ o.closed >= P[Len(P)].at            \* not before the last of them was even sent

\* A session "whose peer stops answering pings is closed": the peer may stop at ANY instant,
\* and it can only be closed "within that many intervals plus one ping timeout" of that
\* instant if it is being pinged.  For as long as keep-alive is in force (the peer has not
\* declared ping unsupported, the session has neither been closed by keep-alive nor by its
\* owner) ping attempts are therefore at most one interval apart - or, where the transport
\* held a ping for longer than that, the next attempt follows as soon as it let go.  Every
\* observation ends with a closure or the owner's Close, so "no ping by then" is an observed
\* fact.  This is a statement about sessions whose protocol version has ping (o.pingable:
\* the version that was negotiated, however the session came to it); where ping does not
\* exist keep-alive is not in force.
HoldAt(o, t) == LET S == {j \in 1..Len(o.pings) : o.pings[j].at = t}
                IN IF S = {} THEN 0 ELSE MaxOf({o.pings[j].h : j \in S})
KAEnds(o) == {o.pings[j].at : j \in {i \in 1..Len(o.pings) : o.pings[i].o = "m"}}
             \cup {t \in {o.closed, o.userClose} : t >= 0}
Sustained(o) ==
  (o.pingable /\ KAEnds(o) # {}) =>
    LET e == MinOf(KAEnds(o))
        pts == <<o.start>> \o SelectSeq(o.attempts, LAMBDA t : t < e) \o <<e>>
    IN \A i \in 1..(Len(pts) - 1) : \/ pts[i + 1] - pts[i] <= o.I
                                     \/ pts[i + 1] - pts[i] <= HoldAt(o, pts[i])

\* "closed after exactly the configured number": as soon as Norm(T) consecutive pings
\* have failed the session is closed, and no further ping is attempted; and the peer is
\* pinged for as long as keep-alive is in force (a detector that stops looking never
\* sees the failures).
\* A ping that was still outstanding when the owner closed the session (timing out, or held by
\* the transport) had not failed by then: the session was closed by its owner first.
Unsettled(o, p) == /\ o.userClose >= 0 /\ p.o \in {"t", "l"}
                   /\ p.at <= o.userClose /\ p.at + Span(p, o.I) > o.userClose
Completeness(o) ==
  LET n == Norm(o.T)  H == Hits(SelectSeq(o.pings, LAMBDA p : ~Unsettled(o, p)), n)
  IN /\ H # {} => /\ o.closed >= 0
                  /\ Len(Before(o.pings, o.closed)) = MinOf(H)
     /\ Sustained(o)

\* "within that many intervals plus one ping timeout" of the peer going silent.  An interval
\* and a ping timeout are what a ping is allotted when it is followed by another and when it
\* is the last; time for which the session's own transport held a ping beyond that (which
\* nothing at the session's level can cut short) is not the detector's.
LastOKIdx(ps) == LET S == {i \in 1..Len(ps) : ps[i].o \notin Failures} IN IF S = {} THEN 0 ELSE MaxOf(S)
Excess(ps, I) ==
  LET m == LastOKIdx(ps)  n == Len(ps)
  IN SeqSum([i \in 1..(n - m) |->
        IF m + i < n THEN Max2(0, ps[m + i].h - I) ELSE Max2(0, ps[m + i].h - PingTimeout(I))])
Timing(o) ==
  o.closed >= 0 =>
    LET P == Before(o.pings, o.closed)  n == Norm(o.T)
        by == LastOK(P, o.start) + n * o.I + PingTimeout(o.I)
    IN o.closed <= by \/ o.closed <= by + Excess(P, o.I)

\* keep-alive ends silently on "method not found" (no further ping, session stays
\* open) and when the owner closes the session (no ping afterwards)
\* o.attempts: the instants at which the session tried to send a ping (whether or not it
\* reached the peer: a ping attempted on a closing connection is refused locally).
SilentStop(o) ==
  /\ \A j \in 1..Len(o.pings) : o.pings[j].o = "m" =>
        /\ Len(o.pings) = j /\ o.closed < 0
        /\ \A i \in 1..Len(o.attempts) : o.attempts[i] <= o.pings[j].at
  /\ o.userClose >= 0 => /\ \A j \in 1..Len(o.pings) : o.pings[j].at <= o.userClose
                         /\ \A i \in 1..Len(o.attempts) : o.attempts[i] <= o.userClose

\* no ping can be outstanding when the owner starts closing
Quiet(o) == \A j \in 1..Len(o.pings) :
               o.pings[j].at + Span(o.pings[j], o.I) <= o.userClose \/ o.pings[j].at > o.userClose

\* nothing is left behind: once the session has been closed (by keep-alive or by its
\* owner) and everything runnable has run, the keep-alive loop is gone (o.kaAlive is the
\* number of keep-alive loops alive at that point); after a long quiet period no goroutine
\* remains and no ping was sent after the termination
\* o.kaEarly: keep-alive loops alive right after the owner's Close has BEGUN (everything
\* runnable has run, Close itself may still be waiting for a request handler to return): with
\* no ping outstanding keep-alive must end there and then, not when the drain is over.
\* A session that ended at a "d" ping was closed by nobody: what is left of keep-alive can only find
\* out by its own pings failing, which by Completeness / Timing it has after Norm(T) intervals and a
\* ping timeout - for such a session o.kaAlive is the census taken then (KeepAliveMon!DeadEnd).
NoLeftovers(o) ==
  /\ (o.userClose >= 0 /\ Quiet(o)) => o.kaEarly = 0
  /\ o.kaAlive = 0
  /\ o.left = 0
  /\ o.exit = "clean"
  /\ o.closed >= 0 => \A j \in 1..Len(o.pings) : o.pings[j].at <= o.closed

Holds(o) == Accuracy(o) /\ Completeness(o) /\ Timing(o) /\ SilentStop(o) /\ NoLeftovers(o)

-----------------------------------------------------------------------------
(* Part 1b: transport x how a ping fails                                      *)
(*                                                                            *)
(* At the level of the session a ping is answered, times out, is refused as   *)
(* unsupported or fails with an error.  HOW that shows depends on the         *)
(* transport: over a stream (in-memory, stdio) the peer is silent, replies    *)
(* with an error, or the pipe is broken; over streamable HTTP the ping is a   *)
(* POST that is answered with a result, held, answered with a status and no   *)
(* JSON-RPC body, refused by the network, or cut; a streamable HTTP server    *)
(* can only ping through the stream its client keeps attached; over legacy    *)
(* SSE the ping is a POST and the answer an event.  For each such class the   *)
(* table states what the PROPERTY makes of it:                                *)
(*   "a"  answered                                                            *)
(*   "t"  a miss by silence   \  the peer may well be alive: tolerated, the   *)
(*   "c"  a miss by an error  /  session ends only at the threshold           *)
(*   "m"  ping unsupported: keep-alive stops, the session stays               *)
(*   "d"  the connection is dead / the session has been terminated: the       *)
(*        session may end at once (and ends at the threshold at the latest)   *)
(* and on what grounds (never on the grounds of what the code does):          *)
(*   "prop"  the property's own outcome classes (answered / timed out /       *)
(*           method-not-found / connection error are the pattern alphabet:    *)
(*           a connection error is a failed ping like a time-out)             *)
(*   "doc"   documented by the SDK: isTransientHTTPStatus ("a transient server *)
(*           error that should not permanently break the connection": 429 500 *)
(*           502 503 504); docs/mcpgodebug.md noprotocolerrorbody (a non-2xx  *)
(*           response with a JSON-RPC error body is a per-call rejection that *)
(*           does "not tear down the session", "any non-transient error will  *)
(*           permanently fail the connection" otherwise); Connection.Close    *)
(*           ("implicitly called whenever a Read or Write fails");            *)
(*           streamableServerConn.Write ("a failure to deliver to a stream is *)
(*           not an indication that the logical session is broken")           *)
(*   "spec"  MCP transports 2.5.3: a server that has terminated the session   *)
(*           answers 404 Not Found; a client ends a session with DELETE       *)
(*   "none"  nothing says what this is (a peer or a front that breaks the     *)
(*           protocol; a transport that documents no error classes): the      *)
(*           property does not decide, so the permissive "d" - whatever the   *)
(*           session does with it is accepted, it only has to be consistent   *)
(*           with the rest (Completeness still counts the ping as failed)     *)
ClassTable == {
  \* a stream Connection: in-memory, stdio, any custom transport
  <<"mem", "reply", "a", "prop">>, <<"mem", "silent", "t", "prop">>, <<"mem", "late", "t", "prop">>,
  <<"mem", "rpcerr", "c", "prop">>, <<"mem", "rejected", "c", "doc">>, <<"mem", "mnf", "m", "prop">>,
  <<"mem", "broken", "d", "doc">>,
  \* streamable HTTP client: the ping is a POST
  <<"httpc", "200json", "a", "prop">>, <<"httpc", "200sse", "a", "prop">>,
  <<"httpc", "hang", "t", "prop">>,        \* no HTTP response while the ping lasts
  <<"httpc", "ssesilent", "t", "prop">>,   \* 200 text/event-stream, kept open, the response never comes
  <<"httpc", "429", "c", "doc">>, <<"httpc", "500", "c", "doc">>, <<"httpc", "502", "c", "doc">>,
  <<"httpc", "503", "c", "doc">>, <<"httpc", "504", "c", "doc">>,   \* a status of the transient list, no JSON-RPC body
  <<"httpc", "refused", "c", "prop">>,     \* the POST did not reach the server (connection refused / reset)
  <<"httpc", "200rpcerr", "c", "prop">>,   \* 200 with a JSON-RPC error other than method-not-found
  <<"httpc", "400rpcerr", "c", "doc">>, <<"httpc", "404rpcerr", "c", "doc">>,  \* non-2xx WITH a JSON-RPC error body
  <<"httpc", "200mnf", "m", "prop">>, <<"httpc", "400mnf", "m", "doc">>,
  <<"httpc", "404", "d", "spec">>,         \* session not found: the server has terminated it
  <<"httpc", "400", "d", "doc">>, <<"httpc", "403", "d", "doc">>, <<"httpc", "405", "d", "doc">>,  \* non-transient, no JSON-RPC body
  <<"httpc", "202", "d", "none">>,         \* "accepted" in reply to a request: no response can follow
  <<"httpc", "jsoncut", "d", "none">>,     \* 200 application/json whose body ends in the middle
  <<"httpc", "jsonbad", "d", "none">>,     \* 200 application/json whose body is no JSON-RPC message
  <<"httpc", "ssecut", "d", "none">>,      \* 200 text/event-stream that ends before any event
  <<"httpc", "ctype", "d", "none">>,       \* 200 with a content type that is neither
  \* streamable HTTP server pinging its client: only through the stream the client keeps attached
  <<"https", "posted", "a", "prop">>,      \* the client POSTs the response
  <<"https", "silent", "t", "prop">>,      \* stream attached, the client does not answer
  <<"https", "nostream", "c", "doc">>,     \* no stream attached: the ping cannot be delivered (the client may re-attach)
  <<"https", "rpcerr", "c", "prop">>, <<"https", "mnf", "m", "prop">>,
  <<"https", "deleted", "d", "spec">>,     \* the client answers the ping by ending the session (DELETE)
  \* legacy SSE client: the ping is a POST to the message endpoint, the answer an event
  <<"sse", "event", "a", "prop">>, <<"sse", "silent", "t", "prop">>, <<"sse", "rpcerr", "c", "prop">>,
  <<"sse", "mnf", "m", "prop">>,
  <<"sse", "500", "d", "none">>, <<"sse", "503", "d", "none">>, <<"sse", "404", "d", "none">>,
  <<"sse", "refused", "d", "none">>,       \* the transport documents no error classes
  <<"sse", "streamend", "d", "doc">>       \* the event stream ended: the connection is gone
}
Transports == {r[1] : r \in ClassTable}
ClassesOf(tr) == {r[2] : r \in {x \in ClassTable : x[1] = tr}}
\* (a constant function: TLC evaluates it once)
RowMap == [k \in {<<r[1], r[2]>> : r \in ClassTable} |-> CHOOSE r \in ClassTable : r[1] = k[1] /\ r[2] = k[2]]
VerdictOf(tr, cl) == RowMap[<<tr, cl>>][3]
BasisOf(tr, cl) == RowMap[<<tr, cl>>][4]
\* a script of classes is, for the property, the script of their verdicts
Abstract(tr, cs) == [i \in 1..Len(cs) |-> VerdictOf(tr, cs[i])]
ASSUME \A r \in ClassTable : r[3] \in Outcomes \cup {"d"} /\ r[4] \in {"prop", "doc", "spec", "none"}
ASSUME \A r, s \in ClassTable : (r[1] = s[1] /\ r[2] = s[2]) => r = s

-----------------------------------------------------------------------------
(* Part 2: the ticker loop                                                    *)

CONSTANTS Interval,      \* ticker period in clock units, a multiple of 16
          MaxLen,        \* longest outcome script
          Thresholds,    \* configured KeepAliveFailureThreshold values
          AnswerDelays,  \* how long an answering peer may take, all < PingTimeout(Interval)
          DrainLens,     \* for how many intervals the owner's Close may wait for a running handler
          HsSlots,       \* when the peer completes the handshake: 0 before Connect returns, j > 0 after
                         \* the j-th tick, -1 not at all while the session is observed
          CtxSlots,      \* fate of the context given to Connect: -1 kept alive, k >= 0 cancelled after the
                         \* k-th tick (0: right after Connect returned, the usual `defer cancel()`)
          EnvMaxLen,     \* longest outcome script combined with a non-default handshake / context slot
          EnvProduct,    \* TRUE: the environment dimensions (late handshake, cancelled Connect context, held
                         \* pings, way of establishing the session) also in combination with one another (see Init)
          StallKinds,    \* for how long the transport may hold a ping, relative to the ticker period:
                         \* "l0" past the ping's deadline but not past the next tick, "l1" / "l2" past one / two ticks
          MaxStalls,     \* how many pings of a script may be held
          StallMaxLen,   \* longest outcome script with a held ping
          EstModes,      \* how the session was established (see Est below)
          EstMaxLen      \* longest outcome script combined with a non-default way of establishing the session

ASSUME Interval % 16 = 0 /\ \A d \in AnswerDelays : d >= 0 /\ d < PingTimeout(Interval) /\ d % (Interval \div 8) = 0
ASSUME 0 \in HsSlots /\ -1 \in CtxSlots /\ EnvProduct \in BOOLEAN
ASSUME StallKinds \subseteq {"l0", "l1", "l2"} /\ MaxStalls \in 0..2
ASSUME "init" \in EstModes /\ EstModes \subseteq {"init", "fallback", "modern"}

VARIABLES
  script,     \* Seq(Outcomes): what the peer does with ping 1, 2, ...
  thr0,       \* the configured threshold (before normalisation)
  endMode,    \* "idle": the owner closes between two pings; "inflight": while a ping is outstanding;
              \* "drain": between two pings while a request handler runs for `drain` more intervals;
              \* "held": while the transport holds the script's last ping and a tick is waiting
  drain,      \* intervals the owner's Close waits for the handler (0 unless endMode = "drain")
  drainedAt,  \* when the handler returned and the owner's Close completed (-1: not yet)
  now,        \* clock
  pc,         \* "select" | "ping" | "closed" | "stopped" | "done"
  tickerOn,   \* the ticker has not been stopped
  nextTick,   \* when it fires next
  ctxDone,    \* the keep-alive context has been cancelled
  cf,         \* consecutiveFailures
  k,          \* pings sent so far
  pend,       \* [o, d]: the peer's treatment of the outstanding ping
  resolveAt,  \* when session.Ping returns
  hist,       \* Seq([at, o]) the pings seen by the peer
  closedAt,   \* when keep-alive closed the session (-1: it did not)
  userAt,     \* when the owner closed the session (-1: not yet)
  hs,         \* the handshake slot of this run (\in HsSlots)
  cc,         \* the Connect-context slot of this run (\in CtxSlots)
  est,        \* how the session was established (\in EstModes)
  pendTick,   \* the ticker has fired while the loop was not receiving: one tick is waiting (more are dropped)
  slots       \* the ticks the script takes (constant during a run: Len(script) + Shift(script))

vars == <<script, thr0, endMode, drain, drainedAt, now, pc, tickerOn, nextTick, ctxDone, cf, k, pend, resolveAt, hist, closedAt, userAt, hs, cc, est, pendTick, slots>>

\* Held pings.  A write of the session's transport can stall (the peer does not drain its
\* input for a while) and the ping's context cannot interrupt it: session.Ping then returns
\* only when the transport lets go, however long after the ping's deadline that is.  What
\* matters is the length of the hold relative to the ticker period: the ticker keeps firing
\* while the loop is inside Ping, keeps ONE tick for it (with the time at which it fired) and
\* drops the rest.  Held pings go out in the end and are answered at once - too late.
\*   "l0"  9/16 of an interval: past the deadline, the next tick finds the loop receiving
\*   "l1"  1 + 1/16 intervals: one tick is waiting when Ping returns; the loop pings again at once
\*   "l2"  2 + 1/16 intervals: one tick is waiting, one was dropped
\* (the sixteenths keep every instant of the loop apart from the owner's closing instants)
Alphabet == Outcomes \cup StallKinds
OverrunKinds == {"l1", "l2"} \cap StallKinds
StallTicks(x) == IF x = "l1" THEN 1 ELSE IF x = "l2" THEN 2 ELSE 0
HoldOf(x) == IF x = "l0" THEN (9 * Interval) \div 16
             ELSE IF x \in {"l1", "l2"} THEN StallTicks(x) * Interval + Interval \div 16 ELSE 0
ObsOutcome(x) == IF x \in {"l0", "l1", "l2"} THEN "l" ELSE x
NStalls(s) == Cardinality({i \in 1..Len(s) : s[i] \in StallKinds})
\* A ping that was held past a tick is followed by a scripted ping (the one the loop sends at
\* once for the tick that was waiting) - or it is the script's last, held past two ticks, and
\* the owner closes the session while it is held and one tick is waiting (endMode "held"):
\* then the loop must not ping again when the transport lets go.
EndsHeld(s) == s # <<>> /\ s[Len(s)] = "l2"
Scripts == UNION {[1..n -> Outcomes] : n \in 0..MaxLen}
           \cup {s \in UNION {[1..n -> Alphabet] : n \in 1..StallMaxLen} :
                   NStalls(s) > 0 /\ NStalls(s) <= MaxStalls /\ (s[Len(s)] \notin OverrunKinds \/ EndsHeld(s))}
\* the ticks that a held ping and the ping after it share
Count(s, x) == Cardinality({i \in 1..Len(s) : s[i] = x})
Shift(s) == (StallTicks("l1") - 1) * Count(s, "l1") + (StallTicks("l2") - 1) * Count(s, "l2")

\* How the session was established, and by which side (the side that pings):
\*   "init"      by the legacy initialize handshake: a ServerSession whose peer sends initialize
\*               (when: hs), a ClientSession that asked for a legacy protocol version, or the
\*               loop on its own (no session at all)
\*   "fallback"  a ClientSession that asked for the latest protocol version, had its
\*               server/discover probe rejected and fell back to initialize: a legacy session
\*   "modern"    a ClientSession whose server/discover probe succeeded: a protocol version
\*               that has no ping; keep-alive is not started
\* Only the last changes what the loop does.  Which sides a case exists on is SidesOf.
HasPing == est # "modern"
SidesOf == IF hs # 0 THEN {"server"}
           ELSE IF est # "init" THEN {"client"}
           ELSE IF cc >= 0 \/ endMode = "drain" THEN {"server", "client"}
           ELSE {"func", "server", "client"}

\* The owner closes the session after the script is used up: three quarters of an
\* interval after the tick of the last scripted ping, or a quarter of an interval into the
\* next one; or a quarter of an interval after the first tick that finds the last ping held.
UserTime == IF endMode \in {"idle", "drain"} THEN slots * Interval + (3 * Interval) \div 4
            ELSE IF endMode = "held" THEN slots * Interval + Interval \div 4
            ELSE (slots + 1) * Interval + Interval \div 4
UserPending == userAt < 0 /\ closedAt < 0

\* The two environment events lie strictly between the other events of an interval (tick 0,
\* answer <= 2/8, owner's Close with a ping in flight 2/8, ping timeout 4/8, owner's Close 6/8).
\*
\* Handshake: Connect starts keep-alive on a connection whose peer has not yet sent
\* initialize (the protocol allows ping before initialization), so the first ticks may come
\* before the handshake, or the handshake may never come.  What the peer does with a ping
\* is the script's business either way: a peer that has not initialized yet answers, ignores
\* or rejects pings like any other.
HsTime == IF hs <= 0 THEN hs ELSE hs * Interval + (3 * Interval) \div 8
Inited == hs >= 0 /\ now >= HsTime
\* Connect context: it bounds connecting and the handshake.  The session, and with it keep-
\* alive, outlives it: keep-alive has a context of its own (ctxDone) that only closing the
\* session cancels.  The caller typically cancels the Connect context as soon as Connect has
\* returned (WithTimeout + defer cancel()), or at any later time.
CcTime == IF cc < 0 THEN -1 ELSE cc * Interval + (7 * Interval) \div 8
ConnCtxDone == cc >= 0 /\ now >= CcTime
\* Neither Inited nor ConnCtxDone occurs in any action below: the loop pings an uninitialized
\* peer and keeps pinging after the Connect context has ended.  They are part of the case
\* (the conformance harness makes the peer and the caller behave so) and of the witnesses.

OutcomeAt(i) == IF i <= Len(script) THEN script[i] ELSE "u"
Delays(oc) == IF oc = "a" THEN AnswerDelays ELSE {0}
NextAfter(t) == (t \div Interval + 1) * Interval      \* the first tick after t

\* (SS: the scripts of the configuration - Scripts, or the transport dimension's abstract scripts, which
\* may also contain "d": KeepAliveTr)
InitWith(SS) ==
  /\ script \in SS /\ thr0 \in Thresholds /\ endMode \in {"idle", "inflight", "drain", "held"}
  /\ EndsHeld(script) <=> endMode = "held"
  /\ drain \in (IF endMode = "drain" THEN DrainLens ELSE {0}) /\ drainedAt = -1
  /\ hs \in HsSlots /\ cc \in CtxSlots
  /\ (hs # 0 \/ cc # -1) => Len(script) <= EnvMaxLen
  /\ (hs # 0 /\ cc # -1) => EnvProduct
  /\ est \in EstModes
  /\ est # "init" => (Len(script) <= EstMaxLen /\ hs = 0)
  \* the peer of a session without ping makes no request of its own either
  /\ est = "modern" => endMode # "drain"
  \* combinations of the environment dimensions with one another: way of establishing x Connect
  \* context; held pings x way of establishing; held pings (short scripts) x handshake x context
  /\ (est # "init" /\ cc # -1) => EnvProduct
  /\ (est # "init" /\ NStalls(script) > 0) => (EnvProduct /\ cc = -1)
  /\ (NStalls(script) > 0 /\ (hs # 0 \/ cc # -1)) => (EnvProduct /\ Len(script) <= 2)
  \* the request whose handler keeps the owner's Close waiting is only served after the handshake
  /\ endMode = "drain" => (hs >= 0 /\ hs <= Len(script))
  \* Connect starts the loop unless the session speaks a protocol version without ping
  /\ now = 0 /\ pc = (IF HasPing THEN "select" ELSE "off") /\ tickerOn = HasPing /\ nextTick = Interval /\ ctxDone = FALSE
  /\ pendTick = FALSE /\ slots = Len(script) + Shift(script)
  /\ cf = 0 /\ k = 0 /\ pend = [o |-> "a", d |-> 0] /\ resolveAt = 0 /\ hist = <<>>
  /\ closedAt = -1 /\ userAt = -1
Init == InitWith(Scripts)

\* case <-ticker.C: send a ping with a deadline of half an interval FROM NOW - which is the
\* tick's own time when the loop was receiving, and later than that when the tick had to wait.
\* A tick that is waiting when the session has meanwhile been closed is not served: "keep-
\* alive ends silently when the session is closed" (~ctxDone: the cancelled context comes first).
Tick ==
  /\ pc = "select" /\ tickerOn /\ ~ctxDone
  /\ LET at == IF pendTick THEN now ELSE nextTick
         oc == OutcomeAt(k + 1)
     IN /\ UserPending => at < UserTime
        /\ now' = at /\ nextTick' = (IF pendTick THEN nextTick ELSE nextTick + Interval)
        /\ pendTick' = FALSE
        /\ k' = k + 1
        /\ \E d \in Delays(oc) :
             /\ pend' = [o |-> ObsOutcome(oc), d |-> d]
             /\ resolveAt' = (IF oc \in {"t", "u"} THEN at + PingTimeout(Interval)
                              ELSE IF oc \in StallKinds THEN at + HoldOf(oc) ELSE at + d)
        /\ hist' = Append(hist, [at |-> at, o |-> ObsOutcome(oc), h |-> HoldOf(oc)])
  /\ pc' = "ping"
  /\ UNCHANGED <<slots, hs, cc, est, script, thr0, endMode, drain, drainedAt, tickerOn, ctxDone, cf, closedAt, userAt>>

\* session.Ping returns
Resolve ==
  /\ pc = "ping"
  /\ UserPending => resolveAt < UserTime
  /\ now' = resolveAt
  \* ticks that fired meanwhile: the first waits, the others are dropped; the ticker keeps its phase
  /\ IF nextTick <= resolveAt THEN pendTick' = TRUE /\ nextTick' = NextAfter(resolveAt)
     ELSE UNCHANGED <<pendTick, nextTick>>
  /\ IF pend.o = "a" THEN
        /\ cf' = 0 /\ pc' = "select"
        /\ UNCHANGED <<tickerOn, ctxDone, closedAt>>
     ELSE IF pend.o = "m" THEN
        /\ pc' = "stopped" /\ tickerOn' = FALSE
        /\ UNCHANGED <<cf, ctxDone, closedAt>>
     ELSE IF pend.o = "d" THEN
        \* the connection is dead / the peer has terminated the session: the session is over there and
        \* then.  (What is left of the loop can only make attempts that the dead connection refuses
        \* locally - no ping reaches anybody - until its counter is at the threshold; that tail is not
        \* modelled: the loop counts as gone, the observation allows it the threshold's intervals.)
        /\ pc' = "closed" /\ tickerOn' = FALSE /\ ctxDone' = TRUE
        /\ closedAt' = (IF userAt < 0 THEN resolveAt ELSE closedAt)
        /\ UNCHANGED cf
     ELSE
        /\ cf' = cf + 1
        /\ IF cf + 1 < Norm(thr0) THEN
              /\ pc' = "select" /\ UNCHANGED <<tickerOn, ctxDone, closedAt>>
           ELSE \* session.Close(): idempotent; cancels the keep-alive context
              /\ pc' = "closed" /\ tickerOn' = FALSE /\ ctxDone' = TRUE
              /\ closedAt' = (IF userAt < 0 THEN resolveAt ELSE closedAt)
  /\ UNCHANGED <<slots, hs, cc, est, script, thr0, endMode, drain, drainedAt, k, pend, resolveAt, hist, userAt>>

\* the owner calls Close on the session: the keep-alive context is cancelled
UserClose ==
  /\ UserPending /\ pc \in {"select", "ping", "stopped", "off"}
  /\ (pc = "select" /\ tickerOn) => (UserTime < nextTick /\ ~pendTick)
  /\ pc = "ping" => UserTime < resolveAt
  /\ now' = UserTime /\ userAt' = UserTime /\ ctxDone' = TRUE
  /\ UNCHANGED <<slots, hs, cc, est, pendTick, script, thr0, endMode, drain, drainedAt, pc, tickerOn, nextTick, cf, k, pend, resolveAt, hist, closedAt>>

\* the handler the owner's Close was waiting for returns: Close completes.  Time does not
\* pass while the loop can leave (Exit is instantaneous), and earlier events come first.
DrainTime == userAt + drain * Interval
DrainEnd ==
  /\ endMode = "drain" /\ userAt >= 0 /\ drainedAt < 0
  /\ ~(pc = "select" /\ ctxDone)
  /\ (pc = "select" /\ tickerOn) => DrainTime < nextTick
  /\ pc = "ping" => DrainTime < resolveAt
  /\ now' = DrainTime /\ drainedAt' = DrainTime
  /\ UNCHANGED <<slots, hs, cc, est, pendTick, script, thr0, endMode, drain, pc, tickerOn, nextTick, ctxDone, cf, k, pend, resolveAt, hist, closedAt, userAt>>

\* case <-ctx.Done(): return (deferred ticker.Stop)
Exit ==
  /\ pc = "select" /\ ctxDone
  /\ pc' = "done" /\ tickerOn' = FALSE
  /\ UNCHANGED <<slots, hs, cc, est, pendTick, script, thr0, endMode, drain, drainedAt, now, nextTick, ctxDone, cf, k, pend, resolveAt, hist, closedAt, userAt>>

Next == Tick \/ Resolve \/ UserClose \/ DrainEnd \/ Exit
Spec == Init /\ [][Next]_vars /\ WF_vars(Next)

-----------------------------------------------------------------------------
(* Design check: the loop satisfies the property                              *)

LoopGone == pc \in {"closed", "stopped", "done", "off"}
Terminal == LoopGone /\ (closedAt >= 0 \/ (userAt >= 0 /\ (endMode = "drain" => drainedAt >= 0)))

\* the observation a peer and the owner would make of the current state
\* (start = 0: Connect returns at once; a late handshake does not delay it on the side that
\* waits for the peer's initialize, and on the side that sends initialize hs is 0)
ObsOf == [T |-> thr0, I |-> Interval, start |-> 0, pings |-> hist, pingable |-> HasPing,
          attempts |-> [i \in 1..Len(hist) |-> hist[i].at],
          closed |-> closedAt, userClose |-> userAt,
          kaEarly |-> (IF userAt >= 0 /\ now > userAt /\ ~LoopGone THEN 1 ELSE 0),
          kaAlive |-> (IF LoopGone THEN 0 ELSE 1),
          left |-> (IF LoopGone /\ ~tickerOn THEN 0 ELSE 1), exit |-> "clean"]

TrailingFails(h) == LET S == {n \in 0..Len(h) : Run(h, Len(h), n)} IN MaxOf(S)

TypeOK ==
  /\ pc \in {"select", "ping", "closed", "stopped", "done", "off"}
  /\ hs \in HsSlots /\ cc \in CtxSlots /\ est \in EstModes /\ pendTick \in BOOLEAN
  /\ cf \in 0..MaxLen + 1 /\ k \in 0..MaxLen + 1 /\ now >= 0
  /\ closedAt >= -1 /\ userAt >= -1

InvAccuracy == Accuracy(ObsOf)
InvTiming == Timing(ObsOf)
InvSilentStop == SilentStop(ObsOf)
\* between two pings the counter is the number of trailing failures and is below the threshold
InvCounter == (pc = "select" /\ userAt < 0) => (cf = TrailingFails(hist) /\ cf < Norm(thr0))
InvCompleteness == pc # "ping" => Completeness(ObsOf)
InvFinal == Terminal => Holds(ObsOf)
\* the owner's Close ends keep-alive at once, however long Close itself then takes
InvGoneWhenClosing == NoLeftovers([ObsOf EXCEPT !.kaAlive = 0, !.left = 0])
\* closing the session is the loop's last act; after the owner's Close the loop takes no
\* further tick (it may still be inside the ping that was outstanding)
InvGoneAtClose == closedAt >= 0 => LoopGone
InvNoTickAfterUser == (userAt >= 0 /\ pc = "ping") => hist[Len(hist)].at < userAt
\* a ping is never both resolved and ticked at the same instant, and a session without ping
\* is never pinged
InvGrid == /\ pc = "ping" => resolveAt # nextTick
           /\ ~HasPing => (k = 0 /\ pc = "off")
\* a stopped ticker never fires again; once cancelled or stopped no ping is sent
NoPingAfterStop == [][(~tickerOn \/ ctxDone) => k' = k]_vars
\* every run ends with the loop gone and the ticker stopped
Terminates == <>[](Terminal /\ ~tickerOn)
=============================================================================
