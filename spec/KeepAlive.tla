------------------------------ MODULE KeepAlive ------------------------------
(* Property C13: the keep-alive loop of mcp/shared.go (startKeepalive).       *)
(*                                                                            *)
(* Part 1 (constant level) states the property over an OBSERVATION of one     *)
(* keep-alive run: the pings a peer saw (when, and what the peer did with      *)
(* each), when the session terminated on the SDK's own initiative, when its   *)
(* owner closed it, and what was left behind.  These operators are shared by  *)
(* the design check below and by the monitor KeepAliveMon, which evaluates    *)
(* them on observations of the real code.                                     *)
(*                                                                            *)
(* Part 2 is the code-shaped state machine of the ticker loop: a ticker of    *)
(* period Interval, one ping per tick with a timeout of Interval \div 2, the  *)
(* consecutiveFailures counter, threshold normalisation, silent stop on       *)
(* method-not-found, exit on context cancellation (session Close).  The       *)
(* environment fixes the peer's outcome script, the configured threshold,     *)
(* the instant at which the owner closes the session and for how long that   *)
(* Close has to wait for a running request handler, the instant at which the  *)
(* peer completes the protocol handshake (keep-alive is started by Connect,   *)
(* before any handshake) and the fate of the context that was given to        *)
(* Connect once Connect has returned.  Time is explicit (`now` jumps to the   *)
(* next event).                                                               *)
EXTENDS Integers, Sequences, FiniteSets, TLC

-----------------------------------------------------------------------------
(* Part 1: the property over observations                                     *)

\* What a peer can do with a ping:
\*   "a" answer within the ping timeout      "t" not answer within the timeout
\*   "m" reply "method not found"            "c" connection / delivery error
\*   "u" still unresolved when the owner closed the session (not a verdict on the peer)
Outcomes == {"a", "t", "m", "c"}
Failures == {"t", "c"}

Norm(T) == IF T < 1 THEN 1 ELSE T            \* a threshold below 1 means 1
PingTimeout(I) == I \div 2

MaxOf(S) == CHOOSE x \in S : \A y \in S : y <= x
MinOf(S) == CHOOSE x \in S : \A y \in S : x <= y

\* pings k-n+1 .. k all failed
Run(ps, k, n) == k >= n /\ \A i \in (k - n + 1)..k : ps[i].o \in Failures
\* keep-alive has not been told "method not found" up to and including ping k
NoM(ps, k) == \A i \in 1..k : ps[i].o # "m"
\* indices at which n consecutive failures are complete while keep-alive is active
Hits(ps, n) == {k \in 1..Len(ps) : Run(ps, k, n) /\ NoM(ps, k)}
\* the pings seen up to time t
Before(ps, t) == SelectSeq(ps, LAMBDA p : p.at <= t)
\* when the peer last did not fail a ping (the start of keep-alive if never)
LastOK(ps, start) == LET S == {i \in 1..Len(ps) : ps[i].o \notin Failures}
                     IN IF S = {} THEN start ELSE ps[MaxOf(S)].at

\* o.closed >= 0: the session terminated at that time without its owner closing it.

\* "never live ones": a closure is justified only by Norm(T) consecutive failed pings
\* immediately before it, and never after the peer declared ping unsupported.
Accuracy(o) ==
  o.closed >= 0 =>
    LET P == Before(o.pings, o.closed)  n == Norm(o.T)
    IN /\ Run(P, Len(P), n)
       /\ NoM(P, Len(P))
       /\ o.closed >= P[Len(P)].at            \* not before the last of them was even sent

\* A session "whose peer stops answering pings is closed": the peer may stop at ANY instant,
\* and it can only be closed "within that many intervals plus one ping timeout" of that
\* instant if it is being pinged.  For as long as keep-alive is in force (the peer has not
\* declared ping unsupported, the session has neither been closed by keep-alive nor by its
\* owner) ping attempts are therefore at most one interval apart.  Every observation ends
\* with a closure or the owner's Close, so "no ping by then" is an observed fact.
KAEnds(o) == {o.pings[j].at : j \in {i \in 1..Len(o.pings) : o.pings[i].o = "m"}}
             \cup {t \in {o.closed, o.userClose} : t >= 0}
Sustained(o) ==
  KAEnds(o) # {} =>
    LET e == MinOf(KAEnds(o))
        pts == <<o.start>> \o SelectSeq(o.attempts, LAMBDA t : t < e) \o <<e>>
    IN \A i \in 1..(Len(pts) - 1) : pts[i + 1] - pts[i] <= o.I

\* "closed after exactly the configured number": as soon as Norm(T) consecutive pings
\* have failed the session is closed, and no further ping is attempted; and the peer is
\* pinged for as long as keep-alive is in force (a detector that stops looking never
\* sees the failures).
Completeness(o) ==
  LET n == Norm(o.T)  H == Hits(o.pings, n)
  IN /\ H # {} => /\ o.closed >= 0
                  /\ Len(Before(o.pings, o.closed)) = MinOf(H)
     /\ Sustained(o)

\* "within that many intervals plus one ping timeout" of the peer going silent
Timing(o) ==
  o.closed >= 0 =>
    LET P == Before(o.pings, o.closed)  n == Norm(o.T)
    IN o.closed <= LastOK(P, o.start) + n * o.I + PingTimeout(o.I)

\* keep-alive ends silently on "method not found" (no further ping, session stays
\* open) and when the owner closes the session (no ping afterwards)
\* o.attempts: the instants at which the session tried to send a ping (whether or not it
\* reached the peer: a ping attempted on a closing connection is refused locally).
SilentStop(o) ==
  /\ \A j \in 1..Len(o.pings) : o.pings[j].o = "m" =>
        /\ Len(o.pings) = j /\ o.closed < 0
        /\ \A i \in 1..Len(o.attempts) : o.attempts[i] <= o.pings[j].at
  /\ o.userClose >= 0 => /\ \A j \in 1..Len(o.pings) : o.pings[j].at <= o.userClose
                         /\ \A i \in 1..Len(o.attempts) : o.attempts[i] <= o.userClose

\* no ping can be outstanding when the owner starts closing
Quiet(o) == \A j \in 1..Len(o.pings) :
               o.pings[j].at + PingTimeout(o.I) <= o.userClose \/ o.pings[j].at > o.userClose

\* nothing is left behind: once the session has been closed (by keep-alive or by its
\* owner) and everything runnable has run, the keep-alive loop is gone (o.kaAlive is the
\* number of keep-alive loops alive at that point); after a long quiet period no goroutine
\* remains and no ping was sent after the termination
\* o.kaEarly: keep-alive loops alive right after the owner's Close has BEGUN (everything
\* runnable has run, Close itself may still be waiting for a request handler to return): with
\* no ping outstanding keep-alive must end there and then, not when the drain is over.
NoLeftovers(o) ==
  /\ (o.userClose >= 0 /\ Quiet(o)) => o.kaEarly = 0
  /\ o.kaAlive = 0
  /\ o.left = 0
  /\ o.exit = "clean"
  /\ o.closed >= 0 => \A j \in 1..Len(o.pings) : o.pings[j].at <= o.closed

Holds(o) == Accuracy(o) /\ Completeness(o) /\ Timing(o) /\ SilentStop(o) /\ NoLeftovers(o)

-----------------------------------------------------------------------------
(* Part 2: the ticker loop                                                    *)

CONSTANTS Interval,      \* ticker period in clock units, a multiple of 8
          MaxLen,        \* longest outcome script
          Thresholds,    \* configured KeepAliveFailureThreshold values
          AnswerDelays,  \* how long an answering peer may take, all < PingTimeout(Interval)
          DrainLens,     \* for how many intervals the owner's Close may wait for a running handler
          HsSlots,       \* when the peer completes the handshake: 0 before Connect returns, j > 0 after
                         \* the j-th tick, -1 not at all while the session is observed
          CtxSlots,      \* fate of the context given to Connect: -1 kept alive, k >= 0 cancelled after the
                         \* k-th tick (0: right after Connect returned, the usual `defer cancel()`)
          EnvMaxLen,     \* longest outcome script combined with a non-default handshake / context slot
          EnvProduct     \* TRUE: late handshake and cancelled Connect context also in combination

ASSUME Interval % 8 = 0 /\ \A d \in AnswerDelays : d >= 0 /\ d < PingTimeout(Interval)
ASSUME 0 \in HsSlots /\ -1 \in CtxSlots /\ EnvProduct \in BOOLEAN

VARIABLES
  script,     \* Seq(Outcomes): what the peer does with ping 1, 2, ...
  thr0,       \* the configured threshold (before normalisation)
  endMode,    \* "idle": the owner closes between two pings; "inflight": while a ping is outstanding;
              \* "drain": between two pings while a request handler runs for `drain` more intervals
  drain,      \* intervals the owner's Close waits for the handler (0 unless endMode = "drain")
  drainedAt,  \* when the handler returned and the owner's Close completed (-1: not yet)
  now,        \* clock
  pc,         \* "select" | "ping" | "closed" | "stopped" | "done"
  tickerOn,   \* the ticker has not been stopped
  nextTick,   \* when it fires next
  ctxDone,    \* the keep-alive context has been cancelled
  cf,         \* consecutiveFailures
  k,          \* pings sent so far
  pend,       \* [o, d]: the peer's treatment of the outstanding ping
  resolveAt,  \* when session.Ping returns
  hist,       \* Seq([at, o]) the pings seen by the peer
  closedAt,   \* when keep-alive closed the session (-1: it did not)
  userAt,     \* when the owner closed the session (-1: not yet)
  hs,         \* the handshake slot of this run (\in HsSlots)
  cc          \* the Connect-context slot of this run (\in CtxSlots)

vars == <<script, thr0, endMode, drain, drainedAt, now, pc, tickerOn, nextTick, ctxDone, cf, k, pend, resolveAt, hist, closedAt, userAt, hs, cc>>

Scripts == UNION {[1..n -> Outcomes] : n \in 0..MaxLen}

\* The owner closes the session after the script is used up: three quarters of an
\* interval after the last scripted ping, or a quarter of an interval into the next one.
UserTime == IF endMode \in {"idle", "drain"} THEN Len(script) * Interval + (3 * Interval) \div 4
            ELSE (Len(script) + 1) * Interval + Interval \div 4
UserPending == userAt < 0 /\ closedAt < 0

\* The two environment events lie strictly between the other events of an interval (tick 0,
\* answer <= 2/8, owner's Close with a ping in flight 2/8, ping timeout 4/8, owner's Close 6/8).
\*
\* Handshake: Connect starts keep-alive on a connection whose peer has not yet sent
\* initialize (the protocol allows ping before initialization), so the first ticks may come
\* before the handshake, or the handshake may never come.  What the peer does with a ping
\* is the script's business either way: a peer that has not initialized yet answers, ignores
\* or rejects pings like any other.
HsTime == IF hs <= 0 THEN hs ELSE hs * Interval + (3 * Interval) \div 8
Inited == hs >= 0 /\ now >= HsTime
\* Connect context: it bounds connecting and the handshake.  The session, and with it keep-
\* alive, outlives it: keep-alive has a context of its own (ctxDone) that only closing the
\* session cancels.  The caller typically cancels the Connect context as soon as Connect has
\* returned (WithTimeout + defer cancel()), or at any later time.
CcTime == IF cc < 0 THEN -1 ELSE cc * Interval + (7 * Interval) \div 8
ConnCtxDone == cc >= 0 /\ now >= CcTime
\* Neither Inited nor ConnCtxDone occurs in any action below: the loop pings an uninitialized
\* peer and keeps pinging after the Connect context has ended.  They are part of the case
\* (the conformance harness makes the peer and the caller behave so) and of the witnesses.

OutcomeAt(i) == IF i <= Len(script) THEN script[i] ELSE "u"
Delays(oc) == IF oc = "a" THEN AnswerDelays ELSE {0}

Init ==
  /\ script \in Scripts /\ thr0 \in Thresholds /\ endMode \in {"idle", "inflight", "drain"}
  /\ drain \in (IF endMode = "drain" THEN DrainLens ELSE {0}) /\ drainedAt = -1
  /\ hs \in HsSlots /\ cc \in CtxSlots
  /\ (hs # 0 \/ cc # -1) => Len(script) <= EnvMaxLen
  /\ (hs # 0 /\ cc # -1) => EnvProduct
  \* the request whose handler keeps the owner's Close waiting is only served after the handshake
  /\ endMode = "drain" => (hs >= 0 /\ hs <= Len(script))
  /\ now = 0 /\ pc = "select" /\ tickerOn = TRUE /\ nextTick = Interval /\ ctxDone = FALSE
  /\ cf = 0 /\ k = 0 /\ pend = [o |-> "a", d |-> 0] /\ resolveAt = 0 /\ hist = <<>>
  /\ closedAt = -1 /\ userAt = -1

\* case <-ticker.C: send a ping with a deadline of half an interval
Tick ==
  /\ pc = "select" /\ tickerOn /\ ~ctxDone
  /\ UserPending => nextTick < UserTime
  /\ now' = nextTick /\ nextTick' = nextTick + Interval
  /\ k' = k + 1
  /\ \E d \in Delays(OutcomeAt(k + 1)) :
       /\ pend' = [o |-> OutcomeAt(k + 1), d |-> d]
       /\ resolveAt' = (IF OutcomeAt(k + 1) \in {"t", "u"} THEN nextTick + PingTimeout(Interval) ELSE nextTick + d)
  /\ hist' = Append(hist, [at |-> nextTick, o |-> OutcomeAt(k + 1)])
  /\ pc' = "ping"
  /\ UNCHANGED <<hs, cc, script, thr0, endMode, drain, drainedAt, tickerOn, ctxDone, cf, closedAt, userAt>>

\* session.Ping returns
Resolve ==
  /\ pc = "ping"
  /\ UserPending => resolveAt < UserTime
  /\ now' = resolveAt
  /\ IF pend.o = "a" THEN
        /\ cf' = 0 /\ pc' = "select"
        /\ UNCHANGED <<tickerOn, ctxDone, closedAt>>
     ELSE IF pend.o = "m" THEN
        /\ pc' = "stopped" /\ tickerOn' = FALSE
        /\ UNCHANGED <<cf, ctxDone, closedAt>>
     ELSE
        /\ cf' = cf + 1
        /\ IF cf + 1 < Norm(thr0) THEN
              /\ pc' = "select" /\ UNCHANGED <<tickerOn, ctxDone, closedAt>>
           ELSE \* session.Close(): idempotent; cancels the keep-alive context
              /\ pc' = "closed" /\ tickerOn' = FALSE /\ ctxDone' = TRUE
              /\ closedAt' = (IF userAt < 0 THEN resolveAt ELSE closedAt)
  /\ UNCHANGED <<hs, cc, script, thr0, endMode, drain, drainedAt, nextTick, k, pend, resolveAt, hist, userAt>>

\* the owner calls Close on the session: the keep-alive context is cancelled
UserClose ==
  /\ UserPending /\ pc \in {"select", "ping", "stopped"}
  /\ (pc = "select" /\ tickerOn) => UserTime < nextTick
  /\ pc = "ping" => UserTime < resolveAt
  /\ now' = UserTime /\ userAt' = UserTime /\ ctxDone' = TRUE
  /\ UNCHANGED <<hs, cc, script, thr0, endMode, drain, drainedAt, pc, tickerOn, nextTick, cf, k, pend, resolveAt, hist, closedAt>>

\* the handler the owner's Close was waiting for returns: Close completes.  Time does not
\* pass while the loop can leave (Exit is instantaneous), and earlier events come first.
DrainTime == userAt + drain * Interval
DrainEnd ==
  /\ endMode = "drain" /\ userAt >= 0 /\ drainedAt < 0
  /\ ~(pc = "select" /\ ctxDone)
  /\ (pc = "select" /\ tickerOn) => DrainTime < nextTick
  /\ pc = "ping" => DrainTime < resolveAt
  /\ now' = DrainTime /\ drainedAt' = DrainTime
  /\ UNCHANGED <<hs, cc, script, thr0, endMode, drain, pc, tickerOn, nextTick, ctxDone, cf, k, pend, resolveAt, hist, closedAt, userAt>>

\* case <-ctx.Done(): return (deferred ticker.Stop)
Exit ==
  /\ pc = "select" /\ ctxDone
  /\ pc' = "done" /\ tickerOn' = FALSE
  /\ UNCHANGED <<hs, cc, script, thr0, endMode, drain, drainedAt, now, nextTick, ctxDone, cf, k, pend, resolveAt, hist, closedAt, userAt>>

Next == Tick \/ Resolve \/ UserClose \/ DrainEnd \/ Exit
Spec == Init /\ [][Next]_vars /\ WF_vars(Next)

-----------------------------------------------------------------------------
(* Design check: the loop satisfies the property                              *)

LoopGone == pc \in {"closed", "stopped", "done"}
Terminal == LoopGone /\ (closedAt >= 0 \/ (userAt >= 0 /\ (endMode = "drain" => drainedAt >= 0)))

\* the observation a peer and the owner would make of the current state
\* (start = 0: Connect returns at once; a late handshake does not delay it on the side that
\* waits for the peer's initialize, and on the side that sends initialize hs is 0)
ObsOf == [T |-> thr0, I |-> Interval, start |-> 0, pings |-> hist,
          attempts |-> [i \in 1..Len(hist) |-> hist[i].at],
          closed |-> closedAt, userClose |-> userAt,
          kaEarly |-> (IF userAt >= 0 /\ now > userAt /\ ~LoopGone THEN 1 ELSE 0),
          kaAlive |-> (IF LoopGone THEN 0 ELSE 1),
          left |-> (IF LoopGone /\ ~tickerOn THEN 0 ELSE 1), exit |-> "clean"]

TrailingFails(h) == LET S == {n \in 0..Len(h) : Run(h, Len(h), n)} IN MaxOf(S)

TypeOK ==
  /\ pc \in {"select", "ping", "closed", "stopped", "done"}
  /\ hs \in HsSlots /\ cc \in CtxSlots
  /\ cf \in 0..MaxLen + 1 /\ k \in 0..MaxLen + 1 /\ now >= 0
  /\ closedAt >= -1 /\ userAt >= -1

InvAccuracy == Accuracy(ObsOf)
InvTiming == Timing(ObsOf)
InvSilentStop == SilentStop(ObsOf)
\* between two pings the counter is the number of trailing failures and is below the threshold
InvCounter == (pc = "select" /\ userAt < 0) => (cf = TrailingFails(hist) /\ cf < Norm(thr0))
InvCompleteness == pc # "ping" => Completeness(ObsOf)
InvFinal == Terminal => Holds(ObsOf)
\* the owner's Close ends keep-alive at once, however long Close itself then takes
InvGoneWhenClosing == NoLeftovers([ObsOf EXCEPT !.kaAlive = 0, !.left = 0])
\* closing the session is the loop's last act; after the owner's Close the loop takes no
\* further tick (it may still be inside the ping that was outstanding)
InvGoneAtClose == closedAt >= 0 => LoopGone
InvNoTickAfterUser == (userAt >= 0 /\ pc = "ping") => hist[Len(hist)].at < userAt
\* a stopped ticker never fires again; once cancelled or stopped no ping is sent
NoPingAfterStop == [][(~tickerOn \/ ctxDone) => k' = k]_vars
\* every run ends with the loop gone and the ticker stopped
Terminates == <>[](Terminal /\ ~tickerOn)
=============================================================================
