-------------------------------- MODULE Conn --------------------------------
(* Specification of one endpoint of internal/jsonrpc2.Connection as used by   *)
(* mcp sessions (conn.go; mcp/transport.go call/cancelCall/canceller), for    *)
(* properties C01-C05.  The endpoint faces an adversarial environment: the    *)
(* peer + the transport + the application (who calls, cancels, closes, when   *)
(* handlers return).                                                          *)
(*                                                                            *)
(* Written to be bound: `st` mirrors inFlightState; EVERY call of             *)
(* updateInFlight(f) in conn.go is ONE action of the form st' = Epi(F(st))    *)
(* where F transcribes the closure and Epi the tail of updateInFlight (close  *)
(* the transport when idle and shutting down; mark done when the reader is    *)
(* gone).  The verif hook logs Proj(st') under the lock, so a recorded trace  *)
(* can be checked action by action (ConnTrace.tla).                           *)
(*                                                                            *)
(* Threads: caller k (Call + Await + mcp.call), its cancel-notifier (Notify   *)
(* of notifications/cancelled), the reader (readIncoming/acceptRequest), the  *)
(* dispatcher (handleAsync), handler r, the result path of r (processResult), *)
(* the canceller spawned by the preempter, closers and waiters.               *)
EXTENDS Integers, Sequences, FiniteSets, TLC

CONSTANTS Callers,        \* outgoing calls
          Reqs,           \* incoming messages
          CallReqs,       \* the incoming messages that are calls (carry an id)
          CancelOf,       \* function: incoming cancel notifications -> the call request they name
          DupOf,          \* function: incoming calls that re-use the wire id of another incoming call
          Closers, Waiters,
          WriteOutcomes,  \* subset of {"ok","broken","rejected"}
          EnvEOF          \* may the environment end the input stream on its own?

VARIABLES st,             \* inFlightState + done  (see Init)
          cpc, ready, outcome, ctxDone, sent,      \* callers
          npc,                                      \* cancel-notifiers
          rdpc, rdarg, unread,                      \* reader
          dpc, darg,                                \* dispatcher
          hpc, released, hctx,                      \* handlers / request contexts
          rp, isnotif,                              \* result path; requests whose id was cleared (duplicate)
          canpc,                                    \* cancellers
          clpc, wtpc,                               \* closers, waiters
          transportClosed, wire

vars == <<st, cpc, ready, outcome, ctxDone, sent, npc, rdpc, rdarg, unread, dpc, darg,
          hpc, released, hctx, rp, isnotif, canpc, clpc, wtpc, transportClosed, wire>>

IsCall(r) == r \in CallReqs /\ r \notin isnotif
WireId(r) == IF r \in DOMAIN DupOf THEN DupOf[r] ELSE r
ShuttingDown(s) == s.closing \/ s.readErr \/ s.writeErr
Idle(s) == s.outgoing = {} /\ s.outNotif = 0 /\ s.incoming = 0 /\ ~s.handlerRunning

\* tail of updateInFlight
Epi(s) == IF s.done THEN s
          ELSE IF Idle(s) /\ ShuttingDown(s)
               THEN [s EXCEPT !.closerTaken = TRUE, !.done = ~s.reading]
               ELSE s

\* what the verif hook logs
Proj(s) == [closing |-> s.closing, reading |-> s.reading, readErr |-> s.readErr, writeErr |-> s.writeErr,
            closerNil |-> s.closerTaken, done |-> s.done, out |-> Cardinality(s.outgoing), outNotif |-> s.outNotif,
            incoming |-> s.incoming, inById |-> Cardinality(s.inById), queue |-> Len(s.queue),
            handlerRunning |-> s.handlerRunning]

\* one critical section
CS(s1) == /\ st' = Epi(s1)
          /\ transportClosed' = (transportClosed \/ Epi(s1).closerTaken)

\* inById holds request identities; two requests clash when they carry the same wire id
Clash(s, r) == \E q \in s.inById : WireId(q) = WireId(r)
CancelAll(s) == [r \in Reqs |-> IF r \in s.inById /\ hctx[r] = "live" THEN "cancelled" ELSE hctx[r]]
SetWriteErr(s) == IF s.writeErr THEN s ELSE [s EXCEPT !.writeErr = TRUE]

Init ==
  /\ st = [closing |-> FALSE, reading |-> TRUE, readErr |-> FALSE, writeErr |-> FALSE,
           closerTaken |-> FALSE, done |-> FALSE, outgoing |-> {}, outNotif |-> 0,
           incoming |-> 0, inById |-> {}, queue |-> <<>>, handlerRunning |-> FALSE]
  /\ cpc = [k \in Callers |-> "idle"] /\ ready = [k \in Callers |-> FALSE]
  /\ outcome = [k \in Callers |-> "none"] /\ ctxDone = [k \in Callers |-> FALSE]
  /\ sent = {}
  /\ npc = [k \in Callers |-> "none"]
  /\ rdpc = "read" /\ rdarg = "none" /\ unread = Reqs
  /\ dpc = "off" /\ darg = "none"
  /\ hpc = [r \in Reqs |-> "none"] /\ released = [r \in Reqs |-> FALSE]
  /\ hctx = [r \in Reqs |-> "live"]
  /\ rp = [r \in Reqs |-> "none"] /\ isnotif = {}
  /\ canpc = [r \in Reqs |-> "none"]
  /\ clpc = [c \in Closers |-> "idle"] /\ wtpc = [w \in Waiters |-> "idle"]
  /\ transportClosed = FALSE /\ wire = <<>>

\* a Write that is in progress can end with any configured outcome; once the
\* transport has been closed it can only fail
Outcomes == IF transportClosed THEN {"broken"} ELSE WriteOutcomes

-----------------------------------------------------------------------------
\* callers:  Connection.Call -> write -> Await ; mcp.call

CallStart(k) == /\ cpc[k] = "idle" /\ cpc' = [cpc EXCEPT ![k] = "reg"]
  /\ UNCHANGED <<st, ready, outcome, ctxDone, sent, npc, rdpc, rdarg, unread, dpc, darg, hpc, released, hctx, rp, isnotif, canpc, clpc, wtpc, transportClosed, wire>>

\* CS [Call]: refuse when shutting down, else register BEFORE writing
CallRegister(k) == /\ cpc[k] = "reg"
  /\ (IF ShuttingDown(st)
      THEN /\ CS(st) /\ ready' = [ready EXCEPT ![k] = TRUE] /\ outcome' = [outcome EXCEPT ![k] = "closed"]
           /\ cpc' = [cpc EXCEPT ![k] = "await"]     \* Call returns a call that is already retired; mcp.call awaits it
      ELSE /\ CS([st EXCEPT !.outgoing = @ \cup {k}]) /\ cpc' = [cpc EXCEPT ![k] = "wcheck"]
           /\ UNCHANGED <<ready, outcome>>)
  /\ UNCHANGED <<ctxDone, sent, npc, rdpc, rdarg, unread, dpc, darg, hpc, released, hctx, rp, isnotif, canpc, clpc, wtpc, wire>>

\* CS [write]: a call is refused once the connection is shutting down; the refusal is
\* returned to Call (which retires the call) and is NOT a writer failure
CallWCheck(k) == /\ cpc[k] = "wcheck" /\ CS(st)
  /\ cpc' = [cpc EXCEPT ![k] = IF ShuttingDown(st) THEN "retireX" ELSE "inwriter"]   \* retireX: retire with the closing error
  /\ sent' = (IF ShuttingDown(st) THEN sent ELSE sent \cup {k})   \* handed to the Writer: the peer may answer from now on
  /\ UNCHANGED <<ready, outcome, ctxDone, npc, rdpc, rdarg, unread, dpc, darg, hpc, released, hctx, rp, isnotif, canpc, clpc, wtpc, wire>>

\* seam: Writer.Write returns.  "ctx": the write was abandoned because the caller's context ended
CallWriterReturn(k, o) == /\ cpc[k] = "inwriter" /\ (o \in Outcomes \/ (o = "ctx" /\ ctxDone[k]))
  /\ (CASE o = "ok" -> cpc' = [cpc EXCEPT ![k] = "await"] /\ wire' = Append(wire, <<"call", k>>)
        \* a failed write is blamed on the Writer only if the caller's context is still live (write(): ctx.Err() == nil)
        [] o = "broken" -> cpc' = [cpc EXCEPT ![k] = IF ctxDone[k] THEN "retireW" ELSE "wfail"] /\ UNCHANGED <<wire>>
        [] OTHER -> cpc' = [cpc EXCEPT ![k] = "retireW"] /\ UNCHANGED <<wire>>)
  /\ UNCHANGED <<st, sent, ready, outcome, ctxDone, npc, rdpc, rdarg, unread, dpc, darg, hpc, released, hctx, rp, isnotif, canpc, clpc, wtpc, transportClosed>>

\* CS [write]: first writer failure: remember it and cancel every in-flight incoming request
CallWFail(k) == /\ cpc[k] = "wfail" /\ CS(SetWriteErr(st))
  /\ hctx' = (IF st.writeErr THEN hctx ELSE CancelAll(st))
  /\ cpc' = [cpc EXCEPT ![k] = "retireW"]
  /\ UNCHANGED <<ready, outcome, ctxDone, sent, npc, rdpc, rdarg, unread, dpc, darg, hpc, released, rp, isnotif, canpc, clpc, wtpc, wire>>

\* CS [Retire]: idempotent through the map identity check
Retire(k, why) == IF k \in st.outgoing
  THEN CS([st EXCEPT !.outgoing = @ \ {k}]) /\ ready' = [ready EXCEPT ![k] = TRUE] /\ outcome' = [outcome EXCEPT ![k] = why]
  ELSE CS(st) /\ UNCHANGED <<ready, outcome>>

\* (a call refused at the write check is retired with the CLOSING error - mcp.call returns it as it is even when the
\* caller's context is done as well; a call whose write failed is retired with the writer's error)
CallRetireW(k) == /\ cpc[k] \in {"retireW", "retireX"} /\ Retire(k, IF cpc[k] = "retireX" THEN "closed" ELSE "writeerr")
  /\ cpc' = [cpc EXCEPT ![k] = "await"]
  /\ UNCHANGED <<ctxDone, sent, npc, rdpc, rdarg, unread, dpc, darg, hpc, released, hctx, rp, isnotif, canpc, clpc, wtpc, wire>>

\* the application cancels the call's context (any time after the call started)
CtxCancel(k) == /\ cpc[k] \in {"reg", "wcheck", "inwriter", "wfail", "retireW", "retireX", "await"} /\ ~ctxDone[k]
  /\ ctxDone' = [ctxDone EXCEPT ![k] = TRUE]
  /\ UNCHANGED <<st, cpc, ready, outcome, sent, npc, rdpc, rdarg, unread, dpc, darg, hpc, released, hctx, rp, isnotif, canpc, clpc, wtpc, transportClosed, wire>>

\* Await: response ready and context live -> return it
CallAwaitReady(k) == /\ cpc[k] = "await" /\ ready[k] /\ ~ctxDone[k] /\ cpc' = [cpc EXCEPT ![k] = "done"]
  /\ UNCHANGED <<st, ready, outcome, ctxDone, sent, npc, rdpc, rdarg, unread, dpc, darg, hpc, released, hctx, rp, isnotif, canpc, clpc, wtpc, transportClosed, wire>>
\* Await with a dead context: mcp.call retires eagerly, then notifies off the return path
\* (if the call was refused as closing, mcp.call returns the closing error and sends nothing)
\* (when the call is already retired with the closing error AND the context is done, Await's select may see
\* either first: the closing error is returned as it is, the context error takes the cancel path)
CallCancelPath(k) == /\ cpc[k] = "await" /\ ctxDone[k]
  /\ \E nxt \in (IF ready[k] /\ outcome[k] = "closed" THEN {"done", "retireC"} ELSE {"retireC"}) :
        cpc' = [cpc EXCEPT ![k] = nxt]
  /\ UNCHANGED <<st, ready, outcome, ctxDone, sent, npc, rdpc, rdarg, unread, dpc, darg, hpc, released, hctx, rp, isnotif, canpc, clpc, wtpc, transportClosed, wire>>
CallRetireC(k) == /\ cpc[k] = "retireC" /\ Retire(k, "ctx") /\ cpc' = [cpc EXCEPT ![k] = "done"]
  /\ npc' = [npc EXCEPT ![k] = "admit"]
  /\ UNCHANGED <<ctxDone, sent, rdpc, rdarg, unread, dpc, darg, hpc, released, hctx, rp, isnotif, canpc, clpc, wtpc, wire>>

-----------------------------------------------------------------------------
\* cancel-notifier: Connection.Notify(notifications/cancelled) with a bounded timeout

\* CS [Notify]: during shutdown allowed only while some call is in flight either way
NAdmit(k) == /\ npc[k] = "admit"
  /\ (IF st.outgoing = {} /\ st.inById = {} /\ ShuttingDown(st)
      THEN CS(st) /\ npc' = [npc EXCEPT ![k] = "done"]
      ELSE CS([st EXCEPT !.outNotif = @ + 1]) /\ npc' = [npc EXCEPT ![k] = "wcheck"])
  /\ UNCHANGED <<cpc, ready, outcome, ctxDone, sent, rdpc, rdarg, unread, dpc, darg, hpc, released, hctx, rp, isnotif, canpc, clpc, wtpc, wire>>
\* CS [write]: notifications pass while outNotif > 0
NWCheck(k) == /\ npc[k] = "wcheck" /\ CS(st)
  /\ npc' = [npc EXCEPT ![k] = IF st.outNotif > 0 \/ ~ShuttingDown(st) THEN "inwriter" ELSE "ndone"]
  /\ UNCHANGED <<cpc, ready, outcome, ctxDone, sent, rdpc, rdarg, unread, dpc, darg, hpc, released, hctx, rp, isnotif, canpc, clpc, wtpc, wire>>
\* seam: "timeout" = the notifier's own 5 s deadline expired while the writer was stalled
NWriterReturn(k, o) == /\ npc[k] = "inwriter" /\ o \in Outcomes \cup {"timeout"}
  /\ npc' = [npc EXCEPT ![k] = IF o = "broken" THEN "wfail" ELSE "ndone"]
  /\ wire' = (IF o = "ok" THEN Append(wire, <<"cancelled", k>>) ELSE wire)
  /\ UNCHANGED <<st, cpc, ready, outcome, ctxDone, sent, rdpc, rdarg, unread, dpc, darg, hpc, released, hctx, rp, isnotif, canpc, clpc, wtpc, transportClosed>>
NWFail(k) == /\ npc[k] = "wfail" /\ CS(SetWriteErr(st)) /\ hctx' = (IF st.writeErr THEN hctx ELSE CancelAll(st))
  /\ npc' = [npc EXCEPT ![k] = "ndone"]
  /\ UNCHANGED <<cpc, ready, outcome, ctxDone, sent, rdpc, rdarg, unread, dpc, darg, hpc, released, rp, isnotif, canpc, clpc, wtpc, wire>>
\* CS [Notify.func1]
NDone(k) == /\ npc[k] = "ndone" /\ CS([st EXCEPT !.outNotif = @ - 1]) /\ npc' = [npc EXCEPT ![k] = "done"]
  /\ UNCHANGED <<cpc, ready, outcome, ctxDone, sent, rdpc, rdarg, unread, dpc, darg, hpc, released, hctx, rp, isnotif, canpc, clpc, wtpc, wire>>

-----------------------------------------------------------------------------
\* reader: readIncoming / acceptRequest

ReadReq(r) == /\ rdpc = "read" /\ ~transportClosed /\ r \in unread /\ unread' = unread \ {r}
  /\ rdpc' = "accept" /\ rdarg' = r
  /\ UNCHANGED <<st, cpc, ready, outcome, ctxDone, sent, npc, dpc, darg, hpc, released, hctx, rp, isnotif, canpc, clpc, wtpc, transportClosed, wire>>
ReadResp(k) == /\ rdpc = "read" /\ ~transportClosed /\ k \in sent /\ sent' = sent \ {k} /\ rdpc' = "resp" /\ rdarg' = k
  /\ UNCHANGED <<st, cpc, ready, outcome, ctxDone, npc, unread, dpc, darg, hpc, released, hctx, rp, isnotif, canpc, clpc, wtpc, transportClosed, wire>>
\* a response whose id matches no call in flight (unknown id, or late after the call was retired)
ReadRespUnknown == /\ rdpc = "read" /\ ~transportClosed /\ rdpc' = "respx"
  /\ UNCHANGED <<st, cpc, ready, outcome, ctxDone, sent, npc, rdarg, unread, dpc, darg, hpc, released, hctx, rp, isnotif, canpc, clpc, wtpc, transportClosed, wire>>
ReadEOF == /\ rdpc = "read" /\ (transportClosed \/ EnvEOF) /\ rdpc' = "exit"
  /\ UNCHANGED <<st, cpc, ready, outcome, ctxDone, sent, npc, rdarg, unread, dpc, darg, hpc, released, hctx, rp, isnotif, canpc, clpc, wtpc, transportClosed, wire>>

\* CS [acceptRequest] #1: count; index calls; refuse a duplicate in-flight id (the request loses its
\* id and is treated as a failed notification); refuse calls while shutting down
Accept(r) == /\ rdpc = "accept" /\ rdarg = r
  /\ LET dup == r \in CallReqs /\ Clash(st, r)
         s1  == [st EXCEPT !.incoming = @ + 1,
                           !.inById = IF r \in CallReqs /\ ~dup THEN @ \cup {r} ELSE @]
         refuse == dup \/ (r \in CallReqs /\ ShuttingDown(s1))
     IN /\ CS(s1)
        /\ isnotif' = (IF dup THEN isnotif \cup {r} ELSE isnotif)
        \* a refusal is answered off the read loop (its own goroutine): the reader goes on reading
        /\ IF refuse THEN rp' = [rp EXCEPT ![r] = IF dup THEN "dec" ELSE "unindex"] /\ rdpc' = "read"
                     ELSE rp' = rp /\ rdpc' = "preempt"
  /\ UNCHANGED <<cpc, ready, outcome, ctxDone, sent, npc, rdarg, unread, dpc, darg, hpc, released, hctx, canpc, clpc, wtpc, wire>>

\* preempter: a cancelled notification spawns `go conn.Cancel(id)`; everything falls through to the queue
Preempt(r) == /\ rdpc = "preempt" /\ rdarg = r /\ rdpc' = "enqueue"
  /\ canpc' = (IF r \in DOMAIN CancelOf THEN [canpc EXCEPT ![r] = "lookup"] ELSE canpc)
  /\ UNCHANGED <<st, cpc, ready, outcome, ctxDone, sent, npc, rdarg, unread, dpc, darg, hpc, released, hctx, rp, isnotif, clpc, wtpc, transportClosed, wire>>

\* CS [acceptRequest] #2: nothing is enqueued while shutting down, not even notifications
Enqueue(r) == /\ rdpc = "enqueue" /\ rdarg = r
  /\ (IF ShuttingDown(st)
      THEN /\ CS(st) /\ rp' = [rp EXCEPT ![r] = IF IsCall(r) THEN "unindex" ELSE "dec"] /\ rdpc' = "read"
           /\ UNCHANGED dpc
      ELSE /\ CS([st EXCEPT !.queue = Append(@, r), !.handlerRunning = TRUE])
           /\ dpc' = (IF st.handlerRunning THEN dpc ELSE "dequeue")
           /\ rdpc' = "read" /\ rp' = rp)
  /\ UNCHANGED <<cpc, ready, outcome, ctxDone, sent, npc, rdarg, unread, darg, hpc, released, hctx, isnotif, canpc, clpc, wtpc, wire>>
ReaderRpDone == /\ rdpc = "rpwait" /\ rp[rdarg] = "done" /\ rdpc' = "read"
  /\ UNCHANGED <<st, cpc, ready, outcome, ctxDone, sent, npc, rdarg, unread, dpc, darg, hpc, released, hctx, rp, isnotif, canpc, clpc, wtpc, transportClosed, wire>>

\* CS [readIncoming]: match a response to its call by id, remove the entry, complete the call
DeliverResp(k) == /\ rdpc = "resp" /\ rdarg = k
  /\ (IF k \in st.outgoing
      THEN CS([st EXCEPT !.outgoing = @ \ {k}]) /\ ready' = [ready EXCEPT ![k] = TRUE] /\ outcome' = [outcome EXCEPT ![k] = "response"]
      ELSE CS(st) /\ UNCHANGED <<ready, outcome>>)
  /\ rdpc' = "read"
  /\ UNCHANGED <<cpc, ctxDone, sent, npc, rdarg, unread, dpc, darg, hpc, released, hctx, rp, isnotif, canpc, clpc, wtpc, wire>>
DeliverUnknown == /\ rdpc = "respx" /\ CS(st) /\ rdpc' = "read"
  /\ UNCHANGED <<cpc, ready, outcome, ctxDone, sent, npc, rdarg, unread, dpc, darg, hpc, released, hctx, rp, isnotif, canpc, clpc, wtpc, wire>>

\* CS [readIncoming]: the reader exits: complete every pending call with the read error and
\* cancel every in-flight incoming request
ReaderExit == /\ rdpc = "exit"
  /\ CS([st EXCEPT !.reading = FALSE, !.readErr = TRUE, !.outgoing = {}])
  /\ ready' = [k \in Callers |-> ready[k] \/ k \in st.outgoing]
  /\ outcome' = [k \in Callers |-> IF k \in st.outgoing THEN "readerr" ELSE outcome[k]]
  /\ hctx' = CancelAll(st) /\ rdpc' = "done"
  /\ UNCHANGED <<cpc, ctxDone, sent, npc, rdarg, unread, dpc, darg, hpc, released, rp, isnotif, canpc, clpc, wtpc, wire>>

-----------------------------------------------------------------------------
\* canceller goroutine:  CS [Cancel]: look the request up; cancel its context outside the lock
\* (the id is looked up at that moment: the request holding it now is the one cancelled; canpc[c]
\* then holds that request until its context has been cancelled)
CancelLookup(c) == /\ canpc[c] = "lookup" /\ CS(st)
  /\ canpc' = [canpc EXCEPT ![c] = IF \E q \in st.inById : WireId(q) = WireId(CancelOf[c])
                                    THEN CHOOSE q \in st.inById : WireId(q) = WireId(CancelOf[c]) ELSE "done"]
  /\ UNCHANGED <<cpc, ready, outcome, ctxDone, sent, npc, rdpc, rdarg, unread, dpc, darg, hpc, released, hctx, rp, isnotif, clpc, wtpc, wire>>
CancelCtx(c) == /\ canpc[c] \in Reqs /\ canpc' = [canpc EXCEPT ![c] = "done"]
  /\ hctx' = [hctx EXCEPT ![canpc[c]] = IF @ = "live" THEN "cancelled" ELSE @]
  /\ UNCHANGED <<st, cpc, ready, outcome, ctxDone, sent, npc, rdpc, rdarg, unread, dpc, darg, hpc, released, rp, isnotif, clpc, wtpc, transportClosed, wire>>

-----------------------------------------------------------------------------
\* dispatcher: handleAsync

\* CS [handleAsync]
Dequeue == /\ dpc = "dequeue"
  /\ (IF st.queue # <<>>
      THEN CS([st EXCEPT !.queue = Tail(@)]) /\ darg' = Head(st.queue) /\ dpc' = "check"
      ELSE CS([st EXCEPT !.handlerRunning = FALSE]) /\ dpc' = "off" /\ darg' = darg)
  /\ UNCHANGED <<cpc, ready, outcome, ctxDone, sent, npc, rdpc, rdarg, unread, hpc, released, hctx, rp, isnotif, canpc, clpc, wtpc, wire>>
\* a request cancelled while queued is answered without running its handler; otherwise the handler
\* goroutine starts; calls declare themselves asynchronous at once, notifications do not
DispCheck == /\ dpc = "check"
  /\ (IF hctx[darg] = "cancelled"
      THEN rp' = [rp EXCEPT ![darg] = IF IsCall(darg) THEN "unindex" ELSE "dec"] /\ dpc' = "rpwait" /\ UNCHANGED <<hpc, released>>
      ELSE hpc' = [hpc EXCEPT ![darg] = "run"] /\ released' = [released EXCEPT ![darg] = IsCall(darg)] /\ dpc' = "wait" /\ rp' = rp)
  /\ UNCHANGED <<st, cpc, ready, outcome, ctxDone, sent, npc, rdpc, rdarg, unread, darg, hctx, isnotif, canpc, clpc, wtpc, transportClosed, wire>>
DispRpDone == /\ dpc = "rpwait" /\ rp[darg] = "done" /\ dpc' = "dequeue"
  /\ UNCHANGED <<st, cpc, ready, outcome, ctxDone, sent, npc, rdpc, rdarg, unread, darg, hpc, released, hctx, rp, isnotif, canpc, clpc, wtpc, transportClosed, wire>>
DispResume == /\ dpc = "wait" /\ released[darg] /\ dpc' = "dequeue"
  /\ UNCHANGED <<st, cpc, ready, outcome, ctxDone, sent, npc, rdpc, rdarg, unread, darg, hpc, released, hctx, rp, isnotif, canpc, clpc, wtpc, transportClosed, wire>>

\* handler r returns (environment: the application decides when)
HReturn(r) == /\ hpc[r] = "run" /\ hpc' = [hpc EXCEPT ![r] = "rp"]
  /\ rp' = [rp EXCEPT ![r] = IF IsCall(r) THEN "unindex" ELSE "dec"]
  /\ UNCHANGED <<st, cpc, ready, outcome, ctxDone, sent, npc, rdpc, rdarg, unread, dpc, darg, released, hctx, isnotif, canpc, clpc, wtpc, transportClosed, wire>>
HRpDone(r) == /\ hpc[r] = "rp" /\ rp[r] = "done" /\ hpc' = [hpc EXCEPT ![r] = "done"]
  /\ released' = [released EXCEPT ![r] = TRUE]
  /\ UNCHANGED <<st, cpc, ready, outcome, ctxDone, sent, npc, rdpc, rdarg, unread, dpc, darg, hctx, rp, isnotif, canpc, clpc, wtpc, transportClosed, wire>>

-----------------------------------------------------------------------------
\* result path: processResult (run by the reader, the dispatcher or the handler goroutine)

\* CS [processResult] #1: un-index before writing
RpUnindex(r) == /\ rp[r] = "unindex" /\ CS([st EXCEPT !.inById = @ \ {r}]) /\ rp' = [rp EXCEPT ![r] = "wcheck"]
  /\ UNCHANGED <<cpc, ready, outcome, ctxDone, sent, npc, rdpc, rdarg, unread, dpc, darg, hpc, released, hctx, isnotif, canpc, clpc, wtpc, wire>>
\* CS [write]: a response is written as long as the write side works - also during shutdown, when
\* Close is waiting for this very request; it is refused (not a writer failure) only after a writer failure
RpWCheck(r) == /\ rp[r] = "wcheck" /\ CS(st) /\ rp' = [rp EXCEPT ![r] = IF st.writeErr THEN "dec" ELSE "inwriter"]
  /\ UNCHANGED <<cpc, ready, outcome, ctxDone, sent, npc, rdpc, rdarg, unread, dpc, darg, hpc, released, hctx, isnotif, canpc, clpc, wtpc, wire>>
RpWriterReturn(r, o) == /\ rp[r] = "inwriter" /\ o \in Outcomes
  /\ rp' = [rp EXCEPT ![r] = IF o = "broken" THEN "wfail" ELSE "dec"]
  /\ wire' = (IF o = "ok" THEN Append(wire, <<"resp", r>>) ELSE wire)
  /\ UNCHANGED <<st, cpc, ready, outcome, ctxDone, sent, npc, rdpc, rdarg, unread, dpc, darg, hpc, released, hctx, isnotif, canpc, clpc, wtpc, transportClosed>>
RpWFail(r) == /\ rp[r] = "wfail" /\ CS(SetWriteErr(st)) /\ hctx' = (IF st.writeErr THEN hctx ELSE CancelAll(st))
  /\ rp' = [rp EXCEPT ![r] = "dec"]
  /\ UNCHANGED <<cpc, ready, outcome, ctxDone, sent, npc, rdpc, rdarg, unread, dpc, darg, hpc, released, isnotif, canpc, clpc, wtpc, wire>>
\* CS [processResult] #2: exactly one decrement per accepted message (the code panics below zero)
RpDec(r) == /\ rp[r] = "dec" /\ st.incoming > 0 /\ CS([st EXCEPT !.incoming = @ - 1]) /\ rp' = [rp EXCEPT ![r] = "done"]
  /\ hctx' = [hctx EXCEPT ![r] = IF @ = "live" THEN "released" ELSE @]
  /\ UNCHANGED <<cpc, ready, outcome, ctxDone, sent, npc, rdpc, rdarg, unread, dpc, darg, hpc, released, isnotif, canpc, clpc, wtpc, wire>>

-----------------------------------------------------------------------------
\* Close and Wait
CloseStart(c) == /\ clpc[c] = "idle" /\ clpc' = [clpc EXCEPT ![c] = "set"]
  /\ UNCHANGED <<st, cpc, ready, outcome, ctxDone, sent, npc, rdpc, rdarg, unread, dpc, darg, hpc, released, hctx, rp, isnotif, canpc, wtpc, transportClosed, wire>>
\* CS [Close]
SetClosing(c) == /\ clpc[c] = "set" /\ CS([st EXCEPT !.closing = TRUE]) /\ clpc' = [clpc EXCEPT ![c] = "wait"]
  /\ UNCHANGED <<cpc, ready, outcome, ctxDone, sent, npc, rdpc, rdarg, unread, dpc, darg, hpc, released, hctx, rp, isnotif, canpc, wtpc, wire>>
\* <-done, then CS [wait] (reads the errors; no state change)
CloseReturn(c) == /\ clpc[c] = "wait" /\ st.done /\ CS(st) /\ clpc' = [clpc EXCEPT ![c] = "done"]
  /\ UNCHANGED <<cpc, ready, outcome, ctxDone, sent, npc, rdpc, rdarg, unread, dpc, darg, hpc, released, hctx, rp, isnotif, canpc, wtpc, wire>>
WaitStart(w) == /\ wtpc[w] = "idle" /\ wtpc' = [wtpc EXCEPT ![w] = "wait"]
  /\ UNCHANGED <<st, cpc, ready, outcome, ctxDone, sent, npc, rdpc, rdarg, unread, dpc, darg, hpc, released, hctx, rp, isnotif, canpc, clpc, transportClosed, wire>>
WaitReturn(w) == /\ wtpc[w] = "wait" /\ st.done /\ CS(st) /\ wtpc' = [wtpc EXCEPT ![w] = "done"]
  /\ UNCHANGED <<cpc, ready, outcome, ctxDone, sent, npc, rdpc, rdarg, unread, dpc, darg, hpc, released, hctx, rp, isnotif, canpc, clpc, wire>>

-----------------------------------------------------------------------------
SdkNext ==
  \/ \E k \in Callers : CallRegister(k) \/ CallWCheck(k) \/ CallWFail(k) \/ CallRetireW(k) \/ CallAwaitReady(k)
                        \/ CallCancelPath(k) \/ CallRetireC(k) \/ NAdmit(k) \/ NWCheck(k) \/ NWFail(k) \/ NDone(k)
                        \/ DeliverResp(k)
  \/ \E r \in Reqs : Accept(r) \/ Preempt(r) \/ Enqueue(r) \/ RpUnindex(r) \/ RpWCheck(r) \/ RpWFail(r) \/ RpDec(r) \/ HRpDone(r)
  \/ \E c \in DOMAIN CancelOf : CancelLookup(c) \/ CancelCtx(c)
  \/ DeliverUnknown \/ ReaderRpDone \/ ReaderExit \/ Dequeue \/ DispCheck \/ DispRpDone \/ DispResume
  \/ \E c \in Closers : SetClosing(c) \/ CloseReturn(c)
  \/ \E w \in Waiters : WaitReturn(w)
EnvNext ==
  \/ \E k \in Callers : CallStart(k) \/ CtxCancel(k)
        \/ (\E o \in {"ok", "broken", "rejected", "ctx"} : CallWriterReturn(k, o))
        \/ (\E o \in {"ok", "broken", "rejected", "timeout"} : NWriterReturn(k, o))
        \/ ReadResp(k)
  \/ \E r \in Reqs : ReadReq(r) \/ HReturn(r) \/ (\E o \in {"ok", "broken", "rejected"} : RpWriterReturn(r, o))
  \/ ReadRespUnknown \/ ReadEOF
  \/ \E c \in Closers : CloseStart(c)
  \/ \E w \in Waiters : WaitStart(w)
Next == SdkNext \/ EnvNext
Spec == Init /\ [][Next]_vars

-----------------------------------------------------------------------------
\* Properties

IdleWhenDone == st.done => Idle(st)                                        \* C05: done is final
CountsNonNegative == st.incoming >= 0 /\ st.outNotif >= 0
\* C01
CompleteOnce == [][\A k \in Callers : ready[k] => (ready'[k] /\ outcome'[k] = outcome[k])]_vars
DoneMeansDrained == st.done => \A k \in Callers : (cpc[k] \in {"wcheck", "inwriter", "wfail", "retireW", "retireX", "await", "retireC"}) => ready[k]
RefusedNeverWritten == \A k \in Callers : (outcome[k] = "closed") => \A i \in DOMAIN wire : wire[i] # <<"call", k>>
OwnResponse == \A k \in Callers : outcome[k] = "response" => cpc[k] \notin {"idle", "reg", "wcheck"}
\* C02
Count(x) == Cardinality({i \in DOMAIN wire : wire[i] = x})
AnsweredAtMostOnce == \A r \in Reqs : Count(<<"resp", r>>) <= 1
NoReplyToNotification == \A i \in DOMAIN wire : wire[i][1] = "resp" => wire[i][2] \in CallReqs /\ wire[i][2] \notin isnotif
\* C03 (the dispatcher runs one un-released handler at a time)
OneSyncHandler == Cardinality({r \in Reqs : hpc[r] = "run" /\ ~released[r]}) <= 1
\* C05
NoHandlerStartAfterTransportClosed == [][\A r \in Reqs : (transportClosed /\ hpc[r] = "none") => hpc'[r] = "none"]_vars
CloseOnlyWhenIdle == [][(~st.closerTaken /\ st'.closerTaken) => (\A r \in Reqs : hpc'[r] \notin {"run"})]_vars
WorkDecreasesUnderShutdown ==
  [][ShuttingDown(st) => Cardinality(st'.outgoing) + Len(st'.queue) <= Cardinality(st.outgoing) + Len(st.queue)]_vars
\* C04: a request's context is cancelled only for a stated cause
OnlyMatchingCancelled == \A r \in Reqs : hctx[r] = "cancelled" =>
     \/ st.readErr \/ st.writeErr
     \/ \E c \in DOMAIN CancelOf : WireId(CancelOf[c]) = WireId(r) /\ canpc[c] = "done"

\* termination shape: when nothing in the SDK can move and the environment owes nothing,
\* every Close/Wait has returned, every call has returned, the dispatcher is off
EnvOblig == \/ \E k \in Callers : cpc[k] = "inwriter" \/ npc[k] = "inwriter"
            \/ \E r \in Reqs : rp[r] = "inwriter" \/ hpc[r] = "run"
            \/ (rdpc = "read" /\ transportClosed)
            \/ (rdpc = "read" /\ \E k \in Callers : cpc[k] = "await" /\ ~ready[k])
GoodTerminal == /\ \A c \in Closers : clpc[c] \in {"idle", "done"}
                /\ \A w \in Waiters : wtpc[w] = "wait" => ~st.done
                /\ \A k \in Callers : cpc[k] \in {"idle", "done"} \/ (cpc[k] = "await" /\ ~st.done /\ ~ctxDone[k] /\ ~ready[k])
                /\ \A k \in Callers : npc[k] \in {"none", "done"}
                /\ dpc = "off"
NoStuck == (~ENABLED SdkNext /\ ~EnvOblig) => GoodTerminal
ClosedMeansDone == ((\E c \in Closers : clpc[c] = "wait") /\ ~ENABLED SdkNext /\ ~EnvOblig) => st.done
=============================================================================
