SPECIFICATION Spec
CONSTANTS
  Sessions = {"M1"}
  Legacy = {}
  InitOn = {"M1"}
  InitSub = {"M1"}
  Kinds = {}
  NotifOf <- NotifStd
  Uris = {"u1"}
  Want <- WantAll
  CapOff = {}
  CapMode <- ModeInferred
  InitSize <- Size3
  MaxSize = 3
  Dirs = {"mod"}
  SendGate = "configured"
  TTLPos = TRUE
  D = 0
  MaxTime = 0
  MaxChanges = 0
  MaxUpdates = 2
  MaxCalls = 2
  NPages = 1
  ListenOwns = TRUE
  ResubRace = TRUE
  GenCheck = TRUE
  ColdBump = TRUE
  ModernUnsub = FALSE
  ForeignUnsub = FALSE
  Listeners = {}
  MaxListens = 0
  FailUndo = TRUE
  Stepwise = FALSE
  Gates = FALSE
  GateNames = {"inv", "usr", "put"}
  ClientFirst = FALSE
INVARIANTS TypeOK NeverLost OnlyEntitled NoneWhenDisabled UpdatedExactlySubscribers Fresh ForgottenOnClose MapsOnlySessions
CHECK_DEADLOCK FALSE
