--------------------------- MODULE TypedToolDefs ---------------------------
(* Property C16: typed tools (mcp.AddTool / ToolHandlerFor) see only          *)
(* schema-valid input and emit only schema-valid output.                      *)
(*                                                                            *)
(*  JSON values   a finite, tagged value domain  <<tag, payload>>   *)
(*  Schemas       a bounded JSON-Schema family as uniform TLA+ records        *)
(*  Valid         an INDEPENDENT validator: plain JSON-Schema semantics of    *)
(*                type / enum / minimum / maximum / properties / required /   *)
(*                additionalProperties(false) / items / maxItems /            *)
(*                maxProperties / dependentRequired                           *)
(*  WithDefaults  defaults on absent, non-required properties, recursively;   *)
(*                an absent optional object whose descendants have defaults   *)
(*                is materialised                                             *)
(*  Cases         (schema variant, argument value) and (output schema / Go    *)
(*                output type, handler output): option lists and case        *)
(*                constructors here, the case sets in TypedTool.tla           *)
(*  ExpectedIn/ExpectedOut   the code-shaped procedure of mcp/server.go       *)
(*                (toolForErr) and mcp/tool.go (applySchema), step by step    *)
(*  HoldsIn/HoldsOut         the property, stated declaratively               *)
(* TypedTool.tla checks the design and exports the cases; TypedToolMon.tla    *)
(* evaluates HoldsIn/HoldsOut on outcomes of the real SDK.                    *)
EXTENDS Integers, Sequences, FiniteSets, TLC, SequencesExt

-----------------------------------------------------------------------------
(* JSON values.  Every value is a pair <<tag, payload>> so that TLC never      *)
(* compares payloads of different TLA+ types: tuples are compared left to     *)
(* right and the tag decides first.  x[1] is the tag, x[2] the payload.       *)
JNull    == <<"null", 0>>
JInt(i)  == <<"int",  i>>
JHalf(k) == <<"half", k>>     \* the non-integral number k/2 (k odd), e.g. JHalf(3) = 1.5
JStr(s)  == <<"str",  s>>
JBool(b) == <<"bool", b>>
JObj(f)  == <<"obj",  f>>     \* f : a function from member names to JSON values
JArr(s)  == <<"arr",  s>>     \* s : a sequence of JSON values
EmptyObj == JObj(<<>>)
Absent   == <<"absent", 0>>   \* not a JSON value: "member not present" in option lists

JType(x) == CASE x[1] = "null" -> "null"   [] x[1] = "int"  -> "integer" [] x[1] = "half" -> "number"
              [] x[1] = "str"  -> "string" [] x[1] = "bool" -> "boolean"
              [] x[1] = "obj"  -> "object" [] x[1] = "arr"  -> "array"   [] OTHER -> "invalid"
IsObj(x) == x[1] = "obj"
Twice(x) == IF x[1] = "int" THEN 2 * x[2] ELSE x[2]        \* numeric value times two (ints and halves)
SameJ(a, b) == a[1] = b[1] /\ a = b                       \* equality, tag first

-----------------------------------------------------------------------------
(* Schemas.  Optional keywords are sequences of length 0 or 1.                *)
\* depReq : dependentRequired, a function from member names to sets of member names
AnyS == [types |-> {}, enum |-> <<>>, min |-> <<>>, max |-> <<>>, def |-> <<>>,
        props |-> <<>>, req |-> {}, addl |-> TRUE, items |-> <<>>, maxItems |-> <<>>,
        maxProps |-> <<>>, depReq |-> <<>>]
Typed(ts) == [AnyS EXCEPT !.types = ts]

(* The independent validator. *)
RECURSIVE Valid(_, _)
Valid(s, x) ==
  /\ \/ s.types = {}
     \/ JType(x) \in s.types
     \/ (JType(x) = "integer" /\ "number" \in s.types)
  /\ (s.enum # <<>> => \E e \in s.enum[1] : SameJ(e, x))
  /\ ((s.min # <<>> /\ x[1] \in {"int", "half"}) => Twice(x) >= 2 * s.min[1])
  /\ ((s.max # <<>> /\ x[1] \in {"int", "half"}) => Twice(x) <= 2 * s.max[1])
  /\ (x[1] = "arr" =>
        /\ (s.items # <<>> => \A i \in DOMAIN x[2] : Valid(s.items[1], x[2][i]))
        /\ (s.maxItems # <<>> => Len(x[2]) <= s.maxItems[1]))
  /\ (x[1] = "obj" =>
        /\ \A p \in (DOMAIN s.props) \cap (DOMAIN x[2]) : Valid(s.props[p], x[2][p])
        /\ s.req \subseteq DOMAIN x[2]
        /\ (~s.addl => (DOMAIN x[2]) \subseteq (DOMAIN s.props))
        /\ (s.maxProps # <<>> => Cardinality(DOMAIN x[2]) <= s.maxProps[1])
        /\ \A p \in (DOMAIN s.depReq) \cap (DOMAIN x[2]) : s.depReq[p] \subseteq DOMAIN x[2])

RECURSIVE HasDefaultBelow(_)
HasDefaultBelow(s) == s.def # <<>> \/ \E p \in DOMAIN s.props : HasDefaultBelow(s.props[p])

(* Defaults as the property means them. *)
RECURSIVE WithDefaults(_, _)
WithDefaults(s, x) ==
  IF x[1] # "obj" THEN x
  ELSE LET have == DOMAIN x[2]
           fill == {p \in (DOMAIN s.props) \ have : p \notin s.req /\ HasDefaultBelow(s.props[p])}
       IN JObj([p \in have \cup fill |->
                 IF p \in have
                 THEN (IF p \in DOMAIN s.props THEN WithDefaults(s.props[p], x[2][p]) ELSE x[2][p])
                 ELSE IF s.props[p].def # <<>> THEN WithDefaults(s.props[p], s.props[p].def[1])
                 ELSE WithDefaults(s.props[p], EmptyObj)])

(* What a Go struct can hold of a JSON object: an optional member that is     *)
(* null is indistinguishable from an absent one (nil pointer / nil slice).    *)
RECURSIVE StructView(_, _)
StructView(s, x) ==
  IF x[1] # "obj" THEN x
  ELSE LET keep == {p \in DOMAIN x[2] : ~(x[2][p][1] = "null" /\ p \notin s.req)}
       IN JObj([p \in keep |-> IF p \in DOMAIN s.props THEN StructView(s.props[p], x[2][p]) ELSE x[2][p]])

-----------------------------------------------------------------------------
(* Input side: explicit schemas, In = map[string]any.                          *)
Nests == {"none", "req", "closed", "dflt"}
Variants == [nDef : BOOLEAN, nReq : BOOLEAN, addl : BOOLEAN, nest : Nests]

StrS  == Typed({"string"})
IntS  == Typed({"integer"})
BoolS == Typed({"boolean"})
NSchema(hasDef) == [IntS EXCEPT !.min = <<1>>, !.max = <<3>>, !.def = IF hasDef THEN <<JInt(2)>> ELSE <<>>]
ModeSchema == [StrS EXCEPT !.enum = <<{JStr("a"), JStr("b")}>>]
LvlSchema  == [IntS EXCEPT !.def = <<JInt(1)>>]
TagsSchema == [Typed({"array"}) EXCEPT !.items = <<StrS>>, !.maxItems = <<2>>]
OptSchema(nest) ==
  CASE nest = "req"    -> [Typed({"object"}) EXCEPT !.props = [flag |-> BoolS], !.req = {"flag"}]
    [] nest = "closed" -> [Typed({"object"}) EXCEPT !.props = [flag |-> BoolS], !.req = {"flag"}, !.addl = FALSE]
    [] nest = "dflt"   -> [Typed({"object"}) EXCEPT !.props = [lvl |-> LvlSchema]]
InSchemaOf(vr) ==
  [Typed({"object"}) EXCEPT
     !.props = [n |-> NSchema(vr.nDef), mode |-> ModeSchema, tags |-> TagsSchema]
               @@ (IF vr.nest = "none" THEN <<>> ELSE [opt |-> OptSchema(vr.nest)]),
     !.req   = {"mode"} \cup (IF vr.nReq THEN {"n"} ELSE {}),
     !.addl  = vr.addl]
InSchemaF == [vr \in Variants |-> InSchemaOf(vr)]

(* argument objects: one option per member; labels name the abstract class *)
NOpts    == << Absent, JInt(0), JInt(1), JInt(3), JInt(4), JStr("x"), JNull, JHalf(3) >>
NLab     == << "absent", "below", "min", "max", "above", "string", "null", "nonint" >>
ModeOpts == << Absent, JStr("a"), JStr("c"), JInt(1), JNull >>
ModeLab  == << "absent", "member", "nonmember", "int", "null" >>
OptOpts  == << Absent, EmptyObj, JObj([flag |-> JBool(TRUE)]), JObj([flag |-> JStr("x")]),
               JObj([flag |-> JBool(TRUE), extra |-> JInt(1)]), JObj([lvl |-> JInt(7)]), JStr("s"), JNull >>
OptLab   == << "absent", "empty", "flag", "flagstr", "flagextra", "lvl", "string", "null" >>
TagsOpts == << Absent, JArr(<<>>), JArr(<<JStr("x"), JStr("y")>>), JArr(<<JStr("x"), JStr("y"), JStr("z")>>),
               JArr(<<JInt(1)>>), JStr("s") >>
TagsLab  == << "absent", "none", "two", "three", "intitem", "string" >>
ExtraOpts == << Absent, JInt(1) >>
ExtraLab  == << "absent", "present" >>

Member(k, x) == IF x[1] = "absent" THEN <<>> ELSE k :> x
ArgIx == (DOMAIN NOpts) \X (DOMAIN ModeOpts) \X (DOMAIN OptOpts) \X (DOMAIN TagsOpts) \X (DOMAIN ExtraOpts)
ArgsAt(ix) == JObj(Member("n", NOpts[ix[1]]) @@ Member("mode", ModeOpts[ix[2]]) @@ Member("opt", OptOpts[ix[3]])
                   @@ Member("tags", TagsOpts[ix[4]]) @@ Member("extra", ExtraOpts[ix[5]]))
ClassAt(ix) == << NLab[ix[1]], ModeLab[ix[2]], OptLab[ix[3]], TagsLab[ix[4]], ExtraLab[ix[5]] >>
(* arguments that are not objects at all *)
NonObjArgs == << JArr(<<JInt(1)>>), JStr("x"), JInt(3), JBool(TRUE) >>
NonObjLab  == << "array", "string", "int", "bool" >>

-----------------------------------------------------------------------------
(* Explicit object schemas in which an applied default interacts with another *)
(* constraint, so that "valid" and "valid after defaults" differ.  Used on the*)
(* input side (kind "xin", In = map[string]any) and on the output side.       *)
(*   objDep  : k integer default 5, r string, dependentRequired k -> r        *)
(*   objMax  : k integer default 5, r string, maxProperties 2                 *)
(*   objNest : optional cfg = object with required mode (enum) and a sibling  *)
(*             lvl with default 1: an absent cfg is materialised as {lvl:1},  *)
(*             which lacks cfg.mode                                           *)
KRSchema == [Typed({"object"}) EXCEPT !.props = [k |-> [IntS EXCEPT !.def = <<JInt(5)>>], r |-> StrS]]
XIds == {"objDep", "objMax", "objNest"}
XSchema(id) ==
  CASE id = "objDep"  -> [KRSchema EXCEPT !.depReq = [k |-> {"r"}]]
    [] id = "objMax"  -> [KRSchema EXCEPT !.maxProps = <<2>>]
    [] id = "objNest" -> [Typed({"object"}) EXCEPT
                            !.props = [cfg |-> [Typed({"object"}) EXCEPT
                                                  !.props = [mode |-> ModeSchema, lvl |-> LvlSchema],
                                                  !.req = {"mode"}]]]
KOpts == << Absent, JInt(1), JStr("x") >>
ROpts == << Absent, JStr("s"), JInt(7) >>
XOpts == << Absent, JBool(TRUE) >>
ObjVals == {JObj(Member("k", KOpts[i]) @@ Member("r", ROpts[j]) @@ Member("extra", XOpts[l])) :
              i \in DOMAIN KOpts, j \in DOMAIN ROpts, l \in DOMAIN XOpts}
NestVals == {EmptyObj, JObj([cfg |-> EmptyObj]), JObj([cfg |-> JObj([mode |-> JStr("a")])]),
             JObj([cfg |-> JObj([mode |-> JStr("a"), lvl |-> JInt(7)])]), JObj([cfg |-> JObj([lvl |-> JInt(7)])]),
             JObj([extra |-> JInt(1)]), JObj([cfg |-> JStr("s")])}
XVals(id) == IF id = "objNest" THEN NestVals ELSE ObjVals

(* A Go struct with an EXPLICIT input schema that tolerates additional        *)
(* properties (kind "sin"):                                                   *)
(*   type InC struct { Limit int `json:"limit,omitempty"`; MaxItems int `json:"maxItems,omitempty"` } *)
(* JSON-Schema member names are case sensitive: "Limit" is an unconstrained   *)
(* additional member and must not reach the field of "limit".                 *)
InCExplicit == [Typed({"object"}) EXCEPT
                  !.props = [limit |-> [IntS EXCEPT !.min = <<0>>, !.max = <<10>>],
                             maxItems |-> [IntS EXCEPT !.max = <<10>>, !.def = <<JInt(5)>>]]]
InCInferred == [Typed({"object"}) EXCEPT !.props = [limit |-> IntS, maxItems |-> IntS], !.addl = FALSE]
CLimOpts  == << Absent, JInt(7), JInt(1000) >>
CLimLab   == << "absent", "ok", "above" >>
CMaxOpts  == << Absent, JInt(3), JInt(1000) >>
CMaxLab   == << "absent", "ok", "above" >>
CLim2Opts == << Absent, JInt(1000) >>          \* member "Limit"
CLim3Opts == << Absent, JInt(0 - 3) >>         \* member "LIMIT"
CMax2Opts == << Absent, JInt(1000) >>          \* member "maxitems"
CVarLab   == << "absent", "present" >>
CArgIx == (DOMAIN CLimOpts) \X (DOMAIN CMaxOpts) \X (DOMAIN CLim2Opts) \X (DOMAIN CLim3Opts) \X (DOMAIN CMax2Opts)
CArgsAt(ix) == JObj(Member("limit", CLimOpts[ix[1]]) @@ Member("maxItems", CMaxOpts[ix[2]]) @@ Member("Limit", CLim2Opts[ix[3]])
                    @@ Member("LIMIT", CLim3Opts[ix[4]]) @@ Member("maxitems", CMax2Opts[ix[5]]))
CClassAt(ix) == << CLimLab[ix[1]], CMaxLab[ix[2]], CVarLab[ix[3]], CVarLab[ix[4]], CVarLab[ix[5]] >>
(* what InC holds of a JSON object: its two fields, 0 when the member is absent *)
InCView(x) == IF x[1] # "obj" THEN x
              ELSE JObj([p \in {"limit", "maxItems"} |-> IF p \in DOMAIN x[2] THEN x[2][p] ELSE JInt(0)])

(* SchemaCache arrangements: "none"  no cache;                                 *)
(*   "warm"   the cache already holds the inferred schemas of the Go types and *)
(*            on this server the inferred tools are registered before the      *)
(*            explicit-schema tools of the same Go types;                      *)
(*   "xfirst" fresh cache, explicit-schema tools registered before the inferred*)
(*            tools of the same Go types.                                      *)
Caches == {"none", "warm", "xfirst"}
(* Output side only - how a tool whose Out is a POINTER type *T came by its    *)
(* schema (the schema is derived from T, the by-type cache entry is T's, and   *)
(* a nil *T stands for the zero T):                                            *)
(*   "none"   reflection, no cache;                                            *)
(*   "warm"   cache hit: an earlier registration of the same tool (an earlier  *)
(*            Server with the same ServerOptions.SchemaCache) filled the entry;*)
(*   "xfirst" cache hit through a sibling: on this server the tool with Out = T*)
(*            is registered before the tool with Out = *T and fills the entry; *)
(*   "pfirst" fresh cache, the tool with Out = *T is registered first and      *)
(*            fills the entry, the tool with Out = T then hits it.             *)
(* What a call returns must not depend on the arrangement: the property speaks *)
(* of the tool's declared output type / schema only.                           *)
OutCaches == Caches \cup {"pfirst"}

-----------------------------------------------------------------------------
(* Input side: reflected schemas for a fixed family of Go struct types.        *)
(*   type Nest struct { Flag bool `json:"flag"` }                              *)
(*   type InA  struct { N int `json:"n"`; Mode string `json:"mode"`;           *)
(*                      Opt *Nest `json:"opt,omitempty"`; Tags []string `json:"tags,omitempty"` } *)
(*   type InB  struct { Name string `json:"name"`; Inner Nest `json:"inner"`;  *)
(*                      Nums []int `json:"nums"`; Lim *int `json:"lim,omitempty"` }             *)
GoInTypes == {"InA", "InB", "InC"}
NestS(nullable) == [Typed(IF nullable THEN {"null", "object"} ELSE {"object"}) EXCEPT
                      !.props = [flag |-> BoolS], !.req = {"flag"}, !.addl = FALSE]
GoInSchema(ty) ==
  IF ty = "InC" THEN InCInferred
  ELSE IF ty = "InA"
  THEN [Typed({"object"}) EXCEPT
          !.props = [n |-> IntS, mode |-> StrS, opt |-> NestS(TRUE),
                     tags |-> [Typed({"null", "array"}) EXCEPT !.items = <<StrS>>]],
          !.req = {"n", "mode"}, !.addl = FALSE]
  ELSE [Typed({"object"}) EXCEPT
          !.props = [name |-> StrS, inner |-> NestS(FALSE),
                     nums |-> [Typed({"null", "array"}) EXCEPT !.items = <<IntS>>],
                     lim |-> Typed({"null", "integer"})],
          !.req = {"name", "inner", "nums"}, !.addl = FALSE]

ANOpts    == << Absent, JInt(0), JInt(4), JStr("x"), JNull, JHalf(3) >>
ANLab     == << "absent", "zero", "int", "string", "null", "nonint" >>
AModeOpts == << Absent, JStr("a"), JInt(1), JNull >>
AModeLab  == << "absent", "string", "int", "null" >>
AOptOpts  == << Absent, EmptyObj, JObj([flag |-> JBool(TRUE)]), JObj([flag |-> JStr("x")]),
                JObj([flag |-> JBool(TRUE), extra |-> JInt(1)]), JStr("s"), JNull >>
AOptLab   == << "absent", "empty", "flag", "flagstr", "flagextra", "string", "null" >>
ATagsOpts == << Absent, JArr(<<>>), JArr(<<JStr("x"), JStr("y"), JStr("z")>>), JArr(<<JInt(1)>>), JStr("s"), JNull >>
ATagsLab  == << "absent", "none", "three", "intitem", "string", "null" >>

BNameOpts  == << Absent, JStr("q"), JInt(1) >>
BNameLab   == << "absent", "string", "int" >>
BInnerOpts == << Absent, JObj([flag |-> JBool(FALSE)]), EmptyObj, JNull, JObj([flag |-> JBool(FALSE), extra |-> JInt(1)]) >>
BInnerLab  == << "absent", "flag", "empty", "null", "flagextra" >>
BNumsOpts  == << Absent, JNull, JArr(<<>>), JArr(<<JInt(1), JInt(2)>>), JArr(<<JStr("x")>>), JArr(<<JHalf(3)>>) >>
BNumsLab   == << "absent", "null", "none", "two", "stritem", "nonintitem" >>
BLimOpts   == << Absent, JNull, JInt(5), JStr("x"), JHalf(1) >>
BLimLab    == << "absent", "null", "int", "string", "nonint" >>

GoArgIx(ty) ==
  IF ty = "InC" THEN CArgIx
  ELSE IF ty = "InA" THEN (DOMAIN ANOpts) \X (DOMAIN AModeOpts) \X (DOMAIN AOptOpts) \X (DOMAIN ATagsOpts) \X (DOMAIN ExtraOpts)
  ELSE (DOMAIN BNameOpts) \X (DOMAIN BInnerOpts) \X (DOMAIN BNumsOpts) \X (DOMAIN BLimOpts) \X (DOMAIN ExtraOpts)
GoArgsAt(ty, ix) ==
  IF ty = "InC" THEN CArgsAt(ix)
  ELSE IF ty = "InA"
  THEN JObj(Member("n", ANOpts[ix[1]]) @@ Member("mode", AModeOpts[ix[2]]) @@ Member("opt", AOptOpts[ix[3]])
            @@ Member("tags", ATagsOpts[ix[4]]) @@ Member("extra", ExtraOpts[ix[5]]))
  ELSE JObj(Member("name", BNameOpts[ix[1]]) @@ Member("inner", BInnerOpts[ix[2]]) @@ Member("nums", BNumsOpts[ix[3]])
            @@ Member("lim", BLimOpts[ix[4]]) @@ Member("extra", ExtraOpts[ix[5]]))
GoClassAt(ty, ix) ==
  IF ty = "InC" THEN CClassAt(ix)
  ELSE IF ty = "InA" THEN << ANLab[ix[1]], AModeLab[ix[2]], AOptLab[ix[3]], ATagsLab[ix[4]], ExtraLab[ix[5]] >>
  ELSE << BNameLab[ix[1]], BInnerLab[ix[2]], BNumsLab[ix[3]], BLimLab[ix[4]], ExtraLab[ix[5]] >>

-----------------------------------------------------------------------------
(* Input cases.  kind "in": explicit schema variant vr, In = map[string]any;  *)
(* kind "xin": explicit schema XSchema(ty), In = map[string]any;              *)
(* kind "rin": reflected Go type ty (vr unused), cache arrangement in cache;  *)
(* kind "sin": Go type InC with the explicit schema InCExplicit.              *)
NoVariant == [nDef |-> FALSE, nReq |-> FALSE, addl |-> FALSE, nest |-> "none"]
InCase(kind, vr, ty, cache, cls, args) ==
  [kind |-> kind, vr |-> vr, ty |-> ty, cache |-> cache, cls |-> cls, args |-> args]
\* the case sets InCases / RInCases / OutCases are built in TypedTool.tla (the monitor does not need them)
CaseInSchema(c) == CASE c.kind = "in"  -> InSchemaF[c.vr]
                     [] c.kind = "xin" -> XSchema(c.ty)
                     [] c.kind = "sin" -> InCExplicit
                     [] OTHER          -> GoInSchema(c.ty)
(* what the handler is entitled to see *)
View(c, x) == IF c.ty = "InC" THEN InCView(x)
              ELSE IF c.kind = "rin" THEN StructView(CaseInSchema(c), x) ELSE x

\* Outcome of an input case: [ran, seen, isError, proto]; seen = JNull when the handler did not run
ValidIn(c) == IsObj(c.args) /\ Valid(CaseInSchema(c), WithDefaults(CaseInSchema(c), c.args))

InvokedIffValid(c, o)      == o.ran <=> ValidIn(c)
SeesExactly(c, o)          == o.ran => SameJ(o.seen, View(c, WithDefaults(CaseInSchema(c), c.args)))
ErrorResultOtherwise(c, o) == ~ValidIn(c) => (o.isError /\ ~o.proto /\ ~o.ran)
HoldsIn(c, o) == InvokedIffValid(c, o) /\ SeesExactly(c, o) /\ ErrorResultOtherwise(c, o)

(* Code-shaped: mcp/tool.go applySchema(forOutput=false) then mcp/server.go.  *)
(* jsonschema.Resolved.ApplyDefaults skips required properties entirely      *)
(* (no recursion into them either).                                          *)
RECURSIVE CodeApplyDefaults(_, _)
CodeApplyDefaults(s, x) ==
  IF x[1] # "obj" THEN x
  ELSE LET have == DOMAIN x[2]
           opt  == (DOMAIN s.props) \ s.req
           fill == {p \in opt \ have : HasDefaultBelow(s.props[p])}
       IN JObj([p \in have \cup fill |->
                 IF p \in have
                 THEN (IF p \in opt THEN CodeApplyDefaults(s.props[p], x[2][p]) ELSE x[2][p])
                 ELSE IF s.props[p].def # <<>> THEN CodeApplyDefaults(s.props[p], s.props[p].def[1])
                 ELSE CodeApplyDefaults(s.props[p], EmptyObj)])

(* jsonschema state.validate in the library's keyword order; returns the   *)
(* first failing keyword or "ok".                                             *)
RECURSIVE CodeValidate(_, _)
CodeValidate(s, x) ==
  LET typeBad == s.types # {} /\ ~(JType(x) \in s.types \/ (JType(x) = "integer" /\ "number" \in s.types))
      enumBad == s.enum # <<>> /\ ~\E e \in s.enum[1] : SameJ(e, x)
      isNum   == x[1] \in {"int", "half"}
      minBad  == s.min # <<>> /\ isNum /\ Twice(x) < 2 * s.min[1]
      maxBad  == s.max # <<>> /\ isNum /\ Twice(x) > 2 * s.max[1]
      itemBad == x[1] = "arr" /\ s.items # <<>> /\ \E i \in DOMAIN x[2] : CodeValidate(s.items[1], x[2][i]) # "ok"
      lenBad  == x[1] = "arr" /\ s.maxItems # <<>> /\ Len(x[2]) > s.maxItems[1]
      propBad == x[1] = "obj" /\ \E p \in (DOMAIN s.props) \cap (DOMAIN x[2]) : CodeValidate(s.props[p], x[2][p]) # "ok"
      addlBad == x[1] = "obj" /\ ~s.addl /\ \E p \in DOMAIN x[2] : p \notin DOMAIN s.props
      maxpBad == x[1] = "obj" /\ s.maxProps # <<>> /\ Cardinality(DOMAIN x[2]) > s.maxProps[1]
      reqBad  == x[1] = "obj" /\ \E p \in s.req : p \notin DOMAIN x[2]
      depBad  == x[1] = "obj" /\ \E p \in (DOMAIN s.depReq) \cap (DOMAIN x[2]) : \E q \in s.depReq[p] : q \notin DOMAIN x[2]
  IN IF typeBad THEN "type" ELSE IF enumBad THEN "enum" ELSE IF minBad THEN "minimum" ELSE IF maxBad THEN "maximum"
     ELSE IF itemBad THEN "items" ELSE IF lenBad THEN "maxItems" ELSE IF propBad THEN "properties"
     ELSE IF addlBad THEN "additionalProperties" ELSE IF maxpBad THEN "maxProperties"
     ELSE IF reqBad THEN "required" ELSE IF depBad THEN "dependentRequired" ELSE "ok"

RejectIn == [ran |-> FALSE, seen |-> JNull, isError |-> TRUE, proto |-> FALSE]
ExpectedIn(c) ==
  IF ~IsObj(c.args) THEN RejectIn                      \* "unmarshaling arguments" into map[string]any fails
  ELSE LET s == CaseInSchema(c)
           d == CodeApplyDefaults(s, c.args)
       IN IF CodeValidate(s, d) # "ok" THEN RejectIn   \* errRes.SetError("validating \"arguments\"...")
          ELSE [ran |-> TRUE, seen |-> View(c, d), isError |-> FALSE, proto |-> FALSE]

-----------------------------------------------------------------------------
(* Output side.                                                               *)
(* explicit output schemas *)
OutObjSchema(rReq, addl) ==
  [Typed({"object"}) EXCEPT !.props = [k |-> [IntS EXCEPT !.def = <<JInt(5)>>], r |-> StrS],
                            !.req = IF rReq THEN {"r"} ELSE {}, !.addl = addl]
(* explicit, stricter schema for the Go type OutS (okind "structx"): n <= 10 *)
OutSXSchema ==
  [Typed({"object"}) EXCEPT
     !.props = [n |-> [IntS EXCEPT !.max = <<10>>], mode |-> StrS, tags |-> [Typed({"null", "array"}) EXCEPT !.items = <<StrS>>]],
     !.req = {"n", "mode", "tags"}, !.addl = FALSE]
OutSchemaIds == {"objRO", "objRC", "objOO", "objOC", "arr", "int", "enum"} \cup XIds \cup {"outsx"}
OutSchema(id) ==
  CASE id \in XIds -> XSchema(id)
    [] id = "outsx" -> OutSXSchema
    [] id = "objRO" -> OutObjSchema(TRUE, TRUE)   [] id = "objRC" -> OutObjSchema(TRUE, FALSE)
    [] id = "objOO" -> OutObjSchema(FALSE, TRUE)  [] id = "objOC" -> OutObjSchema(FALSE, FALSE)
    [] id = "arr"   -> [Typed({"array"}) EXCEPT !.items = <<IntS>>, !.maxItems = <<2>>]
    [] id = "int"   -> [IntS EXCEPT !.min = <<1>>, !.max = <<3>>]
    [] id = "enum"  -> [StrS EXCEPT !.enum = <<{JStr("a"), JStr("b")}>>]
ObjIds == {"objRO", "objRC", "objOO", "objOC"} \cup XIds

(* reflected output types:                                                    *)
(*   type OutS struct { N int `json:"n"`; Mode string `json:"mode"`; Tags []string `json:"tags"` } *)
(*   "struct" = OutS, "ptr" = *OutS, "strs" = []string, "rint" = int, "pint" = *int (pointer to a  *)
(*   non-object type: schema of int, nil stands for 0), "rstr" = string, "rbool" = bool            *)
GoOutKinds == {"struct", "ptr", "strs", "rint", "pint", "rstr", "rbool"}
PtrKinds == {"ptr", "pint"}
GoOutSchema(k) ==
  CASE k \in {"struct", "ptr"} ->
         [Typed({"object"}) EXCEPT
            !.props = [n |-> IntS, mode |-> StrS, tags |-> [Typed({"null", "array"}) EXCEPT !.items = <<StrS>>]],
            !.req = {"n", "mode", "tags"}, !.addl = FALSE]
    [] k = "strs"  -> [Typed({"null", "array"}) EXCEPT !.items = <<StrS>>]
    [] k \in {"rint", "pint"} -> IntS
    [] k = "rstr"  -> StrS
    [] k = "rbool" -> BoolS

ZeroOutS == JObj([n |-> JInt(0), mode |-> JStr(""), tags |-> JNull])
BigOutS == JObj([n |-> JInt(700), mode |-> JStr("a"), tags |-> JNull])
OutSVals == {ZeroOutS, JObj([n |-> JInt(2), mode |-> JStr("a"), tags |-> JArr(<<>>)]),
             JObj([n |-> JInt(2), mode |-> JStr("a"), tags |-> JArr(<<JStr("x")>>)])}

(* handler outputs (ObjVals, NestVals: above) *)
IntArrVals == {JArr(<<>>), JArr(<<JInt(1), JInt(2)>>), JArr(<<JInt(1), JInt(2), JInt(3)>>)}
IntVals == {JInt(0), JInt(1), JInt(3), JInt(4)}
StrVals == {JStr("a"), JStr("c")}
AnyVals == ObjVals \cup IntArrVals \cup {JArr(<<JStr("x")>>)} \cup IntVals \cup {JHalf(3)} \cup StrVals
           \cup {JBool(TRUE), JNull}

(* Output case: sid = explicit schema id or "reflect"; okind = the Go Out type;*)
(* out = the JSON of the handler's output; nilform = the handler returns Go's *)
(* nil for it (nil map for {}, nil *OutS for the zero OutS, nil *int for 0,    *)
(* nil slice / nil any for null); content = the handler supplies Content of   *)
(* its own; cache = the SchemaCache arrangement (OutCaches).                  *)
OutCase(sid, okind, cache, out, nilform, content) ==
  [kind |-> "out", sid |-> sid, okind |-> okind, cache |-> cache, out |-> out, nilform |-> nilform, content |-> content]
CaseOutSchema(c) == IF c.sid = "reflect" THEN GoOutSchema(c.okind) ELSE OutSchema(c.sid)

\* Outcome of an output case: [ran, isError, proto, hasSc, sc, texts]
\*   sc    = the structured content the client received (JNull when hasSc is FALSE: a client
\*           cannot tell a null structuredContent from an absent one)
\*   texts = the text blocks of Content parsed as JSON (<<"bad", 0>> when a block is not JSON)
Success(o) == ~o.isError /\ ~o.proto
Sc(o) == IF o.hasSc THEN o.sc ELSE JNull
OutJson(c) == WithDefaults(CaseOutSchema(c), c.out)
OutOk(c) == Valid(CaseOutSchema(c), OutJson(c))

StructuredEqualsOutput(c, o) == Success(o) => SameJ(Sc(o), OutJson(c))
OutputValid(c, o)            == Success(o) => Valid(CaseOutSchema(c), Sc(o))
TextFallback(c, o)           == (Success(o) /\ ~c.content) => \E i \in DOMAIN o.texts : SameJ(o.texts[i], Sc(o))
(* "plus a text rendering of IT": the text is a rendering of the JSON of the   *)
(* handler's output - of THIS call's handler, also when other calls are in     *)
(* flight on the same server (TypedToolConc.tla).  Implied by the two clauses  *)
(* above taken together; stated separately so that a result whose structured   *)
(* content and whose text disagree is diagnosed on both sides.                 *)
TextRendersOutput(c, o)      == (Success(o) /\ ~c.content) => \E i \in DOMAIN o.texts : SameJ(o.texts[i], OutJson(c))
BadOutputIsError(c, o)       == ~OutOk(c) => ~Success(o)
(* The other half of "output that violates the output schema is reported as   *)
(* an error RATHER THAN RETURNED": the handlers of the family never return an *)
(* error themselves, so an output that (with schema defaults) is valid under  *)
(* the declared output schema is returned - as a successful result, which the *)
(* clauses above then pin down completely.  (The input side has the same      *)
(* two-sided form: InvokedIffValid.)  In particular the outcome of a call is  *)
(* a function of (Out type / schema, handler output) alone: it cannot depend  *)
(* on whether the tool's schema was reflected or taken from a SchemaCache, nor*)
(* on which registration filled the cache.                                    *)
ValidOutputReturned(c, o)    == OutOk(c) => Success(o)
HoldsOut(c, o) == o.ran /\ StructuredEqualsOutput(c, o) /\ OutputValid(c, o) /\ TextFallback(c, o) /\ BadOutputIsError(c, o)
                  /\ ValidOutputReturned(c, o) /\ TextRendersOutput(c, o)

(* Code-shaped: mcp/server.go toolForErr, after the handler returned.         *)
BadText == <<"bad", 0>>
Own(c) == IF c.content THEN <<BadText>> ELSE <<>>       \* the handler's own block is the text "mine"
ExpectedOut(c) ==
  LET s == CaseOutSchema(c) IN
  IF c.okind = "any" /\ c.out[1] = "null"
  THEN \* `if outval != nil` : nothing is marshalled, validated or attached
       [ran |-> TRUE, isError |-> FALSE, proto |-> FALSE, hasSc |-> FALSE, sc |-> JNull, texts |-> Own(c)]
  ELSE LET raw == IF c.nilform /\ c.okind = "map" THEN JNull ELSE c.out   \* nil *OutS / nil *int is replaced by elemZero (however the schema was found)
           co  == IF raw[1] = "null" /\ s.types = {"object"} THEN EmptyObj ELSE raw
           d   == CodeApplyDefaults(s, co)
       IN IF CodeValidate(s, d) # "ok"
          THEN [ran |-> TRUE, isError |-> FALSE, proto |-> TRUE, hasSc |-> FALSE, sc |-> JNull, texts |-> <<>>]
          ELSE [ran |-> TRUE, isError |-> FALSE, proto |-> FALSE, hasSc |-> d[1] # "null", sc |-> d,
                texts |-> IF ~c.content THEN <<d>> ELSE IF d[1] = "obj" THEN Own(c) ELSE Own(c) \o <<d>>]

(* The one place where the code-shaped procedure is known to leave the        *)
(* property (DESIGN.md section 3: a lead, confirmed or refuted on real code): *)
(* Out = any, handler returns nil, schema declared -> nothing is validated.   *)
Lead(c) == c.kind = "out" /\ c.okind = "any" /\ c.out[1] = "null"
=============================================================================
