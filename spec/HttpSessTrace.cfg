SPECIFICATION TraceSpec
CONSTANTS
  MaxSess = 3
  T = 3
  Stateless = FALSE
  MaxSlots = 2
  MaxParked = 2
  StoreModes = {"nopurge", "down"}
CONSTRAINT TMark
POSTCONDITION TAccepted
CHECK_DEADLOCK FALSE
