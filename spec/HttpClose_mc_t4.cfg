\* thorough: two Close callers per side, held DELETE, no idle timer
SPECIFICATION MCSpec
CONSTANTS
  Calls = {"k1"}
  CCl = {"c1", "c2"}
  SCl = {"s1", "s2"}
  Stateless = FALSE
  Timeout = FALSE
  Sse = TRUE
  Nested = FALSE
  Faults = {}
  DelModes = {"hold"}
  Helds = FALSE
  Notifs = FALSE
  Cancels = FALSE
  AwaitHandlers = TRUE
  StopSseOnClose = TRUE
VIEW MCView
INVARIANTS TypeOK NothingDispatchedAfterClose RunningHandlersFinish SessionRemoved
CHECK_DEADLOCK FALSE
