SPECIFICATION Spec
CONSTANTS
  Sessions = {"L1", "M1"}
  Legacy = {"L1"}
  InitOn = {"L1"}
  InitSub = {}
  Kinds = {"tools"}
  NotifOf <- NotifStd
  Uris = {}
  Want <- WantAll
  CapOff = {}
  CapMode <- ModeInferred
  InitSize <- Size3
  MaxSize = 3
  Dirs = {"mod"}
  SendGate = "configured"
  TTLPos = FALSE
  D = 2
  MaxTime = 6
  MaxChanges = 3
  MaxUpdates = 0
  MaxCalls = 0
  NPages = 1
  ListenOwns = TRUE
  ResubRace = TRUE
  GenCheck = TRUE
  ColdBump = TRUE
  ModernUnsub = FALSE
  ForeignUnsub = FALSE
  Listeners = {}
  MaxListens = 0
  FailUndo = TRUE
  Stepwise = FALSE
  Gates = FALSE
  GateNames = {"inv", "usr", "put"}
  ClientFirst = TRUE
INVARIANTS TypeOK NeverLost OnlyEntitled NoneWhenDisabled UpdatedExactlySubscribers Fresh ForgottenOnClose MapsOnlySessions
CHECK_DEADLOCK FALSE
