-------------------------- MODULE MultiRoundTripMon --------------------------
(* Property monitor for extension check X01, evaluated by TLC over the        *)
(* observations recorded from a real mcp.Server and a real mcp.Client         *)
(* (harness/mcp/x01_mrtr_test.go).  It states what the PROPERTIES block of    *)
(* MultiRoundTrip.tla states (clause names = property names), in terms of     *)
(* what was observed: handler invocations (what they received / returned),    *)
(* client handler begin / end (for which request), messages on the client's   *)
(* transport, and what the application call returned.  It does not know how   *)
(* the middlewares work; the only numbers it knows are the documented limits. *)
(*                                                                            *)
(* Lines (every field is present on every line):                              *)
(*   reset  mode hasE hasS meth           a new client / server pair          *)
(*   call   call other reuse manual       the application issues a call       *)
(*                                        (manual: it re-issues the call in   *)
(*                                        progress itself, with the responses *)
(*                                        to the input requests it was given: *)
(*                                        middleware Disabled)                *)
(*   inv    n keys kinds rcalls rns rkeys state | out okeys okinds ostate     *)
(*   cli    call n key kind ph(begin|end) r                                   *)
(*   wire   dir wtype method keys state rt hasir nir iserr                    *)
(*   ret    err code needs hasir okeys okinds state dcall dn                  *)
(*   hang                                 the call did not return although    *)
(*                                        nothing it waits for is outstanding *)
(*   end                                                                      *)
EXTENDS VerifTrace, FiniteSets

CONSTANTS MaxRetries, MaxShed   \* the limits the SDK states: 10 and 3

VARIABLES l,
          cfg,      \* [mode, hasE, hasS]
          call,     \* [no, other] the application call in progress
          n,        \* handler invocations of this call
          lo,       \* the latest handler result of this call: [t, keys, kinds, st]
          sround,   \* handler invocations since the latest request of the call went onto the wire
          asked,    \* ids for which a client handler began in this round
          failed,   \* a client handler of this round failed, or the round asks for a kind the client has no handler for
          running,  \* <<call, round, id>> of client handlers that began and have not ended
          wreq,     \* requests of this call on the wire (client to server)
          sheds,    \* load-shedding results of this call on the wire
          shedinv,  \* load-shedding results returned by the handler in this call
          sreqs,    \* server-initiated requests of this round, per kind
          retd,     \* the call has returned
          issued,   \* requests the application has issued for this call (1 + its own retries)
          n0        \* handler invocations of this call when the application issued its latest request
mvars == <<l, cfg, call, n, lo, sround, asked, failed, running, wreq, sheds, shedinv, sreqs, retd, issued, n0>>

Three == {"tools/call", "prompts/get", "resources/read"}
ServerInitiated == [elicit |-> "elicitation/create", sample |-> "sampling/createMessage", roots |-> "roots/list"]
NoLo == [t |-> "none", keys |-> <<>>, kinds |-> <<>>, st |-> ""]
NoSreqs == [elicit |-> 0, sample |-> 0, roots |-> 0]

IsNew == cfg.mode \in {"new", "newoff"}
MwOn  == cfg.mode \in {"new", "old"}
Idx(q, x) == CHOOSE i \in DOMAIN q : q[i] = x
KindOf(r, k) == r.kinds[Idx(r.keys, k)]
CountKind(r, kd) == Cardinality({i \in DOMAIN r.kinds : r.kinds[i] = kd})
\* the client has no handler for a kind the round asks for
Missing(r) == \E i \in DOMAIN r.kinds : (r.kinds[i] = "elicit" /\ ~cfg.hasE) \/ (r.kinds[i] = "sample" /\ ~cfg.hasS)
InvBound == CASE cfg.mode = "new" -> MaxRetries [] cfg.mode = "old" -> 2 * MaxRetries [] cfg.mode = "newoff" -> issued [] OTHER -> 2

MInit == /\ l = 1 /\ cfg = [mode |-> "new", hasE |-> FALSE, hasS |-> FALSE]
         /\ call = [no |-> 0, other |-> FALSE] /\ n = 0 /\ lo = NoLo /\ sround = 0 /\ asked = {} /\ failed = FALSE
         /\ running = {} /\ wreq = 0 /\ sheds = 0 /\ shedinv = 0 /\ sreqs = NoSreqs /\ retd = TRUE
         /\ issued = 0 /\ n0 = 0
         /\ MarkInit

Reset(e) ==
  /\ cfg' = [mode |-> e.mode, hasE |-> e.hasE, hasS |-> e.hasS]
  /\ call' = [no |-> 0, other |-> FALSE] /\ n' = 0 /\ lo' = NoLo /\ sround' = 0 /\ asked' = {} /\ failed' = FALSE
  /\ running' = {} /\ wreq' = 0 /\ sheds' = 0 /\ shedinv' = 0 /\ sreqs' = NoSreqs /\ retd' = TRUE
  /\ issued' = 0 /\ n0' = 0

Call(e) ==
  IF e.manual
  THEN \* the application continues the call in progress
       /\ issued' = issued + 1 /\ n0' = n
       /\ sround' = 0 /\ asked' = {} /\ wreq' = 0 /\ sreqs' = NoSreqs /\ retd' = FALSE
       /\ UNCHANGED <<cfg, call, n, lo, failed, running, sheds, shedinv>>
  ELSE /\ call' = [no |-> e.call, other |-> e.other]
       /\ n' = 0 /\ lo' = NoLo /\ sround' = 0 /\ asked' = {} /\ failed' = FALSE /\ wreq' = 0 /\ sheds' = 0 /\ shedinv' = 0
       /\ sreqs' = NoSreqs /\ retd' = FALSE /\ issued' = 1 /\ n0' = 0
       /\ UNCHANGED <<cfg, running>>

Inv(e) ==
  LET n1 == n + 1
      shed1 == IF e.out = "input" /\ e.okeys = <<>> THEN shedinv + 1 ELSE shedinv IN
  /\ Check(l, "Bounded", n1 <= InvBound /\ sround + 1 <= (IF IsNew THEN 1 ELSE 2) /\ shed1 <= MaxShed)   \* P1
  /\ shedinv' = shed1
  /\ Check(l, "PassThrough", ~call.other)                                                                \* P11
  /\ Check(l, "FirstRequestClean", n1 = 1 => (e.keys = <<>> /\ e.state = ""))                           \* P3
  /\ Check(l, "EchoExact",                                                                               \* P2
           n1 > 1 => /\ lo.t = "input"
                     /\ AsSet(e.keys) = AsSet(lo.keys) /\ Len(e.keys) = Len(lo.keys)
                     /\ \A i \in DOMAIN e.keys :
                          e.keys[i] \in AsSet(lo.keys) =>
                            /\ e.kinds[i] = KindOf(lo, e.keys[i])
                            /\ e.kinds[i] # "roots" => (e.rcalls[i] = call.no /\ e.rns[i] = n /\ e.rkeys[i] = e.keys[i])
                     /\ e.state = lo.st)
  /\ Check(l, "NoRetryAfterFailure", n1 > 1 => ~failed)                                                  \* P5
  /\ Check(l, "InvalidIsInternalError", lo.t # "invalid")                                                \* P8
  /\ n' = n1 /\ sround' = sround + 1
  /\ lo' = [t |-> e.out, keys |-> e.okeys, kinds |-> e.okinds, st |-> e.ostate]
  /\ asked' = {} /\ sreqs' = NoSreqs
  /\ failed' = (cfg.mode # "newoff" /\ e.out = "input" /\ Missing([kinds |-> e.okinds]))   \* Disabled: the application answers
  /\ UNCHANGED <<cfg, call, running, wreq, sheds, retd, issued, n0>>

Cli(e) ==
  IF e.ph = "begin"
  THEN /\ Check(l, "CliJustified",                                                                       \* P4 (and P8)
                /\ ~call.other /\ e.call = call.no /\ e.n = n
                /\ lo.t = "input" /\ e.key \in AsSet(lo.keys) /\ KindOf(lo, e.key) = e.kind
                /\ e.key \notin asked
                /\ IsNew => ~retd)
       /\ asked' = asked \cup {e.key}
       /\ running' = running \cup {<<e.call, e.n, e.key>>}
       /\ UNCHANGED <<cfg, call, n, lo, sround, failed, wreq, sheds, shedinv, sreqs, retd, issued, n0>>
  ELSE /\ Check(l, "NewHandlersJoined", IsNew => ~retd)                                                  \* D4
       /\ running' = running \ {<<e.call, e.n, e.key>>}
       /\ failed' = (failed \/ (e.r = "fail" /\ e.call = call.no /\ e.n = n))
       /\ UNCHANGED <<cfg, call, n, lo, sround, asked, wreq, sheds, shedinv, sreqs, retd, issued, n0>>

Wire(e) ==
  CASE e.dir = "c2s" /\ e.wtype = "req" ->
         /\ Check(l, "PassThrough", call.other => wreq = 0)
         /\ wreq' = wreq + 1 /\ sround' = 0
         /\ UNCHANGED <<cfg, call, n, lo, asked, failed, running, sheds, shedinv, sreqs, retd, issued, n0>>
    [] e.dir = "s2c" /\ e.wtype = "resp" /\ e.method \in Three /\ ~e.iserr ->
         /\ Check(l, "ResultTypeIffNew",                                                                 \* P9, P10
                  /\ (e.rt # "") = IsNew
                  /\ IsNew => (e.rt = (IF e.hasir THEN "input_required" ELSE "complete")))
         /\ Check(l, "InvalidIsInternalError", lo.t # "invalid")                                         \* P8
         /\ sheds' = IF e.hasir /\ e.nir = 0 THEN sheds + 1 ELSE sheds
         /\ UNCHANGED <<cfg, call, n, lo, sround, asked, failed, running, wreq, shedinv, sreqs, retd, issued, n0>>
    [] e.dir = "s2c" /\ e.wtype = "req" /\ e.method \in {ServerInitiated.elicit, ServerInitiated.sample, ServerInitiated.roots} ->
         LET kd == CHOOSE k \in {"elicit", "sample", "roots"} : ServerInitiated[k] = e.method IN
         /\ Check(l, "Channel",                                                                          \* P10
                  /\ ~IsNew /\ ~call.other /\ lo.t = "input"
                  /\ sreqs[kd] < CountKind(lo, kd))
         /\ sreqs' = [sreqs EXCEPT ![kd] = @ + 1]
         /\ UNCHANGED <<cfg, call, n, lo, sround, asked, failed, running, wreq, sheds, shedinv, retd, issued, n0>>
    [] OTHER -> UNCHANGED <<cfg, call, n, lo, sround, asked, failed, running, wreq, sheds, shedinv, sreqs, retd, issued, n0>>

\* the result handed to the application is the complete result of the latest invocation
IsFinal(e) == e.err = "" /\ ~e.needs /\ ~e.hasir /\ lo.t = "complete" /\ e.dcall = call.no /\ e.dn = n
\* it exposes the handler's input requests and requestState
Exposes(e) == e.hasir /\ e.okeys = lo.keys /\ e.okinds = lo.kinds /\ e.state = lo.st

Ret(e) ==
  /\ retd' = TRUE
  /\ IF call.other
     THEN Check(l, "PassThrough", e.err = "" /\ n = 0 /\ wreq = 1)                                       \* P11
     ELSE
       /\ Check(l, "ReachesHandler", n > n0)                                \* every request the application issues reaches the handler
       /\ Check(l, "FinalOutcome",                                                                       \* P6
                /\ lo.t = "complete" => IsFinal(e)
                /\ lo.t \in {"err", "invalid"} => e.err # ""
                /\ MwOn => (e.err # "" \/ IsFinal(e))
                /\ cfg.mode = "newoff" => (lo.t = "input" => (e.err = "" /\ e.needs /\ Exposes(e)))
                /\ cfg.mode = "oldoff" => (e.err = "" => (/\ ~e.needs
                                                          /\ IsFinal(e) \/ (lo.t = "input" /\ sround = 2 /\ Exposes(e)))))   \* D1
       /\ Check(l, "InvalidIsInternalError", lo.t = "invalid" => e.code = -32603)                        \* P8
       /\ Check(l, "EndsForAReason",                                                                     \* P7
                (e.err # "" /\ lo.t = "input") =>
                   \/ failed                                          \* a client handler failed or is missing
                   \/ (MwOn /\ wreq >= MaxRetries)                   \* retry limit
                   \/ (MwOn /\ sheds >= MaxShed)                     \* load-shedding limit
                   \/ (~IsNew /\ lo.keys = <<>> /\ sround = 1))       \* D3
       /\ Check(l, "NewHandlersJoined", IsNew => running = {})                                           \* D4
  /\ UNCHANGED <<cfg, call, n, lo, sround, asked, failed, running, wreq, sheds, shedinv, sreqs, issued, n0>>

Hang(e) == /\ Check(l, "Terminates", FALSE)                                                              \* P1
           /\ UNCHANGED <<cfg, call, n, lo, sround, asked, failed, running, wreq, sheds, shedinv, sreqs, retd, issued, n0>>

MNext == /\ l <= NLines
         /\ l' = l + 1
         /\ LET e == TraceLog[l] IN
              CASE e.ev = "reset" -> Reset(e)
                [] e.ev = "call"  -> Call(e)
                [] e.ev = "inv"   -> Inv(e)
                [] e.ev = "cli"   -> Cli(e)
                [] e.ev = "wire"  -> Wire(e)
                [] e.ev = "ret"   -> Ret(e)
                [] e.ev = "hang"  -> Hang(e)
                [] OTHER -> UNCHANGED <<cfg, call, n, lo, sround, asked, failed, running, wreq, sheds, shedinv, sreqs, retd, issued, n0>>

MSpec == MInit /\ [][MNext]_mvars
MMark == MarkAt(l)
MAccepted == Accepted
=============================================================================
