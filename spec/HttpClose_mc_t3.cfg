\* thorough (-coverage 1): nested server->client call, caller cancellation, vanishing client
SPECIFICATION Spec
CONSTANTS
  Calls = {"k1"}
  CCl = {"c1"}
  SCl = {"s1"}
  Stateless = FALSE
  Timeout = TRUE
  Sse = TRUE
  Nested = TRUE
  Faults = {"vanish"}
  DelModes = {}
  Helds = FALSE
  Notifs = FALSE
  Cancels = TRUE
  AwaitHandlers = TRUE
  StopSseOnClose = TRUE
INVARIANTS TypeOK NothingDispatchedAfterClose RunningHandlersFinish SessionRemoved
CHECK_DEADLOCK FALSE
