\* thorough: two calls with nested calls, cancellation, vanishing client
SPECIFICATION MCSpec
CONSTANTS
  Calls = {"k1", "k2"}
  CCl = {"c1"}
  SCl = {"s1"}
  Stateless = FALSE
  Timeout = TRUE
  Sse = TRUE
  Nested = TRUE
  Faults = {"vanish"}
  DelModes = {}
  Helds = FALSE
  Notifs = FALSE
  Cancels = TRUE
  AwaitHandlers = TRUE
  StopSseOnClose = TRUE
VIEW MCView
INVARIANTS TypeOK NothingDispatchedAfterClose RunningHandlersFinish SessionRemoved
CHECK_DEADLOCK FALSE
