SPECIFICATION SettledSpec
CONSTANTS
  MaxSess = 1
  MaxPost = 2
  MaxSend = 1
  Cap = 1
  Direct = FALSE
  RandomSelect = TRUE
  KindSet = {"call", "notif", "slow", "badjson", "badreq", "ctype"}
  WithNoId = TRUE
  WithUnknown = TRUE
INVARIANTS TypeOK Routing AtMostOnce TableExact
VIEW CoverView
CHECK_DEADLOCK FALSE
