SPECIFICATION TraceSpec
CONSTANTS
  MaxSess = 3
  MaxPost = 16
  MaxSend = 6
  Cap = 100
  Direct = FALSE
  RandomSelect = TRUE
CONSTRAINT TMark
POSTCONDITION TAccepted
CHECK_DEADLOCK FALSE
