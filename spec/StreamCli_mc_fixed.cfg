SPECIFICATION Spec
CONSTANTS
  KindSet = {"post", "sa"}
  ShapeSet <- AllShapes
  SchemeSet = {"dec", "nested"}
  MSet = {2, 3}
  MRSet = {0, 1, 2}
  MaxCuts = 2
  ClassSet = {"bnd", "field", "name", "id", "idfull", "data", "datafull"}
  AnswerSet = {"terr", "ok", "5xx", "404"}
  FixScanner = TRUE
  FixCursor = TRUE
  Fix5xx = TRUE
INVARIANTS TypeOK InvExactlyOnce InvNoTruncated InvResumeCursor InvRealResponse InvCleanFailure
PROPERTIES Terminates
CHECK_DEADLOCK FALSE
