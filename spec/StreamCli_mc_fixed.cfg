\* the design the property asks for: all three repair switches on, every invariant
\* (tools/checks/c09.py builds its configurations from the same template - the Fix* switches of the configurations that model
\*  the real code come from its REPAIRED table; this file is the thorough-tier one, for manual runs:
\*  java -cp $TLA_CP tlc2.TLC -config StreamCli_mc_fixed.cfg StreamCliMC)
SPECIFICATION Spec
CONSTANTS
  KindSet = {"post", "sa"}
  ShapeSet <- AllShapes
  SchemeSet = {"dec", "nested"}
  MSet = {2, 3}
  MRSet = {0, 1, 2}
  MaxCuts = 2
  ClassSet = {"bnd", "field", "name", "id", "idfull", "data", "datafull"}
  AnswerSet = {"terr", "ok", "503", "404"}
  TailSet = {"good", "stuck"}
  RetrySet = {"none"}
  FixScanner = TRUE
  FixCursor = TRUE
  Fix5xx = TRUE
INVARIANTS TypeOK InvExactlyOnce InvNoTruncated InvResumeCursor InvRealResponse InvCleanFailure InvBoundedRetries
PROPERTIES Terminates
CHECK_DEADLOCK FALSE
