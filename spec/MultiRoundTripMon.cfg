SPECIFICATION MSpec
CONSTANTS
  MaxRetries = 10
  MaxShed = 3
CONSTRAINT MMark
POSTCONDITION MAccepted
CHECK_DEADLOCK FALSE
