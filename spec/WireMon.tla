------------------------------- MODULE WireMon -------------------------------
(* Monitor for the wire part of C01/C02/C03: evaluates the clauses of         *)
(* WireDefs (shapes, batches, reply framings) one by one on outcomes recorded *)
(* from the real server / client sessions.                                    *)
EXTENDS VerifTrace, FiniteSets
W == INSTANCE WireDefs
VARIABLE l
MInit == l = 1 /\ MarkInit

ShapeC(e) == [t |-> "shape", era |-> e.c.era, method |-> e.c.method, hasId |-> e.c.hasId, idc |-> e.c.idc, params |-> e.c.params]
ShapeO(e) == [count |-> e.count, otherResp |-> e.otherResp, lines |-> e.lines, code |-> e.code, alive |-> e.alive, panic |-> e.panic]
BatchC(e) == [t |-> "batch", era |-> e.c.era, members |-> e.c.members, order |-> e.c.order, reuse |-> e.c.reuse]
BatchO(e) == [alive |-> e.alive, flushes |-> Len(e.flushes),
              flushAfter |-> IF Len(e.flushes) > 0 THEN e.flushes[1].after ELSE 0,
              flushSize |-> IF Len(e.flushes) > 0 THEN Len(e.flushes[1].ids) ELSE 0,
              singles |-> e.singles, premature |-> e.premature, panic |-> e.panic, reuseOk |-> e.reuseOk, handled |-> e.handled]

FrameC(e) == [t |-> "framing", side |-> e.c.side, ncalls |-> e.c.ncalls, frames |-> e.c.frames]
FrameO(e) == [outcome |-> e.outcome, qAnswers |-> e.qAnswers, qOther |-> e.qOther, alive |-> e.alive, panic |-> e.panic]
\* what the harness saw of the delivery, in the shape of W!ExpectedFraming
FrameSeen(e) == [outcome |-> e.outcome, doneAfter |-> [i \in DOMAIN e.doneAfter |-> AsSet(e.doneAfter[i])],
                 notifs |-> e.notifs, qAnswers |-> e.qAnswers, qOther |-> e.qOther, alive |-> e.alive]

CheckAll(cl, pre) == \A k \in DOMAIN cl : Check(l, pre \o k, cl[k])

HShapeC(e) == [t |-> "httpshape", era |-> e.c.era, method |-> e.c.method, hasId |-> e.c.hasId, idc |-> e.c.idc, params |-> e.c.params, json |-> e.c.json]
HShapeO(e) == [count |-> e.count, otherResp |-> e.otherResp, lines |-> e.lines, code |-> e.code, alive |-> e.alive, panic |-> e.panic, status |-> e.status, hung |-> e.hung]
HBatchC(e) == [t |-> "httpbatch", era |-> e.c.era, members |-> e.c.members, json |-> e.c.json]
HBatchO(e) == [alive |-> e.alive, panic |-> e.panic, status |-> e.status, answered |-> e.answered, reuseOk |-> e.reuseOk, hung |-> e.hung]

MNext == /\ l <= NLines /\ l' = l + 1
         /\ LET e == TraceLog[l] IN
              IF e.c.t = "httpshape" THEN CheckAll(W!HttpShapeClauses(HShapeC(e), HShapeO(e)), "Http")
              ELSE IF e.c.t = "httpbatch" THEN CheckAll(W!HttpBatchClauses(HBatchC(e), HBatchO(e)), "Http")
              ELSE IF e.c.t = "framing"
              THEN /\ CheckAll(W!FramingClauses(FrameC(e), FrameO(e)), "")
                   /\ Check(l, "drift", FrameSeen(e) = W!ExpectedFraming(FrameC(e)))
              ELSE IF e.c.t = "shape"
              THEN /\ CheckAll(W!ShapeClauses(ShapeC(e), ShapeO(e)), "")
                   /\ Check(l, "drift", [count |-> e.count, otherResp |-> e.otherResp, lines |-> e.lines,
                                         code |-> IF e.count = 1 THEN e.code ELSE 0, alive |-> e.alive] = W!ExpectedShape(ShapeC(e)))
              ELSE /\ CheckAll(W!BatchClauses(BatchC(e), BatchO(e)), "")
                   /\ Check(l, "drift", [alive |-> e.alive, flushes |-> BatchO(e).flushes, flushAfter |-> BatchO(e).flushAfter,
                                         flushSize |-> BatchO(e).flushSize, singles |-> e.singles, premature |-> e.premature,
                                         reuseOk |-> W!ExpectedBatch(BatchC(e)).reuseOk]   \* (judged by BatchIdsReusable)
                                        = W!ExpectedBatch(BatchC(e)))
MSpec == MInit /\ [][MNext]_l
MMark == MarkAt(l)
MAccepted == Accepted
=============================================================================
