------------------------------- MODULE ConnMC -------------------------------
(* Bounded exhaustive configurations of Conn (model values as strings).      *)
EXTENDS Conn
\* `wire` is a history variable: hide it from the fingerprint
MCView == <<st, cpc, ready, outcome, ctxDone, sent, npc, rdpc, rdarg, unread, dpc, darg,
            hpc, released, hctx, rp, isnotif, canpc, clpc, wtpc, transportClosed>>
NoCancelOf == <<>>
NoDupOf == <<>>
Cancel1 == [x3 |-> "r1"]
Dup1 == [r2 |-> "r1"]
\* reachability witnesses (each must be VIOLATED somewhere, else the model is vacuous)
W_NeverTwoHandlers == Cardinality({r \in Reqs : hpc[r] = "run"}) <= 1
W_NeverDone == ~st.done
W_NeverCancelled == \A r \in Reqs : hctx[r] # "cancelled"
W_NeverWriteErr == ~st.writeErr
W_NeverDup == isnotif = {}
=============================================================================
