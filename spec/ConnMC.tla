------------------------------- MODULE ConnMC -------------------------------
(* Bounded exhaustive configurations of Conn (model values as strings).      *)
EXTENDS Conn
\* `wire` is a history variable: hide it from the fingerprint
MCView == <<st, cpc, ready, outcome, ctxDone, sent, npc, rdpc, rdarg, unread, dpc, darg,
            hpc, released, hctx, rp, isnotif, canpc, clpc, wtpc, transportClosed>>
NoCancelOf == <<>>
NoDupOf == <<>>
\* naming convention shared with the scenario harness: r* calls, n* notifications,
\* x<i> the cancel notification naming r<i>, d<i> a call re-using the wire id of r<i>
Cancel1 == [x1 |-> "r1"]
Dup1 == [d1 |-> "r1"]
CancelAll3 == [x1 |-> "r1", x2 |-> "r2", x3 |-> "r3"]
DupAll2 == [d1 |-> "r1", d2 |-> "r2"]
\* reachability witnesses (each must be VIOLATED somewhere, else the model is vacuous)
W_NeverTwoHandlers == Cardinality({r \in Reqs : hpc[r] = "run"}) <= 1
W_NeverDone == ~st.done
W_NeverCancelled == \A r \in Reqs : hctx[r] # "cancelled"
W_NeverWriteErr == ~st.writeErr
W_NeverDup == isnotif = {}
=============================================================================
