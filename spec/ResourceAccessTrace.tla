------------------------- MODULE ResourceAccessTrace -------------------------
(* Strict trace specification for the gated histories of X07 (P6): every      *)
(* recorded step must be the ResourceAccess action of the same name and the   *)
(* recorded binding / outcome must equal the specification's.  Rejection of a *)
(* real trace that the monitor accepts is DRIFT, not a violation.             *)
EXTENDS ResourceAccess, VerifTrace

VARIABLE l
TraceURIs == {ExactU("E1"), ExactU("E2"), <<"res:", "//h/", "a", "/", "a">>, <<"res:", "//g/", "a">>}
tvars == <<vars, l>>

TReset == /\ ex' = [x \in XE |-> 0] /\ tm' = [y \in XT |-> 0] /\ gen' = 0
          /\ rd' = [r \in Readers |-> Idle]
          /\ nMut' = 0 /\ nRead' = 0
          /\ res' = [kind |-> "none"]
Stutter == UNCHANGED vars

OutOf(e) == IF e.res = "ok" THEN e.out ELSE NotFound

TStep(e) ==
  CASE e.ev = "reset" -> TReset
    [] e.ev = "mut.begin" ->
         (CASE e.op = "addres"  -> AddRes(e.key) /\ gen' = e.g
            [] e.op = "rmres"   -> RemoveRes(e.key)
            [] e.op = "addtmpl" -> AddTmpl(e.key) /\ gen' = e.g
            [] e.op = "rmtmpl"  -> RemoveTmpl(e.key))
    [] e.ev = "mut.end" -> Stutter
    [] e.ev = "read.begin" -> ReadStart(e.r, e.u)
    [] e.ev = "lkd" ->
         (IF e.to = "handler" THEN ReadLookup(e.r) /\ rd'[e.r].st = "handler" /\ rd'[e.r].bind = e.out
          ELSE Stutter)                                             \* the outcome is on the read.end line that follows
    [] e.ev = "read.end" ->
         /\ e.res \in {"ok", "notfound"}
         /\ (IF rd[e.r].st = "sent" THEN ReadLookup(e.r) ELSE ReadReturn(e.r))
         /\ res'.kind = "read" /\ res'.out = OutOf(e)
         /\ e.inv = IF OutOf(e) = NotFound THEN <<>> ELSE <<OutOf(e)>>

TInit == Init /\ l = 1 /\ MarkInit
TNext == /\ l <= NLines /\ l' = l + 1 /\ TStep(TraceLog[l])
TSpec == TInit /\ [][TNext]_tvars
TMark == MarkAt(l)
TAccepted == Accepted
=============================================================================
