SPECIFICATION LSpec
CONSTANTS
  Sessions = {"s1","s2"}
  Streams = {"t1","t2"}
  Sizes = {0}
  Limits = {1}
  Iters = {}
  DefaultMax = 10485760
CONSTRAINT LMark
INVARIANTS Accounting SuffixRetained NoPanic
POSTCONDITION LAccepted
CHECK_DEADLOCK FALSE
