---------------------------- MODULE LifecycleHttp ----------------------------
(* Property C06 over the streamable HTTP transports: the decision table of    *)
(* ONE POST, where the protocol version is named TWICE - by the               *)
(* Mcp-Protocol-Version header of the HTTP envelope and by the per-request    *)
(* `_meta` of the JSON-RPC body - and the two need not agree.                 *)
(*                                                                            *)
(*  case      endpoint / session phase  x  header version class  x  class of  *)
(*            the body's per-request metadata (Lifecycle!MetaClasses)  x      *)
(*            method                                                          *)
(*  HExpected the code-shaped procedure: StreamableHTTPHandler.ServeHTTP,     *)
(*            serveStateful / serveStateless (ephemeralConnectOpts),          *)
(*            streamableServerConn.servePOST, then Lifecycle!Step of the      *)
(*            session the request reaches - check by check, in the code's     *)
(*            order                                                           *)
(*  HHolds    the property, from its text (clauses below)                     *)
(* TLC checks HHolds(c, HExpected(c)) for every case (design level), exports  *)
(* the cases, and the monitor LifecycleHttpMon evaluates HHolds on what the   *)
(* real handler did (verdict); equality with HExpected is drift.              *)
(* (Lifecycle!Step, the sequence configs and the http leg of their replay     *)
(* always mirror the body's version into the header, as the SDK's client      *)
(* does; this table is where header and body are crossed.)                    *)
EXTENDS Lifecycle, Json, SequencesExt

\* ------------------------------------------------------------------ cases
\* endpoint and session phase:
\*   nosid      stateful handler (the default), the POST carries no Mcp-Session-Id: it reaches a brand-new
\*              session on which no initialize has been accepted
\*   sess       stateful handler, the POST carries the id of a session that has completed the legacy handshake
\*              (initialize accepted, initialized received)
\*   stateless  StreamableHTTPOptions.Stateless: one throw-away session per POST
Endpoints == {"nosid", "sess", "stateless"}
Stateful(ep) == ep \in {"nosid", "sess"}
\* Mcp-Protocol-Version header:
\*   absent    no such header
\*   legacy    a version below 2026-07-28 that the SDK supports (on `sess`: the one the session negotiated)
\*   modern    2026-07-28
\*   unk_old   a string below 2026-07-28 that the SDK does not know
\*   unk_new   a string above 2026-07-28 that the SDK does not know
\* When header and body name a version of the same kind (legacy/legacy, unk_new/newer) they name the SAME string;
\* disagreement is the cross-kind cells.  A header >= 2026-07-28 comes with the Mcp-Method / Mcp-Name headers of that
\* protocol (mirroring the body); other requests have none.
HeaderVers == {"absent", "legacy", "modern", "unk_old", "unk_new"}
HeaderModern(hv) == hv \in {"modern", "unk_new"}            \* the header names a version >= 2026-07-28
\* the body: Lifecycle!MetaClasses ("legacy": a NON-EMPTY legacy version string)
BodyMetas == MetaClasses
BodyNamesVersion(bv) == bv # "none"                           \* `_meta` has a protocolVersion entry
HMethods == {"tools/call", "tools/list", "prompts/get", MPing, MDiscover, MInit, MInited, MSetLevel}

HCase(ep, hv, bv, m) == [ep |-> ep, hv |-> hv, bv |-> bv, m |-> m]
HCases == {HCase(ep, hv, bv, m) : ep \in Endpoints, hv \in HeaderVers, bv \in BodyMetas, m \in HMethods}
\* the message of a case, as a letter of Lifecycle (ordinary presentation and spelling)
HLetter(c) == L(c.m, c.bv, IF c.m = MInit THEN "legacy" ELSE "na", "plain", "exact")

\* header and body tell the same story: a request with 2026-07-28 (or later) metadata whose header names the same
\* version; a request without such metadata whose header is absent or names a supported legacy version
Consistent(c) ==
  IF IsModernVer(c.bv)
  THEN (c.hv = "modern" /\ MetaSupported(c.bv)) \/ (c.hv = "unk_new" /\ ~MetaSupported(c.bv))
  ELSE c.hv \in {"absent", "legacy"}

\* ----------------------------------------------------------- observations
\* reply / code / nlist / h as in Lifecycle; lmod: the list of error.data.supported contains 2026-07-28;
\* nsess: server sessions still registered after the exchange that were not there before it
CHeaderMismatch == -32020
NLegacySupported == NSupported - 1

HObs(reply, code, nlist, lmod, h, nsess) ==
  [reply |-> reply, code |-> code, nlist |-> nlist, lmod |-> lmod, h |-> h, nsess |-> nsess]
\* an error written by the transport (writeJSONRPCError / http.Error): a call is answered, a notification is not
HRefuse(c, code, nlist, nsess) ==
  IF IsNotif(c.m) THEN HObs("none", 0, 0, FALSE, {}, nsess) ELSE HObs("error", code, nlist, FALSE, {}, nsess)

\* the state of the session the POST reaches
\*   nosid      a fresh session
\*   sess       initialized
\*   stateless  header >= 2026-07-28: a blank session; otherwise ephemeralConnectOpts synthesizes InitializeParams
\*              (unless the body is an initialize) and InitializedParams (unless it is an initialized notification)
SessState(c) ==
  CASE c.ep = "nosid" -> St0
    [] c.ep = "sess"  -> [ip |-> "legacy", at |-> 1, idp |-> TRUE]
    [] OTHER -> IF HeaderModern(c.hv) THEN St0
                ELSE [ip |-> IF c.m = MInit THEN "nil" ELSE "legacy", at |-> IF c.m = MInit THEN 0 ELSE 1,
                      idp |-> c.m # MInited]
\* index of the message within its session
MsgIndex(c) == IF c.ep = "sess" THEN 3 ELSE 2

\* sessions left registered: a stateless handler registers none; an addressed session stays what it was; a session
\* created for a POST without id is closed again unless the POST has given it InitializeParams (#578 clean-up).
\* Server.discover persists the request's metadata as InitializeParams only on a transport that can serve
\* 2026-07-28: on a stateful endpoint it leaves the session as it was.
Left(c, st) == IF c.ep = "nosid" /\ st.ip # "nil" /\ c.m # MDiscover THEN 1 ELSE 0
\* A notification POSTed to a throw-away session (no id on a stateful handler and nothing that keeps the session; a
\* stateless handler) is accepted with 202 and handed to the session while the handler already closes it: whether
\* its handlers still run is a race the property does not speak about (observed: they do not).
ThrowAwayNotif(c) == IsNotif(c.m) /\ c.ep \in {"nosid", "stateless"}

\* header and body name the same version STRING
SameVersion(c) ==
  \/ (c.hv = "legacy" /\ c.bv = "legacy")
  \/ (c.hv = "modern" /\ IsModernVer(c.bv) /\ MetaSupported(c.bv))
  \/ (c.hv = "unk_new" /\ IsModernVer(c.bv) /\ ~MetaSupported(c.bv))

\* the transport's own checks, in the code's order: the code of the refusal, or "pass" (the session sees the request)
TransportVerdict(c) ==
  LET sep == HeaderModern(c.hv) \/ BodyNamesVersion(c.bv) IN    \* servePOST runs its SEP-2575 checks
  \* StreamableHTTPHandler.ServeHTTP: a header below 2026-07-28 must name a supported version (plain 400)
  IF c.hv = "unk_old" THEN "plain400"
  \* servePOST, when the header is >= 2026-07-28 OR the body's _meta names a version:
  ELSE IF sep /\ Stateful(c.ep) /\ c.m # MDiscover THEN "stateful"     \* -32022, the legacy versions listed
  ELSE IF sep /\ c.hv = "absent" THEN "mismatch"                       \* header required
  ELSE IF sep /\ ~BodyNamesVersion(c.bv) THEN "nometa"                 \* _meta protocolVersion missing: -32602
  ELSE IF sep /\ ~SameVersion(c) THEN "mismatch"                       \* header # body: -32020
  ELSE "pass"
SessionStep(c) == Step(SessState(c), HLetter(c), MsgIndex(c))

HExpected(c) ==
  LET tv == TransportVerdict(c) IN
  CASE tv = "plain400" -> HRefuse(c, 0, 0, 0)
    [] tv = "stateful" -> HRefuse(c, CUnsupportedVer, NLegacySupported, 0)
    [] tv = "mismatch" -> HRefuse(c, CHeaderMismatch, 0, 0)
    [] tv = "nometa"   -> HRefuse(c, CInvalidParams, 0, 0)
    [] OTHER -> LET r == SessionStep(c) IN
                HObs(r.o.reply, r.o.code, r.o.nlist, r.o.code = CUnsupportedVer,
                     IF ThrowAwayNotif(c) THEN {} ELSE r.o.h, Left(c, r.st))
\* the observation agrees with the code-shaped table (drift otherwise)
HAgrees(c, o) ==
  \/ o = HExpected(c)
  \/ /\ ThrowAwayNotif(c) /\ TransportVerdict(c) = "pass"
     /\ o = [HExpected(c) EXCEPT !.h = SessionStep(c).o.h]

\* ------------------------------------------------------------ the property
\* ms: the endpoint serves protocol 2026-07-28 at all (Lifecycle!VerSupported)
Ms(c) == ~Stateful(c.ep)
HServed(o) == o.reply = "result" \/ o.h # {}
HHandlerServed(o) == o.reply = "result" \/ (o.h \ {"mw"}) # {}
HGood(c) == ModernGood(HLetter(c), Ms(c))

\* Requests carrying the 2026-07-28 per-request metadata are served without a handshake ONLY IF that metadata is
\* complete and names a version the endpoint supports - whatever the header says
HModernOnlyIfGood(c, o) == (IsModernVer(c.bv) /\ ~HGood(c)) => ~HServed(o)
\* ... otherwise they are answered with -32602, or -32022 listing supported versions.  Demanded when the metadata's
\* defect is the only one: a request whose header contradicts its body is refused as well (clause above), but the
\* property does not say that the metadata's defect must be the one reported (the transport may report the header).
HModernRefusalCode(c, o) ==
  (IsModernVer(c.bv) /\ ~HGood(c) /\ Consistent(c) /\ ~IsNotif(c.m)) =>
     /\ o.reply = "error"
     /\ \/ (o.code = CInvalidParams /\ ~MetaComplete(c.bv))
        \/ (o.code = CUnsupportedVer /\ o.nlist > 0 /\ ~VerSupported(HLetter(c), Ms(c)))
\* On a legacy-protocol session nothing other than initialize, initialized, ping and cancellation reaches handlers
\* until an initialize request has been accepted: the session of a POST without id has accepted none
HGateBeforeInit(c, o) ==
  (c.ep = "nosid" /\ ~IsModernVer(c.bv) /\ c.m \notin PreInitAllowed) => ~HServed(o)
\* ping is always served (a legacy ping in a consistent envelope; `_meta` naming a legacy version is not something a
\* legacy client writes, and the stateful transport refuses every `_meta` version: not judged)
HPingAlways(c, o) == (c.m = MPing /\ c.bv = "none" /\ Consistent(c)) => o.reply = "result"
\* methods removed from 2026-07-28 are answered method-not-found
HRemovedNotFound(c, o) ==
  (HGood(c) /\ c.m \in Removed) =>
     /\ ~HHandlerServed(o)
     /\ ((Consistent(c) /\ ~IsNotif(c.m)) => (o.reply = "error" /\ o.code = CMethodNotFound))

HClauseNames == {"HModernOnlyIfGood", "HModernRefusalCode", "HGateBeforeInit", "HPingAlways", "HRemovedNotFound"}
HClauseHolds(k, c, o) ==
  CASE k = "HModernOnlyIfGood" -> HModernOnlyIfGood(c, o)
    [] k = "HModernRefusalCode" -> HModernRefusalCode(c, o)
    [] k = "HGateBeforeInit" -> HGateBeforeInit(c, o)
    [] k = "HPingAlways" -> HPingAlways(c, o)
    [] k = "HRemovedNotFound" -> HRemovedNotFound(c, o)
HFailed(c, o) == {k \in HClauseNames : ~HClauseHolds(k, c, o)}
HHolds(c, o) == HFailed(c, o) = {}
HPremise(k, c) ==
  CASE k = "HModernOnlyIfGood" -> IsModernVer(c.bv) /\ ~HGood(c)
    [] k = "HModernRefusalCode" -> IsModernVer(c.bv) /\ ~HGood(c) /\ Consistent(c) /\ ~IsNotif(c.m)
    [] k = "HGateBeforeInit" -> c.ep = "nosid" /\ ~IsModernVer(c.bv) /\ c.m \notin PreInitAllowed
    [] k = "HPingAlways" -> c.m = MPing /\ c.bv = "none" /\ Consistent(c)
    [] k = "HRemovedNotFound" -> HGood(c) /\ c.m \in Removed

\* NOT in the property (drift only, through HExpected.nsess): "a refused request leaves no session registered".
\* C06 speaks of session STATE being unchanged by a rejected initialize / initialized; about sessions created for a
\* refused POST it says nothing.

=============================================================================
