-------------------------- MODULE StreamCliLifeMon --------------------------
(* Property monitor of X12, evaluated by TLC over observations recorded from a *)
(* REAL mcp.Client + StreamableClientTransport talking to a scripted           *)
(* http.RoundTripper (harness/mcp/x12_streamclilife_test.go).  Every line is a  *)
(* cumulative snapshot taken after the SDK has settled; clauses L1..L9 of       *)
(* StreamCliLife.tla.  The monitor knows the environment (which class of answer *)
(* the scripted server gave, in which order: the event clock seq / aseq / evseq)*)
(* and judges only what the client did with it.                                 *)
(*                                                                              *)
(*  reset trace sa oauth del                                                    *)
(*  step  n op a1 a2 a3 applied                                                 *)
(*        conn connres cancel connret sid                                       *)
(*        reqs [n tag meth att sid pv accept ctype lei body st cls h step astep *)
(*              rbody status seq aseq evseq evkind]                             *)
(*        calls / notifs [k st res gonetext step rstep]                         *)
(*        closeiss closeret closestep closeretstep closeerr waitret             *)
(*        sanotes sasent panic leak                                             *)
EXTENDS VerifTrace, FiniteSets

VARIABLES l
mvars == <<l>>

CallTagOf(k) == IF k = 1 THEN "c1" ELSE IF k = 2 THEN "c2" ELSE IF k = 3 THEN "c3" ELSE "c?"
IsCallTag(t) == t \in {"init", "c1", "c2", "c3"}
RejCls(c) == c \in {"rpcerr", "rpc404", "5xx", "neterr"}
TwoXX(c) == c \in {"json", "badjson", "sse", "202", "badct"}

Idx(e) == DOMAIN e.reqs
Sent(e) == {i \in Idx(e) : e.reqs[i].st # "still"}
Answered(e, i) == e.reqs[i].aseq > 0 /\ e.reqs[i].st \in {"done", "auth", "aborted"}
\* the latest request with tag t that was really sent (0: none)
Latest(e, t) == LET c == {i \in Sent(e) : e.reqs[i].tag = t} IN
                IF c = {} THEN 0 ELSE CHOOSE i \in c : \A j \in c : e.reqs[j].seq <= e.reqs[i].seq

\* ids the server had issued (on a 2xx answer to a POST) before clock value q
IssuedBefore(e, q) == {e.reqs[j].h : j \in {k \in Idx(e) : /\ e.reqs[k].meth = "POST" /\ TwoXX(e.reqs[k].cls)
                                                           /\ e.reqs[k].h # "" /\ e.reqs[k].aseq > 0 /\ e.reqs[k].aseq < q}}
\* the id issued on the answer to initialize (its latest attempt), "" if none
InitIdx(e) == Latest(e, "init")
InitId(e) == IF InitIdx(e) = 0 THEN "" ELSE IF TwoXX(e.reqs[InitIdx(e)].cls) THEN e.reqs[InitIdx(e)].h ELSE ""
\* the initialize result was in the client's hands before clock value q
InitKnown(e, q) == \E j \in Idx(e) : /\ e.reqs[j].tag = "init"
                                     /\ \/ e.reqs[j].cls = "json" /\ e.reqs[j].aseq > 0 /\ e.reqs[j].aseq < q
                                        \/ e.reqs[j].cls = "sse" /\ e.reqs[j].evkind = "resp" /\ e.reqs[j].evseq < q

\* an answer that, by L5, is none of the connection's business / one that is terminal (L6, L7)
Mismatch(e, i) == /\ TwoXX(e.reqs[i].cls) /\ e.reqs[i].h # ""
                  /\ \E x \in IssuedBefore(e, e.reqs[i].aseq) : x # e.reqs[i].h
FatalAns(e, i) ==
  LET r == e.reqs[i] IN
  /\ Answered(e, i)
  /\ \/ r.meth = "POST" /\ \/ r.cls \in {"404", "http"}
                           \/ r.cls = "401" /\ ~(e.oauth /\ r.att = 1)
                           \/ r.cls \in {"202", "badct", "badjson"} /\ IsCallTag(r.tag)
                           \/ Mismatch(e, i)
     \/ r.meth = "GET" /\ r.cls \in {"503sse", "neterr"}
     \/ r.cls = "ctx" /\ r.meth # "DELETE"
\* the answers to the standalone GET about which the documentation says something: a stream, 405, another 4xx
GetJudged(e) == \A i \in Idx(e) : e.reqs[i].meth = "GET" => e.reqs[i].cls \in {"", "sse", "405", "404", "4xx"}
Clean(e) == (\A i \in Idx(e) : ~FatalAns(e, i)) /\ e.closeiss = 0 /\ e.cancel = 0 /\ GetJudged(e)
\* the first terminal answer (0: none)
FirstFatal(e) == LET c == {i \in Idx(e) : FatalAns(e, i)} IN
                 IF c = {} THEN 0 ELSE CHOOSE i \in c : \A j \in c : e.reqs[i].aseq <= e.reqs[j].aseq
\* ... and it is a plain 404 to a POST, given before anything else ended the connection
GoneFirst(e) == LET f == FirstFatal(e) IN
                /\ f # 0 /\ e.reqs[f].meth = "POST" /\ e.reqs[f].cls = "404" /\ e.cancel = 0
                /\ \A d \in Idx(e) : e.reqs[d].tag = "del" => e.reqs[d].seq > e.reqs[f].aseq

\* what the server still owes: an unanswered request, a parked authorization, the end of the response stream of a
\* call that is still waiting (the initialize call while Connect runs)
StreamOwed(e, t) == LET i == Latest(e, t) IN i # 0 /\ e.reqs[i].cls = "sse" /\ e.reqs[i].st = "done" /\ e.reqs[i].evseq = 0
ReqOwed(e, t) == LET i == Latest(e, t) IN i # 0 /\ e.reqs[i].st \in {"open", "auth"}
Debt(e) == \/ \E i \in Idx(e) : e.reqs[i].st \in {"open", "auth"}
           \/ \E j \in DOMAIN e.calls : e.calls[j].st = "pending" /\ StreamOwed(e, CallTagOf(e.calls[j].k))
           \/ e.conn = "running" /\ StreamOwed(e, "init")

\* D7: while the DELETE is unanswered the goroutine that happened to run streamableClientConn.Close - possibly that of
\* a returning call - and everything that needs the state lock waits: the DELETE is a debt of the server as well
DelOpen(e) == \E i \in Idx(e) : e.reqs[i].tag = "del" /\ e.reqs[i].st = "open"

Step(e) ==
  LET g == FirstFatal(e)
      gone == GoneFirst(e)
      dels == {i \in Idx(e) : e.reqs[i].tag = "del"}
      last == e.op = "Drain"
  IN
  /\ Check(l, "NoPanic", e.panic = "")
  \* ---- L1 SessionHeader
  /\ Check(l, "L1.OnlyIssuedId", \A i \in Sent(e) : e.reqs[i].sid = "" \/ e.reqs[i].sid \in IssuedBefore(e, e.reqs[i].seq))
  /\ Check(l, "L1.InitializeBare", \A i \in Sent(e) : e.reqs[i].tag = "init" => e.reqs[i].sid = "")
  /\ Check(l, "L1.IdOnEveryRequest", InitId(e) # "" =>
        \A i \in Sent(e) : e.reqs[i].seq > e.reqs[InitIdx(e)].aseq => e.reqs[i].sid = InitId(e))
  /\ Check(l, "L1.SessionlessBare", (\A j \in Idx(e) : e.reqs[j].h = "") => \A i \in Sent(e) : e.reqs[i].sid = "")
  \* ---- L2 VersionHeader
  /\ Check(l, "L2.NotBeforeKnown", \A i \in Sent(e) :
        /\ e.reqs[i].pv # "bad"
        /\ e.reqs[i].tag = "init" => e.reqs[i].pv = ""
        /\ e.reqs[i].pv = "ok" => InitKnown(e, e.reqs[i].seq))
  /\ Check(l, "L2.AlwaysAfterKnown", \A i \in Sent(e) :
        (e.reqs[i].tag # "init" /\ InitKnown(e, e.reqs[i].seq)) => e.reqs[i].pv = "ok")
  \* ---- L3 Shape
  /\ Check(l, "L3.PostShape", \A i \in Sent(e) : e.reqs[i].meth = "POST" =>
        (e.reqs[i].ctype = "json" /\ e.reqs[i].accept = "both" /\ e.reqs[i].body = "msg" /\ ~e.reqs[i].lei /\ e.reqs[i].tag # "other"))
  /\ Check(l, "L3.GetShape", \A i \in Sent(e) : e.reqs[i].meth = "GET" =>
        (e.reqs[i].accept = "sse" /\ e.reqs[i].body = "" /\ e.reqs[i].ctype = ""))
  /\ Check(l, "L3.DeleteShape", \A i \in Sent(e) : e.reqs[i].meth = "DELETE" => (e.reqs[i].body = "" /\ ~e.reqs[i].lei))
  /\ Check(l, "L3.NoOtherMethod", \A i \in Sent(e) : e.reqs[i].meth \in {"POST", "GET", "DELETE"})
  /\ Check(l, "L3.OnePostPerMessage", \A i \in Sent(e) :
        /\ e.reqs[i].att <= 2
        /\ e.reqs[i].att = 2 => (e.oauth /\ e.reqs[i].meth = "POST" /\
                                 \E j \in Idx(e) : e.reqs[j].tag = e.reqs[i].tag /\ e.reqs[j].cls = "401" /\ e.reqs[j].aseq < e.reqs[i].seq))
  /\ Check(l, "L3.ResumeOnlyAfterStream", \A i \in Sent(e) : e.reqs[i].lei =>
        (e.reqs[i].meth = "GET" /\ \E j \in Idx(e) : e.reqs[j].cls = "sse" /\ e.reqs[j].aseq > 0 /\ e.reqs[j].aseq < e.reqs[i].seq))
  \* ---- L4 Standalone
  /\ Check(l, "L4.OnlyWhenEnabled", \A i \in Sent(e) : e.reqs[i].meth = "GET" => e.sa)
  /\ Check(l, "L4.OnlyAfterInitialize", \A i \in Sent(e) : e.reqs[i].meth = "GET" => InitKnown(e, e.reqs[i].seq))
  /\ Check(l, "L4.AtMostOnce", Cardinality({i \in Sent(e) : e.reqs[i].tag = "get"}) <= 1)
  \* ---- L5 PerMessage / the connection stays usable (this also says: 405 and the tolerated answers to the GET are harmless)
  /\ Check(l, "L5.RejectionFailsItsCall", DelOpen(e) \/ \A j \in DOMAIN e.calls :
        LET i == Latest(e, CallTagOf(e.calls[j].k)) IN
        (i # 0 /\ e.reqs[i].st = "done" /\ RejCls(e.reqs[i].cls)) => (e.calls[j].st = "done" /\ e.calls[j].res \notin {"ok", "wrong"}))
  /\ Check(l, "L5.RejectionFailsItsCall", DelOpen(e) \/ \A j \in DOMAIN e.notifs :
        LET i == Latest(e, "n1") IN
        (i # 0 /\ e.reqs[i].st = "done" /\ RejCls(e.reqs[i].cls)) => (e.notifs[j].st = "done" /\ e.notifs[j].res # "ok"))
  /\ Check(l, "L5.StaysUsable", (Clean(e) /\ e.conn = "ok") => (~e.waitret /\ dels = {}))
  /\ Check(l, "L5.LaterCallsSent", Clean(e) => \A j \in DOMAIN e.calls : Latest(e, CallTagOf(e.calls[j].k)) # 0)
  /\ Check(l, "L5.OwnAnswerReachesCall", (~DelOpen(e) /\ Clean(e)) => \A j \in DOMAIN e.calls :
        LET i == Latest(e, CallTagOf(e.calls[j].k)) IN
        (i # 0 /\ e.reqs[i].st = "done" /\ (e.reqs[i].cls = "json" \/ (e.reqs[i].cls = "sse" /\ e.reqs[i].evkind = "resp")))
           => (e.calls[j].st = "done" /\ e.calls[j].res = "ok"))
  /\ Check(l, "L5.StreamEndFailsItsCall", DelOpen(e) \/ \A j \in DOMAIN e.calls :
        LET i == Latest(e, CallTagOf(e.calls[j].k)) IN
        (i # 0 /\ e.reqs[i].cls = "sse" /\ e.reqs[i].evkind = "eof") => (e.calls[j].st = "done" /\ e.calls[j].res \notin {"ok", "wrong"}))
  /\ Check(l, "L5.NotifyResult", (~DelOpen(e) /\ Clean(e)) => \A j \in DOMAIN e.notifs :
        LET i == Latest(e, "n1") IN
        (i # 0 /\ e.reqs[i].st = "done" /\ TwoXX(e.reqs[i].cls)) => (e.notifs[j].st = "done" /\ e.notifs[j].res = "ok"))
  /\ Check(l, "L5.HandshakeCompletes",
        (Clean(e) /\ ~Debt(e) /\ InitKnown(e, 1000000) /\ LET i == Latest(e, "inited") IN i # 0 /\ e.reqs[i].st = "done" /\ TwoXX(e.reqs[i].cls))
        => e.conn = "ok")
  /\ Check(l, "L5.ConnectOnlyAfterHandshake", e.conn = "ok" =>
        (InitKnown(e, 1000000) /\ LET i == Latest(e, "inited") IN i # 0 /\ e.reqs[i].st = "done" /\ TwoXX(e.reqs[i].cls)))
  /\ Check(l, "L5.NoWrongResult", \A j \in DOMAIN e.calls : e.calls[j].res # "wrong")
  \* ---- L6 Gone
  /\ Check(l, "L6.PendingCallsFailGone", gone => \A j \in DOMAIN e.calls :
        (e.calls[j].step <= e.reqs[g].astep /\ e.calls[j].st = "done" /\ e.calls[j].rstep >= e.reqs[g].astep) => e.calls[j].res = "gone")
  /\ Check(l, "L6.LaterCallsFailAtOnce", (~DelOpen(e) /\ gone) => \A j \in DOMAIN e.calls : e.calls[j].step > e.reqs[g].astep =>
        /\ e.calls[j].st = "done" /\ e.calls[j].rstep = e.calls[j].step /\ e.calls[j].res = "closed"
        /\ (e.calls[j].gonetext \/ (e.closestep > 0 /\ e.closestep <= e.calls[j].step))
        /\ Latest(e, CallTagOf(e.calls[j].k)) = 0)
  /\ Check(l, "L6.NoRequestAfterGone", gone => \A i \in Sent(e) : (e.reqs[i].seq > e.reqs[g].aseq /\ e.reqs[i].att = 1) => FALSE)
  /\ Check(l, "L6.GoneOnlyAfter404", (\E j \in DOMAIN e.calls : e.calls[j].res = "gone") \/ e.connres = "gone"
                                       \/ (\E j \in DOMAIN e.notifs : e.notifs[j].res = "gone")
        => \E i \in Idx(e) : e.reqs[i].status = 404 /\ e.reqs[i].cls # "rpc404")
  \* ---- L7 Terminal
  /\ Check(l, "L7.NoCallSentAfterTerminal", (~DelOpen(e) /\ g # 0) => \A j \in DOMAIN e.calls : e.calls[j].step > e.reqs[g].astep =>
        (Latest(e, CallTagOf(e.calls[j].k)) = 0 /\ e.calls[j].st = "done" /\ e.calls[j].res \notin {"ok", "wrong"}))
  /\ Check(l, "L7.SessionEnds", (g # 0 /\ ~Debt(e) /\ e.conn = "ok") => e.waitret)
  \* ---- L8 Close
  /\ Check(l, "L8.DeleteAtMostOnce", Cardinality(dels) <= 1)
  /\ Check(l, "L8.DeleteCarriesId", \A d \in dels : e.reqs[d].sid \in {"A", "B"})
  /\ Check(l, "L8.NoDeleteWithoutSession", (\A j \in Idx(e) : e.reqs[j].h = "") => dels = {})
  /\ Check(l, "L8.DeleteWhenSessionEnds", (last /\ InitId(e) # "" /\ ~\E i \in Idx(e) : e.reqs[i].cls = "404" /\ e.reqs[i].meth = "POST")
        => Cardinality(dels) = 1)
  /\ Check(l, "L8.CloseReturns", (e.closeiss > 0 /\ ~Debt(e)) => e.closeret = e.closeiss)
  /\ Check(l, "L8.DeleteBounded", (e.op = "Ans" /\ e.a1 = "del" /\ e.a2 = "timeout" /\ e.applied) => ~DelOpen(e))
  /\ Check(l, "L8.DeleteBounded", last => ~DelOpen(e))
  /\ Check(l, "L8.CloseWaitsForCalls", e.closeret > 0 => \A j \in DOMAIN e.calls :
        e.calls[j].st = "pending" => ReqOwed(e, CallTagOf(e.calls[j].k)))
  /\ Check(l, "L8.NoRequestAfterClose", e.closeretstep > 0 => \A i \in Sent(e) : e.reqs[i].att = 1 => e.reqs[i].step <= e.closeretstep)
  /\ Check(l, "L8.StandaloneCancelled", (e.closeret > 0 \/ e.waitret) => \A i \in Idx(e) : e.reqs[i].meth = "GET" => e.reqs[i].rbody # "open")
  /\ Check(l, "L8.NothingLeft", last => (e.leak = "" /\ \A i \in Idx(e) : e.reqs[i].rbody # "open"))
  \* ---- L9 Live
  /\ Check(l, "L9.CallsReturn", DelOpen(e) \/ \A j \in DOMAIN e.calls : e.calls[j].st = "pending" =>
        (ReqOwed(e, CallTagOf(e.calls[j].k)) \/ StreamOwed(e, CallTagOf(e.calls[j].k))))
  /\ Check(l, "L9.NotifyReturns", DelOpen(e) \/ \A j \in DOMAIN e.notifs : e.notifs[j].st = "pending" => ReqOwed(e, "n1"))
  /\ Check(l, "L9.ConnectReturns", (e.conn = "running" /\ ~Debt(e)) => FALSE)
  /\ Check(l, "L9.ConnectHonoursContext", (e.cancel > 0 /\ e.n >= e.cancel /\ dels \cap {i \in Idx(e) : e.reqs[i].st = "open"} = {})
        => e.conn # "running")
  /\ Check(l, "L9.AllOver", last => (e.conn \in {"none", "ok", "err"}))
  /\ Check(l, "L9.AllOver", last => (\A i \in Idx(e) : e.reqs[i].st \notin {"open", "auth"}))
  /\ Check(l, "L9.AllOver", last => (\A j1 \in DOMAIN e.calls : e.calls[j1].st = "done"))
  /\ Check(l, "L9.AllOver", last => (\A j2 \in DOMAIN e.notifs : e.notifs[j2].st = "done"))
  /\ Check(l, "L9.AllOver", (last /\ e.conn = "ok") => (e.closeret = e.closeiss /\ e.closeiss > 0 /\ e.waitret))

MInit == l = 1 /\ MarkInit
MNext == /\ l <= NLines
         /\ l' = l + 1
         /\ LET e == TraceLog[l] IN IF e.ev = "reset" THEN TRUE ELSE Step(e)
MSpec == MInit /\ [][MNext]_mvars
MMark == MarkAt(l)
MAccepted == Accepted
=============================================================================
