SPECIFICATION GenSpec
CONSTANTS
  Sessions = {"M1"}
  Legacy = {}
  InitOn = {"M1"}
  InitSub = {}
  Kinds = {}
  NotifOf <- NotifStd
  Uris = {"u1"}
  Want <- WantAll
  CapOff = {}
  CapMode <- ModeInferred
  InitSize <- Size3
  MaxSize = 3
  Dirs = {"mod"}
  SendGate = "configured"
  TTLPos = FALSE
  D = 2
  MaxTime = 4
  MaxChanges = 0
  MaxUpdates = 1
  MaxCalls = 0
  NPages = 1
  ListenOwns = TRUE
  ResubRace = TRUE
  GenCheck = TRUE
  ColdBump = TRUE
  ModernUnsub = TRUE
  ForeignUnsub = FALSE
  Listeners = {}
  MaxListens = 0
  FailUndo = TRUE
  Stepwise = TRUE
  Gates = TRUE
  GateNames = {"unsub"}
  ClientFirst = FALSE
  MinSteps = 1
  MaxSteps = 8
  Bias = FALSE
  Script <- ScriptNone
  GenOps = {"change", "tchange", "updated", "connect", "close", "subscribe", "unsubscribe", "list", "tick", "hold", "release"}
INVARIANTS LeadUpdated
CHECK_DEADLOCK FALSE
