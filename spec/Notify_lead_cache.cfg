SPECIFICATION GenSpec
CONSTANTS
  Sessions = {"M1"}
  Legacy = {}
  InitOn = {"M1"}
  Kinds = {"tools"}
  NotifOf <- NotifStd
  Uris = {}
  Want <- WantAll
  CapOff = {}
  TTLPos = TRUE
  D = 2
  MaxTime = 4
  MaxChanges = 1
  MaxUpdates = 0
  MaxCalls = 2
  ModernUnsub = FALSE
  Stepwise = TRUE
  Gates = TRUE
  GateNames = {"put"}
  ClientFirst = FALSE
  MinSteps = 1
  MaxSteps = 9
  Bias = FALSE
INVARIANTS LeadFresh
CHECK_DEADLOCK FALSE
