SPECIFICATION GenSpec
CONSTANTS
  Sessions = {"M1"}
  Legacy = {}
  InitOn = {"M1"}
  InitSub = {}
  Kinds = {"tools"}
  NotifOf <- NotifStd
  Uris = {}
  Want <- WantAll
  CapOff = {}
  TTLPos = TRUE
  D = 2
  MaxTime = 4
  MaxChanges = 1
  MaxUpdates = 0
  MaxCalls = 2
  NPages = 2
  ListenOwns = TRUE
  ResubRace = TRUE
  GenCheck = FALSE
  ModernUnsub = FALSE
  ForeignUnsub = FALSE
  Listeners = {}
  MaxListens = 0
  FailUndo = TRUE
  Stepwise = TRUE
  Gates = TRUE
  GateNames = {"put"}
  ClientFirst = FALSE
  MinSteps = 1
  MaxSteps = 9
  Bias = FALSE
  GenOps = {"change", "tchange", "updated", "connect", "close", "subscribe", "unsubscribe", "list", "tick", "hold", "release"}
INVARIANTS LeadFresh
CHECK_DEADLOCK FALSE
