SPECIFICATION Spec
CONSTANTS
  Reqs <- R1
  HasSa = TRUE
  PrimeSet <- Both
  MaxRetries = 2
  MaxWrites = 3
  MaxCuts = 2
  MaxFails = 2
  ArmN = 1
  CutHows <- HowsBasic
  FailKinds <- FailsBasic
  SrvRenumberBug = FALSE
INVARIANTS TypeOK ExactlyOnceInOrder WholeAtRest CallCompletes NoCrossStream BrokenOnlyWhenExhausted DrainedWhole NoDeadEnd
CHECK_DEADLOCK FALSE
