SPECIFICATION Spec
CONSTANTS
  Eras = {"legacy"}
  D = 2
  Fams = {"f0", "fd"}
  Clones = {"base", "attrs", "group"}
  Reqs = {}
  SetLevels = {"debug", "error"}
  ReqLevels = {"absent"}
  DirectLevels = {"error"}
  Slog <- SlogFew
  Ticks = {1, 2, 3}
  MaxFlight = 2
  Race = TRUE
  AsIs = TRUE
CHECK_DEADLOCK FALSE
