\* simulation of the larger profiles sa..sd at seam level
SPECIFICATION SettledSpec
CONSTANTS
  NC = 3
  Profiles <- ProfSim
  FixCancel = FALSE
  FixStream = FALSE
INVARIANTS TypeOK SessionHeader VersionHeader DeleteOnce GoneStops
CHECK_DEADLOCK FALSE
