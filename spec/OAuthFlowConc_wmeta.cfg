SPECIFICATION Spec
CONSTANTS
  N = 2
  SharedFields = {"meta"}
  RegModes = {"dcr", "pre"}
  AdvChoices <- AdvUniform
  LaterServers = {"S1", "S2"}
  CbKinds = {"own", "other", "stale", "badiss"}
  TokenOutcomes = {"good"}
INVARIANT MetaBoundToAttempt
CHECK_DEADLOCK FALSE
