------------------------------- MODULE ConnMon -------------------------------
(* Property monitors for C01–C05 over observation logs of the scenario       *)
(* harness (harness/mcp/conn_harness_test.go).  One log line = one event; the *)
(* monitor keeps ghost bookkeeping in `m` and evaluates, at each event, the   *)
(* clauses of the properties that the event can decide.  It states only what  *)
(* the properties state; it knows nothing about the connection's internals.   *)
(* Failures are reported as "Cnn.<Clause>" and attributed by the checks.      *)
EXTENDS VerifTrace, FiniteSets

VARIABLES l, m
mvars == <<l, m>>

NoCall == [begun |-> FALSE, beginT |-> 0, afterTerm |-> FALSE, ended |-> 0, cancelled |-> FALSE, cancelT |-> 0,
           wire |-> "", written |-> FALSE, resps |-> <<>>, health |-> TRUE]
NoReq == [kind |-> "", id |-> "", dseq |-> 0, dup |-> FALSE, started |-> FALSE, ended |-> FALSE, ctxdone |-> FALSE,
          afterClose |-> FALSE, cancelSent |-> FALSE]

M0 == [calls |-> <<>>,        \* k -> call record (function with a growing domain)
       reqs  |-> <<>>,        \* r -> request record
       idn   |-> <<>>,        \* wire id -> [deliv, resp] counters for incoming calls
       closeSeq |-> 0,        \* seq of the first Close (0 = none)
       term  |-> FALSE,       \* session terminated (a Wait/Close returned or the connection reported done)
       fault |-> FALSE,       \* some transport write failed (broken or rejected)
       broken |-> FALSE,      \* some transport write failed as broken
       rdDown |-> FALSE,      \* the reader was given an error / EOF
       trClosed |-> FALSE,    \* the SDK closed the transport
       ready |-> FALSE,
       cleanup |-> FALSE,     \* the harness' own clean-up has begun: nothing after it is judged except the final line
       closeB |-> {}, closeE |-> {}, waitB |-> {}, waitE |-> {},
       closingCS |-> FALSE,   \* a critical-section snapshot has shown connClosing: the linearization point of Close
       lastQ |-> 0,           \* handler-queue length in the last snapshot
       stalled |-> {},        \* transport writes that are blocked because the peer stopped draining
       notices |-> {},        \* wire ids named by cancellation notices handed to the transport
       notifOk |-> {},        \* refs of notifications the transport accepted
       listens |-> {}, cancelIds |-> {}, listenResp |-> {},
       badB |-> {}, badE |-> {},   \* calls with parameters that cannot be encoded: begun / returned
       wfailed |-> {},            \* our calls whose transport write failed (broken or rejected)        \* wire ids of subscriptions/listen calls (parked by the SDK until cancelled; answered then)
       respBegun |-> {},      \* request tags whose response has been handed to the transport
       usable |-> TRUE]       \* no Close, fault or reader error so far

Get(f, k, d) == IF k \in DOMAIN f THEN f[k] ELSE d
Put(f, k, v) == [x \in DOMAIN f \cup {k} |-> IF x = k THEN v ELSE f[x]]
Call(k) == Get(m.calls, k, NoCall)
Req(r) == Get(m.reqs, r, NoReq)
Idn(i) == Get(m.idn, i, [deliv |-> 0, resp |-> 0])
Healthy == m.closeSeq = 0 /\ ~m.fault /\ ~m.rdDown /\ ~m.trClosed

MInit == l = 1 /\ m = M0 /\ MarkInit

\* the first response delivered for call k decides its outcome
FirstResp(k) == Call(k).resps[1]

\* ---------------------------------------------------------------------------
\* per-event transition of the ghost state (m1) and the clauses decided there

OnCallBegin(e) ==
  /\ m' = [m EXCEPT !.calls = Put(m.calls, e.k, [NoCall EXCEPT !.begun = TRUE, !.beginT = e.t, !.afterTerm = m.term])]

OnCallEnd(e) ==
  LET c == Call(e.k) IN
  /\ Check(l, "C01.CompleteOnce", c.begun /\ c.ended = 0)
  /\ Check(l, "C01.OwnResponse",
           e.kind \in {"result", "wireerror"} /\ (e.kind = "result" \/ e.code = -32050) =>
               /\ Len(c.resps) > 0
               /\ FirstResp(e.k).tag = e.tag
               /\ FirstResp(e.k).variant = (IF e.kind = "result" THEN "ok" ELSE "err"))
  /\ Check(l, "C01.ErrorHasCause",
           /\ (e.kind = "ctx" => c.cancelled)
           /\ (e.kind \in {"closed", "other"} => (m.closeSeq > 0 \/ m.fault \/ m.rdDown \/ m.trClosed))
           /\ (e.kind = "wireerror" /\ e.code # -32050 => m.fault))
  \* (a caller that also gave up at that very moment may see its own context's error instead)
  /\ Check(l, "C01.FailFastAfterTermination", c.afterTerm => ((e.kind = "closed" \/ (e.kind = "ctx" /\ c.cancelled)) /\ e.t = c.beginT))
  /\ Check(l, "C04.PromptReturn", (c.cancelled /\ c.ended = 0) => e.t = c.cancelT)
  \* ... "with the context's error": a cancelled call ends with its response (if that won the race), with the
  \* context's own error, or with the connection's error if the connection went down - never with anything else
  /\ Check(l, "C04.ReturnsContextError",
           (c.cancelled /\ e.kind = "other") => (m.closeSeq > 0 \/ m.fault \/ m.rdDown \/ m.trClosed))
  /\ m' = [m EXCEPT !.calls = Put(m.calls, e.k, [c EXCEPT !.ended = c.ended + 1])]

\* only a cancellation of a call that is still in flight counts
OnCtxCancel(e) ==
  m' = IF Call(e.k).ended > 0 THEN m
       ELSE [m EXCEPT !.calls = Put(m.calls, e.k, [Call(e.k) EXCEPT !.cancelled = TRUE, !.cancelT = e.t, !.health = Healthy])]

OnWrBegin(e) ==
  /\ m' = [m EXCEPT !.calls = IF e.kind = "call" /\ e.ref # "" THEN Put(m.calls, e.ref, [Call(e.ref) EXCEPT !.wire = e.id]) ELSE @,
                    !.respBegun = IF e.kind = "resp" /\ e.ref # "" THEN @ \cup {e.ref} ELSE @,
                    !.notices = IF e.kind = "notif" /\ e.method = "notifications/cancelled" THEN @ \cup {e.cref} ELSE @]
  /\ Check(l, "C02.NoReplyToNotification", (e.kind = "resp" /\ m.ready) => (Idn(e.id).deliv > 0 \/ e.id \in m.listens))
  \* on a healthy connection (no Close, no fault: nothing is refused by the connection layer itself) a response
  \* means that the request went through the dispatcher and its handling has started, even if no user handler
  \* was reached: no earlier notification / initialize handler may still be running
  /\ Check(l, "C03.NotificationCompletesFirst",
           (e.kind = "resp" /\ m.ready /\ Healthy /\ e.ref \in DOMAIN m.reqs /\ ~m.reqs[e.ref].dup) =>
               \A r2 \in DOMAIN m.reqs : (m.reqs[r2].dseq < m.reqs[e.ref].dseq /\ m.reqs[r2].kind \in {"notif", "init"} /\ m.reqs[r2].started)
                                             => m.reqs[r2].ended)
  \* a cancellation notice never names a call of ours that is in flight and was not abandoned by its caller
  \* (it may name a call that was refused before it reached the transport: nobody can be affected by that)
  /\ Check(l, "C04.OnlyMatchingSent",
           (e.kind = "notif" /\ e.method = "notifications/cancelled" /\ m.ready) =>
               \A k \in DOMAIN m.calls : m.calls[k].wire = e.cref => m.calls[k].cancelled)

OnWrEnd(e) ==
  LET bad == e.outcome \in {"broken", "rejected"} IN
  /\ Check(l, "C02.AnsweredAtMostOnce",
           (e.kind = "resp" /\ e.outcome = "ok" /\ m.ready) =>
               IF e.id \in m.listens THEN e.id \notin m.listenResp ELSE Idn(e.id).resp + 1 <= Idn(e.id).deliv)
  /\ m' = [m EXCEPT !.stalled = @ \ {e.w}, !.fault = @ \/ (bad /\ m.ready), !.broken = @ \/ (e.outcome = "broken" /\ m.ready),
                    !.usable = @ /\ ~(bad /\ m.ready),
                    !.idn = IF e.kind = "resp" /\ e.outcome = "ok" /\ m.ready /\ e.id \notin m.listens THEN Put(m.idn, e.id, [Idn(e.id) EXCEPT !.resp = @ + 1]) ELSE @,
                    !.listenResp = IF e.kind = "resp" /\ e.outcome = "ok" /\ e.id \in m.listens THEN @ \cup {e.id} ELSE @,
                    !.notifOk = IF e.kind = "notif" /\ e.outcome = "ok" THEN @ \cup {e.ref} ELSE @,
                    !.wfailed = IF e.kind = "call" /\ bad /\ e.ref # "" /\ m.ready THEN @ \cup {e.ref} ELSE @,
                    !.calls = IF e.kind = "call" /\ e.outcome = "ok" /\ e.ref # ""
                              THEN Put(m.calls, e.ref, [Call(e.ref) EXCEPT !.written = TRUE]) ELSE @]

OnDeliver(e) ==
  CASE e.kind = "resp" ->
         m' = IF e.k = "" THEN m
              ELSE [m EXCEPT !.calls = Put(m.calls, e.k, [Call(e.k) EXCEPT !.resps = Append(@, [tag |-> e.tag, variant |-> e.variant])])]
    [] e.kind \in {"call", "notif", "init"} ->   \* "init": the initialize call, which is handled synchronously like a notification
         m' = [m EXCEPT !.reqs = Put(m.reqs, e.r, [NoReq EXCEPT !.kind = e.kind, !.id = e.id, !.dseq = e.seq, !.dup = e.dup,
                                                               !.afterClose = FALSE]),
                        !.idn = IF e.kind \in {"call", "init"} THEN Put(m.idn, e.id, [Idn(e.id) EXCEPT !.deliv = @ + 1]) ELSE @]
    [] e.kind = "cancel" ->
         m' = [m EXCEPT !.reqs = [r \in DOMAIN m.reqs |-> IF m.reqs[r].id = e.id /\ m.reqs[r].kind = "call"
                                                          THEN [m.reqs[r] EXCEPT !.cancelSent = TRUE] ELSE m.reqs[r]],
                        !.cancelIds = @ \cup {e.id}]
    [] OTHER -> m' = [m EXCEPT !.listens = @ \cup {e.id}]     \* "listen": judged through Close only

OnHStart(e) ==
  LET q == Req(e.r) IN
  \* calls release the dispatcher before their user-visible handler runs, so only a notification's
  \* start is ordered against everything delivered after it
  /\ Check(l, "C03.DispatchFIFO", q.kind \in {"notif", "init"} => \A r2 \in DOMAIN m.reqs : m.reqs[r2].dseq > q.dseq => ~m.reqs[r2].started)
  /\ Check(l, "C03.NotificationCompletesFirst",
           \A r2 \in DOMAIN m.reqs : (m.reqs[r2].dseq < q.dseq /\ m.reqs[r2].kind \in {"notif", "init"} /\ m.reqs[r2].started) => m.reqs[r2].ended)
  /\ Check(l, "C05.NoDispatchAfterClose", ~q.afterClose)
  /\ Check(l, "C05.NoDispatchAfterTransportClosed", ~m.trClosed)
  /\ m' = [m EXCEPT !.reqs = Put(m.reqs, e.r, [q EXCEPT !.started = TRUE])]

OnHCtxDone(e) ==
  LET q == Req(e.r) IN
  \* (a request that re-used the id of a request still in flight when the peer sent it shares that id's
  \* cancellation notices: the peer named "exactly that request" ambiguously itself)
  /\ Check(l, "C04.OnlyMatchingCancelled", q.cancelSent \/ (q.dup /\ q.id \in m.cancelIds) \/ m.rdDown \/ m.broken \/ m.trClosed)
  /\ m' = [m EXCEPT !.reqs = Put(m.reqs, e.r, [q EXCEPT !.ctxdone = TRUE])]

OnHEnd(e) == m' = [m EXCEPT !.reqs = Put(m.reqs, e.r, [Req(e.r) EXCEPT !.ended = TRUE])]

AnsweredBeforeClose ==
  (m.ready /\ ~m.fault /\ m.stalled = {}) =>
     \A r \in DOMAIN m.reqs : (m.reqs[r].kind = "call" /\ ~m.reqs[r].dup /\ Idn(m.reqs[r].id).deliv = 1 /\ m.reqs[r].started /\ m.reqs[r].ended)
                                  => r \in m.respBegun
OnTrClose(e) ==
  /\ Check(l, "C05.TransportClosedOnlyAfterHandlers", \A r \in DOMAIN m.reqs : m.reqs[r].started => m.reqs[r].ended)
  \* graceful: a call whose handler ran to completion is answered - its response is handed to the transport before the
  \* connection closes the transport (as long as no write has failed or is blocked: then nothing more can be promised)
  /\ Check(l, "C05.AnsweredBeforeTransportClosed", AnsweredBeforeClose)
  /\ Check(l, "C02.AnsweredBeforeTransportClosed", AnsweredBeforeClose)
  /\ m' = [m EXCEPT !.trClosed = TRUE, !.usable = FALSE]

OnNotifyEnd(e) ==
  /\ Check(l, "C03.NotifyReturnsAfterHandOff", ~e.err => e.n \in m.notifOk)
  /\ m' = m

\* clauses decided when a step has run to quiescence
\* (in critical-section scheduling mode a step marker is a quiescence point only when it says so)
OnStep(e) == IF ~e.quiet THEN m' = m ELSE
  /\ m' = m
  /\ Check(l, "C05.Removed", m.term => ~e.sessions)
  \* a call whose parameters cannot be encoded returns at once
  /\ Check(l, "C01.BadParamsCallFails", m.badB \subseteq m.badE)
  \* a call whose transport write failed is completed (with an error) - whatever is wrapped around the transport
  /\ Check(l, "C01.FailedWriteCompletesCall", \A k \in m.wfailed : Call(k).ended >= 1)
  \* a response delivered for an in-flight, un-cancelled call completes it (reader alive)
  /\ Check(l, "C01.ResponseCompletes",
           (e.op = "resp" /\ e.applied /\ ~m.rdDown /\ ~m.trClosed) =>
               LET c == Call(e.a1) IN (c.written /\ ~c.cancelled) => c.ended = 1)
  \* a cancelled call has returned
  /\ Check(l, "C04.PromptReturn", e.op = "cancel" /\ e.applied /\ Call(e.a1).begun => Call(e.a1).ended = 1)
  \* while healthy, the abandoned request is announced to the peer
  /\ Check(l, "C04.CancelAnnounced",
           (e.op = "cancel" /\ e.applied /\ Call(e.a1).cancelled /\ Call(e.a1).health /\ Call(e.a1).written /\ Len(Call(e.a1).resps) = 0) =>
               Call(e.a1).wire \in m.notices)
  \* a cancel notice for a running handler reaches exactly that handler
  /\ Check(l, "C04.MatchingHandlerCancelled",
           (e.op = "pcancel" /\ e.applied /\ Healthy) =>
               LET q == Req(e.a1) IN (q.kind = "call" /\ q.started /\ ~q.ended /\ ~q.dup) => q.ctxdone)

OnQuiesce1(e) ==
  /\ m' = m
  /\ Check(l, "C01.NotBlockedAfterTermination", m.term => e.blockedCalls = <<>>)
  \* "... or with an error once the connection breaks": once the reader has been given EOF / an error no answer can
  \* arrive any more, so at rest no call is still waiting for one (calls in flight were retired by the reader's
  \* exit, calls begun afterwards are refused) - unless a transport write is stalled by the environment
  /\ Check(l, "C01.NotBlockedAfterBreak", (m.rdDown /\ m.stalled = {}) => e.blockedCalls = <<>>)
  /\ Check(l, "C04.PromptReturn", \A i \in DOMAIN e.blockedCalls : ~Call(e.blockedCalls[i]).cancelled)
  /\ Check(l, "C02.AnsweredWhenUsable",
           m.usable /\ m.closeSeq = 0 /\ ~m.rdDown =>
               \A i \in DOMAIN m.idn : m.idn[i].deliv = 1 => m.idn[i].resp = 1)
  \* a request that re-uses the id of a request still in flight is a request with an id, too
  /\ Check(l, "C02.DupInflightIdAnswered",
           m.usable /\ m.closeSeq = 0 /\ ~m.rdDown =>
               \A i \in DOMAIN m.idn : m.idn[i].deliv > 1 => m.idn[i].resp = m.idn[i].deliv)
  \* a graceful Close waits for outgoing calls that the peer still owes an answer to (and whose callers
  \* have not given up); with none of those outstanding, every Close has returned
  \* (and no transport write is blocked by a peer that stopped draining: that is the environment's debt)
  /\ Check(l, "C05.CloseReturns", (e.blockedCalls = <<>> /\ m.stalled = {}) => m.closeB \subseteq m.closeE)
  /\ Check(l, "C05.WaitReturns", m.term => m.waitB \subseteq m.waitE)
  /\ Check(l, "C05.Removed", m.term => ~e.sessions)
  /\ Check(l, "C05.HandlersRanToCompletion", \A r \in DOMAIN m.reqs : m.reqs[r].started => m.reqs[r].ended)

OnFinal(e) ==
  /\ m' = m
  /\ Check(l, "C05.NoLeak", e.leaks = <<>>)
  /\ Check(l, "C05.FinalCloseReturns", e.closeReturned)
  /\ Check(l, "C05.Removed", ~e.sessions)

Step(e) ==
  CASE e.ev = "reset"      -> m' = M0
    [] e.ev = "cleanup"    -> m' = [m EXCEPT !.cleanup = TRUE]
    [] m.cleanup /\ e.ev \notin {"final", "panic"} -> m' = m
    [] e.ev = "ready"      -> m' = [m EXCEPT !.ready = TRUE]
    [] e.ev = "call.begin" -> OnCallBegin(e)
    [] e.ev = "call.end"   -> OnCallEnd(e)
    [] e.ev = "ctx.cancel" -> OnCtxCancel(e)
    [] e.ev = "wr.begin"   -> OnWrBegin(e)
    [] e.ev = "wr.end"     -> OnWrEnd(e)
    [] e.ev = "rd.deliver" -> OnDeliver(e)
    [] e.ev = "wr.stall"   -> m' = [m EXCEPT !.usable = FALSE, !.stalled = @ \cup {e.w}]
    [] e.ev = "rd.inject"  -> m' = [m EXCEPT !.rdDown = TRUE, !.usable = FALSE]
    [] e.ev = "h.start"    -> OnHStart(e)
    [] e.ev = "h.ctxdone"  -> OnHCtxDone(e)
    [] e.ev = "h.end"      -> OnHEnd(e)
    [] e.ev = "close.begin" -> m' = [m EXCEPT !.closeSeq = IF @ = 0 THEN e.seq ELSE @, !.usable = FALSE, !.closeB = @ \cup {e.c}]
    [] e.ev = "close.end"  -> m' = [m EXCEPT !.term = TRUE, !.closeE = @ \cup {e.c}]
    [] e.ev = "wait.begin" -> m' = [m EXCEPT !.waitB = @ \cup {e.w}]
    [] e.ev = "wait.end"   -> m' = [m EXCEPT !.term = TRUE, !.waitE = @ \cup {e.w}]
    \* a request the read loop takes off the transport after Close's critical section has run is a new request
    [] e.ev = "rd.read"    -> m' = IF e.kind \in {"call", "notif", "init"} /\ e.r \in DOMAIN m.reqs
                                   THEN [m EXCEPT !.reqs = Put(m.reqs, e.r, [Req(e.r) EXCEPT !.afterClose = m.closingCS])] ELSE m
    [] e.ev = "cs"         -> /\ m' = [m EXCEPT !.term = @ \/ (e.s.done /\ m.ready), !.closingCS = @ \/ (e.s.closing /\ m.ready),
                                                !.lastQ = e.s.queue]
                              \* once Close has taken effect nothing more is put on the handler queue (what is already queued is still handled)
                              /\ Check(l, "C05.NothingEnqueuedAfterClose", (m.ready /\ m.closingCS) => e.s.queue <= m.lastQ)
    [] e.ev = "tr.close"   -> OnTrClose(e)
    [] e.ev = "notify.end" -> OnNotifyEnd(e)
    [] e.ev = "step"       -> OnStep(e)
    [] e.ev = "quiesce1"   -> OnQuiesce1(e)
    [] e.ev = "final"      -> OnFinal(e)
    \* a panic inside the SDK: a call completed twice, a count went negative, ... - every connection property excludes it
    [] e.ev = "panic"      -> m' = m /\ Fail(l, "C01.NoPanic") /\ Fail(l, "C02.NoPanic") /\ Fail(l, "C03.NoPanic")
                                     /\ Fail(l, "C04.NoPanic") /\ Fail(l, "C05.NoPanic")
    [] e.ev = "callbad.begin" -> m' = [m EXCEPT !.badB = @ \cup {e.k}]
    [] e.ev = "callbad.end" -> /\ m' = [m EXCEPT !.badE = @ \cup {e.k}]
                               /\ Check(l, "C01.BadParamsCallFails", e.err)
    [] e.ev = "setup.error" -> m' = m /\ Fail(l, "X.Setup")
    [] OTHER               -> m' = m

MNext == /\ l <= NLines /\ l' = l + 1
         /\ Step(TraceLog[l])
MSpec == MInit /\ [][MNext]_mvars
MMark == MarkAt(l)
MAccepted == Accepted
=============================================================================
