SPECIFICATION Spec
CONSTANTS
  MaxLen = 0
  AlphaSel = "core"
VIEW WitView
INVARIANT NotAllSeen
CHECK_DEADLOCK FALSE
