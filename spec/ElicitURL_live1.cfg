SPECIFICATION FairSpec
CONSTANTS
  Unknown = "u"
  MaxLen = 2
  Calls = {1}
  HResults = {"accept", "decline", "cancel", "herr"}
  Ids = {"x", "y"}
  MaxSpur = 2
  Handlers = {TRUE, FALSE}
  AllowCancel = TRUE
  DeclineNoCompl = FALSE
  TrackOwed = TRUE
  ListsOf <- ListsLive
  KindsOf <- AllKinds
INVARIANTS Safety U5_CompletionReachesWaiter
PROPERTIES U6_Returns
CHECK_DEADLOCK FALSE
