---------------------------- MODULE SSELegacyMon ----------------------------
(* Property monitor of X02, SERVER side, evaluated by TLC over observations   *)
(* recorded from a real mcp.SSEHandler + mcp.Server (direct = FALSE) or a     *)
(* bare mcp.SSEServerTransport whose Connection is driven by hand (direct =   *)
(* TRUE).  It knows nothing about the handler's table or the transport's      *)
(* queue: every line is a cumulative snapshot of what is visible from outside *)
(* after the SDK has settled, and the clauses S1..S8 of SSELegacy.tla are     *)
(* stated on that snapshot (and on the previous one, for "never retracted").  *)
(*                                                                            *)
(* Lines (every field on every line):                                         *)
(*  reset trace direct                                                        *)
(*  step  n op a1 a2 a3 applied                                               *)
(*        posts [p tgt kind gated ph status iss fin panic]   every POST so far *)
(*              tgt: slot | 0 no sessionid | -1 an id never issued            *)
(*              iss/fin: step at which it was issued / its answer was seen    *)
(*        sess  [s status ctype fresh idlen got out sres sstep rds intab      *)
(*               ended listed disc closeiss closeret endstep busy late]       *)
(*              got: messages the server side received, in order;             *)
(*              out: events of the GET stream [name cls x]: endpoint own|     *)
(*              foreign|bad slot ; message r <request id> | n <slot*100+k> |  *)
(*              other; sres/sstep: results and steps of server-initiated      *)
(*              Writes; rds: results of Reads (direct); intab: the handler    *)
(*              still routes to the id (probe); ended: the GET's ServeHTTP    *)
(*              has returned; listed: in Server.Sessions(); disc / closeiss / *)
(*              closeret / endstep: steps of client disconnect, server Close  *)
(*              issued / returned, GET seen ended (0 = not); busy: slow       *)
(*              handlers running; late: writes to the ResponseWriter after    *)
(*              ServeHTTP returned                                            *)
(*        refused  statuses of GETs issued while getServer returns nil        *)
(*        panic leak                                                          *)
EXTENDS VerifTrace, FiniteSets

VARIABLES l, prev
mvars == <<l, prev>>

BadKinds == {"badjson", "badreq", "ctype"}
SeqRange(f) == {f[i] : i \in DOMAIN f}
Idx(seq, x) == CHOOSE i \in DOMAIN seq : seq[i] = x
NoDup(seq) == \A i, j \in DOMAIN seq : i # j => seq[i] # seq[j]
IsPrefix(a, b) == Len(a) <= Len(b) /\ \A i \in DOMAIN a : a[i] = b[i]
PostOf(e, p) == e.posts[p]                 \* posts are numbered in order of issue
HasPost(e, p) == p \in DOMAIN e.posts
NoteIdx(x) == {i \in DOMAIN x.out : x.out[i].name = "message" /\ x.out[i].cls = "n"}

SessChecks(e, x) ==
  LET mine == {p \in DOMAIN e.posts : e.posts[p].tgt = x.s}
      accepted == {p \in mine : e.posts[p].ph = "done" /\ e.posts[p].status = 202}
      serving == x.disc = 0 /\ x.closeiss = 0 /\ ~x.ended
  IN
  \* S1
  /\ Check(l, "S1.EndpointFirst", x.status = 200 =>
        /\ Len(x.out) >= 1 /\ x.out[1].name = "endpoint" /\ x.out[1].cls = "own"
        /\ \A i \in DOMAIN x.out : i > 1 => x.out[i].name # "endpoint")
  /\ Check(l, "S1.FreshId", x.status = 200 => x.fresh)
  /\ Check(l, "Drift.EventStream", x.status = 200 /\ (e.direct \/ x.ctype = "text/event-stream") /\ (e.direct \/ x.idlen >= 16))
  /\ Check(l, "Drift.UnknownEvent", \A i \in DOMAIN x.out : x.out[i].cls # "other")
  \* S2
  /\ Check(l, "S2.Routing", \A p \in SeqRange(x.got) : HasPost(e, p) /\ e.posts[p].tgt = x.s)
  /\ Check(l, "S2.Routing", \A i \in DOMAIN x.out :
        (x.out[i].name = "message" /\ x.out[i].cls = "r") => (HasPost(e, x.out[i].x) /\ e.posts[x.out[i].x].tgt = x.s))
  /\ Check(l, "S2.Routing", \A i \in NoteIdx(x) : x.out[i].x \div 100 = x.s)
  \* S3
  /\ Check(l, "S3.AtMostOnce", NoDup(x.got) /\ NoDup(x.out))
  /\ Check(l, "S3.DeliveredOnlyIfAccepted", \A p \in SeqRange(x.got) :
        HasPost(e, p) => (e.posts[p].ph = "body" \/ e.posts[p].status = 202))
  /\ Check(l, "S3.WriteResult", \A k \in DOMAIN x.sres :
        x.sres[k] <=> (\E i \in NoteIdx(x) : x.out[i].x = x.s * 100 + k))
  /\ Check(l, "S3.WriteResult", \A i \in NoteIdx(x) : (x.out[i].x % 100) \in DOMAIN x.sres)
  \* S4
  /\ Check(l, "S4.Order", \A p1, p2 \in SeqRange(x.got) :
        (HasPost(e, p1) /\ HasPost(e, p2) /\ e.posts[p1].fin # 0 /\ e.posts[p1].fin < e.posts[p2].iss)
          => Idx(x.got, p1) < Idx(x.got, p2))
  /\ Check(l, "S4.Order", \A i, j \in NoteIdx(x) : i < j => x.out[i].x < x.out[j].x)
  \* S6 (SSEHandler + Server: the read loop is the SDK's; at a settled step everything accepted by a
  \* session that is being served has been read)
  /\ Check(l, "S6.Accepted", (~e.direct /\ serving) => accepted \subseteq SeqRange(x.got))
  \* S7
  /\ Check(l, "S7.ClosedRefuses", \A p \in mine :
        (e.posts[p].ph = "done" /\ x.closeret # 0 /\ x.closeret < e.posts[p].iss) => e.posts[p].status >= 400)
  /\ Check(l, "S7.WriteFailsAfterClose", \A k \in DOMAIN x.sres :
        ((x.closeret # 0 /\ x.closeret < x.sstep[k]) \/ (x.endstep # 0 /\ x.endstep < x.sstep[k])) => ~x.sres[k])
  /\ Check(l, "S7.NoWriteAfterExit", x.late = 0)
  \* S5 / S7: a session whose GET had ended before the POST began
  /\ Check(l, "S5.GoneRefused", \A p \in mine :
        (e.posts[p].ph = "done" /\ x.endstep # 0 /\ x.endstep < e.posts[p].iss)
          => (e.posts[p].status \in 400..499 /\ p \notin SeqRange(x.got)))
  \* S8
  /\ Check(l, "S8.NoLeak", x.ended => (~x.intab /\ ~x.listed))
  /\ Check(l, "S8.NoLeak", (~e.direct /\ (x.disc # 0 \/ x.closeiss # 0) /\ x.busy = 0) => x.ended)
  /\ Check(l, "S8.CloseReturns", (~e.direct /\ x.closeiss # 0 /\ x.busy = 0) => x.closeret # 0)

PrevChecks(e, x) ==
  x.s \in DOMAIN prev.sess =>
    LET y == prev.sess[x.s] IN
    /\ Check(l, "S3.NeverRetracted", IsPrefix(y.got, x.got) /\ IsPrefix(y.out, x.out))
    /\ Check(l, "S7.NoWriteAfterClose", (y.closeret # 0 \/ y.ended) => x.out = y.out)
    /\ Check(l, "S8.NoLeak", y.ended => x.ended)
    \* bare transport: a Read on an open session that holds an accepted, undelivered message returns it
    /\ Check(l, "S6.Accepted",
         (e.direct /\ e.op = "Read" /\ e.applied /\ e.a1 = x.s /\ y.closeiss = 0 /\
          \E p \in DOMAIN prev.posts : prev.posts[p].tgt = x.s /\ prev.posts[p].ph = "done" /\
                                        prev.posts[p].status = 202 /\ p \notin SeqRange(y.got))
           => (Len(x.got) = Len(y.got) + 1 /\ Len(x.rds) = Len(y.rds) + 1 /\ x.rds[Len(x.rds)] = "m"))

Step(e) ==
  /\ Check(l, "NoPanic", e.panic = "" /\ \A p \in DOMAIN e.posts : e.posts[p].panic = "")
  /\ Check(l, "S8.NoGoroutineLeft", e.leak = "")
  \* S5
  /\ \A p \in DOMAIN e.posts : e.posts[p].ph = "done" =>
       /\ Check(l, "S5.Refusal", (e.posts[p].tgt \in {0, -1} \/ e.posts[p].kind \in BadKinds) => e.posts[p].status \in 400..499)
       /\ Check(l, "S5.Refusal", e.posts[p].status # 202 => \A i \in DOMAIN e.sess : p \notin SeqRange(e.sess[i].got))
       /\ Check(l, "Drift.Status", e.posts[p].status \in {202, 400, 404, 415})
  /\ Check(l, "S5.NilServer", \A i \in DOMAIN e.refused : e.refused[i] \in 400..499)
  \* S2/S3 across sessions
  /\ Check(l, "S3.AtMostOnce", \A i, j \in DOMAIN e.sess : i # j => SeqRange(e.sess[i].got) \cap SeqRange(e.sess[j].got) = {})
  /\ \A i \in DOMAIN e.sess : SessChecks(e, e.sess[i]) /\ PrevChecks(e, e.sess[i])
  \* S8, end of the scenario: every debt of the environment is paid
  /\ Check(l, "S8.NoLeak", e.op = "Drain" =>
        /\ \A p \in DOMAIN e.posts : e.posts[p].ph = "done"
        /\ \A i \in DOMAIN e.sess : ~e.direct => (e.sess[i].ended /\ ~e.sess[i].intab /\ ~e.sess[i].listed))
  /\ prev' = e

MInit == l = 1 /\ prev = [sess |-> <<>>, posts |-> <<>>] /\ MarkInit
MNext == /\ l <= NLines
         /\ l' = l + 1
         /\ LET e == TraceLog[l] IN
              IF e.ev = "reset" THEN prev' = [sess |-> <<>>, posts |-> <<>>] ELSE Step(e)
MSpec == MInit /\ [][MNext]_mvars
MMark == MarkAt(l)
MAccepted == Accepted
=============================================================================
