SPECIFICATION Spec
INVARIANTS OnlySafeURLs UsedOnlyIfMatching PKCERequired NoScriptSchemes ExchangeOnlyIfStateAndIss PreregBoundToIssuer TokenOnlyIfChecksPassed ResultKnown
PROPERTY NoTokenAfterFailure
CHECK_DEADLOCK FALSE
