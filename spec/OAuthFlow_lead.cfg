SPECIFICATION Spec
INVARIANTS OnlySafeURLs UsedOnlyIfMatching PKCERequired NoScriptSchemes ExchangeOnlyIfStateAndIss PreregBoundToIssuer NoFallbackAfterRejected TokenOnlyIfChecksPassed ResultKnown
PROPERTY NoTokenAfterFailure
CHECK_DEADLOCK FALSE
