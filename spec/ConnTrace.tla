------------------------------ MODULE ConnTrace ------------------------------
(* Strict trace specification for jsonrpc2.Connection: every line recorded by *)
(* the scenario harness between "ready" and "cleanup" must be explained by    *)
(* Conn.tla.  A `cs` line (logged by the verif hook under the state lock) is  *)
(* one critical-section action of the function named by the hook whose post   *)
(* state projects onto the logged snapshot; seam lines (transport, handlers,  *)
(* application) are the corresponding environment actions; internal steps that*)
(* are not critical sections are silent.  Design invariants of Conn are       *)
(* evaluated on every state of every explained trace.                         *)
EXTENDS Conn, VerifTrace

VARIABLES l, on,     \* on: between "ready" and "cleanup" of the current trace
          owed       \* observations logged by OTHER goroutines that may overtake the `cs` line of the critical section
                     \* that caused them (the hook logs at the end of the section, the effect - a closed channel, a
                     \* cancelled context - is visible inside it); they are settled at the next quiescence marker
tvars == <<vars, l, on, owed>>

\* (s<i>: calls whose wire id is the JSON string "<i>"; y<i> the cancellation notice naming it)
TraceCancelOf == [x1 |-> "r1", x2 |-> "r2", x3 |-> "r3", x4 |-> "r4", y1 |-> "s1", y2 |-> "s2"]
TraceDupOf == [d1 |-> "r1", d2 |-> "r2"]
CancelOfInv(r) == CHOOSE c \in DOMAIN CancelOf : CancelOf[c] = r
HasCancel(r) == \E c \in DOMAIN CancelOf : CancelOf[c] = r

ResetAll ==
  /\ st' = [closing |-> FALSE, reading |-> TRUE, readErr |-> FALSE, writeErr |-> FALSE,
            closerTaken |-> FALSE, done |-> FALSE, outgoing |-> {}, outNotif |-> 0,
            incoming |-> 0, inById |-> {}, queue |-> <<>>, handlerRunning |-> FALSE]
  /\ cpc' = [k \in Callers |-> "idle"] /\ ready' = [k \in Callers |-> FALSE]
  /\ outcome' = [k \in Callers |-> "none"] /\ ctxDone' = [k \in Callers |-> FALSE]
  /\ sent' = {} /\ npc' = [k \in Callers |-> "none"]
  /\ rdpc' = "read" /\ rdarg' = "none" /\ unread' = Reqs
  /\ dpc' = "off" /\ darg' = "none"
  /\ hpc' = [r \in Reqs |-> "none"] /\ released' = [r \in Reqs |-> FALSE]
  /\ hctx' = [r \in Reqs |-> "live"] /\ rp' = [r \in Reqs |-> "none"] /\ isnotif' = {}
  /\ canpc' = [r \in Reqs |-> "none"]
  /\ clpc' = [c \in Closers |-> "idle"] /\ wtpc' = [w \in Waiters |-> "idle"]
  /\ transportClosed' = FALSE /\ wire' = <<>>

Same == UNCHANGED vars

Snap(e) == Proj(st') = [closing |-> e.s.closing, reading |-> e.s.reading, readErr |-> e.s.readErr, writeErr |-> e.s.writeErr,
                        closerNil |-> e.s.closerNil, done |-> e.s.done, out |-> e.s.out, outNotif |-> e.s.outNotif,
                        incoming |-> e.s.incoming, inById |-> e.s.inById, queue |-> e.s.queue,
                        handlerRunning |-> e.s.handlerRunning]

\* critical sections, grouped by the function that called updateInFlight
CSAction(fn) ==
  CASE fn = "(*Connection).Call" -> \E k \in Callers : CallRegister(k)
    [] fn = "(*Connection).write" -> \/ \E k \in Callers : CallWCheck(k) \/ CallWFail(k) \/ NWCheck(k) \/ NWFail(k)
                                     \/ \E r \in Reqs : RpWCheck(r) \/ RpWFail(r)
    [] fn = "(*Connection).Retire" -> \E k \in Callers : CallRetireW(k) \/ CallRetireC(k)
    [] fn = "(*Connection).Notify" -> \E k \in Callers : NAdmit(k)
    [] fn = "(*Connection).Notify.func1" -> \E k \in Callers : NDone(k)
    [] fn = "(*Connection).acceptRequest" -> \E r \in Reqs : Accept(r) \/ Enqueue(r)
    [] fn = "(*Connection).readIncoming" -> \/ \E k \in Callers : DeliverResp(k)
                                            \/ DeliverUnknown \/ ReaderExit
    [] fn = "(*Connection).handleAsync" -> Dequeue
    [] fn = "(*Connection).processResult" -> \E r \in Reqs : RpUnindex(r) \/ RpDec(r)
    [] fn = "(*Connection).Cancel" -> \E c \in DOMAIN CancelOf : CancelLookup(c)
    [] fn = "(*Connection).Close" -> \E c \in Closers : SetClosing(c)
    [] fn = "(*Connection).wait" -> (\E c \in Closers : CloseReturn(c)) \/ (\E w \in Waiters : WaitReturn(w))
    [] OTHER -> FALSE

WOut(o) == IF o = "ctx" THEN "timeout" ELSE o

Consume(e) ==
  CASE e.ev = "cs" -> CSAction(e.fn) /\ Snap(e)
    [] e.ev = "call.begin" -> CallStart(e.k)
    [] e.ev = "ctx.cancel" -> IF ENABLED CtxCancel(e.k) THEN CtxCancel(e.k) ELSE Same
    [] e.ev = "call.end" -> Same
    [] e.ev = "wr.end" ->
         (CASE e.kind = "call" /\ e.ref \in Callers -> CallWriterReturn(e.ref, e.outcome)
            [] e.kind = "notif" /\ e.method = "notifications/cancelled" ->
                 (IF e.ref \in Callers THEN NWriterReturn(e.ref, WOut(e.outcome))
                  ELSE \E k \in Callers : NWriterReturn(k, WOut(e.outcome)))
            [] e.kind = "resp" ->
                 (IF e.ref \in Reqs THEN \E r \in Reqs : WireId(r) = WireId(e.ref) /\ RpWriterReturn(r, e.outcome)
                  ELSE \E r \in Reqs : RpWriterReturn(r, e.outcome))
            [] OTHER -> FALSE)
    [] e.ev = "rd.read" ->
         (CASE e.kind \in {"call", "notif"} -> ReadReq(e.r)
            [] e.kind = "cancel" -> HasCancel(e.r) /\ ReadReq(CancelOfInv(e.r))
            [] e.kind = "resp" -> IF e.k \in Callers /\ e.k \in sent THEN ReadResp(e.k) ELSE ReadRespUnknown)
    [] e.ev = "rd.err" -> ReadEOF
    [] e.ev = "h.start" -> hpc[e.r] = "run" /\ Same
    [] e.ev = "h.ctxdone" -> Same
    [] e.ev = "h.end" -> HReturn(e.r)
    [] e.ev = "close.begin" -> CloseStart(e.c)
    [] e.ev = "close.end" -> clpc[e.c] = "done" /\ Same
    [] e.ev = "wait.begin" -> WaitStart(e.w)
    [] e.ev = "wait.end" -> wtpc[e.w] = "done" /\ Same
    [] OTHER -> Same     \* markers and lines without a model counterpart (wr.begin, tr.close, step, ...)

CallEndOK(e) ==
  /\ cpc[e.k] = "done"
  /\ (e.kind \in {"result", "wireerror"} /\ (e.kind = "result" \/ e.code = -32050)) => outcome[e.k] = "response"
  /\ e.kind = "closed" => outcome[e.k] \in {"closed", "writeerr", "readerr"}
  /\ e.kind = "ctx" => ctxDone[e.k]
Settled(o) == IF o.ev = "call.end" THEN CallEndOK(o) ELSE hctx[o.r] \in {"cancelled"} \/ rp[o.r] = "done"
Owe(e) == IF e.ev = "call.end" THEN [ev |-> "call.end", k |-> e.k, r |-> "", kind |-> e.kind, code |-> e.code]
          ELSE [ev |-> "h.ctxdone", k |-> "", r |-> e.r, kind |-> "", code |-> 0]
IsMarker(e) == (e.ev = "step" /\ e.quiet) \/ e.ev \in {"drain1", "quiesce1", "cleanup"}

\* internal steps of the SDK that are not critical sections
Silent ==
  \/ \E k \in Callers : CallAwaitReady(k) \/ CallCancelPath(k)
  \/ \E r \in Reqs : Preempt(r) \/ HRpDone(r)
  \/ \E c \in DOMAIN CancelOf : CancelCtx(c) \/ HReturn(c)   \* the SDK's own no-op handler of notifications/cancelled
  \/ ReaderRpDone \/ DispCheck \/ DispRpDone \/ DispResume

TInit == Init /\ l = 1 /\ on = FALSE /\ owed = {} /\ MarkInit
TNext ==
  \/ /\ l <= NLines /\ l' = l + 1
     /\ LET e == TraceLog[l] IN
          CASE e.ev = "reset"   -> ResetAll /\ on' = FALSE /\ owed' = {}
            [] e.ev = "ready"   -> Same /\ on' = TRUE /\ owed' = {}
            [] ~on              -> Same /\ on' = on /\ owed' = owed
            \* at a quiescence marker everything observed so far must be explained by the state reached
            [] IsMarker(e)      -> Same /\ on' = (e.ev # "cleanup") /\ (\A o \in owed : Settled(o)) /\ owed' = {}
            [] e.ev \in {"call.end", "h.ctxdone"} -> Same /\ on' = on /\ owed' = owed \cup {Owe(e)}
            [] OTHER            -> Consume(e) /\ on' = on /\ owed' = owed
  \/ (on /\ Silent /\ UNCHANGED <<l, on, owed>>)
TSpec == TInit /\ [][TNext]_tvars
TMark == MarkAt(l)
TAccepted == Accepted
=============================================================================
