---------------------------- MODULE OAuthFlowMC ----------------------------
(* Configurations of OAuthFlow: exhaustive design check (all variant sets),  *)
(* the lead configuration, and a reduced generation configuration whose      *)
(* complete set of terminal behaviours is replayed in the thorough tier.      *)
EXTENDS OAuthFlow

\* reduced variant sets for the "all terminal behaviours" configuration
GenChallenges == {"none", "hdr_https", "hdr_http"}
GenMcpURLs == {"https", "http"}
GenPRMHttpFail == {"404"}
GenPRMDocs == {"good", "good_path", "res_other", "as_js", "no_as"}
GenASM4xx == {"404"}
GenASMHttpFail == {"500"}
GenASMFlagDocs == {"good"}
GenASMDocs == {"good", "iss_other", "iss_port", "no_pkce", "tok_http", "auth_jslo"}
GenASMRest == {"404", "good"}
GenRegConfigs == {"pre", "dcr", "cimd_pre"}
GenPreRels == {"unset", "exact", "other", "port"}
GenDCROutcomes == {"201", "400"}
GenAuthStates == {"equal", "different"}
GenAuthIsses == {"absent", "equal", "different", "port"}
GenTokenOutcomes == {"good", "400"}

\* The ghost variables are never read by an action, so states that differ only in them have the
\* same labelled successors: the cover/generation graphs are dumped modulo the ghosts.
\* (`cause` is kept: the behaviours "fatal outcome X at location i, then outcomes Y at the later locations" are then
\* distinct edges of the graph for every X, i and Y, and the edge cover replays each of them)
CoverView == <<pc, ch, mcp, plist, idx, srv, asm, client, pre, ares, tokq, result, ts, cause>>

\* witness configuration (OAuthFlow_wit.cfg): discovery that goes on after a fatal outcome
WitASMFatalStops == FALSE
\* witness configuration (OAuthFlow_wit2.cfg): checkURLScheme only on the fields checkHTTPSOrLoopback does not look at
Wit2ASMSchemeChecked == {"other"}
Wit2Challenges == {"hdr_https"}
Wit2McpURLs == {"https"}
Wit2PRMOutcomes == {"good"}
Wit2RegConfigs == {"dcr"}
Wit2AuthStates == {"equal"}
Wit2AuthIsses == {"absent"}
Wit2TokenOutcomes == {"good"}
=============================================================================
