CONSTANT HistLen = 3
CONSTANT FullCross = FALSE
