SPECIFICATION Spec
CONSTANTS
  Sessions = {"L1", "M1", "M2"}
  Legacy = {"L1"}
  InitOn = {}
  InitSub = {}
  Kinds = {"tools", "prompts"}
  NotifOf <- NotifStd
  Uris = {"u1"}
  Want <- WantM2
  CapOff = {}
  CapMode <- ModeInferred
  InitSize <- Size3
  MaxSize = 3
  Dirs = {"mod"}
  SendGate = "configured"
  TTLPos = FALSE
  D = 0
  MaxTime = 0
  MaxChanges = 2
  MaxUpdates = 1
  MaxCalls = 0
  NPages = 1
  ListenOwns = TRUE
  ResubRace = TRUE
  GenCheck = TRUE
  ColdBump = TRUE
  ModernUnsub = FALSE
  ForeignUnsub = TRUE
  Listeners = {}
  MaxListens = 0
  FailUndo = TRUE
  Stepwise = FALSE
  Gates = FALSE
  GateNames = {"inv", "usr", "put"}
  ClientFirst = TRUE
INVARIANTS TypeOK NeverLost OnlyEntitled NoneWhenDisabled UpdatedExactlySubscribers Fresh ForgottenOnClose MapsOnlySessions
CHECK_DEADLOCK FALSE
