-------------------------- MODULE ResourceAccessMon --------------------------
(* Property monitor for X07, evaluated by TLC over observations recorded from *)
(* the real mcp.Server / mcp.Client (in-memory transport) and the real file   *)
(* resource handler over a directory tree in t.TempDir().  It states what the *)
(* PROPERTIES block of ResourceAccess.tla states; equality with the code-     *)
(* shaped Expected is reported as "drift"; "model-fs" compares the file-      *)
(* system model of the specification with what the operating system says (a   *)
(* mismatch is an error of the machinery).                                    *)
(*                                                                            *)
(* Lines (dispatch on ev; table lines carry the abstract case and the real    *)
(* outcome, history lines are events in real-time order):                     *)
(*   lk    E T u ran res by            lookup table                           *)
(*   hr    via beh mime o              handler results                        *)
(*   reg   c o                         registration                           *)
(*   fs    era roots form segs o truth file handler                           *)
(*   reset                             a new server (history part)            *)
(*   mut.begin op key g / mut.end      a registry change starts / has returned*)
(*   read.begin r u                    a read is about to be sent             *)
(*   lkd                               (gated replay only; for the strict     *)
(*                                     spec) the lookup of a read happened    *)
(*   read.end r u out res inv          the read has returned: the handler tag *)
(*                                     in the contents, the handlers invoked  *)
EXTENDS VerifTrace, FiniteSets
D == INSTANCE ResourceAccessDefs

VARIABLES l,
          ex, tm,   \* the registry as far as completed changes go: name -> generation (0: not registered)
          pend,     \* the change in progress ([on |-> FALSE] if none)
          open      \* reads in flight: reader -> [u, poss, seen, noexact]
mvars == <<l, ex, tm, pend, open>>

NoPend == [on |-> FALSE, op |-> "", key |-> "", g |-> 0]
Empty == [x \in {} |-> 0]
MInit == /\ l = 1
         /\ ex = [x \in D!ExactNames |-> 0] /\ tm = [y \in D!TemplateNames |-> 0]
         /\ pend = NoPend /\ open = Empty
         /\ MarkInit

\* ---- tables
LkCase(e) == [E |-> AsSet(e.E), T |-> AsSet(e.T), u |-> e.u]
LkOut(e) == [ran |-> e.ran, res |-> e.res, by |-> e.by]
Lk(e) == /\ Check(l, "P1.Resolution", D!LookupHolds(LkCase(e), LkOut(e)))
         /\ Check(l, "drift", LkOut(e) = D!LookupExpected(LkCase(e)))

HrCase(e) == [via |-> e.via, beh |-> e.beh, mime |-> e.mime]
Hr(e) == /\ Check(l, "P4.Results", D!ResultHolds(HrCase(e), e.o))
         /\ Check(l, "drift", e.o = D!ResultExpected(HrCase(e)))

Reg(e) == /\ Check(l, "P5.Registration", D!RegHolds(e.c, e.o))
          /\ Check(l, "drift", e.o = D!RegExpected(e.c))

FsCase(e) == [era |-> e.era, roots |-> e.roots, form |-> e.form, segs |-> e.segs]
Fs(e) ==
  LET c == FsCase(e)
      p == D!Phys(e.segs) IN
  /\ Check(l, "model-fs", IF e.truth.k = "file" THEN p.k = "file" /\ p.tag = e.truth.tag ELSE p.k # "file")
  /\ Check(l, "P2.NeverOutside", D!FileNeverOutside(c, e.o))
  /\ Check(l, "P2.RightFile", D!FileRightFile(c, e.o))
  /\ Check(l, "P2.FileSchemeOnly", D!FileSchemeOnly(c, e.o))
  /\ Check(l, "P2.Serves", D!FileServes(c, e.o))
  /\ Check(l, "P3.Roots", D!FileRootsHonoured(c, e.o))
  /\ Check(l, "drift", e.o = D!FileExpected(c))

\* ---- histories
Apply(m) ==
  CASE m.op = "addres"  -> <<[ex EXCEPT ![m.key] = m.g], tm>>
    [] m.op = "rmres"   -> <<[ex EXCEPT ![m.key] = 0], tm>>
    [] m.op = "addtmpl" -> <<ex, [tm EXCEPT ![m.key] = m.g]>>
    [] m.op = "rmtmpl"  -> <<ex, [tm EXCEPT ![m.key] = 0]>>

Reset == /\ ex' = [x \in D!ExactNames |-> 0] /\ tm' = [y \in D!TemplateNames |-> 0]
         /\ pend' = NoPend /\ open' = Empty

\* every read in flight may see the registry as it will be after the change
MutBegin(e) ==
  LET m == [on |-> TRUE, op |-> e.op, key |-> e.key, g |-> e.g]
      a == Apply(m) IN
  /\ pend' = m
  /\ open' = [r \in DOMAIN open |-> [open[r] EXCEPT !.poss = @ \cup D!AllowedG(a[1], a[2], open[r].u),
                                                   !.seen = @ \cup D!HandlersG(a[1], a[2]),
                                                   !.noexact = @ \/ D!NoExactG(a[1], open[r].u)]]
  /\ UNCHANGED <<ex, tm>>

MutEnd == /\ IF pend.on THEN (ex' = Apply(pend)[1] /\ tm' = Apply(pend)[2]) ELSE UNCHANGED <<ex, tm>>
          /\ pend' = NoPend
          /\ UNCHANGED open

ReadBegin(e) ==
  LET a == IF pend.on THEN Apply(pend) ELSE <<ex, tm>>
      rec == [u |-> e.u,
              poss |-> D!AllowedG(ex, tm, e.u) \cup D!AllowedG(a[1], a[2], e.u),
              seen |-> D!HandlersG(ex, tm) \cup D!HandlersG(a[1], a[2]),
              noexact |-> D!NoExactG(ex, e.u) \/ D!NoExactG(a[1], e.u)] IN
  /\ open' = [r \in DOMAIN open \cup {e.r} |-> IF r = e.r THEN rec ELSE open[r]]
  /\ UNCHANGED <<ex, tm, pend>>

ReadEnd(e) ==
  LET known == e.r \in DOMAIN open
      w == open[e.r]
      out == IF e.res = "ok" THEN e.out ELSE D!NotFoundTag IN
  /\ Check(l, "P6.ReadEnds", e.res \in {"ok", "notfound"})                        \* no hang, no other failure
  /\ (IF known /\ e.res \in {"ok", "notfound"}
      THEN /\ Check(l, "P6.Linearizable", out \in w.poss)
           /\ Check(l, "P6.NeverServedByUnregistered", out # D!NotFoundTag => out \in w.seen)
           /\ Check(l, "P6.ExactBeatsTemplates", out.k = "T" => (w.noexact /\ D!Match(out.key, w.u)))
           /\ Check(l, "P1.SingleHandler", e.inv = IF out = D!NotFoundTag THEN <<>> ELSE <<out>>)
      ELSE TRUE)
  /\ open' = [r \in DOMAIN open \ {e.r} |-> open[r]]
  /\ UNCHANGED <<ex, tm, pend>>

Skip == UNCHANGED <<ex, tm, pend, open>>

MNext == /\ l <= NLines
         /\ l' = l + 1
         /\ LET e == TraceLog[l] IN
              CASE e.ev = "lk"  -> Lk(e) /\ Skip
                [] e.ev = "hr"  -> Hr(e) /\ Skip
                [] e.ev = "reg" -> Reg(e) /\ Skip
                [] e.ev = "fs"  -> Fs(e) /\ Skip
                [] e.ev = "reset" -> Reset
                [] e.ev = "mut.begin" -> MutBegin(e)
                [] e.ev = "mut.end" -> MutEnd
                [] e.ev = "read.begin" -> ReadBegin(e)
                [] e.ev = "read.end" -> ReadEnd(e)
                [] OTHER -> Skip

MSpec == MInit /\ [][MNext]_mvars
MMark == MarkAt(l)
MAccepted == Accepted
=============================================================================
