----------------------------- MODULE CmdCloseMon -----------------------------
(* Monitor for X04, evaluated by TLC over obs.ndjson recorded from REAL child  *)
(* processes closed by the REAL CommandTransport / ioConn / ClientSession      *)
(* (harness/mcp/x04_cmd_test.go).  One line per case:                          *)
(*   cls      the child class (CmdCloseMC!AllClasses), td (ms), probe, auto    *)
(*   dur      ms from the Close call to its return                             *)
(*   err      nil | exit (an exec.ExitError) | done (os.ErrProcessDone) |      *)
(*            unresponsive | stdin | other                                     *)
(*   st       the wait status: exit<N> sigterm sigkill none                    *)
(*   after    /proc state of the pid right after Close returned                *)
(*   ceof cterm cexit cexitwhy hist   what the child recorded (ms after the    *)
(*            Close call; -1 = not recorded), in the child's own order         *)
(*   err2 dur2 early2 after2 panic late   the repeated Close                   *)
(*   model    the outcomes CmdClose.tla reaches for this class (TLC export)    *)
(*                                                                             *)
(* VERDICT: P1..P5 of CmdClose.tla restated over observations only.  Real time *)
(* cannot be avoided here, so every predicate is an ORDER, a LOWER bound (a    *)
(* loaded machine can only make things later, and the lower bounds compare     *)
(* stamps of one system-wide monotonic clock) or an upper bound with at least  *)
(* td/2 of slack; the runner re-runs a failing case alone and reports it only  *)
(* if it fails again.  For probe lines (td of a few ms, aimed at the boundary) *)
(* only the untimed predicates are evaluated.                                  *)
(* DRIFT: the observed (err, st, hist, err2) is not among the model's outcomes *)
(* for the class - never a violation.                                          *)
EXTENDS VerifTrace, FiniteSets

VARIABLE l

Eps == 5
PreSt(p) == CASE p = "exit0" -> "exit0" [] p = "crash" -> "exit3" [] p = "sigkill" -> "sigkill" [] OTHER -> "none"
Max(a, b) == IF a > b THEN a ELSE b
Running(e) == e.cls.pre = "running"
Timed(e) == ~e.probe /\ ~e.auto

\* P1  SIGTERM only after td without an exit; SIGKILL only after SIGTERM and a further td
TermNotEarly(e) == /\ (e.cterm >= 0 => e.cterm >= e.td - Eps)
                   /\ ((e.st = "sigterm" /\ Running(e)) => e.dur >= e.td - Eps)
KillNotEarly(e) == (e.st = "sigkill" /\ Running(e)) => e.dur >= 2 * e.td - Eps
\* a child whose default SIGTERM action is in place dies of SIGTERM: killed with SIGKILL means SIGTERM was skipped;
\* a child with a handler records the SIGTERM it got before it is killed
KillAfterTerm(e) == (e.st = "sigkill" /\ Running(e)) => (e.cls.term # "default" /\ e.cterm >= 0)
\* never signalled when it exits by itself well within td (or had exited before)
NoNeedlessTerm(e) == (e.cexitwhy = "eof" /\ e.cexit >= 0 /\ 2 * e.cexit <= e.td) => (e.cterm < 0 /\ e.st \notin {"sigterm", "sigkill"})
\* a child that had exited / crashed / been killed before Close: its own status comes back, at once, nothing is sent
PreExited(e) == ~Running(e) => (e.cterm < 0 /\ e.st = PreSt(e.cls.pre) /\ 4 * e.dur <= 3 * e.td)
NoNeedlessKill(e) == (e.cexit >= 0 /\ e.cterm >= 0 /\ 8 * (e.cexit - e.cterm) <= 5 * e.td) => e.st # "sigkill"
\* P2
Bounded(e) == e.dur <= 5 * e.td
Responsive(e) == e.err # "unresponsive"
Prompt(e) == e.cexit >= 0 => 4 * (e.dur - Max(e.cexit, 0)) <= 3 * e.td
\* P3
Reaped(e) == (e.err \in {"nil", "exit", "done"} => e.after = "gone") /\ (e.err # "unresponsive" => e.late = 0)
\* ("unresponsive" is judged by Responsive)
Faithful(e) == e.err # "unresponsive" => (e.err \in {"nil", "exit"} /\ (e.err = "nil" <=> e.st = "exit0") /\ (e.err = "exit" => e.st # "none"))
\* P4
NoPanic(e) == ~e.panic
SecondReturns(e) == e.cls.c2 # "none" => (e.err2 \notin {"hang", "none"} /\ 2 * e.dur2 <= e.td /\ ~e.early2)
SecondSame(e) == e.cls.c2 \in {"same", "conc"} => e.err2 = e.err
SecondQuiet(e) == e.cls.c2 # "none" => e.after2 = e.after
\* P1 (first step) and P5: the input stream is closed first - a child that reads its stdin (every class but the
\* single-threaded one blocked on a full stdout pipe) sees the EOF promptly and before any SIGTERM; for the server
\* kinds "sees" means that Server.Run over StdioTransport returned
Reads(e) == Running(e) /\ ~(e.cls.kind = "raw" /\ e.cls.out = "full")
StdinClosedFirst(e) == Reads(e) => (e.ceof >= 0 /\ 2 * e.ceof <= e.td /\ (e.cterm >= 0 => e.ceof <= e.cterm))
PureClean(e) == e.cls.kind = "pure" => (e.err = "nil" /\ e.st = "exit0" /\ e.cterm < 0 /\ ~e.runerr /\ 2 * e.dur <= e.td)

Boundary(e) == Running(e) /\ (e.cls.eof = "attd" \/ e.cls.term = "attd")
Matches(e, m) == m.err = e.err /\ m.st = e.st /\ m.err2 = e.err2 /\ (Boundary(e) \/ e.auto \/ m.hist = e.hist)
Drift(e) == \E i \in DOMAIN e.model : Matches(e, e.model[i])

MInit == l = 1 /\ MarkInit
MNext == /\ l <= NLines /\ l' = l + 1
         /\ LET e == TraceLog[l] IN
              /\ Check(l, "NoPanic", NoPanic(e))
              /\ Check(l, "Reaped", Reaped(e))
              /\ Check(l, "Faithful", Faithful(e))
              /\ Check(l, "SecondSame", SecondSame(e))
              /\ Check(l, "SecondQuiet", SecondQuiet(e))
              /\ Check(l, "KillAfterTerm", e.probe \/ KillAfterTerm(e))
              /\ Check(l, "Responsive", e.probe \/ Responsive(e))
              /\ Check(l, "PreExited", e.probe \/ PreExited(e))
              /\ IF Timed(e)
                 THEN /\ Check(l, "TermNotEarly", TermNotEarly(e))
                      /\ Check(l, "KillNotEarly", KillNotEarly(e))
                      /\ Check(l, "NoNeedlessTerm", NoNeedlessTerm(e))
                      /\ Check(l, "NoNeedlessKill", NoNeedlessKill(e))
                      /\ Check(l, "Bounded", Bounded(e))
                      /\ Check(l, "Prompt", Prompt(e))
                      /\ Check(l, "StdinClosedFirst", StdinClosedFirst(e))
                 ELSE TRUE
              /\ Check(l, "SecondReturns", e.probe \/ SecondReturns(e))
              /\ Check(l, "PureClean", e.probe \/ PureClean(e))
              /\ Check(l, "drift", e.probe \/ Drift(e))
MSpec == MInit /\ [][MNext]_l
MMark == MarkAt(l)
MAccepted == Accepted
=============================================================================
