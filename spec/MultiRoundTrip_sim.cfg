SPECIFICATION GenSpec
CONSTANTS
  Keys = {"a", "b", "c"}
  MaxRetries = 10
  MaxShed = 3
  MaxCalls = 2
  MaxManual = 3
  Modes = {"new", "newoff", "old", "oldoff"}
  Others = {FALSE, TRUE}
CONSTRAINT Export
INVARIANTS CoverInv
CHECK_DEADLOCK FALSE
