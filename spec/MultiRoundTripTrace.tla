------------------------- MODULE MultiRoundTripTrace -------------------------
(* Strict trace specification for extension check X01: every line recorded    *)
(* from the real client and server must be explained by the action of         *)
(* MultiRoundTrip.tla it stands for, with the logged values (what the handler *)
(* received and returned, which client handler ran for which request and how  *)
(* it ended, what went over the wire with which resultType, what the call     *)
(* returned and why); steps that leave no line (the middlewares' internal     *)
(* steps, fulfilment of roots requests by the SDK itself, requests the client *)
(* has no handler for) are inferred by TLC.  A real trace the monitor accepts *)
(* but this module rejects is DRIFT, not a violation.                         *)
EXTENDS MultiRoundTrip, VerifTrace

VARIABLE l
tvars == <<vars, l>>

Idx(q, x) == CHOOSE i \in DOMAIN q : q[i] = x
RMap(keys, kinds) == [k \in Keys |-> IF k \in AsSet(keys) THEN kinds[Idx(keys, k)] ELSE "-"]

TReset(e) ==
  /\ mode' = e.mode /\ hasE' = e.hasE /\ hasS' = e.hasS
  /\ callno' = 0 /\ other' = FALSE /\ pc' = "idle"
  /\ params' = Fresh /\ tries' = 0 /\ shed' = 0
  /\ sreq' = Fresh /\ sround' = 0 /\ res' = NoRes /\ inv' = 0 /\ first' = TRUE /\ wres' = NoWire
  /\ who' = "none" /\ fpend' = {} /\ frun' = {} /\ fdone' = NoneDone /\ orphan' = {} /\ late' = {}
  /\ manual' = 0 /\ outcome' = NoOutcome

\* what the handler received is what the specification's request carries (roots answers have no echo)
Received(e) ==
  /\ AsSet(e.keys) \subseteq Keys
  /\ \A k \in Keys :
       IF k \in AsSet(e.keys)
       THEN LET i == Idx(e.keys, k) IN
            /\ sreq.resp[k].kind = e.kinds[i]
            /\ e.kinds[i] # "roots" => (sreq.resp[k].rnd = e.rns[i] /\ e.rcalls[i] = callno /\ e.rkeys[i] = k)
       ELSE sreq.resp[k] = NoAnswer
  /\ sreq.st = e.stn

TInv(e) ==
  /\ Received(e)
  /\ AsSet(e.okeys) \subseteq Keys
  /\ SInvoke(e.out, RMap(e.okeys, e.okinds), e.ostn # 0)
  /\ inv' = e.n

TCli(e) ==
  IF e.ph = "begin"
  THEN /\ e.call = callno /\ e.n = inv /\ e.key \in Keys
       /\ res.reqs[e.key] = e.kind /\ Has(e.kind)
       /\ FBegin(e.key) \/ LBegin(e.key)
  ELSE /\ e.key \in Keys
       /\ \/ (e.call = callno /\ e.n = inv /\ FEnd(e.key, e.r))
          \/ OEnd(e.key)

Replying == SOther \/ (SPost /\ pc' = "c_got") \/ (SMw /\ pc' = "c_got") \/ (FJoin /\ pc' = "c_got")

TWire(e) ==
  CASE e.dir = "c2s" /\ e.wtype = "req" -> CSend
    [] e.dir = "s2c" /\ e.wtype = "resp" /\ e.method \notin {"elicitation/create", "sampling/createMessage", "roots/list"} ->
         /\ Replying
         /\ (wres'.k = "err") = e.iserr
         /\ (~other /\ ~e.iserr) => (wres'.res.rt = e.rt /\ (wres'.res.t = "input") = e.hasir)
    [] OTHER -> UNCHANGED vars

Returning == CPass \/ CFinal \/ CInput \/ FJoin
TRet(e) ==
  /\ Returning /\ pc' = "done"
  /\ IF e.err # "" THEN outcome'.t = "error" /\ outcome'.code = e.err
     ELSE outcome'.t = (IF e.needs THEN "needsinput" ELSE IF e.hasir THEN "rawinput" ELSE "complete")

TStep(e) ==
  CASE e.ev = "reset" -> TReset(e)
    [] e.ev = "call"  -> IF e.manual THEN AppRetry /\ callno = e.call ELSE AppCall(e.other) /\ callno' = e.call
    [] e.ev = "inv"   -> TInv(e)
    [] e.ev = "cli"   -> TCli(e)
    [] e.ev = "wire"  -> TWire(e)
    [] e.ev = "ret"   -> TRet(e)
    [] e.ev = "end"   -> UNCHANGED vars
    [] OTHER -> FALSE

\* steps that leave no line
Internal ==
  \/ SPost /\ pc' = "s_mw"
  \/ SMw /\ pc' = "fulfil"
  \/ \E k \in Keys : FBegin(k) /\ (res.reqs[k] = "roots" \/ ~Has(res.reqs[k]))
  \/ \E k \in Keys : FEnd(k, "ok") /\ res.reqs[k] = "roots"
  \/ \E k \in Keys : FSkip(k)
  \/ \E k \in Keys : FAbandon(k)
  \/ \E k \in Keys : FLate(k)
  \/ \E k \in Keys : LDrop(k)
  \/ FJoin /\ pc' \in {"c_send", "s_recv"}
  \/ CInput /\ pc' = "fulfil"

TInit == Init /\ mode = "new" /\ hasE = FALSE /\ hasS = FALSE /\ l = 1 /\ MarkInit
TNext == \/ (l <= NLines /\ Internal /\ l' = l)
         \/ (l <= NLines /\ l' = l + 1 /\ TStep(TraceLog[l]))
TSpec == TInit /\ [][TNext]_tvars
TMark == MarkAt(l)
TAccepted == Accepted
=============================================================================
