---------------------------- MODULE HttpSessMon ----------------------------
(* Property monitor for C11, evaluated by TLC over observations recorded from *)
(* a real mcp.StreamableHTTPHandler (+ auth.RequireBearerToken) driven in     *)
(* virtual time.  It knows nothing about the handler's session table: it      *)
(* tracks, from the recorded requests and responses alone, which ids were     *)
(* minted, by whom, what could have terminated them and when, and judges      *)
(* every response, every tool-handler start and every Server.Sessions()       *)
(* snapshot against the clauses of C11.                                       *)
(*                                                                            *)
(* Lines (every field present on every line):                                 *)
(*   reset  trace timeout stateless           a new handler                   *)
(*   step   op a1 a2 a3 pre t                 one harness operation;          *)
(*          issued [k m body tgt user]        requests started in this step   *)
(*          done   [k status sid fresh ..]    requests that ended in it       *)
(*          ran    [k]                        tool handlers that started      *)
(*          sess closed closeret              Server.Sessions(), sessions     *)
(*                                            whose Wait() returned, sessions *)
(*                                            whose server-side Close()       *)
(*                                            returned  (minted index; -1 =   *)
(*                                            an id that was never sent)      *)
(* tgt / sid: 0 = no Mcp-Session-Id, -1 = an id the server never issued,      *)
(* i > 0 = the i-th id the server issued.  Time is in ticks; `t` is the time  *)
(* of the step (requests are issued and settle without time passing; only     *)
(* Advance steps and `pre` move the clock).                                   *)
(*                                                                            *)
(* `store` (on every line) is the state of the EventStore the handler was      *)
(* configured with: none / mem (no store, MemoryEventStore), or the mode of a *)
(* scripted store: up, nopurge (SessionClosed and Append fail), down (Open,   *)
(* Append and SessionClosed fail); op SetStore switches it.  The clauses do   *)
(* not read it: a terminated session is dead whatever the store answers.  The *)
(* only trace of it here: a POST answered 5xx (the store could not open a     *)
(* stream) did pass the session lookup, so the session may count it as        *)
(* activity (latest possible idle deadline) or not (earliest possible one).   *)
(*                                                                            *)
(* Ties: a request issued at exactly the idle deadline of its session may be  *)
(* served or refused; every clause below is written so that it does not       *)
(* judge such a request, nor a request issued while a termination is under    *)
(* way (DELETE or server-side Close issued but not yet completed).            *)
EXTENDS VerifTrace, FiniteSets

CONSTANT MIds   \* indices of minted ids the monitor can track, e.g. 1..8

VARIABLES l,
          T, stateless,   \* configuration of the current trace
          minted,         \* indices of the ids issued so far
          owner,          \* [MIds -> user that created the session]
          idlePost,       \* [MIds -> time the last honoured POST on the id ended (or the id was minted)]
          idleAny,        \* [MIds -> same, counting honoured GETs as well]
          delIssued, delDone,      \* ids on which a DELETE by an entitled user was issued / answered 2xx
          closeIssued, closeRet,   \* ids whose server-side Close() was called / has returned
          gone,           \* ids seen absent from Server.Sessions() after they were minted
          open,           \* requests in progress: k -> request record with the flags computed at issue
          prev,           \* Server.Sessions() at the end of the previous step
          tied            \* ids on which a request was issued at exactly the idle deadline while the timer was armed:
                          \* the timer may have fired at that instant, and its Close() (which waits for the handlers
                          \* that were admitted in the race) may complete at any later time - silently for the monitor
mvars == <<l, T, stateless, minted, owner, idlePost, idleAny, delIssued, delDone, closeIssued, closeRet, gone, open, prev, tied>>

EmptyFn == [k \in {} |-> 0]
Zero == [i \in MIds |-> 0]
Nobody == [i \in MIds |-> "none"]

PostsOn(op, i) == {k \in DOMAIN op : op[k].m = "POST" /\ op[k].tgt = i}

\* the termination of i is complete: deleted, closed by the server, seen forgotten, or idle for longer
\* than the timeout (strictly) with no POST in progress
TermDone(mt, dd, cr, gn, ia, op, i, t) ==
  i \in mt /\ (\/ i \in dd \/ i \in cr \/ i \in gn
               \/ (T > 0 /\ t > ia[i] + T /\ PostsOn(op, i) = {}))
\* the idle timeout may legitimately have fired by time t: the deadline has been reached and every
\* POST in progress was admitted at the deadline or later (never strictly before it)
MaybeTimedOut(i, t) ==
  T > 0 /\ t >= idlePost[i] + T /\ \A k \in PostsOn(open, i) : open[k].t >= idlePost[i] + T
\* (all evaluated on what was known before the current step)
MustDead(i, t) == TermDone(minted, delDone, closeRet, gone, idleAny, open, i, t)
SurelyAlive(i, t) ==
  i \in minted /\ i \in prev /\ ~MustDead(i, t) /\ i \notin delIssued /\ i \notin closeIssued
  /\ ~MaybeTimedOut(i, t)
Foreign(q) == q.tgt \in minted /\ owner[q.tgt] # "none" /\ q.user # owner[q.tgt]

\* flags of a request, computed from what was known when it was issued
Flag(q, t) ==
  [m |-> q.m, tgt |-> q.tgt, t |-> t,
   mustDead |-> MustDead(q.tgt, t), alive |-> SurelyAlive(q.tgt, t), foreign |-> Foreign(q)]

DoneChecks(q, d) ==
  /\ Check(l, "NoPanic", d.panic = "")
  /\ Check(l, "MintOnlyOnCreate", d.fresh => (d.m = "POST" /\ d.tgt = 0 /\ ~stateless /\ d.status = 200))
  /\ Check(l, "MintOnlyOnCreate", (d.sid # 0 /\ ~d.fresh) => d.sid = d.tgt)
  /\ Check(l, "StatelessNoIds", stateless => /\ d.sid = 0
                                             /\ (d.m \in {"GET", "DELETE"} => d.status = 405)
                                             /\ (d.m = "POST" => d.status < 300))
  /\ Check(l, "DeadStaysDead", q.mustDead => (d.status = 404 /\ d.sid = 0))
  /\ Check(l, "UserBound", (q.foreign /\ ~q.mustDead) =>
                              (d.sid = 0 /\ (d.status = 403 \/ (~q.alive /\ d.status = 404))))
  /\ Check(l, "AtMostOneSession", (q.alive /\ ~q.foreign) => d.status \notin {403, 404})
  /\ Check(l, "AtMostOneSession", (d.tgt = -1 /\ ~stateless) => (d.status >= 400 /\ d.sid = 0))

RanChecks(q) ==
  /\ Check(l, "DeadStaysDead", ~q.mustDead)
  /\ Check(l, "UserBound", ~q.foreign)
  /\ Check(l, "AtMostOneSession", q.tgt = -1 => stateless)

Step(e) ==
  LET t == e.t
      iss == [k \in {e.issued[j].k : j \in DOMAIN e.issued} |->
                Flag(e.issued[CHOOSE j \in DOMAIN e.issued : e.issued[j].k = k], t)]
      all == open @@ iss
      dn == AsSet(e.done)
      open1 == [k \in (DOMAIN all) \ {d.k : d \in dn} |-> all[k]]
      \* knowledge updated by what was issued and what completed (every update of this step is for time t)
      newIds == {d.sid : d \in {x \in dn : x.fresh /\ x.sid \in MIds}}
      minted1 == minted \cup newIds
      ok == {d \in dn : d.status < 400 /\ d.tgt \in minted1}
      postOk == {d.tgt : d \in {x \in ok : x.m = "POST"}}
      getOk == {d.tgt : d \in {x \in ok : x.m = "GET"}}
      delIssued1 == delIssued \cup {iss[k].tgt : k \in {x \in DOMAIN iss : iss[x].m = "DELETE" /\ iss[x].tgt \in minted /\ ~iss[x].foreign}}
      delDone1 == delDone \cup {d.tgt : d \in {x \in ok : x.m = "DELETE"}}
      closeIssued1 == IF e.op = "Close" /\ e.note = "" THEN closeIssued \cup {e.a2} ELSE closeIssued
      closeRet1 == closeRet \cup AsSet(e.closeret)
      \* POSTs that got past the session lookup but failed later (5xx): possibly activity
      postMaybe == {d.tgt : d \in {x \in dn : x.m = "POST" /\ x.tgt \in minted1 /\ x.status >= 500}}
      idleAny1 == [i \in MIds |-> IF i \in newIds \/ i \in postOk \/ i \in getOk \/ i \in postMaybe THEN t ELSE idleAny[i]]
      live == {x \in AsSet(e.sess) : x \in MIds}   \* (ids beyond the tracked range are ignored)
      \* POSTs that were in progress on i at some moment of this step (refused ones do not count)
      During(i) == {k \in DOMAIN all : all[k].m = "POST" /\ all[k].tgt = i
                                         /\ ~\E d \in dn : d.k = k /\ d.status >= 400}
      Deadline(i) == idlePost[i] + T
      TimeoutLegit(i) == T > 0 /\ t >= Deadline(i) /\ \A k \in During(i) : all[k].t >= Deadline(i)
      died == {i \in prev : i \notin live}
      tied1 == tied \cup {i \in minted : T > 0 /\ t = Deadline(i)
                                          /\ (\E k \in DOMAIN iss : iss[k].tgt = i)
                                          /\ \A k \in PostsOn(open, i) : open[k].t >= Deadline(i)}
      Unexplained(i) == ~(i \in delIssued1 \/ i \in closeIssued1 \/ TimeoutLegit(i) \/ i \in tied1)
      ForeignNow(i) == \E k \in DOMAIN all : all[k].tgt = i /\ all[k].foreign   \* issued now or still open
  IN
  /\ \A d \in dn : Check(l, "Harness", d.k \in DOMAIN all)
  /\ \A d \in dn : d.k \in DOMAIN all => DoneChecks(all[d.k], d)
  /\ \A j \in DOMAIN e.ran : e.ran[j] \in DOMAIN all => RanChecks(all[e.ran[j]])
  \* one id, one session
  /\ Check(l, "AtMostOneSession", Cardinality({j \in DOMAIN e.sess : e.sess[j] > 0}) = Cardinality(live))
  \* a session may end only by DELETE, server-side close or idle timeout; the idle timeout never
  \* fires under a POST that was admitted strictly before the deadline
  /\ \A i \in died : Unexplained(i) =>
        /\ Check(l, "NoTimeoutDuringPost", ~(T > 0 /\ During(i) # {}))
        /\ Check(l, "UserBound", (T > 0 /\ During(i) # {}) \/ ~ForeignNow(i))
        /\ Check(l, "Drift.SpuriousDeath", (T > 0 /\ During(i) # {}) \/ ForeignNow(i))
  \* forgotten means forgotten
  /\ Check(l, "DeadStaysDead", live \cap gone = {})
  /\ \A i \in minted1 : TermDone(minted1, delDone1, closeRet1, gone, idleAny1, open1, i, t) =>
        /\ Check(l, "ClosedAndForgotten", i \notin live)
        /\ Check(l, "ClosedAndForgotten", i \in AsSet(e.closed))
  /\ minted' = minted1
  /\ owner' = [i \in MIds |-> IF i \in newIds THEN (CHOOSE d \in dn : d.fresh /\ d.sid = i).user ELSE owner[i]]
  /\ idlePost' = [i \in MIds |-> IF i \in newIds \/ i \in postOk THEN t ELSE idlePost[i]]
  /\ idleAny' = idleAny1
  /\ delIssued' = delIssued1 /\ delDone' = delDone1 /\ closeIssued' = closeIssued1 /\ closeRet' = closeRet1
  /\ gone' = gone \cup (minted1 \ live)
  /\ open' = open1 /\ prev' = live /\ tied' = tied1
  /\ UNCHANGED <<T, stateless>>

Reset(e) == /\ T' = e.timeout /\ stateless' = e.stateless
            /\ minted' = {} /\ owner' = Nobody /\ idlePost' = Zero /\ idleAny' = Zero
            /\ delIssued' = {} /\ delDone' = {} /\ closeIssued' = {} /\ closeRet' = {} /\ gone' = {}
            /\ open' = EmptyFn /\ prev' = {} /\ tied' = {}

MInit == /\ l = 1 /\ T = 0 /\ stateless = FALSE
         /\ minted = {} /\ owner = Nobody /\ idlePost = Zero /\ idleAny = Zero
         /\ delIssued = {} /\ delDone = {} /\ closeIssued = {} /\ closeRet = {} /\ gone = {}
         /\ open = EmptyFn /\ prev = {} /\ tied = {} /\ MarkInit

MNext == /\ l <= NLines
         /\ l' = l + 1
         /\ LET e == TraceLog[l] IN IF e.ev = "reset" THEN Reset(e) ELSE Step(e)

MSpec == MInit /\ [][MNext]_mvars
MMark == MarkAt(l)
MAccepted == Accepted
=============================================================================
