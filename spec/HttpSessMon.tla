---------------------------- MODULE HttpSessMon ----------------------------
(* Property monitor for C11, evaluated by TLC over observations recorded from *)
(* a real mcp.StreamableHTTPHandler (+ auth.RequireBearerToken) driven in     *)
(* virtual time.  It knows nothing about the handler's session table: it      *)
(* tracks, from the recorded requests and responses alone, which ids were     *)
(* minted, by whom, what could have terminated them and when, and judges      *)
(* every response, every tool-handler start and every Server.Sessions()       *)
(* snapshot against the clauses of C11.                                       *)
(*                                                                            *)
(* Lines (every field present on every line):                                 *)
(*   reset  trace timeout stateless           a new handler                   *)
(*   step   op a1 a2 a3 pre t                 one harness operation;          *)
(*          issued [k m body tgt user]        requests started in this step   *)
(*          done   [k status sid fresh ..]    requests that ended in it       *)
(*          ran    [k]                        tool handlers that started      *)
(*          sess closed closeret              Server.Sessions(), sessions     *)
(*                                            whose Wait() returned, sessions *)
(*                                            whose server-side Close()       *)
(*                                            returned  (minted index; -1 =   *)
(*                                            an id that was never sent)      *)
(* tgt / sid: 0 = no Mcp-Session-Id, -1 = an id the server never issued,      *)
(* i > 0 = the i-th id the server issued.  Time is in ticks; `t` is the time  *)
(* of the step (requests are issued and settle without time passing; only     *)
(* Advance steps and `pre` move the clock).                                   *)
(*                                                                            *)
(* Ties: a request issued at exactly the idle deadline of its session may be  *)
(* served or refused; every clause below is written so that it does not       *)
(* judge such a request, nor a request issued while a termination is under    *)
(* way (DELETE or server-side Close issued but not yet completed).            *)
EXTENDS VerifTrace, FiniteSets

CONSTANT MIds   \* indices of minted ids the monitor can track, e.g. 1..8

VARIABLES l,
          T, stateless,   \* configuration of the current trace
          info,           \* [MIds -> what the monitor knows about the i-th minted id]
          open,           \* requests in progress: k -> request record with the flags computed at issue
          prev            \* Server.Sessions() at the end of the previous step
mvars == <<l, T, stateless, info, open, prev>>

NoInfo == [minted |-> FALSE, owner |-> "none", idlePost |-> 0, idleAny |-> 0, delIssued |-> FALSE,
           delDone |-> FALSE, closeIssued |-> FALSE, closeRet |-> FALSE, gone |-> FALSE]
NewInfo(u, t) == [NoInfo EXCEPT !.minted = TRUE, !.owner = u, !.idlePost = t, !.idleAny = t]
EmptyFn == [k \in {} |-> 0]

IsMinted(inf, i) == i \in MIds /\ inf[i].minted
PostsOn(op, i) == {k \in DOMAIN op : op[k].m = "POST" /\ op[k].tgt = i}

\* the termination of i is complete: deleted, closed by the server, seen forgotten, or idle for longer
\* than the timeout (strictly) with no POST in progress
TermDone(inf, op, i, t) ==
  IsMinted(inf, i) /\ (\/ inf[i].delDone \/ inf[i].closeRet \/ inf[i].gone
                       \/ (T > 0 /\ PostsOn(op, i) = {} /\ t > inf[i].idleAny + T))
CausePending(inf, i) == inf[i].delIssued \/ inf[i].closeIssued
\* the idle timeout may legitimately have fired by time t: the deadline has been reached and every
\* POST in progress was admitted at the deadline or later (never strictly before it)
MaybeTimedOut(inf, op, i, t) ==
  T > 0 /\ t >= inf[i].idlePost + T /\ \A k \in PostsOn(op, i) : op[k].t >= inf[i].idlePost + T
SurelyAlive(inf, op, i, t) ==
  IsMinted(inf, i) /\ i \in prev /\ ~TermDone(inf, op, i, t) /\ ~CausePending(inf, i)
  /\ ~MaybeTimedOut(inf, op, i, t)
Foreign(inf, q) == IsMinted(inf, q.tgt) /\ inf[q.tgt].owner # "none" /\ q.user # inf[q.tgt].owner

\* flags of a request, computed from what was known when it was issued
Flag(q, t) ==
  [k |-> q.k, m |-> q.m, body |-> q.body, tgt |-> q.tgt, user |-> q.user, t |-> t,
   mustDead |-> TermDone(info, open, q.tgt, t),
   alive    |-> SurelyAlive(info, open, q.tgt, t),
   foreign  |-> Foreign(info, q)]

DoneChecks(q, d) ==
  /\ Check(l, "NoPanic", d.panic = "")
  /\ Check(l, "MintOnlyOnCreate", d.fresh => (q.m = "POST" /\ q.tgt = 0 /\ ~stateless /\ d.status = 200))
  /\ Check(l, "MintOnlyOnCreate", (d.sid # 0 /\ ~d.fresh) => d.sid = q.tgt)
  /\ Check(l, "StatelessNoIds", stateless => /\ d.sid = 0
                                             /\ (q.m \in {"GET", "DELETE"} => d.status = 405)
                                             /\ (q.m = "POST" => d.status < 300))
  /\ Check(l, "DeadStaysDead", q.mustDead => (d.status = 404 /\ d.sid = 0))
  /\ Check(l, "UserBound", (q.foreign /\ ~q.mustDead) =>
                              (d.sid = 0 /\ (d.status = 403 \/ (~q.alive /\ d.status = 404))))
  /\ Check(l, "AtMostOneSession", (q.alive /\ ~q.foreign) => d.status \notin {403, 404})
  /\ Check(l, "AtMostOneSession", (q.tgt = -1 /\ ~stateless) => (d.status >= 400 /\ d.sid = 0))

RanChecks(q) ==
  /\ Check(l, "DeadStaysDead", ~q.mustDead)
  /\ Check(l, "UserBound", ~q.foreign)
  /\ Check(l, "AtMostOneSession", q.tgt = -1 => stateless)

Step(e) ==
  LET t == e.t
      iss == [k \in {e.issued[j].k : j \in DOMAIN e.issued} |->
                Flag(e.issued[CHOOSE j \in DOMAIN e.issued : e.issued[j].k = k], t)]
      all == open @@ iss
      doneKs == {e.done[j].k : j \in DOMAIN e.done}
      Rejected(k) == \E j \in DOMAIN e.done : e.done[j].k = k /\ e.done[j].status >= 400
      \* knowledge updated by what was issued
      infA == [i \in MIds |->
                 [info[i] EXCEPT
                    !.delIssued = @ \/ \E k \in DOMAIN iss : iss[k].m = "DELETE" /\ iss[k].tgt = i /\ ~iss[k].foreign,
                    !.closeIssued = @ \/ (e.op = "Close" /\ e.a2 = i /\ e.note = ""),
                    !.closeRet = @ \/ i \in AsSet(e.closeret)]]
      \* ... and by the completions, in order
      Upd(inf, q, d) ==
        LET a == IF d.fresh /\ d.sid \in MIds THEN [inf EXCEPT ![d.sid] = NewInfo(q.user, t)] ELSE inf
            i == q.tgt IN
        IF IsMinted(a, i) /\ d.status < 400
        THEN [a EXCEPT ![i].idlePost = IF q.m = "POST" THEN t ELSE @,
                       ![i].idleAny = IF q.m \in {"POST", "GET"} THEN t ELSE @,
                       ![i].delDone = @ \/ q.m = "DELETE"]
        ELSE a
      Fold[j \in 0..Len(e.done)] ==
        IF j = 0 THEN infA
        ELSE IF e.done[j].k \in DOMAIN all THEN Upd(Fold[j - 1], all[e.done[j].k], e.done[j]) ELSE Fold[j - 1]
      infB == Fold[Len(e.done)]
      open1 == [k \in (DOMAIN all) \ doneKs |-> all[k]]
      live == {x \in AsSet(e.sess) : x > 0}
      \* POSTs that were in progress on i at some moment of this step
      During(i) == {k \in DOMAIN all : all[k].m = "POST" /\ all[k].tgt = i /\ ~Rejected(k)}
      Deadline(i) == info[i].idlePost + T
      TimeoutLegit(i) == T > 0 /\ t >= Deadline(i) /\ \A k \in During(i) : all[k].t >= Deadline(i)
      died == {i \in prev : i \notin live /\ i \in MIds}
      Unexplained(i) == ~(infB[i].delIssued \/ infB[i].closeIssued \/ TimeoutLegit(i))
      infC == [i \in MIds |-> [infB[i] EXCEPT !.gone = @ \/ (infB[i].minted /\ i \notin live)]]
  IN
  /\ \A j \in DOMAIN e.done : Check(l, "Harness", e.done[j].k \in DOMAIN all)
  /\ \A j \in DOMAIN e.done : e.done[j].k \in DOMAIN all => DoneChecks(all[e.done[j].k], e.done[j])
  /\ \A j \in DOMAIN e.ran : e.ran[j] \in DOMAIN all => RanChecks(all[e.ran[j]])
  \* one id, one session
  /\ Check(l, "AtMostOneSession", Cardinality({j \in DOMAIN e.sess : e.sess[j] > 0}) = Cardinality(live))
  \* a session may end only by DELETE, server-side close or idle timeout; the idle timeout never
  \* fires under a POST that was admitted strictly before the deadline
  /\ \A i \in died :
        /\ Check(l, "NoTimeoutDuringPost", ~(Unexplained(i) /\ T > 0 /\ During(i) # {}))
        /\ Check(l, "UserBound", ~(Unexplained(i) /\ ~(T > 0 /\ During(i) # {})
                                   /\ \E k \in DOMAIN iss : iss[k].tgt = i /\ iss[k].foreign))
        /\ Check(l, "Drift.SpuriousDeath", ~(Unexplained(i) /\ ~(T > 0 /\ During(i) # {})
                                             /\ ~\E k \in DOMAIN iss : iss[k].tgt = i /\ iss[k].foreign))
  \* forgotten means forgotten
  /\ \A i \in live : i \in MIds => Check(l, "DeadStaysDead", ~info[i].gone)
  /\ \A i \in MIds : TermDone(infB, open1, i, t) =>
        /\ Check(l, "ClosedAndForgotten", i \notin live)
        /\ Check(l, "ClosedAndForgotten", i \in AsSet(e.closed))
  /\ info' = infC /\ open' = open1 /\ prev' = live
  /\ UNCHANGED <<T, stateless>>

Reset(e) == /\ T' = e.timeout /\ stateless' = e.stateless
            /\ info' = [i \in MIds |-> NoInfo] /\ open' = EmptyFn /\ prev' = {}

MInit == /\ l = 1 /\ T = 0 /\ stateless = FALSE /\ info = [i \in MIds |-> NoInfo] /\ open = EmptyFn
         /\ prev = {} /\ MarkInit

MNext == /\ l <= NLines
         /\ l' = l + 1
         /\ LET e == TraceLog[l] IN IF e.ev = "reset" THEN Reset(e) ELSE Step(e)

MSpec == MInit /\ [][MNext]_mvars
MMark == MarkAt(l)
MAccepted == Accepted
=============================================================================
