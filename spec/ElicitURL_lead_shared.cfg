SPECIFICATION GenSpec
CONSTANTS
  Unknown = "u"
  MaxLen = 1
  Calls = {1, 2}
  HResults = {"accept"}
  Ids = {"x"}
  MaxSpur = 1
  Handlers = {TRUE}
  AllowCancel = FALSE
  DeclineNoCompl = FALSE
  TrackOwed = FALSE
  ListsOf <- ListsCover
  KindsOf <- CoverKinds
INVARIANTS LeadShared
CHECK_DEADLOCK FALSE
