SPECIFICATION MCSpec
CONSTANTS
  MaxSess = 3
  T = 3
  Stateless = FALSE
  MaxSlots = 2
  MaxParked = 2
  StoreModes = {}
INVARIANTS MintOnlyOnCreate DeadStaysDead UserBound NoTimeoutDuringPost StatelessNoIds ClosedAndForgotten TimerDiscipline
PROPERTIES MintStep AtMostOneSession DeadForever DeleteKills ResAlways
VIEW MCView
CHECK_DEADLOCK FALSE
