------------------------------- MODULE OAuthReg -------------------------------
(* Extension check X13: the OAuth helper code that the authorization-code flow  *)
(* check (C15, OAuthFlow.tla) treats as a black box or does not reach:          *)
(* dynamic client registration (oauthex/dcr.go), token exchange and JWT bearer  *)
(* grants (oauthex/token_exchange.go, auth/extauth), audience matching          *)
(* (oauthex/audience.go), WWW-Authenticate parsing (oauthex/resource_meta.go),  *)
(* well-known URL construction (auth/shared.go), metadata responses             *)
(* (oauthex/auth_meta.go, oauth2.go) and the OIDC login (extauth/oidc_login.go).*)
(* Tables in OAuthRegDefs.tla (letters below), the Enterprise Managed           *)
(* Authorization flow in OAuthRegFlow.tla, the monitor in OAuthRegMon.tla.      *)
(*                                                                              *)
(* PROPERTIES  (what a user of the SDK relies on; each derived from the RFC     *)
(* text / doc comment quoted next to the table, not from what the code does)    *)
(*                                                                              *)
(*  NoPanic           No function of this group panics, whatever the endpoint   *)
(*                    answers and whatever the header / document contains.      *)
(* D  RegisterClient (RFC 7591)                                                 *)
(*  D.Request         Every call sends at most one request: none when the       *)
(*                    endpoint is empty, otherwise exactly one POST to it with  *)
(*                    Content-Type and Accept application/json whose body is    *)
(*                    the JSON object of the client metadata.                   *)
(*  D.ClientIDRequired, D.NoErrorAsSuccess   A registration is never returned   *)
(*                    unless the status is 201 (200 is tolerated) and the body  *)
(*                    is one JSON object with a non-empty string client_id;     *)
(*                    never a registration together with an error.              *)
(*  D.NoScriptSchemes A registration is never returned when redirect_uris,      *)
(*                    client_uri, logo_uri, tos_uri, policy_uri or jwks_uri     *)
(*                    carries a javascript: / data: / vbscript: URL, in any     *)
(*                    letter case, opaque or with an authority, or hidden behind*)
(*                    blanks / control characters.                              *)
(*  D.Echo            client_id, client_secret, the metadata and the expiry are *)
(*                    the served ones: client_secret_expires_at 0 or absent is  *)
(*                    the zero time ("never expires"), n is second n.           *)
(*  D.ErrorObject     A 400 with an RFC 7591 3.2.2 error object is returned as  *)
(*                    *ClientRegistrationError carrying that error code.        *)
(*  D.Accepts         A conforming 201 response is accepted.                    *)
(* R  ClientRegistrationResponse marshalling                                    *)
(*  R.RoundTrip       For every value and every way json.Marshal reaches it     *)
(*                    (pointer, value, struct member, slice, map): the time     *)
(*                    members are JSON numbers (RFC 7591 3.2.1) and             *)
(*                    Unmarshal(Marshal(r)) = r to the second.                  *)
(*  R.SecretExpiry    A marshalled response that carries client_secret always   *)
(*                    carries client_secret_expires_at ("REQUIRED if            *)
(*                    client_secret is issued ... 0 if it never expires").      *)
(* X  ExchangeToken (RFC 8693, SEP-990)                                         *)
(*  X.ValidateBeforeSend  Nothing is sent - the subject token and the client    *)
(*                    secret never leave - unless every required argument is    *)
(*                    present, the credentials validate and endpoint, audience  *)
(*                    and resource have no script-capable scheme.               *)
(*  X.Request         The one request is a form POST with grant_type            *)
(*                    token-exchange and requested_token_type, audience,        *)
(*                    resource, subject_token, subject_token_type equal to the  *)
(*                    arguments, scope iff scopes are given, client_id, and     *)
(*                    client_secret iff one is configured.                      *)
(*  X.NoErrorAsSuccess, X.IssuedTokenType   A token is never returned for a     *)
(*                    non-2xx status, a body with an `error` member, without    *)
(*                    access_token or without a non-empty issued_token_type.    *)
(*  X.ErrorPropagated An OAuth error response is returned as an error from      *)
(*                    which errors.As yields *oauth2.RetrieveError with the     *)
(*                    served error code.                                        *)
(*  X.Accepts         A conforming response is accepted whatever the letter     *)
(*                    case of token_type ("N_A").                               *)
(* A  MatchesResource: true iff some claim is identical to the resource or      *)
(*                    differs from it only by an empty path versus "/".         *)
(* W  ParseWWWAuthenticate: for every header that is well formed by RFC 9110    *)
(*                    11.6.1 the result is exactly its challenges - schemes and *)
(*                    parameter names lower-cased, quoted values unescaped -    *)
(*                    and no error.                                             *)
(* K  GetAuthServerMetadata requests exactly the well-known locations of RFC    *)
(*                    8414 3.1 / OIDC Discovery 4 (terminating slash of the     *)
(*                    issuer removed) in the order the MCP specification        *)
(*                    gives, and stops at the first that answers.               *)
(* M  GetAuthServerMeta: a 4xx is "no metadata" (nil, nil), any other non-200   *)
(*                    an error; a 200 is never "no metadata"; a document is     *)
(*                    returned only for application/json with a non-empty       *)
(*                    code_challenge_methods_supported.                         *)
(* L  PerformOIDCLogin: discovery only at an https / loopback issuer; the       *)
(*                    authorization URL carries an S256 challenge, a state, the *)
(*                    client, redirect URI and scopes (with openid); the code   *)
(*                    is never exchanged unless the returned state equals the   *)
(*                    one sent; the exchange carries the matching verifier; a   *)
(*                    token is never returned without an id_token.              *)
(* F  EnterpriseHandler.Authorize (OAuthRegFlow.tla)                            *)
(*  F.SecretsOnlyToSafe   ID token, issued assertion and client secrets are     *)
(*                    never sent to a URL that is neither https nor loopback.   *)
(*  F.SecretsToRightParty ID token and IdP secret go only to the IdP token      *)
(*                    endpoint, assertion and MCP secret only to the MCP one.   *)
(*  F.OnlyIDJAGForwarded  What is sent to the MCP authorization server as the   *)
(*                    assertion was issued by the IdP as an ID-JAG.             *)
(*  F.NoTokenAfterFailure TokenSource() changes only when every step of that    *)
(*                    Authorize succeeded, and then yields the access token the *)
(*                    MCP authorization server issued; a nil error implies a    *)
(*                    non-nil token source.                                     *)
(*  F.Termination     every Authorize returns.                                  *)
(*                                                                              *)
(* LEADS: cells where the code-shaped procedure of the tables leaves a property *)
(* (each is a named deviation <T>Dev in OAuthRegDefs; the design check requires *)
(* that they are exactly these; the real code reproduces all of them, see       *)
(* KNOWN_FINDINGS.txt): D null-body-panic; R by-value, never-expires-omitted;   *)
(* A slash-beyond-empty-path; W empty-quoted-string, token68, bws-before-eq,    *)
(* escaped-backslash-before-closing-quote, empty-list-element; K terminating-   *)
(* slash-kept (root, path); F issued_token_type other than id-jag is forwarded  *)
(* (OAuthRegFlow_lead.cfg).                                                     *)
(*                                                                              *)
(* NAMED DEVIATIONS of the code from an idealised design (modelled as the code  *)
(* is; not clauses of the properties):                                          *)
(*  - RegisterClient and ExchangeToken do not check that the endpoint they are  *)
(*    GIVEN is https or loopback (DHardened, XHardened): the check is made      *)
(*    where endpoints are discovered (validateAuthServerMetaURLs).  A caller    *)
(*    that passes its own http://remote endpoint has subject token and client   *)
(*    secret sent in clear.                                                     *)
(*  - 200 is accepted like 201 for a registration; a secret without             *)
(*    client_secret_expires_at is accepted as never expiring; token_type is not *)
(*    required in a token-exchange response; a form-encoded one is accepted.    *)
(*  - PKCE support is "code_challenge_methods_supported is not empty": ["plain"]*)
(*    passes although the client always uses S256; the same rule is applied to  *)
(*    the enterprise IdP, whose metadata is only used for token exchange.       *)
EXTENDS OAuthRegDefs, Json, SequencesExt

\* ---- design level: the code-shaped procedure satisfies the property on the complete case space, except exactly
\* ---- in the named deviations
DDesign == \A c \in DCaseSet : ~DPanics(c) => DHolds(c, DExpected(c))
RDesign == \A c \in RCaseSet : RHolds(c, RExpected(c)) <=> RDev(c) = "-"
XDesign == \A c \in XCaseSet : XHolds(c, XExpected(c))
ADesign == \A c \in ACaseSet : AHolds(c, AExpected(c)) <=> ADev(c) = "-"
WDesign == \A c \in WCaseSet : (WClass(c) = "ok") <=> WDev(c) = "-"
KDesign == \A c \in KCaseSet : KHolds(c, KExpected(c)) <=> KDev(c) = "-"
MDesign == \A c \in MCaseSet : MHolds(c, MExpected(c))
LDesign == \A c \in LCaseSet : LHolds(c, LExpected(c))

\* ---- vacuity witnesses
Witnesses ==
  /\ \E c \in DCaseSet : DExpected(c).ok /\ c.fld # "-"
  /\ \E c \in DCaseSet : DExpected(c).regerr /\ DExpected(c).code = "match"
  /\ \E c \in DCaseSet : ~DExpected(c).ok /\ c.fld # "-" /\ c.ucls = "jslo"
  /\ \E c \in DCaseSet : DPanics(c)
  /\ \E c \in RCaseSet : RDev(c) = "by-value"
  /\ \E c \in RCaseSet : RDev(c) = "never-expires-omitted"
  /\ \E c \in XCaseSet : XExpected(c).ok /\ c.ct = "form"
  /\ \E c \in XCaseSet : XExpected(c).rerr = "match" /\ c.status = 200
  /\ \E c \in XCaseSet : ~XExpected(c).sent /\ c.ep = "jslo"
  /\ \E c \in XCaseSet : XExpected(c).sent /\ ~XHardened(c, XExpected(c))
  /\ \E c \in ACaseSet : ADev(c) # "-"
  /\ \A d \in {"empty-quoted-string", "token68", "bws-before-eq", "escaped-backslash-before-closing-quote", "empty-list-element"} :
        \E c \in WCaseSet : WDev(c) = d
  /\ \A k \in {"ok", "err", "wrong"} : \E c \in WCaseSet : WClass(c) = k
  /\ \E c \in KCaseSet : KDev(c) # "-" /\ c.found = 0
  /\ \A r \in {"meta", "nil", "err"} : \E c \in MCaseSet : MExpected(c).res = r
  /\ \E c \in LCaseSet : LExpected(c).ok
  /\ \E c \in LCaseSet : LExpected(c).authCalled /\ ~LExpected(c).exchanged /\ c.state = "prefix"

\* ---- export of the case spaces for the Go harness (tables with named deviations carry the name of the deviation a
\* ---- case falls in, "-" for none, as an extra member `dev` that only names signatures)
AsSeq(S) == SetToSeq(S)
Export ==
  /\ ndJsonSerialize("cases_D.ndjson", AsSeq({c @@ [dev |-> DDev(c)] : c \in DCaseSet}))
  /\ ndJsonSerialize("cases_R.ndjson", AsSeq({c @@ [dev |-> RDev(c)] : c \in RCaseSet}))
  /\ ndJsonSerialize("cases_X.ndjson", AsSeq(XCaseSet))
  /\ ndJsonSerialize("cases_A.ndjson", AsSeq({c @@ [dev |-> ADev(c)] : c \in ACaseSet}))
  /\ ndJsonSerialize("cases_W.ndjson", AsSeq({c @@ [dev |-> WDev(c)] : c \in WCaseSet}))
  /\ ndJsonSerialize("cases_K.ndjson", AsSeq({c @@ [dev |-> KDev(c)] : c \in KCaseSet}))
  /\ ndJsonSerialize("cases_M.ndjson", AsSeq(MCaseSet))
  /\ ndJsonSerialize("cases_L.ndjson", AsSeq(LCaseSet))

ASSUME DDesign
ASSUME RDesign
ASSUME XDesign
ASSUME ADesign
ASSUME WDesign
ASSUME KDesign
ASSUME MDesign
ASSUME LDesign
ASSUME Witnesses
ASSUME PrintT(ToJson([D |-> Cardinality(DCaseSet), R |-> Cardinality(RCaseSet), X |-> Cardinality(XCaseSet),
                      A |-> Cardinality(ACaseSet), W |-> Cardinality(WCaseSet), K |-> Cardinality(KCaseSet),
                      M |-> Cardinality(MCaseSet), L |-> Cardinality(LCaseSet),
                      devD |-> Cardinality({c \in DCaseSet : DDev(c) # "-"}),
                      devR |-> Cardinality({c \in RCaseSet : RDev(c) # "-"}), devA |-> Cardinality({c \in ACaseSet : ADev(c) # "-"}),
                      devW |-> Cardinality({c \in WCaseSet : WDev(c) # "-"}), devK |-> Cardinality({c \in KCaseSet : KDev(c) # "-"})]))
ASSUME Export
=============================================================================
