---------------------------- MODULE OAuthFlowConc ----------------------------
(* Property C15, the interleaving dimension: N calls of                       *)
(* auth.AuthorizationCodeHandler.Authorize in flight at once on ONE handler   *)
(* (two requests of one connection both answered 401/403).  OAuthFlow.tla     *)
(* covers one attempt at a time; the clauses of C15 about the authorization   *)
(* response are stated per attempt - "an authorization code is exchanged only *)
(* if the returned state equals the one generated FOR THIS ATTEMPT and the    *)
(* RFC 9207 issuer check passes ... after any failed check no new token is    *)
(* installed" - so they must hold for every attempt WHATEVER the other        *)
(* attempts do in between.                                                    *)
(*                                                                            *)
(* Before the concurrent attempts the handler has completed one attempt       *)
(* (attempt 0, on server S1): its state St(0) and code are "stale", its token *)
(* T0 is what TokenSource() returns at the start.                             *)
(*                                                                            *)
(* An attempt is cut into the maximal blocks of auth/authorization_code.go    *)
(* between the points at which the environment (HTTP client, fetcher,         *)
(* NewTokenSource) is entered - the points a harness can hold an attempt at:  *)
(*   Meta(i,s)     Authorize is called; the protected-resource metadata names *)
(*                 authorization server s, whose metadata is fetched and      *)
(*                 validated.  Registration "dcr": the attempt now waits for  *)
(*                 the registration response.  Registration "pre": the        *)
(*                 pre-registered credentials are bound to PreIssuer (another *)
(*                 issuer ends the attempt), then as in Reg.                  *)
(*   Reg(i)        the registration response arrives (client id Cid(i));      *)
(*                 state St(i) and PKCE verifier Ver(i) are generated, the    *)
(*                 authorization request (state, challenge, client id,        *)
(*                 resource, authorization endpoint) goes to the fetcher; the *)
(*                 attempt waits in its fetcher.  (The code has no point at   *)
(*                 which the environment is entered between generating the    *)
(*                 state and invoking the fetcher: one block.)                *)
(*   Callback(i,k) the fetcher returns (code, state, iss), chosen by the      *)
(*                 environment:                                               *)
(*                   own     the answer to attempt i's own request            *)
(*                   other j the answer to the request of ANOTHER attempt j   *)
(*                           (a shared redirect listener delivering the       *)
(*                           callback to the wrong waiter, a replayed         *)
(*                           callback; j may be in flight or finished)        *)
(*                   stale   the answer that attempt 0 consumed long ago      *)
(*                   badiss  own code and state, iss of the other server      *)
(*                 the state is compared, then the RFC 9207 check; if both    *)
(*                 pass, the token request (code, code_verifier, client id,   *)
(*                 resource) goes to the token endpoint and the attempt waits *)
(*                 for the answer.                                            *)
(*   Token(i,o)    the token endpoint answers: o = "good" - a token Tok(i),   *)
(*                 the attempt enters NewTokenSource - or o = "400".          *)
(*   Install(i)    NewTokenSource returns; the token source is installed,     *)
(*                 Authorize returns nil.                                     *)
(* Blocks of different attempts touch handler state that is shared BY DESIGN  *)
(* (tokenSource, grantedScopes) only under h.mu, in Reg (a read) and Install. *)
(*                                                                            *)
(* Everything else an attempt works with is its own: the fields of `Fields`.  *)
(* SharedFields = {} is the design (locals of Authorize / getAuthorization-   *)
(* Code).  A non-empty SharedFields is a WHAT-IF used as a sensitivity        *)
(* witness only: those data live in ONE cell of the handler that every        *)
(* attempt writes and reads; TLC must then find the matching invariant        *)
(* violated (OAuthFlowConc_w*.cfg, expected to fail), which shows that the    *)
(* schedule family exported here tells such an implementation from a correct  *)
(* one.                                                                       *)
(*                                                                            *)
(* Export: `-dump dot,actionlabels`; the graph is a DAG whose root-to-leaf    *)
(* label sequences are the complete schedules (the environment's choice and   *)
(* the specified outcome are parameters of the actions).  The harness         *)
(* (harness/auth/c15_conc_test.go) pins each schedule on the real handler     *)
(* with gates in the RoundTripper, the fetcher and NewTokenSource;            *)
(* OAuthFlowConcMon judges every attempt by ITS OWN request.                  *)
(* Attempts start in index order (1, then 2, ...): the servers and callbacks  *)
(* range over all combinations, so nothing is lost by this symmetry cut.      *)
EXTENDS Integers, Sequences, FiniteSets, TLC

CONSTANTS N,              \* attempts in flight: 1..N
          SharedFields,   \* {}: the design; otherwise the what-if described above
          RegModes,       \* registration configurations of the handler: "dcr", "pre"
          AdvChoices,     \* which servers advertise authorization_response_iss_parameter_supported: set of <<S1, S2>> flags
          LaterServers,   \* authorization servers that attempts 2.. may be sent to (attempt 1: S1)
          CbKinds,        \* callback kinds the environment may deliver
          TokenOutcomes   \* answers of the token endpoint

Att == 1..N
Servers == {"S1", "S2"}
OtherSrv(s) == IF s = "S1" THEN "S2" ELSE "S1"
PreIssuer == "S1"            \* the issuer the pre-registered credentials are bound to
Fields == {"state", "verifier", "meta", "client", "resource", "token"}
NoInt == 0 - 1
St(i) == i                   \* the state generated by attempt i (0: the finished attempt 0)
Ver(i) == i                  \* the PKCE verifier generated by attempt i; the challenge sent out is named by it
Code(i) == i                 \* the authorization code issued in answer to attempt i's request
Tok(i) == i                  \* the token issued in answer to attempt i's token request
T0 == 0                      \* the token of attempt 0
Cid(i) == i                  \* the client id returned to attempt i's registration request
PreClient == 100             \* the pre-registered client id
AdvUniform == {<<TRUE, TRUE>>, <<FALSE, FALSE>>}
AdvAll == {<<a, b>> : a \in BOOLEAN, b \in BOOLEAN}

VARIABLES pcH, reg, adv,     \* the handler: "new" | "ready"; registration mode; [Servers -> BOOLEAN]
          pc,                \* [Att -> "idle" | "reg" | "waiting" | "exchanging" | "installing" | "done"]
          mem,               \* [loc: Fields -> Att -> value, sh: Fields -> value]  the per-attempt data / the what-if cells
          ts,                \* the token TokenSource() returns
          \* what the environment sees of attempt i (the harness records the same)
          asked,             \* the authorization server named to attempt i = the issuer it asked metadata for
          regTo,             \* the server whose registration endpoint got attempt i's registration request
          authReq,           \* the authorization request handed to attempt i's fetcher
          cb,                \* the callback delivered to attempt i
          tokReq,            \* the token request made by attempt i
          issued,            \* the token issued to attempt i's token request
          installed,         \* the token attempt i installed
          result             \* "-" | "ok" | "prereg" | "state" | "iss" | "exchange"

vars == <<pcH, reg, adv, pc, mem, ts, asked, regTo, authReq, cb, tokReq, issued, installed, result>>

NoAuth == [sent |-> FALSE, state |-> NoInt, chal |-> NoInt, client |-> NoInt, resource |-> "-", srv |-> "-"]
NoCb == [got |-> FALSE, code |-> NoInt, state |-> NoInt, iss |-> "-"]
NoTok == [made |-> FALSE, to |-> "-", code |-> NoInt, verifier |-> NoInt, client |-> NoInt, resource |-> "-"]
NoVal(f) == IF f \in {"meta", "resource"} THEN "-" ELSE NoInt

Init == /\ pcH = "new" /\ reg = "-" /\ adv = [s \in Servers |-> FALSE]
        /\ pc = [i \in Att |-> "idle"]
        /\ mem = [loc |-> [f \in Fields |-> [i \in Att |-> NoVal(f)]], sh |-> [f \in Fields |-> NoVal(f)]]
        /\ ts = T0
        /\ asked = [i \in Att |-> "-"] /\ regTo = [i \in Att |-> "-"]
        /\ authReq = [i \in Att |-> NoAuth] /\ cb = [i \in Att |-> NoCb] /\ tokReq = [i \in Att |-> NoTok]
        /\ issued = [i \in Att |-> NoInt] /\ installed = [i \in Att |-> NoInt]
        /\ result = [i \in Att |-> "-"]

\* attempt i stores v as its f / reads its f
W(m, f, i, v) == [loc |-> [m.loc EXCEPT ![f][i] = v], sh |-> [m.sh EXCEPT ![f] = v]]
R(m, f, i) == IF f \in SharedFields THEN m.sh[f] ELSE m.loc[f][i]

Handler(r, a1, a2) ==
  /\ pcH = "new" /\ r \in RegModes /\ <<a1, a2>> \in AdvChoices
  /\ pcH' = "ready" /\ reg' = r /\ adv' = [s \in Servers |-> IF s = "S1" THEN a1 ELSE a2]
  /\ UNCHANGED <<pc, mem, ts, asked, regTo, authReq, cb, tokReq, issued, installed, result>>

\* getAuthorizationCode up to the fetcher: state and verifier are generated, the authorization URL is built
AuthStep(m, i) ==
  LET m1 == W(W(m, "state", i, St(i)), "verifier", i, Ver(i))
  IN [m |-> m1,
      req |-> [sent |-> TRUE, state |-> R(m1, "state", i), chal |-> R(m1, "verifier", i), client |-> R(m1, "client", i),
               resource |-> R(m1, "resource", i), srv |-> R(m1, "meta", i)]]

Meta(i, s, r) ==
  /\ pcH = "ready" /\ pc[i] = "idle" /\ (i > 1 => pc[i - 1] # "idle")
  /\ s \in (IF i = 1 THEN {"S1"} ELSE LaterServers)
  /\ asked' = [asked EXCEPT ![i] = s]
  /\ LET m0 == W(W(mem, "meta", i, s), "resource", i, s) IN
     IF reg = "dcr"
     THEN /\ r = "go" /\ mem' = m0 /\ pc' = [pc EXCEPT ![i] = "reg"]
          /\ regTo' = [regTo EXCEPT ![i] = R(m0, "meta", i)]
          /\ UNCHANGED <<authReq, result>>
     ELSE IF R(m0, "meta", i) # PreIssuer                         \* handleRegistration: IssuersEqual(preCfg.Issuer, asm.Issuer)
     THEN /\ r = "prereg" /\ mem' = m0 /\ pc' = [pc EXCEPT ![i] = "done"]
          /\ result' = [result EXCEPT ![i] = "prereg"]
          /\ UNCHANGED <<authReq, regTo>>
     ELSE LET a == AuthStep(W(m0, "client", i, PreClient), i) IN
          /\ r = "go" /\ mem' = a.m /\ authReq' = [authReq EXCEPT ![i] = a.req]
          /\ pc' = [pc EXCEPT ![i] = "waiting"]
          /\ UNCHANGED <<result, regTo>>
  /\ UNCHANGED <<pcH, reg, adv, ts, cb, tokReq, issued, installed>>

Reg(i) ==
  /\ pc[i] = "reg"
  /\ LET a == AuthStep(W(mem, "client", i, Cid(i)), i) IN
       mem' = a.m /\ authReq' = [authReq EXCEPT ![i] = a.req]
  /\ pc' = [pc EXCEPT ![i] = "waiting"]
  /\ UNCHANGED <<pcH, reg, adv, ts, asked, regTo, cb, tokReq, issued, installed, result>>

\* what a server answers to a request that was made at it
GoodIss(s) == IF adv[s] THEN s ELSE "absent"
CbOf(i, k, j) ==
  CASE k = "own"    -> [got |-> TRUE, code |-> Code(i), state |-> St(i), iss |-> GoodIss(asked[i])]
    [] k = "other"  -> [got |-> TRUE, code |-> Code(j), state |-> St(j), iss |-> GoodIss(asked[j])]
    [] k = "stale"  -> [got |-> TRUE, code |-> Code(0), state |-> St(0), iss |-> GoodIss("S1")]
    [] k = "badiss" -> [got |-> TRUE, code |-> Code(i), state |-> St(i), iss |-> OtherSrv(asked[i])]
\* validateIssuerResponse against the metadata the attempt holds
CodeIssCheck(iss, s) == IF adv[s] THEN iss = s ELSE iss = "absent"

Callback(i, k, j, r) ==
  /\ pc[i] = "waiting" /\ k \in CbKinds
  /\ IF k = "other" THEN j \in Att \ {i} /\ authReq[j].sent ELSE j = 0
  /\ LET c == CbOf(i, k, j)
         srv == R(mem, "meta", i) IN
     /\ cb' = [cb EXCEPT ![i] = c]
     /\ IF c.state # R(mem, "state", i)                           \* authRes.State != state
        THEN /\ r = "state" /\ pc' = [pc EXCEPT ![i] = "done"] /\ result' = [result EXCEPT ![i] = "state"]
             /\ UNCHANGED tokReq
        ELSE IF ~CodeIssCheck(c.iss, srv)
        THEN /\ r = "iss" /\ pc' = [pc EXCEPT ![i] = "done"] /\ result' = [result EXCEPT ![i] = "iss"]
             /\ UNCHANGED tokReq
        ELSE /\ r = "pass" /\ pc' = [pc EXCEPT ![i] = "exchanging"]
             /\ tokReq' = [tokReq EXCEPT ![i] = [made |-> TRUE, to |-> srv, code |-> c.code, verifier |-> R(mem, "verifier", i),
                                                client |-> R(mem, "client", i), resource |-> R(mem, "resource", i)]]
             /\ UNCHANGED result
  /\ UNCHANGED <<pcH, reg, adv, mem, ts, asked, regTo, authReq, issued, installed>>

\* the token endpoint answers as scripted whatever it was sent: the property is about the client
Token(i, o) ==
  /\ pc[i] = "exchanging" /\ o \in TokenOutcomes
  /\ IF o = "good"
     THEN /\ issued' = [issued EXCEPT ![i] = Tok(i)] /\ mem' = W(mem, "token", i, Tok(i))
          /\ pc' = [pc EXCEPT ![i] = "installing"] /\ UNCHANGED result
     ELSE /\ pc' = [pc EXCEPT ![i] = "done"] /\ result' = [result EXCEPT ![i] = "exchange"]
          /\ UNCHANGED <<issued, mem>>
  /\ UNCHANGED <<pcH, reg, adv, ts, asked, regTo, authReq, cb, tokReq, installed>>

\* t: the token TokenSource() returns afterwards (exported in the label)
Install(i, t) ==
  /\ pc[i] = "installing" /\ t = R(mem, "token", i)
  /\ ts' = t /\ installed' = [installed EXCEPT ![i] = t]
  /\ pc' = [pc EXCEPT ![i] = "done"] /\ result' = [result EXCEPT ![i] = "ok"]
  /\ UNCHANGED <<pcH, reg, adv, mem, asked, regTo, authReq, cb, tokReq, issued>>

Next ==
  \/ \E r \in RegModes, a1 \in BOOLEAN, a2 \in BOOLEAN : Handler(r, a1, a2)
  \/ \E i \in Att, s \in Servers, r \in {"go", "prereg"} : Meta(i, s, r)
  \/ \E i \in Att : Reg(i)
  \/ \E i \in Att, k \in CbKinds, j \in 0..N, r \in {"pass", "state", "iss"} : Callback(i, k, j, r)
  \/ \E i \in Att, o \in TokenOutcomes : Token(i, o)
  \/ \E i \in Att, t \in 0..N : Install(i, t)

Spec == Init /\ [][Next]_vars

-----------------------------------------------------------------------------
\* The property, per attempt (C15: "exchanged only if the returned state equals the one generated for this
\* attempt and the RFC 9207 issuer check passes ... metadata are used only if their issuer identifier matches
\* what was asked for ... credentials pre-registered for a named issuer are never used with a different one ...
\* after any failed check no new token is installed")

StateOwn(i) == cb[i].got /\ cb[i].state = St(i)
\* OAuthFlow!IssOK against the issuer THIS attempt asked for
IssOwn(i) == /\ (cb[i].iss # "absent" => cb[i].iss = asked[i])
             /\ (adv[asked[i]] => cb[i].iss # "absent")
Passed(i) == StateOwn(i) /\ IssOwn(i)

ExchangeOnlyOwnState == \A i \in Att : tokReq[i].made => StateOwn(i) /\ IssOwn(i)
\* the endpoints an attempt uses are those of the metadata whose issuer it asked for
MetaBoundToAttempt == \A i \in Att : /\ (regTo[i] # "-" => regTo[i] = asked[i])
                                     /\ (authReq[i].sent => authReq[i].srv = asked[i])
                                     /\ (tokReq[i].made => tokReq[i].to = asked[i])
PreregBoundToIssuer == \A i \in Att : /\ (authReq[i].sent /\ authReq[i].client = PreClient => authReq[i].srv = PreIssuer)
                                      /\ (tokReq[i].made /\ tokReq[i].client = PreClient => tokReq[i].to = PreIssuer)
\* a token that TokenSource() returns is the old one or was issued to an attempt all of whose checks passed
NoTokenAfterFailure == ts = T0 \/ \E i \in Att : issued[i] = ts /\ Passed(i)

\* No value of one attempt shows up in another (code-shaped: beyond the text of C15; the harness reports these as drift)
VerifierBoundToAttempt == \A i \in Att : tokReq[i].made => tokReq[i].verifier = authReq[i].chal /\ authReq[i].chal = Ver(i)
OwnClient(i) == IF reg = "pre" THEN PreClient ELSE Cid(i)
ClientBoundToAttempt == \A i \in Att : /\ (authReq[i].sent => authReq[i].client = OwnClient(i))
                                       /\ (tokReq[i].made => tokReq[i].client = OwnClient(i))
ResourceBoundToAttempt == \A i \in Att : /\ (authReq[i].sent => authReq[i].resource = asked[i])
                                         /\ (tokReq[i].made => tokReq[i].resource = asked[i])
TokenFromOwnExchange == \A i \in Att : installed[i] # NoInt => installed[i] = issued[i]
CodeAsDelivered == \A i \in Att : tokReq[i].made => tokReq[i].code = cb[i].code
\* the honest answer is accepted (the "if" direction; not part of C15, which is an "only if")
OwnCallbackAccepted == \A i \in Att : StateOwn(i) /\ IssOwn(i) /\ cb[i].iss = GoodIss(asked[i]) => result[i] \notin {"state", "iss"}

TypeOK == /\ pc \in [Att -> {"idle", "reg", "waiting", "exchanging", "installing", "done"}]
          /\ ts \in 0..N
          /\ result \in [Att -> {"-", "ok", "prereg", "state", "iss", "exchange"}]
          /\ \A i \in Att : (pc[i] = "done") <=> (result[i] # "-")
=============================================================================
