SPECIFICATION MCSpec
CONSTANTS
  MaxSess = 2
  MaxPost = 2
  MaxSend = 1
  Cap = 1
  Direct = FALSE
  RandomSelect = TRUE
  KindSet = {"call", "slow", "badjson"}
  WithNoId = FALSE
  WithUnknown = TRUE
INVARIANTS TypeOK EndpointFirst Routing AtMostOnce Order Refusal TableExact
PROPERTIES NoWriteAfterClose WriteFailsAfterClose Monotone
CHECK_DEADLOCK FALSE
