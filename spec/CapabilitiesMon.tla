--------------------------- MODULE CapabilitiesMon ---------------------------
(* Monitor for the two decision tables of X06.  Reads the outcomes the Go    *)
(* harness recorded on real mcp.Server / mcp.Client pairs (obs.ndjson; one   *)
(* line per case: t = "srv" | "cli", c = the case as exported by             *)
(* Capabilities.tla, o = what was observed on the wire and at the handlers)  *)
(* and evaluates the clauses of CapabilitiesDefs!ServerHolds / ClientHolds   *)
(* one by one (verdict) and equality with the code-shaped Expected (drift).  *)
EXTENDS VerifTrace, FiniteSets
D == INSTANCE CapabilitiesDefs

VARIABLE l
MInit == l = 1 /\ MarkInit

SAdv(a) == [lg |-> a.lg, co |-> a.co, t |-> a.t, p |-> a.p, r |-> a.r]
SCall(x) == [err |-> x.err, code |-> x.code, ran |-> x.ran]
SOut(e) == [adv |-> [p \in D!ServerPaths |-> SAdv(e.o.adv[p])], extra |-> e.o.extra,
            complete |-> SCall(e.o.complete), subscribe |-> SCall(e.o.subscribe), mutated |-> e.o.mutated]
\* error codes are information: drift compares them, the property does not
SrvLine(i, e) ==
  LET c == e.c  o == SOut(e) IN
  /\ \A f \in D!ServerFields : Check(i, "S.Adv." \o f, D!S_Adv(c, o, f))
  /\ Check(i, "S.SamePath", D!S_SamePath(c, o))
  /\ Check(i, "S.NoExtra", D!S_NoExtra(c, o))
  /\ Check(i, "S.NoMutation", D!S_NoMutation(c, o))
  /\ Check(i, "S.Complete", D!S_Complete(c, o))
  /\ Check(i, "S.Subscribe", D!S_Subscribe(c, o))
  /\ Check(i, "drift", o = D!ServerExpected(c))

CAdv(a) == [ro |-> a.ro, sa |-> a.sa, el |-> a.el]
CCall(x) == [err |-> x.err, wire |-> x.wire, ran |-> x.ran, code |-> x.code]
COut(e) ==
  LET first == CAdv(e.o.advs[1]) IN
  [adv |-> first,
   same |-> /\ \A j \in DOMAIN e.o.advs : CAdv(e.o.advs[j]) = first
            /\ \A j \in DOMAIN e.o.seen : CAdv(e.o.seen[j]) = first,
   extra |-> e.o.extra,
   calls |-> [g \in D!Gated |-> CCall(e.o.calls[g])],
   notif |-> e.o.notif, mutated |-> e.o.mutated]
\* the refusal code of a client without handler is information (drift); everything else of a call is compared
CliLine(i, e) ==
  LET c == e.c  o == COut(e) IN
  /\ Check(i, "C.Roots", D!C_Roots(c, o))
  /\ Check(i, "C.Sampling", D!C_Sampling(c, o))
  /\ Check(i, "C.Elicitation", D!C_Elicitation(c, o))
  /\ Check(i, "C.SamePath", D!C_SamePath(c, o))
  /\ Check(i, "C.NoExtra", D!C_NoExtra(c, o))
  /\ Check(i, "C.NoMutation", D!C_NoMutation(c, o))
  /\ \A g \in D!Gated :
       /\ Check(i, "C.NoUngated." \o g, D!C_NoUngated(c, o, g))
       /\ Check(i, "C.GatedWorks." \o g, D!C_GatedWorks(c, o, g))
       /\ Check(i, "C.RefusedWithoutHandler." \o g, D!C_RefusedWithoutHandler(c, o, g))
       /\ Check(i, "C.ModernNoServerRequest." \o g, D!C_ModernNoServerRequest(c, o, g))
  /\ Check(i, "C.RootsNotif", D!C_RootsNotif(c, o))
  /\ Check(i, "drift", o = D!ClientExpected(c))

MNext == /\ l <= NLines /\ l' = l + 1
         /\ LET e == TraceLog[l] IN
              IF e.t = "srv" THEN SrvLine(l, e) ELSE CliLine(l, e)
MSpec == MInit /\ [][MNext]_l
MMark == MarkAt(l)
MAccepted == Accepted
=============================================================================
