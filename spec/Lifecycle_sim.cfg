SPECIFICATION Spec
CONSTANTS
  MaxLen = 8
  AlphaSel = "mid"
INVARIANTS TypeOK DesignOK LeadBreaksGate Export
CHECK_DEADLOCK FALSE
