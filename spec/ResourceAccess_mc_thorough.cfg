SPECIFICATION Spec
CONSTANTS
  Readers = {"r1", "r2"}
  XE = {"E1", "E2"}
  XT = {"Tda", "Tp"}
  MaxMut = 4
  MaxRead = 3
CONSTANT XU <- URIs3
INVARIANTS TypeOK Linearizable BoundInWindow GensDistinct NeverServedByUnregistered ExactBeatsTemplates ExactServesOwnURI
CHECK_DEADLOCK FALSE
