SPECIFICATION SettledSpec
CONSTANTS
  NSess = 1
  CC <- C2
  Nest <- C1
  NCN = 0
  NSN = 0
  MaxFaults = 2
  FaultKinds <- FAll
  HoldKinds <- HNone
  Combos = FALSE
  HandsAll = TRUE
  Bug = "none"
VIEW CoverView
CHECK_DEADLOCK FALSE
