--------------------------- MODULE LifecycleRunMon ---------------------------
(* Monitor for C06 with handlers that take time: evaluated by TLC over the    *)
(* observation lines recorded from a real mcp.Server by                       *)
(* harness/mcp/c06_run_test.go (one line per event of a script: the           *)
(* cumulative state of the exchange at the quiescence after the event).       *)
(*  verdict  LifecycleRun!PingAlwaysServed at every quiescence, with the      *)
(*           property's own bookkeeping (J*: facts only - gates entered and   *)
(*           released, answers arrived); at the end of every script the       *)
(*           clauses of Lifecycle on the settled observation of every         *)
(*           message (SettledFailures); at most one answer per id;            *)
(*  strict   equality of every line with the code-shaped machine              *)
(*           LifecycleRun!Run* ("drift").                                     *)
EXTENDS VerifTrace, FiniteSets
LR == INSTANCE LifecycleRun

VARIABLES l,      \* next line
          j,      \* the property's bookkeeping
          rs,     \* the code-shaped machine
          cnt     \* vacuity of the real run: quiescences at which the ping clause speaks, pings delivered while a feature
                  \* call was running, pings excused by a running notification handler, scripts
mvars == <<l, j, rs, cnt>>

MInit == /\ l = 1 /\ j = LR!J0 /\ rs = LR!Run0 /\ cnt = [prem |-> 0, beside |-> 0, excused |-> 0, scripts |-> 0] /\ MarkInit

Letter(e) == [m |-> e.l.m, mt |-> e.l.mt, ip |-> e.l.ip, sp |-> e.l.sp, mk |-> e.l.mk]
MsgObs(x) == [reply |-> x.reply, code |-> x.code, nlist |-> x.nlist, h |-> AsSet(x.h)]
Line(e) == [k |-> e.k, n |-> e.n, l |-> Letter(e), held |-> e.held, ms |-> [i \in DOMAIN e.ms |-> MsgObs(e.ms[i])],
            ent |-> AsSet(e.ent), ipv |-> e.ipv, tag |-> e.tag]

FailMsg(ln, inv, ph, i) == PrintT(ToJson([monfail |-> inv, line |-> ln, phase |-> ph, msg |-> i]))

MNext ==
  /\ l <= NLines
  /\ l' = l + 1
  /\ LET e   == TraceLog[l]
         j0  == IF e.first THEN LR!J0 ELSE j
         rs0 == IF e.first THEN LR!Run0 ELSE rs
         o   == Line(e)
         j1  == LR!JStep(j0, o)
         rs1 == IF e.k = "send" THEN LR!RunSend(rs0, o.l, o.held, "asis")
                ELSE IF LR!CanRelease(rs0, o.n) THEN LR!RunRelease(rs0, o.n, "asis") ELSE rs0
         exp == LR!RunLine(rs1, o.k, o.n, o.l, o.held)
         unanswered == {p \in j1.pings : p \notin LR!Waiting(j1) /\ p \notin LR!Answered(o.ms)}
         fin == IF e.last THEN LR!SettledFailures(j1, o, 1, LR!Mu0, TRUE) ELSE {}
     IN /\ (IF LR!PingAlwaysServed(j1, o) THEN TRUE
            ELSE FailMsg(l, "PingAlwaysServed", "", CHOOSE p \in unanswered : \A p2 \in unanswered : p <= p2))
        /\ \A f \in fin : FailMsg(l, f[2], f[3], f[1])
        /\ Check(l, "OneReply", e.nrep <= 1)
        /\ Check(l, "drift", o = exp /\ ~e.relmiss /\ e.stray = 0)
        /\ j' = j1 /\ rs' = rs1
        /\ cnt' = [prem |-> cnt.prem + (IF LR!PingPremise(j1) THEN 1 ELSE 0),
                   beside |-> cnt.beside + (IF LR!PingBesideCall(j1, o) THEN 1 ELSE 0),
                   excused |-> cnt.excused + (IF LR!PingExcused(j1, o) THEN 1 ELSE 0),
                   scripts |-> cnt.scripts + (IF e.first THEN 1 ELSE 0)]
        /\ (IF l = NLines THEN PrintT(ToJson([runcounts |-> cnt'])) ELSE TRUE)

MSpec == MInit /\ [][MNext]_mvars
MMark == MarkAt(l)
MAccepted == Accepted
=============================================================================
