----------------------------- MODULE HttpCloseMC -----------------------------
(* Bounded configurations of HttpClose: exhaustive checking at step granularity (every interleaving of the  *)
(* environment with the SDK's own steps), the SEAM-level graph for the transition cover (environment steps   *)
(* only when the SDK has nothing left to do: that is how the harness drives the real code), behaviour       *)
(* generation by simulation, reachability witnesses and the two design switches as sensitivity checks.      *)
EXTENDS HttpClose, Json

VARIABLE hist
gvars == <<vars, hist>>
H(s) == hist' = Append(hist, s)
GInit == Init /\ hist = <<>>

\* exhaustive: hist stays empty
MCNext == Next /\ UNCHANGED hist
MCSpec == GInit /\ [][MCNext]_gvars
MCLive == MCSpec /\ Fairness
MCView == vars

\* ---------------------------------------------------------------- seam level
Quiet == ~ENABLED SdkNext
GSdk == SdkNext /\ UNCHANGED hist

SCall(k) == Quiet /\ Call(k, FALSE) /\ H(<<"call", k>>)
SCallHeld(k) == Quiet /\ Call(k, TRUE) /\ px'[k] = "held" /\ H(<<"callh", k>>)
SRelease(k) == Quiet /\ Release(k) /\ H(<<"rel", k>>)
SRet(k) == Quiet /\ Ret(k) /\ H(<<"ret", k>>)
SSreq(k) == Quiet /\ Sreq(k) /\ H(<<"sreq", k>>)
SAns(k) == Quiet /\ Ans(k) /\ H(<<"ans", k>>)
SCCancel(k) == Quiet /\ CCancel(k) /\ H(<<"ccancel", k>>)
SCutPost(k) == Quiet /\ CutPost(k) /\ H(<<"cutpost", k>>)
SCClose(c) == Quiet /\ CClose(c) /\ H(<<"cclose", c>>)
SSClose(c) == Quiet /\ SClose(c) /\ H(<<"sclose", c>>)
SDelMode(m) == Quiet /\ DelMode(m) /\ H(<<"delmode", m>>)
SReleaseDel == Quiet /\ ReleaseDel /\ H(<<"reldel">>)
SCutGet == Quiet /\ CutGet /\ H(<<"cutget">>)
SNetDown == Quiet /\ NetDown(FALSE) /\ H(<<"netdown">>)
SVanish == Quiet /\ NetDown(TRUE) /\ H(<<"vanish">>)
STick == Quiet /\ Tick /\ H(<<"tick">>)
SIdle == Quiet /\ Idle /\ H(<<"idle">>)
SCNotif == Quiet /\ CNotif /\ H(<<"cnotif">>)
SSNotif == Quiet /\ SNotif /\ H(<<"snotif">>)

SeamNext ==
  \/ GSdk
  \/ \E k \in Calls : SCall(k) \/ SCallHeld(k) \/ SRelease(k) \/ SRet(k) \/ SSreq(k) \/ SAns(k) \/ SCCancel(k) \/ SCutPost(k)
  \/ \E c \in CCl : SCClose(c)
  \/ \E c \in SCl : SSClose(c)
  \/ \E m \in {"fail", "hang", "hold"} : SDelMode(m)
  \/ SReleaseDel \/ SCutGet \/ SNetDown \/ SVanish \/ STick \/ SIdle \/ SCNotif \/ SSNotif
SeamSpec == GInit /\ [][SeamNext]_gvars

\* -simulate: random walks of the seam-level machine; the actions that end things (Close, network death, idle
\* timeout) are only taken once some traffic exists, so that the walks do not all die at their first step
Warm == Len(hist) >= 2
GenNext ==
  \/ GSdk
  \/ \E k \in Calls : SCall(k) \/ SCallHeld(k) \/ SRelease(k) \/ SRet(k) \/ SSreq(k) \/ SAns(k) \/ SCCancel(k) \/ SCutPost(k)
  \/ \E c \in CCl : Warm /\ SCClose(c)
  \/ \E c \in SCl : Warm /\ SSClose(c)
  \/ \E m \in {"fail", "hang", "hold"} : SDelMode(m)
  \/ SReleaseDel \/ SCutGet \/ (Warm /\ SNetDown) \/ (Warm /\ SVanish) \/ STick \/ (Warm /\ SIdle) \/ SCNotif \/ SSNotif
GenSpec == GInit /\ [][GenNext]_gvars

\* -simulate: every quiescent state is the end of a complete script
Export == IF Quiet /\ Len(hist) >= 3
          THEN PrintT(ToJson([stateless |-> Stateless, timeout |-> Timeout, sse |-> Sse, steps |-> hist]))
          ELSE TRUE

\* ---------------------------------------------------------------- reachability witnesses (each must be VIOLATED)
W_NoLate        == \A k \in Calls : ~late[k]
W_NoLateRefused == \A k \in Calls : ~(late[k] /\ h[k] = "refused")
W_NoLost        == \A k \in Calls : h[k] # "lost"
W_NoCloseWhileRunning == ~(\E s \in Sess : sst[s] = "closing" /\ \E k \in Calls : SOf(k) = s /\ h[k] = "running")
W_NoTwoClosers  == ~(Cardinality({c \in Closers : scl[c] = "waiting"}) >= 2)
W_NoDelTimeout  == ~(del = "err" /\ cst = "done" /\ ~Stateless /\ tab = "live" /\ net = "up")
W_NoBackoffClose == ~(sse = "stopped" /\ get = "closed" /\ net = "up")
W_NoStuck       == NoStuck
W_NoTimerClose  == Stateless \/ scl["timer"] # "returned"
W_NoMissing     == cfail # "missing"
W_NoCtxCancel   == \A k \in Calls : hctx[k] = "live"
W_NoLateN       == \A k \in Calls : ~lateN[k]

\* the lead recorded as StuckNested: a server-side Close that can never return because a handler waits for the
\* answer to a call into a client that has vanished / whose answer was lost
StuckNestedLead == \A c \in Closers : (scl[c] = "called") ~> (scl[c] = "returned")
=============================================================================
