----------------------------- MODULE HttpCloseMC -----------------------------
(* Bounded configurations of HttpClose: exhaustive checking at step granularity (every interleaving of the  *)
(* environment with the SDK's own steps), the SEAM-level graph for the transition cover (environment steps   *)
(* only when the SDK has nothing left to do: that is how the harness drives the real code), behaviour       *)
(* generation by simulation, reachability witnesses and the two design switches as sensitivity checks.      *)
EXTENDS HttpClose, Json

VARIABLE hist
gvars == <<vars, hist>>
\* what the harness can see of a quiescent state (its snapshot after a step): compared, step by step, with the real run
HClass(k) == IF nest[k] \in NestPending /\ h[k] = "running" THEN "nested"
             ELSE IF h[k] = "running" THEN "running"
             ELSE IF h[k] \in {"returned", "done"} THEN "ended" ELSE "none"
Proj == [intab |-> IF tab = "live" THEN 1 ELSE 0,
         listed |-> Cardinality({s \in Sess : listed[s]}),
         sclosing |-> ~Stateless /\ (sst["S"] # "open" \/ \E c \in Closers : scl[c] # "idle"),
         strclosed |-> ~Stateless /\ sst["S"] \in {"trclosed", "done"},
         clisted |-> IF clisted THEN 1 ELSE 0,
         \* a caller whose POST is still held in the network has not returned, whatever became of the call
         calls |-> [k \in Calls |-> IF px[k] = "held" /\ cc[k] # "none" THEN "pending" ELSE cc[k]],
         gone |-> gone,
         delpend |-> del \in {"held", "hung", "srv"},
         handlers |-> [k \in Calls |-> HClass(k)],
         chandlers |-> [k \in Calls |-> IF nest[k] \in {"run", "orun"} THEN "running" ELSE "other"]]
\* a history entry: the step and the projection of the state it is taken in (= the state the previous step led to)
H(s) == hist' = Append(hist, [step |-> s, pre |-> Proj])
GInit == Init /\ hist = <<>>

\* exhaustive: hist stays empty
MCNext == Next /\ UNCHANGED hist
MCSpec == GInit /\ [][MCNext]_gvars
MCLive == MCSpec /\ Fairness
MCView == vars

\* ---------------------------------------------------------------- seam level
Quiet == ~ENABLED SdkNext
GSdk == SdkNext /\ UNCHANGED hist

\* While the DELETE of the client's Close is in flight the client's connection is inside a critical section (the
\* transport is closed under the connection's lock): the harness lets nothing touch the client then (it would
\* only wait for the lock), so the seam-level machine does not either.  MCSpec explores those interleavings.
NoDel == del \notin {"held", "hung", "srv"}
SCall(k) == Quiet /\ NoDel /\ Call(k, FALSE) /\ H(<<"call", k>>)
SCallHeld(k) == Quiet /\ NoDel /\ Call(k, TRUE) /\ px'[k] = "held" /\ H(<<"callh", k>>)
SRelease(k) == Quiet /\ Release(k) /\ H(<<"rel", k>>)
SRet(k) == Quiet /\ Ret(k) /\ H(<<"ret", k>>)
SSreq(k) == Quiet /\ NoDel /\ Sreq(k) /\ H(<<"sreq", k>>)
SAns(k) == Quiet /\ NoDel /\ Ans(k) /\ H(<<"ans", k>>)
SCCancel(k) == Quiet /\ NoDel /\ CCancel(k) /\ H(<<"ccancel", k>>)
SCutPost(k) == Quiet /\ CutPost(k) /\ H(<<"cutpost", k>>)
SCClose(c) == Quiet /\ NoDel /\ CClose(c) /\ H(<<"cclose", c>>)
SSClose(c) == Quiet /\ SClose(c) /\ H(<<"sclose", c>>)
SDelMode(m) == Quiet /\ DelMode(m) /\ H(<<"delmode", m>>)
SReleaseDel == Quiet /\ ReleaseDel /\ H(<<"reldel">>)
SCutGet == Quiet /\ CutGet /\ H(<<"cutget">>)
SNetDown == Quiet /\ NetDown(FALSE) /\ H(<<"netdown">>)
SVanish == Quiet /\ NetDown(TRUE) /\ H(<<"vanish">>)
STick == Quiet /\ Tick /\ H(<<"tick">>)
SIdle == Quiet /\ Idle /\ H(<<"idle">>)
SCNotif == Quiet /\ NoDel /\ CNotif /\ H(<<"cnotif">>)
SSNotif == Quiet /\ NoDel /\ SNotif /\ H(<<"snotif">>)

SeamNext ==
  \/ GSdk
  \/ \E k \in Calls : SCall(k) \/ SCallHeld(k) \/ SRelease(k) \/ SRet(k) \/ SSreq(k) \/ SAns(k) \/ SCCancel(k) \/ SCutPost(k)
  \/ \E c \in CCl : SCClose(c)
  \/ \E c \in SCl : SSClose(c)
  \/ \E m \in {"fail", "hang", "hold"} : SDelMode(m)
  \/ SReleaseDel \/ SCutGet \/ SNetDown \/ SVanish \/ STick \/ SIdle \/ SCNotif \/ SSNotif
SeamSpec == GInit /\ [][SeamNext]_gvars

\* -simulate: random walks of the seam-level machine; the actions that end things (Close, network death, idle
\* timeout) are only taken once some traffic exists, so that the walks do not all die at their first step
Warm == Len(hist) >= 2
GenNext ==
  \/ GSdk
  \/ \E k \in Calls : SCall(k) \/ SCallHeld(k) \/ SRelease(k) \/ SRet(k) \/ SSreq(k) \/ SAns(k) \/ SCCancel(k) \/ SCutPost(k)
  \/ \E c \in CCl : Warm /\ SCClose(c)
  \/ \E c \in SCl : Warm /\ SSClose(c)
  \/ \E m \in {"fail", "hang", "hold"} : SDelMode(m)
  \/ SReleaseDel \/ SCutGet \/ (Warm /\ SNetDown) \/ (Warm /\ SVanish) \/ STick \/ (Warm /\ SIdle) \/ SCNotif \/ SSNotif
GenSpec == GInit /\ [][GenNext]_gvars

\* -simulate: every quiescent state is the end of a complete script
Export == IF Quiet /\ Len(hist) >= 3
          THEN PrintT(ToJson([stateless |-> Stateless, timeout |-> Timeout, sse |-> Sse, steps |-> hist, final |-> Proj]))
          ELSE TRUE

\* ---------------------------------------------------------------- reachability witnesses (each must be VIOLATED)
W_NoLate        == \A k \in Calls : ~late[k]
W_NoLateRefused == \A k \in Calls : ~(late[k] /\ h[k] = "refused")
W_NoLost        == \A k \in Calls : h[k] # "lost"
W_NoCloseWhileRunning == ~(\E s \in Sess : sst[s] = "closing" /\ \E k \in Calls : SOf(k) = s /\ h[k] = "running")
W_NoTwoClosers  == ~(Cardinality({c \in Closers : scl[c] = "waiting"}) >= 2)
W_NoDelTimeout  == ~(del = "err" /\ cst = "done" /\ ~Stateless /\ tab = "live" /\ net = "up")
W_NoBackoffClose == ~(sse = "stopped" /\ get = "closed" /\ net = "up")
W_NoStuck       == NoStuck
W_NoTimerClose  == Stateless \/ scl["timer"] # "returned"
W_NoMissing     == cfail # "missing"
W_NoCtxCancel   == \A k \in Calls : hctx[k] = "live"
W_NoLateN       == \A k \in Calls : ~lateN[k]

\* the lead recorded as StuckNested: a server-side Close that can never return because a handler waits for the
\* answer to a call into a client that has vanished / whose answer was lost
StuckNestedLead == \A c \in Closers : (scl[c] = "called") ~> (scl[c] = "returned")
=============================================================================
