SPECIFICATION Spec
CONSTANTS
  CCalls = {"k1"}
  NestCalls = {"k1"}
  SCalls = {"q1"}
  MaxLen = 5
CONSTRAINT EmitC
CHECK_DEADLOCK FALSE
