\* X15 exhaustive, the full small product: 2 middleware values (Add of 1 or 2), 2 requests, all behaviours, both eras, nesting.
\* 2 539 831 distinct states, depth 18, all invariants hold (4 min 52 s with 4 workers); bin/check X15 runs slices of it
\* (tools/checks/x15.py MC_QUICK / MC_THOROUGH generate their configurations from the same constants).
SPECIFICATION Spec
CONSTANTS
  MaxMw = 2
  MaxReq = 2
  Behs = {"pass", "short", "tagp", "tagr", "fail"}
  AddLens = {1, 2}
  Eras = {"legacy", "modern"}
  Kinds = {"cc", "cn", "sc", "sn"}
  RegTypes = {"A"}
  Nest = TRUE
INVARIANT TypeOK ChainIsDoc IdsOnce DocOutcome HandlerSees ParkedIsEntered ServedByRegistered NoPanic QueuedOnlyBehindNotification ParentWaits
CHECK_DEADLOCK FALSE
