SPECIFICATION Spec
CONSTANTS
  TD = 8
  Slack = 1
  Classes <- AllClasses
CHECK_DEADLOCK FALSE
