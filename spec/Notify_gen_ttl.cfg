SPECIFICATION GenSpec
CONSTANTS
  Sessions = {"L1", "M1"}
  Legacy = {"L1"}
  InitOn = {"L1", "M1"}
  InitSub = {}
  Kinds = {"tools", "resources", "templates"}
  NotifOf <- NotifStd
  Uris = {"u1"}
  Want <- WantAll
  CapOff = {}
  CapMode <- ModeInferred
  InitSize <- Size3
  MaxSize = 3
  Dirs = {"mod"}
  SendGate = "configured"
  TTLPos = TRUE
  D = 2
  MaxTime = 14
  MaxChanges = 5
  MaxUpdates = 2
  MaxCalls = 3
  NPages = 2
  ListenOwns = TRUE
  ResubRace = TRUE
  GenCheck = TRUE
  ColdBump = TRUE
  ModernUnsub = TRUE
  ForeignUnsub = TRUE
  Listeners = {}
  MaxListens = 0
  FailUndo = TRUE
  Stepwise = TRUE
  Gates = TRUE
  GateNames = {"inv", "usr", "put", "unsub"}
  ClientFirst = FALSE
  MinSteps = 10
  MaxSteps = 22
  Bias = TRUE
  Script <- ScriptNone
  GenOps = {"change", "tchange", "updated", "connect", "close", "subscribe", "unsubscribe", "list", "expire", "tick", "hold", "release"}
INVARIANTS Export
CHECK_DEADLOCK FALSE
