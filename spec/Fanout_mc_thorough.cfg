SPECIFICATION Spec
CONSTANTS
  NS = 2
  MinLen = 2
  MaxLen = 4
  CallOK <- CallAll
  MaxHeld = 99
  Mode = "sync"
  LateRelease = FALSE
  AnyOrder = TRUE
  SymReduce = TRUE
  Canon = FALSE
CHECK_DEADLOCK FALSE
VIEW MCView
INVARIANTS TypeOK ObservedInOrder NotificationCompletesFirst NoStuck
