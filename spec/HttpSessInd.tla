---------------------------- MODULE HttpSessInd ----------------------------
(* Apalache entry point for the inductive invariant HttpSess!IndInv (C11):    *)
(*   apalache-mc check --cinit=CInit --init=Init    --inv=IndInv --length=0   *)
(*   apalache-mc check --cinit=CInit --init=IndInit --inv=IndInv --length=1   *)
(* Nothing of the state machine is copied: Init, Next and IndInv are those of *)
(* HttpSess.  This module only fixes the instance and generates the arbitrary *)
(* pre-state of the step case (Gen bounds the length of `res`, the only       *)
(* sequence-valued variable).                                                 *)
EXTENDS HttpSess, Apalache

\* the largest exhaustive TLC configurations are (MaxSess, T, MaxSlots) = (3, 3, 2) without store faults and (2, 4, 3)
\* with both; this instance dominates both, and leaves T (any timeout, 0 = none), Stateless and StoreModes open
CInit == /\ MaxSess = 3 /\ MaxSlots = 3 /\ MaxParked = 2
         /\ T \in Nat /\ Stateless \in BOOLEAN /\ StoreModes \in SUBSET {"nopurge", "down"}

IndInit ==
  /\ tab = Gen(3) /\ nmint = Gen(1) /\ slot = Gen(3) /\ tiewin = Gen(1) /\ store = Gen(1)
  /\ res = Gen(4) /\ ranNow = Gen(1) /\ bad = Gen(1)
  /\ IndInv

\* sanity of the step case: action invariants, each must be VIOLATED with --init=IndInit --length=1 (IndInit is
\* satisfiable and its states have successors through the interesting actions): no session is ever minted / the timeout
\* callback never closes a session / a closing session with two parked DELETEs never dies
SanityNoMint == nmint' = nmint
SanityNoCallbackDeath == ~(\E i \in Ids : tab[i].cb /\ tab[i].st = "live" /\ tab'[i].st = "dead")
SanityNoParkedAnswered == Len(res') < 3
=============================================================================
