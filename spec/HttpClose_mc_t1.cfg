\* thorough: two calls, two Close callers per side, held POST and DELETE
SPECIFICATION MCSpec
CONSTANTS
  Calls = {"k1", "k2"}
  CCl = {"c1", "c2"}
  SCl = {"s1", "s2"}
  Stateless = FALSE
  Timeout = TRUE
  Sse = TRUE
  Nested = FALSE
  Faults = {}
  DelModes = {"hold"}
  Helds = TRUE
  Notifs = FALSE
  Cancels = FALSE
  AwaitHandlers = TRUE
  StopSseOnClose = TRUE
VIEW MCView
INVARIANTS TypeOK NothingDispatchedAfterClose RunningHandlersFinish SessionRemoved
CHECK_DEADLOCK FALSE
