---------------------------- MODULE EventStoreMC ----------------------------
(* Bounded exhaustive configuration of EventStore: at most MaxAppends items. *)
(* `res` is output-only, so it is hidden from the fingerprint with a VIEW.   *)
EXTENDS EventStore
CONSTANTS MaxAppends,
          CoverIdxN  \* the iterator objects of the iterator cover graph are obtained with the indexes -1 .. CoverIdxN-2
CoverIdx == -1 .. (CoverIdxN - 2)
Bound == cnt <= MaxAppends
\* cover configuration: three of the four streams, to keep the dumped graph small
CoverBound == cnt <= MaxAppends /\ <<"s2", "t2">> \notin open
\* After is read-only: the harness probes After at every index after every step instead
CoverNext ==
  \/ \E s \in Sessions, t \in Streams : Open(s, t)
  \/ \E s \in Sessions, t \in Streams, sz \in Sizes : AppendSz(s, t, sz)
  \/ \E m \in Limits : SetMax(m)
  \/ \E s \in Sessions : Closed(s)
  \/ IterStep
CoverSpec == Init /\ [][CoverNext]_svars
MCView == <<open, first, data, nBytes, maxBytes, appended, lastSz, cnt, panicked, its>>
\* iterator cover configuration (small graph): one stream per session; the iterator objects are over s1/t1
\* (sessions are treated alike by the code), obtained only when the caller holds none and dropped when done
GetNew(k, s, t, i) == its[k].st = "free" /\ Get(k, s, t, i)
IterCoverNext ==
  \/ \E s \in Sessions, t \in Streams : Open(s, t)
  \/ \E s \in Sessions, t \in Streams, sz \in Sizes : AppendSz(s, t, sz)
  \/ \E m \in Limits : SetMax(m)
  \/ \E s \in Sessions : Closed(s)
  \/ \E k \in Iters, i \in CoverIdx : GetNew(k, "s1", "t1", i)
  \/ \E k \in Iters : Begin(k) \/ IterNext(k) \/ Stop(k) \/ Drop(k)
IterCoverSpec == Init /\ [][IterCoverNext]_svars
\* the ghosts of the iterator objects do not distinguish nodes of the cover graph
IterCoverView == <<open, first, data, nBytes, maxBytes, appended, lastSz, cnt, panicked,
                   [k \in Iters |-> [its[k] EXCEPT !.stale = FALSE, !.want = <<>>]]>>
\* reachability witnesses (must be VIOLATED, otherwise the model is vacuous)
NeverPurged == \A p \in Pairs : first[p] = 0
NeverOverMax == nBytes <= maxBytes
\* iterator witnesses: a ranging goes on although (a) the item it hands out next has been evicted, (b) its
\* session has been closed, (c) its stream has been created again and written; an iterator obtained before
\* its session was closed is about to be ranged (d) with the session gone, (e) with the stream created again
\* and written
InStream(x, q) == \E j \in DOMAIN q : q[j] = x
NeverLiveEvicted == \A k \in Iters : (its[k].st = "live" /\ its[k].pos < Len(its[k].snap)) =>
                        ~(InStream(its[k].snap[its[k].pos + 1], appended[its[k].p]) /\ ~InStream(its[k].snap[its[k].pos + 1], data[its[k].p]))
NeverLiveClosed == \A k \in Iters : (its[k].st = "live" /\ its[k].pos < Len(its[k].snap)) => its[k].p \in open
NeverLiveReborn == \A k \in Iters : (its[k].st = "live" /\ its[k].pos < Len(its[k].snap)) => ~(its[k].stale /\ data[its[k].p] # <<>>)
NeverHeldClosed == \A k \in Iters : its[k].st = "held" => ~(its[k].stale /\ its[k].p \notin open)
NeverHeldReborn == \A k \in Iters : its[k].st = "held" => ~(its[k].stale /\ data[its[k].p] # <<>>)
=============================================================================
