---------------------------- MODULE EventStoreMC ----------------------------
(* Bounded exhaustive configuration of EventStore: at most MaxAppends items. *)
(* `res` is output-only, so it is hidden from the fingerprint with a VIEW.   *)
EXTENDS EventStore
CONSTANTS MaxAppends
Bound == cnt <= MaxAppends
\* cover configuration: three of the four streams, to keep the dumped graph small
CoverBound == cnt <= MaxAppends /\ <<"s2", "t2">> \notin open
\* After is read-only: the harness probes After at every index after every step instead
CoverNext ==
  \/ \E s \in Sessions, t \in Streams : Open(s, t)
  \/ \E s \in Sessions, t \in Streams, sz \in Sizes : AppendSz(s, t, sz)
  \/ \E m \in Limits : SetMax(m)
  \/ \E s \in Sessions : Closed(s)
CoverSpec == Init /\ [][CoverNext]_svars
MCView == <<open, first, data, nBytes, maxBytes, appended, lastSz, cnt, panicked>>
\* reachability witnesses (must be VIOLATED, otherwise the model is vacuous)
NeverPurged == \A p \in Pairs : first[p] = 0
NeverOverMax == nBytes <= maxBytes
=============================================================================
