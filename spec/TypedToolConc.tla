---------------------------- MODULE TypedToolConc ----------------------------
(* Property C16, the interleaving dimension: several tools/call requests in   *)
(* flight at once on ONE server.  The property is stated per call - the       *)
(* handler "receives exactly those values", the result "carries structured    *)
(* content equal to the JSON of the handler's output ... plus a text rendering*)
(* of it" - so it must hold for every call WHATEVER the other calls do in     *)
(* between.  A call passes through three steps (mcp/server.go toolForErr and  *)
(* the jsonrpc2 connection underneath):                                       *)
(*   invoke(i)   the server has received request i, validated / defaulted /   *)
(*               decoded its arguments and entered the typed handler          *)
(*               (an invalid request is answered without a handler: its       *)
(*               error result exists already after this step)                 *)
(*   produce(i)  the handler returns its output; the wrapper marshals it,     *)
(*               applies the output schema and builds the CallToolResult      *)
(*               (structured content + text rendering)                        *)
(*   respond(i)  the result is encoded and written to the connection; the     *)
(*               client receives it                                           *)
(* The state machine interleaves the steps of N calls in every order.  Values *)
(* are abstract tokens: Own(i) stands for "the JSON of call i's handler       *)
(* output" (TypedToolDefs!OutJson of the case assigned to i).                 *)
(*                                                                            *)
(*   PerCallOutput   what the client of call i receives is Own(i)             *)
(*                                                                            *)
(* Shared = FALSE is the design: the marshalled output of a call belongs to   *)
(* that call alone.  Shared = TRUE is a WHAT-IF used as a vacuity witness     *)
(* only: the result of a call refers to a scratch cell that every produce     *)
(* step overwrites; TLC must find PerCallOutput violated there, which shows   *)
(* that the schedule family exported here can tell such an implementation     *)
(* from a correct one (TypedToolConcAlias.cfg, expected to fail).             *)
(*                                                                            *)
(* Export: every complete schedule (a terminal state's history), with, for    *)
(* every call, the steps of OTHER calls that fall into its window between     *)
(* its produce and its respond step.  The harness replays each schedule on a  *)
(* real server with gates (handler gate = produce, receiving-middleware gate  *)
(* = respond), the cases of the calls range over TypedTool!ConcPool, and      *)
(* TypedToolMon judges every call by HoldsIn / HoldsOut of ITS OWN case.      *)
(* Calls are invoked in name order (A, then B, ...): the case assignment      *)
(* ranges over all ordered tuples, so nothing is lost by this symmetry cut.   *)
EXTENDS Integers, Sequences, FiniteSets, TLC, Json

CONSTANTS N,        \* calls in flight: 1..N
          Shared    \* FALSE: the design; TRUE: the what-if described above

Calls == 1..N
Name(i) == <<"A", "B", "C">>[i]
Own(i) == i         \* the JSON of the output of call i's handler
None == 0
Ref == 0 - 1        \* what-if only: "whatever the scratch cell holds now"

VARIABLES pc, held, wire, scratch, hist
vars == <<pc, held, wire, scratch, hist>>

Init == /\ pc = [i \in Calls |-> "idle"]
        /\ held = [i \in Calls |-> None]
        /\ wire = [i \in Calls |-> None]
        /\ scratch = None
        /\ hist = <<>>

Invoke(i) == /\ pc[i] = "idle"
             /\ (i > 1 => pc[i - 1] # "idle")
             /\ pc' = [pc EXCEPT ![i] = "running"]
             /\ hist' = Append(hist, <<"invoke", Name(i)>>)
             /\ UNCHANGED <<held, wire, scratch>>

Produce(i) == /\ pc[i] = "running"
              /\ pc' = [pc EXCEPT ![i] = "produced"]
              /\ scratch' = Own(i)
              /\ held' = [held EXCEPT ![i] = IF Shared THEN Ref ELSE Own(i)]
              /\ hist' = Append(hist, <<"produce", Name(i)>>)
              /\ UNCHANGED wire

Respond(i) == /\ pc[i] = "produced"
              /\ pc' = [pc EXCEPT ![i] = "sent"]
              /\ wire' = [wire EXCEPT ![i] = IF held[i] = Ref THEN scratch ELSE held[i]]
              /\ hist' = Append(hist, <<"respond", Name(i)>>)
              /\ UNCHANGED <<held, scratch>>

Next == \E i \in Calls : Invoke(i) \/ Produce(i) \/ Respond(i)
Spec == Init /\ [][Next]_vars

Done == \A i \in Calls : pc[i] = "sent"

TypeOK == /\ pc \in [Calls -> {"idle", "running", "produced", "sent"}]
          /\ \A i \in Calls : held[i] \in {None, Ref, Own(i)}
          /\ Len(hist) <= 3 * N

(* the property, per call *)
PerCallOutput == \A i \in Calls : pc[i] = "sent" => wire[i] = Own(i)
(* nothing of another call is ever held for call i (the design's reason for PerCallOutput) *)
NonInterference == \A i \in Calls : pc[i] \in {"produced", "sent"} => held[i] = Own(i)

-----------------------------------------------------------------------------
(* export of complete schedules *)
Pos(step, i) == CHOOSE k \in DOMAIN hist : hist[k] = <<step, Name(i)>>
Window(i) == LET p == Pos("produce", i)
                 r == Pos("respond", i)
             IN SubSeq(hist, p + 1, r - 1)
(* the other calls whose produce step falls into the window of call i *)
Overlapped(i) == {j \in Calls \ {i} : Pos("produce", i) < Pos("produce", j) /\ Pos("produce", j) < Pos("respond", i)}
Sequential == \A i \in Calls : Window(i) = <<>> /\ (i > 1 => Pos("respond", i - 1) < Pos("invoke", i))

ExportDone == Done => PrintT(ToJson([n |-> N, sched |-> hist,
                                     windows |-> [i \in Calls |-> Window(i)],
                                     overlapped |-> [i \in Calls |-> Cardinality(Overlapped(i))],
                                     sequential |-> Sequential]))
=============================================================================
