SPECIFICATION Spec
CONSTANTS
  NSess = 2
  CC <- C1
  Nest <- NoNest
  NCN = 0
  NSN = 0
  MaxFaults = 1
  FaultKinds <- FCore
  HoldKinds <- HNone
  Combos = FALSE
  HandsAll = TRUE
  Bug = "route"
INVARIANTS C01_OwnResponse C02_AnsweredOnOwnSession
CHECK_DEADLOCK FALSE
