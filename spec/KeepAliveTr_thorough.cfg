SPECIFICATION TrSpec
CONSTANTS
  Interval = 16
  MaxLen = 4
  Thresholds = {0, 1, 2, 3}
  AnswerDelays = {0}
  DrainLens = {1}
  HsSlots <- NoHs
  CtxSlots <- NoCtx
  EnvMaxLen = 0
  EnvProduct = FALSE
  StallKinds <- NoStalls
  MaxStalls = 0
  StallMaxLen = 0
  EstModes <- OnlyInit
  EstMaxLen = 0
  TrSet <- AllTransports
  TrDistinct = 4
INVARIANTS TypeOK InvAccuracy InvTiming InvSilentStop InvCounter InvCompleteness InvFinal InvGoneAtClose InvNoTickAfterUser InvGoneWhenClosing InvGrid TrInv TrTolerant TrProp TrExport
PROPERTIES NoPingAfterStop Terminates
CHECK_DEADLOCK FALSE
