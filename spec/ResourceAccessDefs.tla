------------------------- MODULE ResourceAccessDefs -------------------------
(* X07 ResourceAccess - definitions shared by the tables (ResourceAccessTab),  *)
(* the state machine (ResourceAccess) and the monitor (ResourceAccessMon).     *)
(* The PROPERTIES block is at the top of ResourceAccess.tla.                   *)
(*                                                                            *)
(*  1. URIs and URI templates at token level, template matching (Match)       *)
(*  2. lookup table      (registered exact URIs x registered templates x URI) *)
(*  3. handler-result table (what Server.readResource does with what the      *)
(*     selected handler returns)                                              *)
(*  4. registration table (AddResource / AddResourceTemplate argument check)  *)
(*  5. file-handler table: a file-system model (directories, files, symbolic  *)
(*     links), path resolution with kernel semantics (Phys) and with os.Root  *)
(*     semantics (Jail), client roots                                         *)
(* Every table has  Cases, a code-shaped  Expected  (checks in the order of   *)
(* the code) and a declarative  Holds  (the property).                        *)
EXTENDS Integers, Sequences, FiniteSets, TLC

Rng(q) == {q[i] : i \in DOMAIN q}
FrontOf(q) == SubSeq(q, 1, Len(q) - 1)
PrefixOf(p, q) == Len(p) <= Len(q) /\ SubSeq(q, 1, Len(p)) = p
SeqsUpTo(S, n) == UNION {[1..k -> S] : k \in 0..n}

-----------------------------------------------------------------------------
(* 1. URIs and templates.  A URI is a sequence of tokens; the concrete text   *)
(* of a URI is the concatenation of its tokens (each token is its own text).  *)
(* Token classes follow RFC 6570 / RFC 3986 as the uritemplate dependency     *)
(* implements them: a simple expression {v} stands for any run of unreserved  *)
(* characters, commas and percent-encoded triplets; a reserved expression     *)
(* {+v} additionally for reserved characters; nothing else is matched by an   *)
(* expression; a literal matches itself only (case-sensitively); the match is *)
(* anchored at both ends.                                                     *)
TokU == {"a", "d"}                 \* unreserved
TokC == {","}                      \* comma: list separator of a simple expression
TokP == {"%2F"}                    \* percent-encoded triplet
TokX == {" ", "%z"}                \* neither: a space, a percent sign that starts no triplet
Schemes == {"res:", "RES:", "xres:"}
Auths == {"//h/", "//g/"}
TokR == {"/"} \cup Schemes \cup Auths    \* made of reserved and unreserved characters only
TailToks == TokU \cup TokC \cup TokP \cup {"/"} \cup TokX
VarOK == TokU \cup TokC \cup TokP
PlusOK == VarOK \cup TokR

L(s) == [k |-> "lit", s |-> s]
Var == [k |-> "var", s |-> ""]
Plus == [k |-> "plus", s |-> ""]

\* the templates of the universe IN BYTEWISE ORDER OF THEIR TEXT (featureSet.all iterates in that order;
\* the harness checks that sort.Strings leaves this list unchanged)
TemplateSeq == <<
  [name |-> "Tda",  text |-> "res://h/d/{a}",   parts |-> <<L("res:"), L("//h/"), L("d"), L("/"), Var>>],
  [name |-> "Tp",   text |-> "res://h/{+p}",    parts |-> <<L("res:"), L("//h/"), Plus>>],
  [name |-> "Ta",   text |-> "res://h/{a}",     parts |-> <<L("res:"), L("//h/"), Var>>],
  [name |-> "Tab",  text |-> "res://h/{a}/{b}", parts |-> <<L("res:"), L("//h/"), Var, L("/"), Var>>],
  [name |-> "Tad",  text |-> "res://h/{a}d",    parts |-> <<L("res:"), L("//h/"), Var, L("d")>>],
  [name |-> "Tany", text |-> "res:{+p}",        parts |-> <<L("res:"), Plus>>] >>
TemplateNames == {TemplateSeq[i].name : i \in DOMAIN TemplateSeq}
TemplateNamed(n) == CHOOSE t \in Rng(TemplateSeq) : t.name = n
TemplateRank(n) == CHOOSE i \in DOMAIN TemplateSeq : TemplateSeq[i].name = n

ExactSeq == <<
  [name |-> "E1", u |-> <<"res:", "//h/", "a">>],
  [name |-> "E2", u |-> <<"res:", "//h/", "d", "/", "a">>],
  [name |-> "E3", u |-> <<"res:", "//h/", " ", "a">>] >>     \* no template of the universe matches E3
ExactNames == {ExactSeq[i].name : i \in DOMAIN ExactSeq}
ExactNamed(n) == CHOOSE e \in Rng(ExactSeq) : e.name = n
ExactU(n) == ExactNamed(n).u

RECURSIVE MatchP(_, _)
MatchP(ps, u) ==
  IF ps = <<>> THEN u = <<>>
  ELSE LET p == Head(ps)
           rest == Tail(ps) IN
       IF p.k = "lit" THEN u # <<>> /\ u[1] = p.s /\ MatchP(rest, Tail(u))
       ELSE LET ok == IF p.k = "var" THEN VarOK ELSE PlusOK IN
            \E k \in 0..Len(u) : (\A i \in 1..k : u[i] \in ok) /\ MatchP(rest, SubSeq(u, k + 1, Len(u)))
Match(tname, u) == MatchP(TemplateNamed(tname).parts, u)

\* requested URIs: every tail of up to 3 tokens under the standard head, short tails under the other heads, the empty URI
StdHead == <<"res:", "//h/">>
OtherHeads == {<<s, a>> : s \in Schemes, a \in Auths} \ {StdHead}
ReqURIs(n) == {StdHead \o t : t \in SeqsUpTo(TailToks, n)}
              \cup {h \o t : h \in OtherHeads, t \in SeqsUpTo(TailToks, 1)}
              \cup {<<>>, <<"res:">>, <<"res:", "a">>}

-----------------------------------------------------------------------------
(* 2. Lookup (Server.lookupResourceHandler + the not-found branch of          *)
(* Server.readResource).  Every registered handler answers with a tag that    *)
(* identifies it.  Outcome: [ran: handlers invoked, in order; res: "ok" |      *)
(* "notfound" (the wire error of ResourceNotFoundError for the requested URI) *)
(* | "other"; by: the tag in the returned contents ("" if none)].             *)
LookupCfgs == {[E |-> e, T |-> t] : e \in SUBSET ExactNames, t \in SUBSET TemplateNames}
LookupCase(cfg, u) == [E |-> cfg.E, T |-> cfg.T, u |-> u]

ExactHit(c) == {e \in c.E : ExactU(e) = c.u}
Matching(c) == {t \in c.T : Match(t, c.u)}
\* (the ...W forms take the set of matching registered templates as an argument, so that a caller that enumerates
\* configurations for one URI evaluates Match once per template)
\* the first matching template in the iteration order of the feature set
FirstOf(ms) == CHOOSE t \in ms : \A t2 \in ms : TemplateRank(t) <= TemplateRank(t2)

LookupExpectedW(c, ms) ==
  IF ExactHit(c) # {} THEN LET e == CHOOSE e \in ExactHit(c) : TRUE IN [ran |-> <<e>>, res |-> "ok", by |-> e]
  ELSE IF ms # {} THEN [ran |-> <<FirstOf(ms)>>, res |-> "ok", by |-> FirstOf(ms)]
  ELSE [ran |-> <<>>, res |-> "notfound", by |-> ""]
LookupExpected(c) == LookupExpectedW(c, Matching(c))

\* P1: served by the exact resource if any, else by A matching template, else not found; nothing else is invoked
LookupHoldsW(c, o, ms) ==
  /\ Len(o.ran) <= 1
  /\ ExactHit(c) # {} => Rng(o.ran) = ExactHit(c)
  /\ (ExactHit(c) = {} /\ ms # {}) => (Len(o.ran) = 1 /\ o.ran[1] \in ms)
  /\ (ExactHit(c) = {} /\ ms = {}) => (o.ran = <<>> /\ o.res = "notfound")
  /\ o.res = "ok" <=> o.ran # <<>>                       \* a read succeeds only through a registered handler
  /\ o.ran # <<>> => o.by = o.ran[1]                     \* and what comes back is what that handler returned
LookupHolds(c, o) == LookupHoldsW(c, o, Matching(c))

\* The same rule on a registry given as generation maps (e: exact name -> generation, t: template name -> generation,
\* 0 = not registered); a handler is the tag [k, key, g].  Used by the state machine and by the monitor (P6).
NotFoundTag == [k |-> "N", key |-> "", g |-> 0]
MkTag(k, key, g) == [k |-> k, key |-> key, g |-> g]
ExactHitG(e, u) == {x \in DOMAIN e : e[x] > 0 /\ ExactU(x) = u}
MatchingG(t, u) == {y \in DOMAIN t : t[y] > 0 /\ Match(y, u)}
AllowedG(e, t, u) ==
  IF ExactHitG(e, u) # {} THEN {MkTag("E", x, e[x]) : x \in ExactHitG(e, u)}
  ELSE IF MatchingG(t, u) # {} THEN {MkTag("T", y, t[y]) : y \in MatchingG(t, u)}
  ELSE {NotFoundTag}
LookupG(e, t, u) ==
  IF ExactHitG(e, u) # {} THEN LET x == CHOOSE x \in ExactHitG(e, u) : TRUE IN MkTag("E", x, e[x])
  ELSE IF MatchingG(t, u) # {}
       THEN LET y == CHOOSE y \in MatchingG(t, u) : \A z \in MatchingG(t, u) : TemplateRank(y) <= TemplateRank(z) IN MkTag("T", y, t[y])
  ELSE NotFoundTag
HandlersG(e, t) == {MkTag("E", x, e[x]) : x \in {x \in DOMAIN e : e[x] > 0}} \cup {MkTag("T", y, t[y]) : y \in {y \in DOMAIN t : t[y] > 0}}
NoExactG(e, u) == ExactHitG(e, u) = {}

-----------------------------------------------------------------------------
(* 3. Handler results.  beh: what the selected handler returns.               *)
(*   kind "result": a ReadResourceResult with the listed contents;            *)
(*        "nil": (nil, nil);  "nilcontents": a result whose Contents is nil;  *)
(*        "error": code 0 = a plain Go error, otherwise a *jsonrpc.Error with *)
(*        that code ("nf" = ResourceNotFoundError(uri))                       *)
(*   a content: uri "req" (the requested URI) | "" | "other"; mime "" | "own" *)
Cn(u, m, t) == [uri |-> u, mime |-> m, tag |-> t]
Behaviours == {
  [name |-> "ok",        kind |-> "result", cs |-> <<Cn("req", "own", "t1")>>, code |-> 0],
  [name |-> "nouri",     kind |-> "result", cs |-> <<Cn("", "", "t1")>>, code |-> 0],
  [name |-> "otheruri",  kind |-> "result", cs |-> <<Cn("other", "", "t1")>>, code |-> 0],
  [name |-> "multi",     kind |-> "result", cs |-> <<Cn("req", "", "t1"), Cn("other", "own", "t2"), Cn("", "own", "t3")>>, code |-> 0],
  [name |-> "empty",     kind |-> "result", cs |-> <<>>, code |-> 0],
  [name |-> "nil",       kind |-> "nil", cs |-> <<>>, code |-> 0],
  [name |-> "nilcontents", kind |-> "nilcontents", cs |-> <<>>, code |-> 0],
  [name |-> "notfound",  kind |-> "error", cs |-> <<>>, code |-> -1],       \* -1 stands for CodeResourceNotFound
  [name |-> "plainerr",  kind |-> "error", cs |-> <<>>, code |-> 0],
  [name |-> "rpcerr",    kind |-> "error", cs |-> <<>>, code |-> -32099] }
ResultCases == {[via |-> v, beh |-> b, mime |-> m] : v \in {"exact", "tmpl"}, b \in Behaviours, m \in {"", "reg"}}

\* outcome: [res: "ok" | "err"; code: 0 for ok / a plain error, -1 for resource-not-found, else the wire code;
\*           cs: the contents received: uri "req" | "other" | "", mime "" | "own" | "reg", tag]
ResultExpected(c) ==
  CASE c.beh.kind = "error" -> [res |-> "err", code |-> c.beh.code, cs |-> <<>>]
    [] c.beh.kind \in {"nil", "nilcontents"} -> [res |-> "err", code |-> 0, cs |-> <<>>]
    [] OTHER -> [res |-> "ok", code |-> 0,
                 cs |-> [i \in DOMAIN c.beh.cs |->
                           Cn(IF c.beh.cs[i].uri = "" THEN "req" ELSE c.beh.cs[i].uri,          \* "as a convenience, populate some fields"
                              IF c.beh.cs[i].mime = "" THEN c.mime ELSE c.beh.cs[i].mime,
                              c.beh.cs[i].tag)]]

\* P4: no success is ever fabricated, errors keep their code, contents arrive unaltered and in order
ResultHolds(c, o) ==
  /\ c.beh.kind = "error" => (o.res = "err" /\ (c.beh.code # 0 => o.code = c.beh.code))
  /\ c.beh.kind \in {"nil", "nilcontents"} => o.res = "err"
  /\ c.beh.kind = "result" =>
        /\ o.res = "ok" /\ Len(o.cs) = Len(c.beh.cs)
        /\ \A i \in DOMAIN c.beh.cs :
              /\ o.cs[i].tag = c.beh.cs[i].tag
              /\ c.beh.cs[i].uri # "" => o.cs[i].uri = c.beh.cs[i].uri
              /\ c.beh.cs[i].mime # "" => o.cs[i].mime = c.beh.cs[i].mime

-----------------------------------------------------------------------------
(* 4. Registration.  "AddResource panics if the resource URI is invalid or    *)
(* not absolute (has an empty scheme)"; "AddResourceTemplate panics if a URI  *)
(* template is invalid or not absolute (has an empty scheme)".                *)
\* valid: url.Parse accepts it (resource) / RFC 6570 syntax (template); scheme: it has a non-empty scheme
RegClasses == {
  [kind |-> "resource", name |-> "abs",        text |-> "res://h/a",     valid |-> TRUE,  scheme |-> TRUE],
  [kind |-> "resource", name |-> "opaque",     text |-> "embedded:info", valid |-> TRUE,  scheme |-> TRUE],
  [kind |-> "resource", name |-> "space",      text |-> "res://h/ a",    valid |-> TRUE,  scheme |-> TRUE],
  [kind |-> "resource", name |-> "abspath",    text |-> "/a/b",          valid |-> TRUE,  scheme |-> FALSE],
  [kind |-> "resource", name |-> "relpath",    text |-> "a/b",           valid |-> TRUE,  scheme |-> FALSE],
  [kind |-> "resource", name |-> "empty",      text |-> "",              valid |-> TRUE,  scheme |-> FALSE],
  [kind |-> "resource", name |-> "netpath",    text |-> "//h/a",         valid |-> TRUE,  scheme |-> FALSE],
  [kind |-> "resource", name |-> "colon",      text |-> ":",             valid |-> FALSE, scheme |-> FALSE],
  [kind |-> "resource", name |-> "badescape",  text |-> "res://h/%zz",   valid |-> FALSE, scheme |-> TRUE],
  [kind |-> "resource", name |-> "badhost",    text |-> "http://[::1",   valid |-> FALSE, scheme |-> TRUE],
  [kind |-> "template", name |-> "abs",        text |-> "res://h/{a}",   valid |-> TRUE,  scheme |-> TRUE],
  [kind |-> "template", name |-> "abs2",       text |-> "myproto:///{a}/{+b}", valid |-> TRUE, scheme |-> TRUE],
  [kind |-> "template", name |-> "abspath",    text |-> "/files/{a}",    valid |-> TRUE,  scheme |-> FALSE],
  [kind |-> "template", name |-> "onlyvar",    text |-> "{+p}",          valid |-> TRUE,  scheme |-> FALSE],
  [kind |-> "template", name |-> "novar",      text |-> "files",         valid |-> TRUE,  scheme |-> FALSE],
  [kind |-> "template", name |-> "emptyvar",   text |-> "res://h/{}/{b}", valid |-> FALSE, scheme |-> TRUE],
  [kind |-> "template", name |-> "unclosed",   text |-> "res://h/{a",    valid |-> FALSE, scheme |-> TRUE],
  [kind |-> "template", name |-> "badop",      text |-> "res://h/{!a}",  valid |-> FALSE, scheme |-> TRUE] }
\* outcome: [panicked, listed (it is in the list afterwards), readable (a read of its text / an instance reaches its handler)]
RegExpected(c) == [panicked |-> ~c.valid, listed |-> c.valid]     \* the code checks the syntax only
\* P5
RegHolds(c, o) == /\ o.panicked <=> (~c.valid \/ ~c.scheme)
                  /\ o.panicked => ~o.listed

-----------------------------------------------------------------------------
(* 5. The file resource handler.  File-system model: positions are sequences  *)
(* of names below an anonymous top; the handler's directory is base/dir.      *)
DirPos == <<"base", "dir">>
F(p, tag) == [pos |-> p, k |-> "file", tag |-> tag, abs |-> FALSE, to |-> <<>>]
D(p) == [pos |-> p, k |-> "dir", tag |-> "", abs |-> FALSE, to |-> <<>>]
LnRel(p, to) == [pos |-> p, k |-> "link", tag |-> "", abs |-> FALSE, to |-> to]   \* target relative to the link's directory
LnAbs(p, to) == [pos |-> p, k |-> "link", tag |-> "", abs |-> TRUE, to |-> to]    \* target = absolute path of position `to`
Nodes == {
  D(<<"base">>), D(DirPos),
  F(DirPos \o <<"info.txt">>, "IN:info"),
  D(DirPos \o <<"pub">>), F(DirPos \o <<"pub", "file.txt">>, "IN:pub"),
  D(DirPos \o <<"sub">>), D(DirPos \o <<"sub", "deep">>), F(DirPos \o <<"sub", "deep", "f.txt">>, "IN:deep"),
  LnRel(DirPos \o <<"link_in">>, <<"info.txt">>),
  LnAbs(DirPos \o <<"link_in_abs">>, DirPos \o <<"info.txt">>),
  LnRel(DirPos \o <<"link_out">>, <<"..", "secret.txt">>),
  LnAbs(DirPos \o <<"link_out_abs">>, <<"base", "secret.txt">>),
  LnRel(DirPos \o <<"linkdir_out">>, <<"..", "outside">>),
  LnRel(DirPos \o <<"linkdir_in">>, <<"sub">>),
  LnRel(DirPos \o <<"link_chain">>, <<"link_out">>),
  LnRel(DirPos \o <<"loop">>, <<"loop">>),
  LnRel(DirPos \o <<"pub", "link_up">>, <<"..", "info.txt">>),                  \* leaves pub, stays in dir
  LnRel(DirPos \o <<"pub", "link_round">>, <<"..", "..", "dir", "info.txt">>),  \* leaves dir and comes back
  F(<<"base", "secret.txt">>, "OUT:secret"),
  D(<<"base", "outside">>), F(<<"base", "outside", "o.txt">>, "OUT:o"),
  D(<<"base", "dirx">>), F(<<"base", "dirx", "x.txt">>, "OUT:x") }               \* a sibling whose name extends "dir"
NoNode == [pos |-> <<>>, k |-> "none", tag |-> "", abs |-> FALSE, to |-> <<>>]
NodeAt(p) == IF \E n \in Nodes : n.pos = p THEN CHOOSE n \in Nodes : n.pos = p ELSE NoNode
InTags == {n.tag : n \in {m \in Nodes : m.k = "file" /\ PrefixOf(DirPos, m.pos)}}

W(k, p, t) == [k |-> k, pos |-> p, tag |-> t]
\* Resolution of the path `rest` from directory position `cur`.
\*   jail = FALSE: what the operating system does with  dir + "/" + path  (".." is physical, empty and "." segments are skipped)
\*   jail = TRUE : os.Root rooted at DirPos: absolute symlinks and any step above the root are refused ("escape")
\* result kinds: file | dir | none (does not exist) | notdir (a file used as a directory) | loop | escape | invalid (NUL)
RECURSIVE Walk(_, _, _, _)
Walk(cur, rest, fuel, jail) ==
  IF fuel = 0 THEN W("loop", <<>>, "")
  ELSE IF rest = <<>> THEN W("dir", cur, "")
  ELSE LET s == Head(rest)
           r == Tail(rest) IN
    IF s = "nul%00" THEN W("invalid", <<>>, "")
    ELSE IF s \in {"", "."} THEN Walk(cur, r, fuel, jail)
    ELSE IF s = ".." THEN
       (IF jail /\ cur = DirPos THEN W("escape", <<>>, "")
        ELSE Walk(IF cur = <<>> THEN <<>> ELSE FrontOf(cur), r, fuel, jail))
    ELSE LET n == NodeAt(cur \o <<s>>) IN
       CASE n.k = "none" -> W("none", <<>>, "")
         [] n.k = "file" -> IF r = <<>> THEN W("file", n.pos, n.tag) ELSE W("notdir", <<>>, "")
         [] n.k = "dir"  -> Walk(n.pos, r, fuel, jail)
         [] n.k = "link" -> IF n.abs THEN (IF jail THEN W("escape", <<>>, "") ELSE Walk(<<>>, n.to \o r, fuel - 1, jail))
                            ELSE Walk(cur, n.to \o r, fuel - 1, jail)
Phys(segs) == Walk(DirPos, segs, 12, FALSE)
Jail(segs) == Walk(DirPos, segs, 12, TRUE)

\* segments of the generated paths (decoded form: what net/url puts into URL.Path)
SegU == {"info.txt", "pub", "file.txt", "sub", "deep", "f.txt", "missing", "..", ".", "",
         "link_in", "link_in_abs", "link_out", "link_out_abs", "linkdir_out", "linkdir_in", "link_chain", "loop",
         "link_up", "link_round", "o.txt", "secret.txt", "outside", "dir"}
\* paths of three segments start with something that can be walked through (a path that starts with a regular file, a
\* dangling name or a link to a file is settled after its first segment)
SegFirst3 == {"pub", "sub", "..", ".", "", "linkdir_out", "linkdir_in", "outside", "dir", "link_out", "loop"}
Paths(n) == {p \in SeqsUpTo(SegU, n) \ {<<>>} : Len(p) = 3 => p[1] \in SegFirst3}
SpecialPaths == {<<"sub", "deep", "f.txt">>, <<"linkdir_in", "deep", "f.txt">>, <<"sub", "deep", "missing">>,   \* (in every tier)
                 <<"nul%00">>, <<"info.txt", "nul%00">>, <<"..", "dirx", "x.txt">>, <<"pub", "..", "..", "dirx", "x.txt">>,
                 <<"ABS", "secret.txt">>, <<"", "ABS", "secret.txt">>, <<"..", "..", "ABS", "secret.txt">>,   \* ABS: the absolute path of base
                 <<"sub", "deep", "..", "..", "info.txt">>, <<"linkdir_out", "..", "secret.txt">>, <<"pub", "link_up", "x">>}

\* URI forms: how the path is wrapped (P = the segments joined by "/")
Forms == {"file3",    \* file:///P
          "file1",    \* file:/P
          "opaque",   \* file:P        (no slash: net/url puts it into URL.Opaque, URL.Path is empty)
          "host",     \* file://host/P
          "upper",    \* FILE:///P
          "http",     \* http:///P
          "noscheme", \* /P
          "rel",      \* P
          "query",    \* file:///P?x=1
          "frag"}     \* file:///P#f
FileScheme(f) == f \in {"file3", "file1", "opaque", "host", "upper", "query", "frag"}
\* client roots: "none" = the client has no roots (no check); position lists otherwise; "http" = a root that is not a file URI
RootClasses == {"none", "dir", "pub", "pubsub", "pu", "outside", "parent", "dotdot", "http"}
RootPositions(rc) ==
  CASE rc = "dir" -> {DirPos}
    [] rc = "pub" -> {DirPos \o <<"pub">>}
    [] rc = "pubsub" -> {DirPos \o <<"pub">>, DirPos \o <<"sub">>}
    [] rc = "pu" -> {DirPos \o <<"pu">>}                     \* a string prefix of base/dir/pub that is no ancestor of it
    [] rc = "outside" -> {<<"base", "outside">>}
    [] rc = "parent" -> {<<"base">>}
    [] rc = "dotdot" -> {DirPos \o <<"pub">>}                \* written base/dir/sub/../pub
    [] OTHER -> {}
UnderSomeRoot(rc, pos) == \E r \in RootPositions(rc) : PrefixOf(r, pos)

FileCase(era, roots, form, segs) == [era |-> era, roots |-> roots, form |-> form, segs |-> segs]
\* filepath.Localize on unix: fs.ValidPath (non-empty elements, none of them "." or "..") and no NUL
Local(segs) == segs # <<>> /\ \A i \in DOMAIN segs : segs[i] \notin {"", ".", "..", "nul%00"}
\* URL.Path of the form: "opaque" has none; the others are "/" + P
HasPath(c) == c.form # "opaque"

\* outcome: [res: "data" | "notfound" | "err"; data: the tag of the contents returned ("" if none)]
FErr == [res |-> "err", data |-> ""]
FileExpected(c) ==
  IF c.era = "modern" THEN FErr                     \* roots/list may not be sent while serving a request (SEP-2322)
  ELSE IF c.roots = "http" THEN FErr                \* fileRoots
  ELSE IF ~FileScheme(c.form) THEN FErr             \* "URI is not a file"
  ELSE IF ~HasPath(c) THEN FErr                     \* "empty path"
  ELSE IF ~Local(c.segs) THEN FErr                  \* "cannot be localized"
  ELSE IF c.roots # "none" /\ ~UnderSomeRoot(c.roots, DirPos \o c.segs) THEN FErr   \* lexical check against the roots
  ELSE LET w == Jail(c.segs) IN
       CASE w.k = "file" -> [res |-> "data", data |-> w.tag]
         [] w.k = "none" -> [res |-> "notfound", data |-> ""]
         [] OTHER -> FErr

\* regular files addressed without dot segments and without symbolic links
PlainFiles == {<<"info.txt">>, <<"pub", "file.txt">>, <<"sub", "deep", "f.txt">>}
PlainMissing == {<<"missing">>, <<"pub", "missing">>, <<"missing", "file.txt">>}
Servable(c) == c.era = "legacy" /\ c.form \in {"file3", "file1"} /\ c.roots # "http"
               /\ (c.roots = "none" \/ UnderSomeRoot(c.roots, DirPos \o c.segs))
\* P2 (never outside the directory), P3 (roots honoured), and the handler is of use
FileNeverOutside(c, o) == o.data # "" => o.data \in InTags
FileRightFile(c, o) == (o.data # "" /\ ".." \notin Rng(c.segs)) => (Phys(c.segs).k = "file" /\ o.data = Phys(c.segs).tag)
FileSchemeOnly(c, o) == o.data # "" => FileScheme(c.form)
FileRootsHonoured(c, o) == (o.data # "" /\ c.roots # "none") => (Phys(c.segs).k = "file" /\ UnderSomeRoot(c.roots, Phys(c.segs).pos))
FileServes(c, o) == /\ (Servable(c) /\ c.segs \in PlainFiles) => (o.res = "data" /\ o.data = Phys(c.segs).tag)
                    /\ (Servable(c) /\ c.segs \in PlainMissing) => o.res = "notfound"
FileHolds(c, o) == FileNeverOutside(c, o) /\ FileRightFile(c, o) /\ FileSchemeOnly(c, o) /\ FileRootsHonoured(c, o) /\ FileServes(c, o)
\* D1 (named deviation): the check against the roots is lexical, os.Root then follows symbolic links anywhere inside the
\* directory - a link below a root that points to a file of the directory outside every root is served
=============================================================================
