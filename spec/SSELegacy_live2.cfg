SPECIFICATION MCFairSpec
CONSTANTS
  MaxSess = 2
  MaxPost = 2
  MaxSend = 0
  Cap = 1
  Direct = FALSE
  RandomSelect = TRUE
  KindSet = {"call", "slow"}
  WithNoId = FALSE
  WithUnknown = FALSE
INVARIANTS TypeOK EndpointFirst Routing AtMostOnce Order Refusal TableExact
PROPERTIES Delivered NoLeak PostsEnd
CHECK_DEADLOCK FALSE
