----------------------------- MODULE StreamSrvMC -----------------------------
(* Bounded configurations of StreamSrv, and the scenario generator: the same   *)
(* actions with a history of the ENVIRONMENT actions written in the step       *)
(* vocabulary of harness/mcp/c08_streamsrv_test.go.  Three step relations:     *)
(*   GNext     lock granularity: every interleaving of SDK critical sections   *)
(*             and environment actions (exhaustive design check; the history   *)
(*             is hidden from the fingerprint by MCView)                       *)
(*   SeamNext  the environment acts only when the SDK is quiescent -- what the *)
(*             harness does (synctest.Wait after every action); used for the   *)
(*             transition cover (-dump dot) and for -simulate                  *)
EXTENDS StreamSrv, Json
VARIABLE hist
gvars == <<vars, hist>>

PrimeAll == [s \in Sess |-> TRUE]
PrimeNone == [s \in Sess |-> FALSE]
PrimeMixed == [s \in Sess |-> s = "s1"]
C(store, json, stateless, prime) == [store |-> store, json |-> json, stateless |-> stateless, prime |-> prime]
\* configuration sets used by the .cfg files
CfgStorePrime == {C(TRUE, FALSE, FALSE, PrimeAll)}
CfgStoreNoPrime == {C(TRUE, FALSE, FALSE, PrimeNone)}
CfgStoreBoth == {C(TRUE, FALSE, FALSE, PrimeAll), C(TRUE, FALSE, FALSE, PrimeNone)}
CfgStoreMixed == {C(TRUE, FALSE, FALSE, PrimeMixed)}
CfgPlainSse == {C(FALSE, FALSE, FALSE, PrimeMixed)}
CfgPlainJson == {C(FALSE, TRUE, FALSE, PrimeMixed)}
CfgStoreJson == {C(TRUE, TRUE, FALSE, PrimeMixed)}
CfgStateless == {C(FALSE, FALSE, TRUE, PrimeAll), C(FALSE, TRUE, TRUE, PrimeAll), C(TRUE, FALSE, TRUE, PrimeAll)}
CfgAll == {C(st, js, sl, pr) : st \in BOOLEAN, js \in BOOLEAN, sl \in BOOLEAN, pr \in {PrimeAll, PrimeMixed}}
CfgRouting == {C(FALSE, FALSE, FALSE, PrimeMixed), C(FALSE, TRUE, FALSE, PrimeMixed)}

H(q) == hist' = hist \o q
IdxName(i) == IF i = -1 THEN "none" ELSE ToString(i)

EPost(s, r, g) == PostStart(s, r, g) /\ H((IF g THEN <<"gateO|" \o PX(s, r)>> ELSE <<>>) \o <<"post|" \o s \o "|" \o r>>)
EAbandon(s, r) == HAbandon(s, r) /\ H(<<"abandon|" \o s \o "|" \o r>>)
EBcast(s, r) == HBcast(s, r) /\ H(<<"upd|" \o s \o "|" \o r>>)
EEmit(s, r, g) == HEmit(s, r, g) /\ H(IF g THEN <<"gateA|" \o s \o "|" \o r, "emit|" \o s \o "|" \o r>> ELSE <<"emit|" \o s \o "|" \o r>>)
ESreq(s, r, g) == HSreq(s, r, g) /\ H(IF g THEN <<"gateA|" \o s \o "|" \o r, "sreq|" \o s \o "|" \o r>> ELSE <<"sreq|" \o s \o "|" \o r>>)
EAns(s, r) == Ans(s, r) /\ H(<<"ans|" \o s \o "|" \o r>>)
ERet(s, r, g) == HRet(s, r, g) /\ H(IF g THEN <<"gateA|" \o s \o "|" \o r, "ret|" \o s \o "|" \o r>> ELSE <<"ret|" \o s \o "|" \o r>>)
ESa(s, g) == Sa(s, g) /\ H(IF g THEN <<"gateA|" \o s \o "|sa", "sa|" \o s>> ELSE <<"sa|" \o s>>)
EGet(g, s, t, i, hg) == Get(g, s, t, i, hg) /\ H((IF hg THEN <<"gateF|" \o g>> ELSE <<>>) \o <<"get|" \o g \o "|" \o s \o "|" \o t \o "|" \o IdxName(i)>>)
ECut(e) == Cut(e) /\ H(<<"cut|" \o e>>)
EDel(s) == Del(s) /\ H(<<"del|" \o s>>)
EOpen == GateOpen /\ H(<<"open">>)

\* GET names are used in order (g1 before g2 ...): the scripts are the same up to renaming
GetSeq == <<"g1", "g2", "g3", "g4", "g5", "g6", "g7", "g8">>
GIdx(g) == CHOOSE i \in 1..Len(GetSeq) : GetSeq[i] = g
GetOrder(g) == \A g2 \in Gets : GIdx(g2) < GIdx(g) => x[g2].pc # "idle"

GEnv ==
  \/ \E s \in Sess, r \in Reqs : EAns(s, r) \/ EBcast(s, r) \/ EAbandon(s, r) \/ (\E g \in BOOLEAN : EPost(s, r, g) \/ EEmit(s, r, g) \/ ESreq(s, r, g) \/ ERet(s, r, g))
  \/ \E s \in Sess, g \in BOOLEAN : ESa(s, g)
  \/ \E g \in Gets, s \in Sess, t \in Streams, i \in -1..(MaxEmit + MaxSreq + MaxSa + 3 * MaxBc + 2), hg \in BOOLEAN : GetOrder(g) /\ EGet(g, s, t, i, hg)
  \/ \E e \in Exch : ECut(e)
  \/ \E s \in Sess : EDel(s)
  \/ EOpen
GSdk == SdkNext /\ UNCHANGED hist
GInit == Init /\ hist = <<>>
GNext == GSdk \/ GEnv
GSpec == GInit /\ [][GNext]_gvars
\* seam level: the same environment actions, enabled only when the SDK is quiescent (named so that
\* `-dump dot,actionlabels` labels every edge with the action and its arguments)
Quiet == ~SdkEnabled
\* generated scripts hold at most two gates at a time (every further hold multiplies the interleavings the
\* strict trace validation has to explore when they are opened together)
HeldCount == Cardinality({p \in Sess \X Origins : wr[p[1]][p[2]].held}) + Cardinality({e \in Exch : x[e].held})
GateOK(g) == g => HeldCount < 2
SPost(s, r, g) == Quiet /\ GateOK(g) /\ EPost(s, r, g)
SBcast(s, r) == Quiet /\ EBcast(s, r)
SAbandon(s, r) == Quiet /\ EAbandon(s, r)
SEmit(s, r, g) == Quiet /\ GateOK(g) /\ EEmit(s, r, g)
SSreq(s, r, g) == Quiet /\ GateOK(g) /\ ESreq(s, r, g)
SAns(s, r) == Quiet /\ EAns(s, r)
SRet(s, r, g) == Quiet /\ GateOK(g) /\ ERet(s, r, g)
SSa(s, g) == Quiet /\ GateOK(g) /\ ESa(s, g)
SGet(g, s, t, i, hg) == Quiet /\ GateOK(hg) /\ GetOrder(g) /\ EGet(g, s, t, i, hg)
SCut(e) == Quiet /\ ECut(e)
SDel(s) == Quiet /\ EDel(s)
SOpen == Quiet /\ EOpen
SeamNext ==
  \/ GSdk
  \/ \E s \in Sess, r \in Reqs : SAns(s, r) \/ SBcast(s, r) \/ SAbandon(s, r) \/ (\E g \in BOOLEAN : SPost(s, r, g) \/ SEmit(s, r, g) \/ SSreq(s, r, g) \/ SRet(s, r, g))
  \/ \E s \in Sess, g \in BOOLEAN : SSa(s, g)
  \/ \E g \in Gets, s \in Sess, t \in Streams, i \in -1..(MaxEmit + MaxSreq + MaxSa + 3 * MaxBc + 2), hg \in BOOLEAN : SGet(g, s, t, i, hg)
  \/ \E e \in Exch : SCut(e)
  \/ \E s \in Sess : SDel(s)
  \/ SOpen
SeamSpec == GInit /\ [][SeamNext]_gvars
MCView == vars

\* export for -simulate: every quiescent state is the end of a complete script
SdkEnabledExact == SdkEnabled <=> ENABLED SdkNext
Export == IF Quiet /\ Len(hist) >= 3
          THEN PrintT(ToJson([store |-> cfg.store, json |-> cfg.json, stateless |-> cfg.stateless, prime |-> cfg.prime, steps |-> hist]))
          ELSE TRUE

NoDup == <<>>
Dup1 == [d1 |-> "r1"]
\* reachability witnesses (each must be VIOLATED, otherwise the configuration is vacuous)
W_NoReplay == \A g \in Gets : recv[g] = <<>>
W_NoConflict == \A g \in Gets : x[g].status # 409
W_NoDetachedWrite == \A s \in Sess, t \in Streams : Len(log[s][t]) <= 1 \/ \E e \in Exch : x[e].pc = "hang" /\ x[e].s = s /\ x[e].st = t
W_NoTempReplay == \A g \in Gets : x[g].obj # "tmp"
W_NoHeldWrite == \A s \in Sess, o \in Streams : ~(wr[s][o].pc = "cs" /\ wr[s][o].held)
W_NoLostToCut == \A s \in Sess, t \in Streams : str[s][t].lastIdx < 0 \/ \E e \in Exch : x[e].st = t /\ x[e].s = s /\ (\E j \in 1..Len(recv[e]) : recv[e][j].idx = str[s][t].lastIdx)
W_NoJsonBody == \A e \in Posts : \A j \in 1..Len(recv[e]) : recv[e][j].idx # -1
W_NoCancelNoticeSeen == \A e \in Exch : \A j \in 1..Len(recv[e]) : recv[e][j].pl.k # "cancel"
W_NoDupRefused == \A e \in Posts : x[e].status # 400
W_NoBroadcastSeen == \A e \in Exch : \A j \in 1..Len(recv[e]) : recv[e][j].pl.k # "bcast"
W_NoHeldPost == \A e \in Posts : ~(x[e].pc = "open" /\ x[e].held)
W_NoStandaloneNested == \A e \in Gets : \A j \in 1..Len(recv[e]) : recv[e][j].pl.o = "sa"
=============================================================================
