---------------------------- MODULE SSELegacyMC ----------------------------
(* Bounded configurations of SSELegacy (server side of X02):                  *)
(*   MCSpec      every interleaving of environment and SDK-internal steps     *)
(*               (exhaustive safety; with Fair: liveness)                     *)
(*   SettledSpec environment steps only in settled states (what the harness   *)
(*               can realise at seam level): the graph dumped for the         *)
(*               transition cover                                             *)
(* Environment restrictions of the generated behaviours (not of the design):  *)
(* a gated POST is one that reaches the body phase; the bare transport        *)
(* (Direct) has no table, no content-type check and no Server, so POSTs       *)
(* address opened sessions only and are call/notif/badjson/badreq.            *)
EXTENDS SSELegacy

CONSTANTS KindSet,     \* kinds of POST bodies generated in this configuration (subset of Kinds)
          WithNoId,    \* generate POSTs without a session id
          WithUnknown  \* generate POSTs with an id the handler never issued

Reaches(t, k) == t \in tab /\ ~(k = "ctype" /\ ~Direct)
EnvOK(t, k, g) ==
  /\ k \in KindSet /\ ((t \in Sess /\ t <= nopen) \/ (t = NoId /\ WithNoId) \/ (t = Unknown /\ WithUnknown))
  /\ g => Reaches(t, k)
  /\ Direct => (t \in tab /\ k \notin {"slow", "ctype"})
  /\ k = "slow" => Reaches(t, k) /\ ~g

GetE == Get
GetRefusedE == GetRefused
PostE(t, k, g) == EnvOK(t, k, g) /\ PostLookup(t, k, g)
ReleaseE(p) == Release(p)
EndSlowE(p) == EndSlow(p)
ReadE(s) == eofs[s] < 2 /\ Read(s)     \* (bound on the EOF counter)
SendE(s) == Send(s)
DisconnectE(s) == Disconnect(s)
CloseE(s) == Close(s)

MCNext ==
  \/ \E p \in Posts : PostBody(p)
  \/ \E s \in Sess : Deliver(s)
  \/ \E s \in Sess : \E p \in Posts : Respond(s, p)
  \/ \E s \in Sess : ConnClose(s)
  \/ \E s \in Sess : GetExit(s)
  \/ GetE
  \/ \E t \in Targets, k \in Kinds, g \in BOOLEAN : PostE(t, k, g)
  \/ \E p \in Posts : ReleaseE(p)
  \/ \E p \in Posts : EndSlowE(p)
  \/ \E s \in Sess : ReadE(s)
  \/ \E s \in Sess : SendE(s)
  \/ \E s \in Sess : DisconnectE(s)
  \/ \E s \in Sess : CloseE(s)
MCSpec == Init /\ [][MCNext]_vars
MCFairSpec == MCSpec /\ Fair

\* seam level: the harness issues a step only when the SDK has settled
GetS == Settled /\ Get
GetRefusedS == Settled /\ GetRefused
PostS(t, k, g) == Settled /\ EnvOK(t, k, g) /\ PostLookup(t, k, g)
ReleaseS(p) == Settled /\ Release(p)
EndSlowS(p) == Settled /\ EndSlow(p)
ReadS(s) == Settled /\ eofs[s] < 2 /\ Read(s)
SendS(s) == Settled /\ Send(s)
DisconnectS(s) == Settled /\ Disconnect(s)
CloseS(s) == Settled /\ Close(s)
SettledNext ==
  \/ \E p \in Posts : PostBody(p)
  \/ \E s \in Sess : Deliver(s)
  \/ \E s \in Sess : \E p \in Posts : Respond(s, p)
  \/ \E s \in Sess : ConnClose(s)
  \/ \E s \in Sess : GetExit(s)
  \/ GetS
  \/ GetRefusedS
  \/ \E t \in Targets, k \in Kinds, g \in BOOLEAN : PostS(t, k, g)
  \/ \E p \in Posts : ReleaseS(p)
  \/ \E p \in Posts : EndSlowS(p)
  \/ \E s \in Sess : ReadS(s)
  \/ \E s \in Sess : SendS(s)
  \/ \E s \in Sess : DisconnectS(s)
  \/ \E s \in Sess : CloseS(s)
SettledSpec == Init /\ [][SettledNext]_vars

\* view of the cover graph: outputs (got, out, results of Writes) and ghosts are hidden, a POST that is
\* over and whose message is nowhere any more is just "done" - none of this affects what is enabled
InPlay(p) == post[p].ph # "done" \/ \E s \in Sess : p \in Range(q[s]) \/ p \in hand[s]
CoverView == <<nopen, tab, st, get, reading, closing, q, hand, ended \cap {p \in Posts : InPlay(p)},
               [s \in Sess |-> Len(sres[s])], [s \in Sess |-> eofs[s]],
               [p \in Posts |-> IF InPlay(p) THEN post[p] ELSE [NewPost EXCEPT !.ph = "done"]]>>

\* reachability witnesses (each must be VIOLATED, otherwise the model is vacuous)
NeverDraining   == ~(\E s \in Sess : get[s] = "cancelled" /\ st[s] = "open" /\ hand[s] # {} /\ Settled)
NeverLatePush   == ~(\E p \in Posts : late[p] # "" /\ post[p].status = 202)
NeverParkedPost == ~(\E p \in Posts : post[p].ph = "body" /\ Settled /\ (post[p].gated => post[p].rel))
NeverCrossTalk  == ~(\E s1, s2 \in Sess : s1 # s2 /\ Len(got[s1]) > 0 /\ Len(got[s2]) > 0)
NeverEofWithQueue == ~(\E s \in Sess : eofs[s] > 0 /\ q[s] # <<>>)
=============================================================================
