SPECIFICATION Spec
CONSTANTS
  NSess = 1
  CC <- C1
  Nest <- C1
  NCN = 0
  NSN = 0
  MaxFaults = 1
  FaultKinds <- FInject
  HoldKinds <- HNone
  Combos = FALSE
  HandsAll = TRUE
  Bug = "none"
INVARIANTS C01_ErrorHasCause
CHECK_DEADLOCK FALSE
