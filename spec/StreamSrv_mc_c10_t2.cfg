SPECIFICATION GSpec
CONSTANTS
  Sess = {"s1","s2"}
  Reqs = {"r1"}
  Gets = {"g1"}
  Cfgs <- CfgStoreJson
  MaxEmit = 1
  MaxSreq = 0
  MaxSa = 0
  Gates = FALSE
VIEW MCView
INVARIANTS ResumeExact IdsDense IdStable StoreBeforeDeliver CompleteAtEnd CompleteAtRest FinalObtainable RefusedOnlyOnConflict ResponseOnOwnExchange NestedRouting NoCrossSession RoutingEntryLifecycle LockDiscipline
CHECK_DEADLOCK FALSE
