SPECIFICATION MCFairSpec
CONSTANTS
  MaxEv = 3
  MaxRead = 3
  MaxWrite = 2
  EpSet = {"rel", "bad"}
  WrSet = {"202", "4xx"}
  EvSet = {"msg", "junk", "comment"}
  EndSet = {"eof", "err", "cutdata"}
INVARIANTS TypeOK EndpointFirst PostTarget WriteResult ReadOrder EndSurfaces CloseEnds EndCloses
PROPERTIES AfterClose EofAfterClose Quiesce
CHECK_DEADLOCK FALSE
