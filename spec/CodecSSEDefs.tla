----------------------------- MODULE CodecSSEDefs -----------------------------
(* Part of the definitions for property C19 (see CodecDefs, section 12):      *)
(* framing under a stream that BREAKS.  "The same holds through newline-      *)
(* delimited and SSE framing for every payload" is owed by what the framing   *)
(* layer DELIVERS: whatever happens to the byte stream under it, every frame  *)
(* it hands up is exactly one of the frames that were written - never a       *)
(* prefix of one - and the frames come in the order in which they were        *)
(* written, without a gap, up to the place where the stream broke.            *)
(*                                                                            *)
(* A writer puts a sequence of frames on a byte stream; the channel delivers  *)
(* a prefix of that stream (cut at any byte) and then ends it in one of the   *)
(* ways an io.Reader can end; the reader yields frames.  The state machine is *)
(* CodecSSE.tla; here are the byte-class alphabet, the writer, the readers    *)
(* (the specification's, the code-shaped one, a witness) and the property     *)
(* predicates, which the monitor CodecMon evaluates on outcomes of the REAL   *)
(* scanEvents, streamableClientConn.processStream and ioConn.Read.            *)
(*                                                                            *)
(* SSE (https://html.spec.whatwg.org/multipage/server-sent-events.html,       *)
(* 9.2.5/9.2.6; mcp/event.go quotes "Records are terminated with two          *)
(* consecutive newlines"): a stream is a sequence of lines ended by CR LF, LF *)
(* or CR; a line `field:value` (one space after the colon is not part of the  *)
(* value) sets a field of the event under construction, several data lines    *)
(* are joined, a line that starts with a colon is a comment, an EMPTY line    *)
(* dispatches the event; "once the end of the file is reached, any pending    *)
(* data must be discarded (if the file ends in the middle of an event, before *)
(* the final empty line, the incomplete event is not dispatched)".            *)
(*                                                                            *)
(* Newline-delimited JSON (mcp/transport.go: "An ioConn is a transport that   *)
(* delimits messages with newlines across a bidirectional stream ... See      *)
(* https://github.com/ndjson/ndjson-spec"; that text, 3.1: "Each JSON text    *)
(* MUST ... be written to the stream followed by the newline character \n     *)
(* (0x0A).  The newline character MAY be preceded by a carriage return \r";   *)
(* MCP stdio: "Messages are delimited by newlines, and MUST NOT contain       *)
(* embedded newlines"): a frame is a JSON text AND its newline.  What the     *)
(* property allows for a last line without newline at the end of the stream:  *)
(* the frame is not whole (its newline never came), so the reader does not    *)
(* OWE it (ScNoGaps counts frames whose newline arrived); a JSON-RPC message  *)
(* is an object or an array, so no proper prefix of its text is a JSON text - *)
(* if the text is there completely the reader MAY deliver it (what it         *)
(* delivers equals what was written), if the text is cut it must not deliver  *)
(* anything for it.  Both choices satisfy ScDelivered; nothing else does.     *)
EXTENDS Integers, Sequences, FiniteSets, SequencesExt

-----------------------------------------------------------------------------
(* The case: what the writer writes                                           *)

ScFramings == {"sse", "ndjson"}
\* fields of one event, in the order in which the writer writes its lines (<<field, number of the data line>>):
\* the SDK's own writeEvent writes event, id, retry, data; a foreign writer may write any order, several data
\* lines, or an event that only carries an id (the priming event of a resumable stream)
ScLines(s) ==
  CASE s = "data"         -> << <<"data", 1>> >>
    [] s = "id-data"      -> << <<"id", 1>>, <<"data", 1>> >>
    [] s = "name-id-data" -> << <<"event", 1>>, <<"id", 1>>, <<"data", 1>> >>
    [] s = "all"          -> << <<"event", 1>>, <<"id", 1>>, <<"retry", 1>>, <<"data", 1>> >>
    [] s = "data2"        -> << <<"data", 1>>, <<"data", 2>> >>
    [] s = "id-data2"     -> << <<"id", 1>>, <<"data", 1>>, <<"data", 2>> >>
    [] s = "data-id"      -> << <<"data", 1>>, <<"id", 1>> >>
    [] s = "id-only"      -> << <<"id", 1>> >>
    [] s = "frame"        -> << <<"json", 1>> >>          \* newline-delimited: one JSON text
ScSseShapes == {"data", "id-data", "name-id-data", "all", "data2", "id-data2", "data-id", "id-only"}
ScEols      == {"lf", "crlf", "cr"}        \* newline-delimited: lf and crlf
ScColons    == {"sp", "tight"}             \* `data: x` / `data:x`
ScComments  == {"none", "lead", "inner"}   \* a comment line before the first field of every event / after its first field
\* how the stream ends after the cut: io.EOF / io.ErrUnexpectedEOF (a peer that goes away inside a chunked or
\* length-delimited body) / any other read error (connection reset)
ScEnds      == {"eof", "ueof", "err"}
\* how the bytes before the cut and the end reach the reader (the harness runs every one of them for every
\* case of the machine; the readers below are folds over the bytes, so the machine, which delivers byte by byte,
\* covers every chunking): one Read with everything and then a Read with the error / the last Read returns
\* data AND the error / Reads of one byte
ScModes     == {"whole", "together", "byte"}
\* who reads: scanEvents / streamableClientConn.processStream (the streamable client's reader of a response
\* body) / ioConn.Read
ScPaths     == {"scan", "stream", "ioconn"}

(* The alphabet: a byte of the stream is one of the classes                   *)
(*   n1 n2  a proper, non-empty prefix of a field name / the rest of it       *)
(*   co sp  the colon / the space after it                                    *)
(*   v1 v2  a proper, non-empty prefix of a value (a comment's text, a JSON   *)
(*          text) / the rest of it                                            *)
(*   cr lf  the bytes of a line end                                           *)
(* tagged with the event, field and data line it belongs to.  A cut after n1  *)
(* or v1 stands for every cut inside that name or value: the harness runs     *)
(* every byte offset of the concrete stream.                                  *)
Tok(t, e, f, l) == <<t, e, f, l>>
EolToks(eol, e) ==
  CASE eol = "lf" -> << Tok("lf", e, "", 0) >>
    [] eol = "cr" -> << Tok("cr", e, "", 0) >>
    [] OTHER      -> << Tok("cr", e, "", 0), Tok("lf", e, "", 0) >>
FieldLine(c, e, f, l) ==
  << Tok("n1", e, f, l), Tok("n2", e, f, l), Tok("co", e, f, l) >>
  \o (IF c.colon = "sp" THEN << Tok("sp", e, f, l) >> ELSE << >>)
  \o << Tok("v1", e, f, l), Tok("v2", e, f, l) >> \o EolToks(c.eol, e)
CommentLine(c, e) ==
  << Tok("co", e, "comment", 0), Tok("v1", e, "comment", 0), Tok("v2", e, "comment", 0) >> \o EolToks(c.eol, e)
EventToks(c, e) ==
  LET ls == ScLines(c.shapes[e]) IN
  IF c.framing = "ndjson"
  THEN << Tok("v1", e, "json", 1), Tok("v2", e, "json", 1) >> \o EolToks(c.eol, e)
  ELSE (IF c.comment = "lead" THEN CommentLine(c, e) ELSE << >>)
       \o FlattenSeq([i \in 1..Len(ls) |->
             FieldLine(c, e, ls[i][1], ls[i][2]) \o (IF c.comment = "inner" /\ i = 1 THEN CommentLine(c, e) ELSE << >>)])
       \o EolToks(c.eol, e)                                   \* the empty line
ScN(c) == Len(c.shapes)
ScStream(c) == FlattenSeq([e \in 1..ScN(c) |-> EventToks(c, e)])
\* the offset at which frame e is whole: its last byte (the LF of the empty line / of the frame's newline)
ScEnd(c, e) == LET f[i \in 0..ScN(c)] == IF i = 0 THEN 0 ELSE f[i - 1] + Len(EventToks(c, i)) IN f[e]
\* the frames that are whole before the cut
ScWholeBefore(c, cut) == Cardinality({e \in 1..ScN(c) : ScEnd(c, e) <= cut})
\* the cut is not on a frame boundary
ScInside(c, cut) == cut # 0 /\ \A e \in 1..ScN(c) : ScEnd(c, e) # cut
\* the frames that carry a message for the streamable client (an event without data is a priming event)
ScHasData(s) == \E i \in 1..Len(ScLines(s)) : ScLines(s)[i][1] \in {"data", "json"}
ScMsgN(c) == Cardinality({e \in 1..ScN(c) : ScHasData(c.shapes[e])})
ScMsgWholeBefore(c, cut) == Cardinality({e \in 1..ScN(c) : ScHasData(c.shapes[e]) /\ ScEnd(c, e) <= cut})

-----------------------------------------------------------------------------
(* Values and events as the readers see them                                  *)

None == <<"none">>
Whole(e, l) == <<"whole", e, l>>       \* the value as written
Part(e, l)  == <<"part", e, l>>        \* a proper, non-empty prefix of it
Other       == <<"other">>             \* neither
EmptyEv == [name |-> None, id |-> None, retry |-> None, data |-> << >>]
\* the event as written
ScWritten(c, e) ==
  LET ls == ScLines(c.shapes[e])
      One(f) == IF \E i \in 1..Len(ls) : ls[i][1] = f THEN Whole(e, 1) ELSE None
      ds == SelectSeq(ls, LAMBDA x : x[1] \in {"data", "json"})
  IN [name |-> One("event"), id |-> One("id"), retry |-> One("retry"), data |-> [i \in 1..Len(ds) |-> Whole(e, ds[i][2])]]

\* Event.Empty(): nothing in it
IsEmptyEv(ev) == ev.name = None /\ ev.id = None /\ ev.retry = None /\ (ev.data = << >> \/ ev.data = << None >>)

(* The reader's state: the line read so far, whether the last byte was a CR   *)
(* (a following LF belongs to the same line end), the event under             *)
(* construction, the events yielded, and how it ended.                        *)
InitRd == [line |-> << >>, aftercr |-> FALSE, ev |-> EmptyEv, out |-> << >>, err |-> "none"]

FirstColon(ln) == LET S == {i \in 1..Len(ln) : ln[i][1] = "co"} IN IF S = {} THEN 0 ELSE CHOOSE i \in S : \A j \in S : i <= j
DropSp(s) == IF s # << >> /\ s[1][1] = "sp" THEN Tail(s) ELSE s
ValueOf(vs) ==
  IF vs = << >> THEN None
  ELSE IF Len(vs) = 1 /\ vs[1][1] = "v1" THEN Part(vs[1][2], vs[1][4])
  ELSE IF Len(vs) = 2 /\ vs[1][1] = "v1" /\ vs[2][1] = "v2" /\ vs[1][2] = vs[2][2] /\ vs[1][3] = vs[2][3] /\ vs[1][4] = vs[2][4]
       THEN Whole(vs[1][2], vs[1][4])
  ELSE Other
\* a line `name:value`: a line without a colon is only ever seen by a reader that takes an unfinished last line for
\* a line (the code-shaped reader reports it as malformed); a name that is not one of the four is ignored
ParseLine(rd, ln) ==
  LET ci == FirstColon(ln) IN
  IF ci = 0 THEN [rd EXCEPT !.line = << >>, !.err = "malformed"]
  ELSE IF ci = 1 THEN [rd EXCEPT !.line = << >>]                                       \* a comment
  ELSE LET nm == SubSeq(ln, 1, ci - 1)
           known == Len(nm) = 2 /\ nm[1][1] = "n1" /\ nm[2][1] = "n2" /\ nm[1][3] = nm[2][3]
           f == nm[1][3]
           v == ValueOf(DropSp(SubSeq(ln, ci + 1, Len(ln))))
       IN IF ~known THEN [rd EXCEPT !.line = << >>]
          ELSE CASE f = "event" -> [rd EXCEPT !.line = << >>, !.ev.name = v]
                 [] f = "id"    -> [rd EXCEPT !.line = << >>, !.ev.id = v]
                 [] f = "retry" -> [rd EXCEPT !.line = << >>, !.ev.retry = v]
                 [] f = "data"  -> [rd EXCEPT !.line = << >>, !.ev.data = Append(@, v)]
                 [] OTHER       -> [rd EXCEPT !.line = << >>]
Dispatch(rd) == IF IsEmptyEv(rd.ev) THEN [rd EXCEPT !.line = << >>, !.ev = EmptyEv]
                ELSE [rd EXCEPT !.line = << >>, !.ev = EmptyEv, !.out = Append(@, rd.ev)]
EndLine(rd) == IF rd.line = << >> THEN Dispatch(rd) ELSE ParseLine(rd, rd.line)
TrimCr(ln) == LET S == {i \in 1..Len(ln) : ln[i][1] # "cr"} IN
              IF S = {} THEN << >> ELSE SubSeq(ln, 1, CHOOSE i \in S : \A j \in S : j <= i)

(* The readers.  "spec": the framing texts quoted above.  SSE: CR LF, LF and  *)
(* CR end a line, an empty line dispatches, and whatever is pending when the  *)
(* stream ends - however it ends - is discarded; an end other than io.EOF is  *)
(* reported.  Newline-delimited: a frame is delivered when its newline        *)
(* arrives.                                                                   *)
(* "code": mcp/event.go scanEvents as it is (pinned by the repository's own   *)
(* TestScanEvents): only LF ends a line (CR is trimmed from the end of a      *)
(* line), a read error other than io.EOF is yielded and nothing else, and at  *)
(* io.EOF the unfinished last line is taken for a line and the event under    *)
(* construction is yielded.  Newline-delimited: ioConn's json.Decoder, for    *)
(* which a JSON text ends with its last byte.                                 *)
(* "anyeof": the witness - a reader that takes io.ErrUnexpectedEOF for the    *)
(* end of the stream as well.                                                 *)
ScReaders == {"spec", "code", "anyeof"}

StepSse(rdr, rd, tk) ==
  IF rd.err # "none" THEN rd
  ELSE IF rdr = "spec"
       THEN (IF tk[1] = "lf" /\ rd.aftercr THEN [rd EXCEPT !.aftercr = FALSE]
             ELSE IF tk[1] \in {"cr", "lf"} THEN [EndLine(rd) EXCEPT !.aftercr = (tk[1] = "cr")]
             ELSE [rd EXCEPT !.line = Append(@, tk), !.aftercr = FALSE])
       ELSE (IF tk[1] = "lf" THEN EndLine([rd EXCEPT !.line = TrimCr(@)])
             ELSE [rd EXCEPT !.line = Append(@, tk)])
FrameEv(e) == [EmptyEv EXCEPT !.data = << Whole(e, 1) >>]
StepNd(rdr, rd, tk) ==
  IF rd.err # "none" THEN rd
  ELSE IF rdr = "spec"
       THEN (IF tk[1] \in {"cr", "lf"}
             THEN (IF ValueOf(rd.line) = None THEN rd             \* an empty line / the LF of a CR LF
                   ELSE IF ValueOf(rd.line)[1] = "whole" THEN [rd EXCEPT !.line = << >>, !.out = Append(@, FrameEv(rd.line[1][2]))]
                   ELSE [rd EXCEPT !.line = << >>, !.err = "error"])
             ELSE [rd EXCEPT !.line = Append(@, tk)])
       ELSE (IF tk[1] \in {"cr", "lf"} THEN rd                     \* white space between JSON texts
             ELSE IF tk[1] = "v2" THEN [rd EXCEPT !.line = << >>, !.out = Append(@, FrameEv(tk[2]))]
             ELSE [rd EXCEPT !.line = Append(@, tk)])
Step(c, rdr, rd, tk) == IF c.framing = "sse" THEN StepSse(rdr, rd, tk) ELSE StepNd(rdr, rd, tk)

\* the stream ends
Flush(rd) == LET ln == TrimCr(rd.line) IN
             IF ln = << >> THEN Dispatch(rd)
             ELSE LET p == ParseLine(rd, ln) IN IF p.err # "none" THEN p ELSE Dispatch(p)
Report(rd, end) == [rd EXCEPT !.line = << >>, !.ev = EmptyEv, !.err = IF rd.err # "none" THEN @ ELSE IF end = "eof" THEN "none" ELSE "error"]
Finish(c, rdr, rd, end) ==
  IF rd.err # "none" THEN rd
  ELSE IF c.framing = "sse"
       THEN (IF rdr = "spec" THEN Report(rd, end)
             ELSE IF end = "eof" \/ (rdr = "anyeof" /\ end = "ueof") THEN Report(Flush(rd), "eof")
             ELSE Report(rd, end))
       ELSE (IF rdr # "spec" /\ rd.line # << >> THEN Report(rd, "err")          \* a JSON text that does not end: an error
             ELSE IF rdr = "anyeof" /\ end = "ueof" THEN Report(rd, "eof")
             ELSE Report(rd, end))

\* the readers are folds over the bytes: how the bytes are cut into Reads cannot matter
FeedAll(c, rdr, rd, toks) == FoldLeft(LAMBDA acc, tk : Step(c, rdr, acc, tk), rd, toks)

-----------------------------------------------------------------------------
(* The outcome and the property                                               *)

\* a field of a yielded event against the same field of the written event: "eq" (also: both absent), "empty"
\* (nothing where something was written), "prefix" (a proper prefix of what was written), "other"
CmpOne(d, w) == IF d = w THEN "eq" ELSE IF d = None THEN "empty"
                ELSE IF w # None /\ d = Part(w[2], w[3]) THEN "prefix" ELSE "other"
\* data lines are joined: fewer lines than written, or the last one cut, is a proper prefix
CmpData(d, w) ==
  IF d = w THEN "eq"
  ELSE IF d = << >> \/ d = << None >> THEN "empty"
  ELSE IF /\ Len(d) <= Len(w)
          /\ \A i \in 1..(Len(d) - 1) : d[i] = w[i]
          /\ LET j == Len(d) IN \/ d[j] = w[j] /\ j < Len(w)
                                \/ d[j] = None
                                \/ d[j] = Part(w[j][2], w[j][3])
       THEN "prefix"
  ELSE "other"
Extra == [name |-> "other", id |-> "other", retry |-> "other", data |-> "other"]
CmpEv(c, ev, e) == IF e > ScN(c) THEN Extra
                   ELSE LET w == ScWritten(c, e) IN
                        [name |-> CmpOne(ev.name, w.name), id |-> CmpOne(ev.id, w.id),
                         retry |-> CmpOne(ev.retry, w.retry), data |-> CmpData(ev.data, w.data)]
\* Outcome [evs, err, lastid]: for every frame the reader yielded, in order, how its fields compare with those of
\* the frame written at that place; whether the reader reported an error ("none": the stream just ended);
\* path "stream": the cursor the client keeps (the id of the last event it took) against the ids written.
ScOutcome(c, rd) == [evs |-> [i \in 1..Len(rd.out) |-> CmpEv(c, rd.out[i], i)],
                     err |-> IF rd.err = "none" THEN "none" ELSE "error", lastid |-> "none"]

AllEq(x) == x.name = "eq" /\ x.id = "eq" /\ x.retry = "eq" /\ x.data = "eq"
\* every yielded frame equals, in every field, the frame written at its place: nothing cut off, nothing made up,
\* nothing out of order; the cursor is the id of a written event, whole
ScDelivered(n, o) == /\ Len(o.evs) <= n
                     /\ \A i \in 1..Len(o.evs) : AllEq(o.evs[i])
                     /\ o.lastid \in {"none", "whole"}
\* and none of the frames that were whole before the break is missing
ScNoGaps(k, o) == Len(o.evs) >= k
ScHolds(n, k, o) == ScDelivered(n, o) /\ ScNoGaps(k, o)
=============================================================================
