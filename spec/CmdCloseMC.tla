----------------------------- MODULE CmdCloseMC -----------------------------
(* Model-checking instance of CmdClose: the class alphabet, the export of the *)
(* class table (cases for the harness) and of every terminal outcome (the     *)
(* strict expectation per class), and reachability witnesses.                 *)
EXTENDS CmdClose, Json

EofRs == {"now", "short", "attd", "long", "never"}
TermRs == {"default", "short", "attd", "long", "ignore"}

Cls(k, e, t, o, p, c) == [kind |-> k, eof |-> e, term |-> t, out |-> o, pre |-> p, c2 |-> c]

RawClasses == {Cls("raw", e, t, o, "running", c) : e \in EofRs, t \in TermRs, o \in {"quiet", "some", "full", "closed"},
                                                  c \in {"none", "same", "rwc", "conc"}}
SrvClasses == {Cls("server", e, t, o, "running", c) : e \in EofRs, t \in TermRs, o \in {"quiet", "some", "full"},
                                                     c \in {"none", "same", "conc"}}
PureClasses == {Cls("pure", "now", "default", o, "running", c) : o \in {"quiet", "some"}, c \in {"none", "same", "conc"}}
PreClasses == {Cls("raw", "now", "default", o, p, c) : o \in {"quiet", "some"}, p \in {"exit0", "crash", "sigkill"},
                                                     c \in {"none", "same", "rwc", "conc"}}
              \cup {Cls("server", "now", "default", "quiet", p, c) : p \in {"exit0", "crash", "sigkill"}, c \in {"none", "same", "conc"}}
AllClasses == RawClasses \cup SrvClasses \cup PureClasses \cup PreClasses

\* the boundary classes only (lead D1)
BoundaryClasses == {c \in AllClasses : Boundary(c) /\ c.c2 = "none" /\ c.out = "quiet"}

\* one line per terminal state: the model's outcomes per class (deduplicated by the runner)
Export == IF pc = "done" THEN PrintT(ToJson([cls |-> cls, out |-> Outcome])) ELSE TRUE

\* witnesses: each must be VIOLATED (reachable)
NeverTerm == termAt = NoT
NeverKill == killAt = NoT
NeverDone == err # "done"
NeverTermToZombie == ~(pc = "term" /\ child = "zombie")
NeverKillToZombie == ~(pc = "kill" /\ child = "zombie")
NeverPreExited == ~(pc = "done" /\ cls.pre # "running")
NeverStdin == err2 # "stdin"
=============================================================================
