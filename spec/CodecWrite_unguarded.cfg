SPECIFICATION Spec
CONSTANTS
  Guarded = FALSE
  Max2 = 2
  Max3 = 0
  Attrs3 = FALSE
INVARIANTS TypeOK Contiguous
