SPECIFICATION Spec
CONSTANTS
  N = 2
  SharedFields = {"resource"}
  RegModes = {"dcr", "pre"}
  AdvChoices <- AdvUniform
  LaterServers = {"S1", "S2"}
  CbKinds = {"own", "other", "stale", "badiss"}
  TokenOutcomes = {"good"}
INVARIANT ResourceBoundToAttempt
CHECK_DEADLOCK FALSE
