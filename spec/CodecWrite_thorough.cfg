SPECIFICATION Spec
CONSTANTS
  Guarded = TRUE
  Max2 = 3
  Max3 = 2
  Attrs3 = FALSE
INVARIANTS TypeOK Contiguous Export
PROPERTIES Finishes
