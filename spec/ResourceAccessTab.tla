-------------------------- MODULE ResourceAccessTab --------------------------
(* X07: design check of the four decision tables of ResourceAccessDefs (the   *)
(* code-shaped Expected satisfies the declarative Holds on every case; cells  *)
(* where it does not are exported as LEADS, to be reproduced on the real code *)
(* or reported as drift) and export of the cases the Go harness runs.         *)
EXTENDS ResourceAccessDefs, Json, SequencesExt

CONSTANTS TailLen,   \* requested URIs: tails of up to TailLen tokens under the standard head
          PathLen    \* file paths of up to PathLen segments

S2Q(S) == SetToSeq(S)

\* ---- lookup
LkURIs == ReqURIs(TailLen)
LookupDesignOK ==
  \A u \in LkURIs :
    LET all == {t \in TemplateNames : Match(t, u)} IN
    \A cfg \in LookupCfgs :
      LET c == LookupCase(cfg, u)
          ms == cfg.T \cap all IN
      LookupHoldsW(c, LookupExpectedW(c, ms), ms)
\* vacuity: exact beats a matching template; two templates match and the first in order wins; a template-only hit; a miss
LookupWitnesses ==
  /\ \E cfg \in LookupCfgs, u \in LkURIs : LET c == LookupCase(cfg, u) IN ExactHit(c) # {} /\ Matching(c) # {}
  /\ \E cfg \in LookupCfgs, u \in LkURIs : LET c == LookupCase(cfg, u) IN ExactHit(c) = {} /\ Cardinality(Matching(c)) >= 3
  /\ \E cfg \in LookupCfgs, u \in LkURIs : LET c == LookupCase(cfg, u) IN cfg.T # {} /\ cfg.E # {} /\ LookupExpected(c).res = "notfound"
  /\ \A t \in TemplateNames : \E u \in LkURIs : Match(t, u)
  /\ \A t \in TemplateNames : \E u \in LkURIs : u # <<>> /\ ~Match(t, u)
\* the order of TemplateSeq matters: some URI is matched by two templates in either rank order
LookupOrderMatters == \E u \in LkURIs : Cardinality({t \in TemplateNames : Match(t, u)}) >= 2

\* ---- handler results, registration
ResultDesignOK == \A c \in ResultCases : ResultHolds(c, ResultExpected(c))
RegLeads == {c \in RegClasses : ~RegHolds(c, RegExpected(c))}

\* ---- file handler
FilePaths == Paths(PathLen) \cup SpecialPaths
\* the other forms are exercised with paths whose first segment is not empty (an empty first segment changes what
\* net/url makes of "file:/" + P: "file://x" has a host and no path)
FormPaths(n) == {p \in Paths(n) \cup SpecialPaths : p[1] # ""}
FileCases ==
  {FileCase("legacy", r, "file3", p) : r \in RootClasses, p \in FilePaths}
  \cup {FileCase("legacy", r, f, p) : r \in {"none", "pub", "parent"}, f \in Forms, p \in FormPaths(2)}
  \cup {FileCase("modern", r, f, p) : r \in {"none", "pub"}, f \in Forms, p \in FormPaths(1)}
FileSafe(c, o) == FileNeverOutside(c, o) /\ FileRightFile(c, o) /\ FileSchemeOnly(c, o) /\ FileServes(c, o)
FileDesignOK == \A c \in FileCases : FileSafe(c, FileExpected(c))
FileLeads == {c \in FileCases : ~FileRootsHonoured(c, FileExpected(c))}
FileWitnesses ==
  /\ \E c \in FileCases : FileExpected(c).res = "data" /\ c.roots # "none"
  /\ \E c \in FileCases : FileExpected(c).res = "notfound"
  /\ \E c \in FileCases : Local(c.segs) /\ Jail(c.segs).k = "escape" /\ Phys(c.segs).k = "file" /\ Phys(c.segs).tag \notin InTags
  /\ \E c \in FileCases : ~Local(c.segs) /\ Phys(c.segs).k = "file" /\ Phys(c.segs).tag \notin InTags
  /\ \E c \in FileCases : ~Local(c.segs) /\ Phys(c.segs).k = "file" /\ Phys(c.segs).tag \in InTags      \* refused although harmless
  /\ \E c \in FileCases : Jail(c.segs).k = "loop"
  /\ \E c \in FileCases : Jail(c.segs).k = "escape" /\ Phys(c.segs).k = "file" /\ Phys(c.segs).tag \in InTags

\* ---- export
NodeJson(n) == [pos |-> n.pos, k |-> n.k, tag |-> n.tag, abs |-> n.abs, to |-> n.to]
Export ==
  /\ ndJsonSerialize("x07_templates.ndjson", [i \in DOMAIN TemplateSeq |-> [name |-> TemplateSeq[i].name, text |-> TemplateSeq[i].text]])
  /\ ndJsonSerialize("x07_exacts.ndjson", [i \in DOMAIN ExactSeq |-> [name |-> ExactSeq[i].name, u |-> ExactSeq[i].u]])
  /\ ndJsonSerialize("x07_lk_cfgs.ndjson", S2Q({[E |-> S2Q(cfg.E), T |-> S2Q(cfg.T)] : cfg \in LookupCfgs}))
  /\ ndJsonSerialize("x07_lk_uris.ndjson", S2Q({[u |-> u] : u \in LkURIs}))
  /\ ndJsonSerialize("x07_hr_cases.ndjson", S2Q(ResultCases))
  /\ ndJsonSerialize("x07_reg_cases.ndjson", S2Q(RegClasses))
  /\ ndJsonSerialize("x07_fs_nodes.ndjson", S2Q({NodeJson(n) : n \in Nodes}))
  /\ ndJsonSerialize("x07_fs_roots.ndjson", S2Q({[rc |-> rc, pos |-> S2Q(RootPositions(rc))] : rc \in RootClasses}))
  /\ ndJsonSerialize("x07_fs_cases.ndjson", S2Q(FileCases))
  /\ ndJsonSerialize("x07_fs_leads.ndjson", S2Q(FileLeads))
  /\ ndJsonSerialize("x07_reg_leads.ndjson", S2Q(RegLeads))

ASSUME LookupDesignOK
ASSUME LookupWitnesses /\ LookupOrderMatters
ASSUME ResultDesignOK
ASSUME FileDesignOK
ASSUME FileWitnesses
ASSUME PrintT(ToJson([lkcfgs |-> Cardinality(LookupCfgs), lkuris |-> Cardinality(LkURIs), hr |-> Cardinality(ResultCases),
                      reg |-> Cardinality(RegClasses), regleads |-> Cardinality(RegLeads),
                      fs |-> Cardinality(FileCases), fsleads |-> Cardinality(FileLeads)]))
ASSUME Export
=============================================================================
