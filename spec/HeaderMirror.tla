----------------------------- MODULE HeaderMirror -----------------------------
(* Design-level check and case export for C12 part (b); definitions in        *)
(* HeaderMirrorDefs.  Agreement is evaluated on the transcription; every      *)
(* disagreement is a lead that must be reproduced with the real client and    *)
(* the real server before it counts (DESIGN.md section 3).                    *)
EXTENDS HeaderMirrorDefs, Json, SequencesExt

Leads == {c \in CaseSet : ~Holds(c, Expected(c))}
\* vacuity witnesses
SomeEachForm == \A h \in HdrForms : \E c \in CaseSet : ClientHdr(c) = h
SomeAccepted == \E c \in CaseSet : InScope(c) /\ Expected(c).accepted
SomeOutOfScopeRejected == \E c \in CaseSet : ~InScope(c) /\ ~Expected(c).accepted

ASSUME B64AlwaysAccepted /\ EncodeIffNeeded /\ (\A c \in CaseSet : OwnValues(c))
ASSUME SomeEachForm /\ SomeAccepted /\ SomeOutOfScopeRejected
ASSUME PrintT(ToJson([cases |-> Cardinality(CaseSet), inscope |-> Cardinality({c \in CaseSet : InScope(c)}),
                      leads |-> Cardinality(Leads), leadvals |-> SetToSeq({c.val : c \in Leads})]))
ASSUME ndJsonSerialize("mirror_leads.ndjson", SetToSeq(Leads))
ASSUME ndJsonSerialize("mirror_cases.ndjson", SetToSeq(CaseSet))
=============================================================================
