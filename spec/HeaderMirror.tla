----------------------------- MODULE HeaderMirror -----------------------------
(* Design-level check and case export for C12 part (b); definitions in        *)
(* HeaderMirrorDefs.  Agreement is evaluated on the transcription; every      *)
(* disagreement is a lead that must be reproduced with the real client and    *)
(* the real server before it counts (DESIGN.md section 3).                    *)
(*                                                                            *)
(* Cases: the named histories x the table (complete when FullCross, else the  *)
(* baseline history x the complete table and the others x the Pivot rows),    *)
(* plus every well-formed history of at most HistLen steps x the Probe rows   *)
(* (x the RaceRows when a listing of the history is split into its steps).    *)
(* (Longer histories with something falling inside a listing are enumerated   *)
(* and exported by HeaderMirrorHist; they are run on the RaceRows.)           *)
EXTENDS HeaderMirrorDefs, Json, SequencesExt
CONSTANTS HistLen, FullCross

H(ttl, page, sub, steps) == [ttl |-> ttl, page |-> page, sub |-> sub, steps |-> steps]
Baseline == H("none", "first", FALSE, <<"list">>)                     \* listed just now, no ttl
Named == {Baseline,
          H("none", "first", FALSE, <<>>),                            \* never listed
          H("pos", "first", FALSE, <<"list">>),                       \* listed just now, within the ttl
          H("pos", "first", FALSE, <<"list", "wait">>),               \* positive ttl, expired since
          H("none", "first", FALSE, <<"list", "wait">>),              \* no ttl, listed long ago
          H("none", "later", FALSE, <<"list">>),                      \* on a later page only
          H("pos", "later", FALSE, <<"list", "wait">>),               \* later page, ttl expired
          H("none", "first", FALSE, <<"list", "change">>),            \* changed since, not listed again
          H("none", "first", FALSE, <<"list", "change", "list">>),    \* changed since, listed again
          H("pos", "first", FALSE, <<"list", "change", "list">>),     \* changed since, second list answered from the cache
          H("pos", "first", FALSE, <<"list", "change", "wait", "list">>),  \* changed, ttl expired, listed again
          H("none", "first", TRUE, <<"list", "change", "notify">>),   \* changed, client notified, not listed again
          H("pos", "first", TRUE, <<"list", "change", "notify", "list">>),  \* changed, client notified, listed again
          H("none", "later", FALSE, <<"list", "shrink">>),            \* moved to the first page since, not listed again
          H("none", "later", FALSE, <<"list", "shrink", "change", "list">>),  \* moved and changed, listed again
          \* the first tools/list is answered before a change and delivered after the change's notification; listed again
          H("pos", "first", TRUE, <<"send", "answer", "change", "notify", "deliver", "list">>),
          \* the same on a cache whose only entry has expired
          H("pos", "first", TRUE, <<"list", "wait", "send", "answer", "change", "notify", "deliver", "list">>),
          \* changed and notified between the two pages of a listing; listed again
          H("pos", "later", TRUE, <<"send", "answer", "deliver", "change", "notify", "answer", "deliver", "list">>),
          \* not subscribed: an answer that predates the change is delivered after it
          H("none", "first", FALSE, <<"send", "answer", "change", "deliver">>)}
AllHists == Hists(HistLen)

Pivot(r) == r.depth \in {1, 3} /\ r.hname = "plain" /\ r.nsib \in {0, 1}
Probe(r) == /\ <<r.ty, r.val>> \in {<<"string", "ascii">>, <<"string", "absent">>, <<"string", "nonascii">>,
                                    <<"integer", "maxsafe">>, <<"boolean", "false">>}
            /\ <<r.depth, r.nsib, r.hname>> \in {<<1, 0, "plain">>, <<2, 1, "lower">>}
RaceRow(r) == <<r.ty, r.val, r.depth, r.nsib, r.hname>> \in {<<"string", "ascii", 1, 0, "plain">>, <<"string", "nonascii", 2, 1, "lower">>,
                                                                 <<"integer", "maxsafe", 2, 1, "lower">>, <<"boolean", "false", 1, 0, "plain">>}
RaceRows == {r \in RowSet : RaceRow(r)}
\* every listing of the history is atomic ("list")
Classic(h) == \A i \in DOMAIN h.steps : h.steps[i] \notin {"send", "answer", "deliver"}
CaseSet == {WithHist(r, Baseline) : r \in RowSet}
           \cup {WithHist(r, h) : r \in {r \in RowSet : FullCross \/ Pivot(r)}, h \in Named}
           \cup {WithHist(r, h) : r \in {r \in RowSet : Probe(r)}, h \in {h \in AllHists : Classic(h)}}
           \cup {WithHist(r, h) : r \in RaceRows, h \in {h \in AllHists : ~Classic(h)}}
HistSet == Named \cup AllHists

\* a lead: some outcome the code-shaped model allows breaks the property (certain: every such outcome does)
Leads == {c \in CaseSet : \E o \in ExpectedSet(c) : ~Holds(c, o)}
CertainLeads == {c \in Leads : \A o \in ExpectedSet(c) : ~Holds(c, o)}
HistInfo(h) == [hist |-> h, informed |-> Informed(h), bynotice |-> ByNotice(h), racy |-> Racy(h),
                kinds |-> SetToSeq(DefKinds(h)), src |-> Source(h), named |-> h \in Named]
\* vacuity witnesses
SomeEachForm == \A h \in HdrForms : \E c \in RowSet : ClientHdr(c) = h
SomeAccepted == \E c \in CaseSet : InScope(c) /\ Informed(c.hist) /\ \A o \in ExpectedSet(c) : o.accepted
SomeOutOfScopeRejected == \E c \in CaseSet : ~InScope(c) /\ \A o \in ExpectedSet(c) : ~o.accepted
SomeEachKind == \A d \in {"none", "current", "stale"} : \E h \in Named : d \in DefKinds(h)
SomeUninformedRejected == \E c \in CaseSet : ~Informed(c.hist) /\ InScope(c) /\ \A o \in ExpectedSet(c) : ~o.accepted
SomeEachSource == /\ \A p \in {"first", "later", "moved"} : \E h \in Named : Informed(h) /\ Source(h).page = p
                  /\ \A a \in {"nottl", "fresh", "expired"} : \E h \in Named : Informed(h) /\ Source(h).age = a

SomeNoticeRace == \E h \in Named : ByNotice(h) /\ Racy(h)
ASSUME (\A h \in Named : WellFormed(h) /\ Len(h.steps) <= 8) /\ Cardinality(Named) = 19
ASSUME B64AlwaysAccepted /\ EncodeIffNeeded /\ (\A c \in RowSet : OwnValues(c))
ASSUME HistFactsUpTo(HistLen) /\ \A h \in Named : HistFacts(h, Final(h))
ASSUME SomeEachForm /\ SomeAccepted /\ SomeOutOfScopeRejected /\ SomeEachKind /\ SomeUninformedRejected /\ SomeEachSource /\ SomeNoticeRace
ASSUME PrintT(ToJson([cases |-> Cardinality(CaseSet), inscope |-> Cardinality({c \in CaseSet : InScope(c) /\ Informed(c.hist)}),
                      hists |-> Cardinality(HistSet), informed |-> Cardinality({h \in HistSet : Informed(h)}),
                      leads |-> Cardinality(Leads), certain |-> Cardinality(CertainLeads),
                      leadvals |-> SetToSeq({c.val : c \in Leads})]))
ASSUME ndJsonSerialize("mirror_leads.ndjson", SetToSeq(Leads))
ASSUME ndJsonSerialize("mirror_certain.ndjson", SetToSeq(CertainLeads))
ASSUME ndJsonSerialize("mirror_hists.ndjson", SetToSeq({HistInfo(h) : h \in HistSet}))
ASSUME ndJsonSerialize("mirror_cases.ndjson", SetToSeq(CaseSet))
ASSUME ndJsonSerialize("mirror_racerows.ndjson", SetToSeq(RaceRows))
=============================================================================
