----------------------------- MODULE ConnNotify -----------------------------
(* Shutdown of jsonrpc2.Connection in the presence of PERSISTENT SENDERS of   *)
(* notifications (C05: "Close ... at any moment and concurrently with         *)
(* traffic ... Close and the peer's Wait both return").                       *)
(*                                                                            *)
(* A persistent sender is an application goroutine that sends one             *)
(* notification after the other until Notify fails - that is how it learns    *)
(* that the session is gone (progress reporters, log forwarders).  Conn.tla   *)
(* models only the bounded cancel-notifier; this module isolates the          *)
(* admission rule of Connection.Notify (internal/jsonrpc2/conn.go) and asks   *)
(* whether shutdown still terminates when senders never stop by themselves.   *)
(*                                                                            *)
(* One action per updateInFlight call of Notify / write / Close, as in        *)
(* Conn.tla: NAdmit (CS [Notify]), NWCheck (CS [write]), NWriterReturn (seam),*)
(* NDone (CS [Notify.func1]), SetClosing (CS [Close]); the epilogue of every  *)
(* critical section closes the transport when the connection is idle and      *)
(* shutting down.  Calls in flight (either direction) are abstracted to a     *)
(* counter that only decreases once shutdown has begun (Conn.tla:             *)
(* WorkDecreasesUnderShutdown).                                               *)
(*                                                                            *)
(* AdmitRule = "calls": the rule of the code - during shutdown a notification *)
(*   is admitted only while some call is in flight;                           *)
(* AdmitRule = "notIdle": admitted whenever the connection is not idle (so an *)
(*   outgoing notification in flight admits the next one): the witness        *)
(*   configuration, on which TLC must find a behaviour where Close never      *)
(*   returns.                                                                 *)
EXTENDS Naturals, FiniteSets

CONSTANTS
  \* @type: Set(Str);
  Senders,
  \* @type: Int;
  MaxCalls,
  \* @type: Str;
  AdmitRule

VARIABLES
  \* @type: Bool;
  closing,
  \* @type: Int;
  calls,
  \* @type: Int;
  outNotif,
  \* @type: Bool;
  transportClosed,
  \* @type: Bool;
  done,
  \* @type: Str -> Str;
  spc,        \* sender program counter: "idle" | "wcheck" | "inwriter" | "ndone" | "stopped"
  \* @type: Bool;
  closeRet    \* Close has returned
vars == <<closing, calls, outNotif, transportClosed, done, spc, closeRet>>

Idle == calls = 0 /\ outNotif = 0
\* epilogue of updateInFlight, applied to the post-state of a critical section
Epi(cl, ca, on) == IF cl /\ ca = 0 /\ on = 0 THEN TRUE ELSE transportClosed

Init == /\ closing = FALSE /\ calls \in 0..MaxCalls /\ outNotif = 0 /\ transportClosed = FALSE /\ done = FALSE
        /\ spc = [s \in Senders |-> "idle"] /\ closeRet = FALSE

Admitted == IF ~closing THEN TRUE
            ELSE IF AdmitRule = "calls" THEN calls > 0
            ELSE ~Idle
\* CS [Notify]
NAdmit(s) == /\ spc[s] = "idle"
             /\ IF Admitted /\ ~done
                THEN /\ outNotif' = outNotif + 1 /\ spc' = [spc EXCEPT ![s] = "wcheck"]
                ELSE /\ spc' = [spc EXCEPT ![s] = "stopped"] /\ UNCHANGED outNotif     \* Notify failed: the sender gives up
             /\ UNCHANGED <<closing, calls, transportClosed, done, closeRet>>
\* CS [write]: notifications pass while outNotif > 0
NWCheck(s) == /\ spc[s] = "wcheck" /\ spc' = [spc EXCEPT ![s] = "inwriter"]
              /\ UNCHANGED <<closing, calls, outNotif, transportClosed, done, closeRet>>
\* seam: the transport's Write returns (a closed transport fails the write; either way Notify goes on to its epilogue)
NWriterReturn(s) == /\ spc[s] = "inwriter" /\ spc' = [spc EXCEPT ![s] = "ndone"]
                    /\ UNCHANGED <<closing, calls, outNotif, transportClosed, done, closeRet>>
\* CS [Notify.func1]: decrement; the sender starts over
NDone(s) == /\ spc[s] = "ndone" /\ outNotif' = outNotif - 1
            /\ transportClosed' = Epi(closing, calls, outNotif - 1)
            /\ spc' = [spc EXCEPT ![s] = "idle"]
            /\ UNCHANGED <<closing, calls, done, closeRet>>
\* a call in flight completes (handlers return, the peer answers or the caller gives up)
CallEnds == /\ calls > 0 /\ calls' = calls - 1
            /\ transportClosed' = Epi(closing, calls - 1, outNotif)
            /\ UNCHANGED <<closing, outNotif, done, spc, closeRet>>
\* CS [Close]
SetClosing == /\ ~closing /\ closing' = TRUE
              /\ transportClosed' = Epi(TRUE, calls, outNotif)
              /\ UNCHANGED <<calls, outNotif, done, spc, closeRet>>
\* the reader notices the closed transport: the connection is done
ReaderExit == /\ transportClosed /\ ~done /\ done' = TRUE
              /\ UNCHANGED <<closing, calls, outNotif, transportClosed, spc, closeRet>>
CloseReturns == /\ done /\ ~closeRet /\ closeRet' = TRUE
                /\ UNCHANGED <<closing, calls, outNotif, transportClosed, done, spc>>

Next == \/ \E s \in Senders : NAdmit(s) \/ NWCheck(s) \/ NWriterReturn(s) \/ NDone(s)
        \/ CallEnds \/ SetClosing \/ ReaderExit \/ CloseReturns

\* fairness: every SDK step and every obligation of the environment the property grants (writes return, calls end,
\* the transport honours Close); the senders are NOT obliged to stop - but a sender that is in the middle of Notify
\* runs on
Fair == /\ \A s \in Senders : WF_vars(NWCheck(s)) /\ WF_vars(NWriterReturn(s)) /\ WF_vars(NDone(s)) /\ WF_vars(NAdmit(s))
        /\ WF_vars(CallEnds) /\ WF_vars(ReaderExit) /\ WF_vars(CloseReturns)
Spec == Init /\ [][Next]_vars /\ Fair

TypeOK == /\ calls \in 0..MaxCalls /\ outNotif \in 0..Cardinality(Senders)
          /\ spc \in [Senders -> {"idle", "wcheck", "inwriter", "ndone", "stopped"}]
\* safety: the transport is closed only when nothing is in flight
ClosedOnlyWhenIdle == [][transportClosed' /\ ~transportClosed => (calls' = 0 /\ outNotif' = 0 /\ closing')]_vars
CountsMatch == outNotif = Cardinality({s \in Senders : spc[s] \in {"wcheck", "inwriter", "ndone"}})
\* ---- inductive invariant (Apalache: IndInit => IndInv at length 0; IndInv /\ Next => IndInv' at length 1) ----
\* unbounded in the length of the behaviour: whatever the senders and the environment do, for ever
CInit == Senders = {"a", "b", "c", "d"} /\ MaxCalls = 3 /\ AdmitRule = "calls"
InFlight == {s \in Senders : spc[s] \in {"wcheck", "inwriter", "ndone"}}
IndInv == /\ TypeOK /\ closing \in BOOLEAN /\ transportClosed \in BOOLEAN /\ done \in BOOLEAN /\ closeRet \in BOOLEAN
          /\ outNotif = Cardinality(InFlight)
          /\ (transportClosed => closing /\ calls = 0 /\ outNotif = 0)      \* closed only when idle, and it STAYS idle
          /\ (done => transportClosed) /\ (closeRet => done)
          /\ (closing /\ calls = 0 /\ outNotif = 0 => transportClosed)      \* the epilogue never misses the idle moment
IndInit == IndInv
\* liveness (C05): once Close has been called it returns, however persistent the senders
CloseTerminates == closing ~> closeRet
\* and every sender eventually learns that the session is gone
SendersLearn == closing ~> (\A s \in Senders : spc[s] = "stopped")
=============================================================================
