SPECIFICATION MSpec
CONSTANTS
  Eras = {"legacy"}
  D = 2
  Fams = {"f0", "fd"}
  Clones = {"base", "attrs", "group"}
  Reqs = {"r1", "r2"}
  SetLevels <- AllSet
  ReqLevels <- AllReq
  DirectLevels <- AllSet
  Slog <- SlogAll
  Ticks = {1, 2, 3}
  MaxFlight = 100000
  Race = TRUE
  AsIs = TRUE
CONSTRAINT MMark
POSTCONDITION MAccepted
CHECK_DEADLOCK FALSE
