------------------------------ MODULE ConnGenCS ------------------------------
(* Behaviour generation at CRITICAL-SECTION granularity: Conn with a history  *)
(* of the environment actions AND of every critical section (one step          *)
(* "cs|<function>" per action that is an updateInFlight call in the code).    *)
(* The scenario harness replays such a behaviour in lock step: every           *)
(* updateInFlight call of the real connection parks at the verif gate and the *)
(* script releases exactly the critical section TLC chose (csdir mode).        *)
(* Internal steps that are not critical sections leave no mark.                *)
EXTENDS ConnMC
VARIABLE hist
gvars == <<vars, hist>>

H(s) == hist' = Append(hist, s)
HCS(fn) == H("cs|" \o fn)
OutName(o) == IF o = "timeout" THEN "stall" ELSE o

GenInit == Init /\ hist = <<>>
SilentSdk ==
  \/ \E k \in Callers : CallAwaitReady(k) \/ CallCancelPath(k)
  \/ \E r \in Reqs : Preempt(r) \/ HRpDone(r)
  \/ \E c \in DOMAIN CancelOf : CancelCtx(c)
  \/ ReaderRpDone \/ DispCheck \/ DispRpDone \/ DispResume
CSSdk ==
  \/ \E k \in Callers :
        \/ (CallRegister(k) /\ HCS("Call"))
        \/ ((CallWCheck(k) \/ CallWFail(k) \/ NWCheck(k) \/ NWFail(k)) /\ HCS("write"))
        \/ ((CallRetireW(k) \/ CallRetireC(k)) /\ HCS("Retire"))
        \/ (NAdmit(k) /\ HCS("Notify"))
        \/ (NDone(k) /\ HCS("Notify.func1"))
        \/ (DeliverResp(k) /\ HCS("readIncoming"))
  \/ \E r \in Reqs :
        \/ ((Accept(r) \/ Enqueue(r)) /\ HCS("acceptRequest"))
        \/ ((RpUnindex(r) \/ RpDec(r)) /\ HCS("processResult"))
        \/ ((RpWCheck(r) \/ RpWFail(r)) /\ HCS("write"))
  \/ \E c \in DOMAIN CancelOf : CancelLookup(c) /\ HCS("Cancel")
  \/ ((DeliverUnknown \/ ReaderExit) /\ HCS("readIncoming"))
  \/ (Dequeue /\ HCS("handleAsync"))
  \/ \E c \in Closers : (SetClosing(c) /\ HCS("Close")) \/ (CloseReturn(c) /\ HCS("wait"))
  \/ \E w \in Waiters : WaitReturn(w) /\ HCS("wait")
EnvH ==
  \/ \E k \in Callers :
        \/ (CallStart(k) /\ H("call|" \o k))
        \/ (CtxCancel(k) /\ H("cancel|" \o k))
        \/ (\E o \in {"ok", "broken", "rejected"} : CallWriterReturn(k, o) /\ H("wret|call:" \o k \o "|" \o o))
        \/ (\E o \in {"ok", "broken", "rejected", "timeout"} : NWriterReturn(k, o) /\ H("wret|notif:cancelled:" \o k \o "|" \o OutName(o)))
        \/ (ReadResp(k) /\ H("resp|" \o k \o "|ok"))
  \/ \E r \in Reqs :
        \/ (ReadReq(r) /\ H(IF r \in DOMAIN CancelOf THEN "pcancel|" \o CancelOf[r]
                            ELSE IF r \in DOMAIN DupOf THEN "reqdup|" \o r \o "|" \o DupOf[r]
                            ELSE IF r \in CallReqs THEN "req|" \o r \o "|call" ELSE "req|" \o r \o "|notif"))
        \/ (HReturn(r) /\ H("hret|" \o r))
        \/ (\E o \in {"ok", "broken", "rejected"} : RpWriterReturn(r, o) /\ H("wret|resp:" \o r \o "|" \o o))
  \/ (ReadRespUnknown /\ H("respunknown"))
  \/ (ReadEOF /\ ~transportClosed /\ H("eof"))
  \/ (ReadEOF /\ transportClosed /\ UNCHANGED hist)
  \/ \E c \in Closers : CloseStart(c) /\ H("close|" \o c)
  \/ \E w \in Waiters : WaitStart(w) /\ H("wait|" \o w)
GenNext == (SilentSdk /\ UNCHANGED hist) \/ CSSdk \/ EnvH
GenSpec == GenInit /\ [][GenNext]_gvars
=============================================================================
