SPECIFICATION SeamSpec
CONSTANTS
  Sess = {"s1"}
  Reqs = {}
  Gets = {"g1","g2"}
  Cfgs <- CfgStoreNoPrime
  MaxEmit = 0
  MaxSreq = 0
  MaxSa = 2
  MaxBc = 0
  DupOf <- NoDup
  Gates = TRUE
VIEW MCView
CHECK_DEADLOCK FALSE
