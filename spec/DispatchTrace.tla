---------------------------- MODULE DispatchTrace ----------------------------
(* X15 strict binding: every step the harness took on the real Client/Server  *)
(* pair must be an enabled action of Dispatch.tla, and the projection of the  *)
(* specification state after it (where every request is parked, what every    *)
(* finished request returned) must equal what the harness observed.           *)
(* A difference is DRIFT (reported, exit 0); a step the specification cannot  *)
(* take is "unfollowable" (a generation error unless the trace drifted).      *)
EXTENDS Dispatch, VerifTrace
VARIABLE l
tvars == <<vars, l>>

ToInt(s) == CHOOSE n \in 0..(MaxReq + 2) : ToString(n) = s
Act(e) ==
  CASE e.op = "Add" -> Add(e.a[1], e.a[2], SubSeq(e.a, 3, Len(e.a)))
    [] e.op = "RegSend" -> RegSend
    [] e.op = "RegRecv" -> RegRecv(ToInt(e.a[1]), e.a[2])
    [] e.op = "Start" -> Start(e.a[1], ToInt(e.a[2]))
    [] e.op = "Step" -> Step(ToInt(e.a[1]), e.a[2])
    [] OTHER -> UNCHANGED vars

ResetTo(e) == /\ era' = e.era
              /\ chain' = [x \in Keys |-> <<>>] /\ doc' = [x \in Keys |-> <<>>]
              /\ beh' = [m \in 1..MaxMw |-> "-"] /\ nmw' = 0
              /\ regS' = FALSE /\ regR' = [h |-> 0, ty |-> "-"]
              /\ req' = [r \in 1..MaxReq |-> NoReq] /\ nreq' = 0
              /\ q' = [p \in {"c", "s"} |-> <<>>]

TInit == Init /\ era = "legacy" /\ l = 1 /\ MarkInit
TNext == /\ l <= NLines /\ l' = l + 1
         /\ LET e == TraceLog[l] IN
              IF e.ev = "reset" THEN ResetTo(e)
              ELSE IF e.ev # "step" THEN UNCHANGED vars
              ELSE IF ~e.applied THEN UNCHANGED vars /\ Check(l, "drift", ~ENABLED Act(e))
              ELSE IF ENABLED Act(e) THEN Act(e) /\ Check(l, "drift", Proj' = e.obs)
              ELSE UNCHANGED vars /\ Fail(l, "unfollowable")
TSpec == TInit /\ [][TNext]_tvars
TMark == MarkAt(l)
TAccepted == Accepted
=============================================================================
