SPECIFICATION Spec
CONSTANTS
  N = 2
  Shared = TRUE
INVARIANT TypeOK
INVARIANT PerCallOutput
CHECK_DEADLOCK FALSE
