SPECIFICATION BoundarySpec
CONSTANTS
  Ids = {1,2,3,4,5}
  PageSizes = {1,2,3,4}
  MaxMut = 100
  MaxTrav = 100
  HiddenSets = {{}}
CONSTANT ClassMaps <- ThoroughMaps
VIEW BoundaryView
INVARIANTS BoundaryInv BoundaryCovers
