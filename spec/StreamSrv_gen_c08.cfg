SPECIFICATION SeamSpec
CONSTANTS
  Sess = {"s1"}
  Reqs = {"r1","r2"}
  Gets = {"g1","g2","g3","g4"}
  Cfgs <- CfgStoreBoth
  MaxEmit = 3
  MaxSreq = 1
  MaxSa = 2
  MaxBc = 0
  DupOf <- NoDup
  Gates = TRUE
CONSTRAINT Export
CHECK_DEADLOCK FALSE
