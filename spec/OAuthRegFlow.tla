---------------------------- MODULE OAuthRegFlow ----------------------------
(* Extension check X13, state-machine part: extauth.EnterpriseHandler.Authorize *)
(* (Enterprise Managed Authorization, SEP-990), one action per step of the Go  *)
(* code in the code's order (auth/extauth/enterprise_handler.go):              *)
(*   Setup        the handler's configuration (classes of IdPIssuerURL and     *)
(*                MCPAuthServerURL, confidential or public client at each side)*)
(*   FetchID      IDTokenFetcher, then Extra("id_token")                        *)
(*   DiscoverIdP  auth.GetAuthServerMetadata(IdPIssuerURL)                      *)
(*   Exchange     oauthex.ExchangeToken at the IdP token endpoint (RFC 8693):   *)
(*                carries the ID token and the IdP client secret                *)
(*   DiscoverMCP  auth.GetAuthServerMetadata(MCPAuthServerURL)                  *)
(*   JwtBearer    exchangeJWTBearer at the MCP token endpoint (RFC 7523):       *)
(*                carries what the IdP issued and the MCP client secret         *)
(*   Install      h.tokenSource = StaticTokenSource(access token)               *)
(*   Finish       Authorize returns;  NextRound: the transport calls Authorize  *)
(*                again on the same handler (token expired: "the entire         *)
(*                authorization flow is repeated")                              *)
(* The environment's choice (what the fetcher returns, what each endpoint      *)
(* answers) is a parameter of the action, so `-dump dot,actionlabels` exports   *)
(* it; root-to-leaf label sequences of the state graph are the behaviours the   *)
(* Go harness replays on the real handler.                                      *)
(*                                                                              *)
(* PROPERTIES (F1-F5 of OAuthReg.tla), as invariants below:                     *)
(*   SecretsOnlyToSafe     a request that carries the ID token, the issued      *)
(*                         assertion or a client secret goes to an https or     *)
(*                         loopback URL                                          *)
(*   SecretsToRightParty   ID token and IdP secret travel only to the IdP token *)
(*                         endpoint, assertion and MCP secret only to the MCP   *)
(*                         token endpoint                                        *)
(*   OnlyIDJAGForwarded    what is sent to the MCP authorization server as the  *)
(*                         assertion was issued by the IdP as an ID-JAG         *)
(*                         (issued_token_type = ...:id-jag)                      *)
(*   TokenOnlyIfAllPassed / NoTokenAfterFailure                                  *)
(*                         TokenSource() changes only in a round in which every *)
(*                         step succeeded; a failed round leaves it alone       *)
(*   Termination           every Authorize returns (liveness, weak fairness)    *)
EXTENDS Integers, Sequences, FiniteSets, TLC

CONSTANT Rounds                 \* Authorize calls on one handler (2)

Safe(u) == u \in {"https", "lo"}

\* classes of the configured issuer URLs: https, http loopback, http non-loopback
CfgURLs == {"https", "lo", "http"}
\* IDTokenFetcher: a token with id_token / an error / a token without id_token / id_token "" / id_token not a string
IdOutcomes == {"ok", "err", "missing", "empty", "nonstring"}
\* metadata discovery at an issuer: a valid document whose token_endpoint is https / loopback / absent; a document whose
\* token_endpoint is http non-loopback / javascript: / javascript://localhost (rejected by validateAuthServerMetaURLs);
\* 404 at every location; 500; issuer mismatch; no code_challenge_methods_supported
MetaGood == {"good", "good_lo", "notoken"}
MetaOutcomes == MetaGood \cup {"tok_http", "tok_js", "tok_jslo", "none404", "fail500", "iss_other", "nopkce"}
TokOf(m) == CASE m = "good" -> "https" [] m = "good_lo" -> "lo" [] OTHER -> "none"
\* token exchange response: ID-JAG with token_type N_A / n_a; issued_token_type missing; access_token missing; an OAuth
\* error with status 400 / 200; 500; transport failure
ExGoodCore == {"idjag", "idjag_lower"}
ExCore == ExGoodCore \cup {"noissued", "noat", "err400", "err200", "s500", "neterr"}
\* lead: the IdP answers with issued_token_type ...:access_token (it issued an access token, not an ID-JAG).
\* ExchangeToken only requires the member to be present and the handler forwards AccessToken as the assertion:
\* with this outcome the code-shaped model violates OnlyIDJAGForwarded (OAuthRegFlow_lead.cfg)
ExLeads == {"othertype"}
ExOutcomes == ExCore \cup ExLeads
ExGood == ExGoodCore \cup ExLeads
IssuedAs(x) == IF x = "othertype" THEN "other" ELSE "idjag"
JwtOutcomes == {"good", "noat", "err400", "err200", "s500", "neterr"}
Results == {"ok", "idtoken", "idpmeta", "exchange", "mcpmeta", "jwt"}

VARIABLES pc, round, cfg,
          idpTok, mcpTok,    \* class of the discovered token endpoints ("-" before discovery, "none": the document has none)
          jag,               \* what the IdP issued in this round: "-" | "idjag" | "other"
          ts,                \* 0: TokenSource() as constructed (nil); k: the access token of round k
          result, failed,    \* of the current round
          \* ghosts
          requested,         \* set of [kind, cls, carries, as] sent through the http.Client
          passed             \* rounds in which every step succeeded

vars == <<pc, round, cfg, idpTok, mcpTok, jag, ts, result, failed, requested, passed>>

NoCfg == [idp |-> "-", mcp |-> "-", idpConf |-> FALSE, mcpConf |-> FALSE]
Init == /\ pc = "setup" /\ round = 1 /\ cfg = NoCfg /\ idpTok = "-" /\ mcpTok = "-" /\ jag = "-" /\ ts = 0
        /\ result = "-" /\ failed = FALSE /\ requested = {} /\ passed = {}

Fail(r) == pc' = "done" /\ result' = r /\ failed' = TRUE
Req(k, c, s, a) == [kind |-> k, cls |-> c, carries |-> s, as |-> a]

Setup(i, m, ic, mc) ==
  /\ pc = "setup" /\ i \in CfgURLs /\ m \in CfgURLs /\ ic \in BOOLEAN /\ mc \in BOOLEAN
  /\ cfg' = [idp |-> i, mcp |-> m, idpConf |-> ic, mcpConf |-> mc]
  /\ pc' = "idtoken"
  /\ UNCHANGED <<round, idpTok, mcpTok, jag, ts, result, failed, requested, passed>>

FetchID(o) ==
  /\ pc = "idtoken" /\ o \in IdOutcomes
  /\ IF o = "ok" THEN pc' = "idpmeta" /\ UNCHANGED <<result, failed>> ELSE Fail("idtoken")
  /\ UNCHANGED <<round, cfg, idpTok, mcpTok, jag, ts, requested, passed>>

\* GetAuthServerMeta refuses a metadata URL that is neither https nor loopback before any request
DiscoverIdP(o) ==
  /\ pc = "idpmeta"
  /\ IF ~Safe(cfg.idp)
     THEN o = "skip" /\ Fail("idpmeta") /\ UNCHANGED <<idpTok, requested>>
     ELSE /\ o \in MetaOutcomes
          /\ requested' = requested \cup {Req("idp_meta", cfg.idp, {}, "-")}
          /\ IF o \in MetaGood THEN idpTok' = TokOf(o) /\ pc' = "exchange" /\ UNCHANGED <<result, failed>>
             ELSE Fail("idpmeta") /\ UNCHANGED idpTok
  /\ UNCHANGED <<round, cfg, mcpTok, jag, ts, passed>>

\* ExchangeToken: "token endpoint is required" without a request when the metadata has no token_endpoint
Exchange(o) ==
  /\ pc = "exchange"
  /\ IF idpTok = "none"
     THEN o = "skip" /\ Fail("exchange") /\ UNCHANGED <<jag, requested>>
     ELSE /\ o \in ExOutcomes
          /\ requested' = requested \cup {Req("idp_token", idpTok, {"idtoken"} \cup (IF cfg.idpConf THEN {"idpsecret"} ELSE {}), "-")}
          /\ IF o \in ExGood THEN jag' = IssuedAs(o) /\ pc' = "mcpmeta" /\ UNCHANGED <<result, failed>>
             ELSE Fail("exchange") /\ UNCHANGED jag
  /\ UNCHANGED <<round, cfg, idpTok, mcpTok, ts, passed>>

DiscoverMCP(o) ==
  /\ pc = "mcpmeta"
  /\ IF ~Safe(cfg.mcp)
     THEN o = "skip" /\ Fail("mcpmeta") /\ UNCHANGED <<mcpTok, requested>>
     ELSE /\ o \in MetaOutcomes
          /\ requested' = requested \cup {Req("mcp_meta", cfg.mcp, {}, "-")}
          /\ IF o \in MetaGood THEN mcpTok' = TokOf(o) /\ pc' = "jwt" /\ UNCHANGED <<result, failed>>
             ELSE Fail("mcpmeta") /\ UNCHANGED mcpTok
  /\ UNCHANGED <<round, cfg, idpTok, jag, ts, passed>>

\* exchangeJWTBearer has no argument checks: with an empty token endpoint x/oauth2 builds a request for "" that no
\* transport carries (net/http: unsupported protocol scheme); nothing is sent
JwtBearer(o) ==
  /\ pc = "jwt"
  /\ IF mcpTok = "none"
     THEN o = "skip" /\ Fail("jwt") /\ UNCHANGED requested
     ELSE /\ o \in JwtOutcomes
          /\ requested' = requested \cup {Req("mcp_token", mcpTok, {"jag"} \cup (IF cfg.mcpConf THEN {"mcpsecret"} ELSE {}), jag)}
          /\ IF o = "good" THEN pc' = "install" /\ UNCHANGED <<result, failed>> ELSE Fail("jwt")
  /\ UNCHANGED <<round, cfg, idpTok, mcpTok, jag, ts, passed>>

Install ==
  /\ pc = "install"
  /\ ts' = round /\ passed' = passed \cup {round}
  /\ result' = "ok" /\ pc' = "done"
  /\ UNCHANGED <<round, cfg, idpTok, mcpTok, jag, failed, requested>>

\* exports the outcome of the round in the edge label
Finish(r, changed) ==
  /\ pc = "done" /\ r = result /\ changed = (ts = round)
  /\ pc' = IF round < Rounds THEN "again" ELSE "halt"
  /\ idpTok' = "-" /\ mcpTok' = "-" /\ jag' = "-"
  /\ UNCHANGED <<round, cfg, ts, result, failed, requested, passed>>

NextRound ==
  /\ pc = "again"
  /\ round' = round + 1 /\ pc' = "idtoken" /\ result' = "-" /\ failed' = FALSE
  /\ UNCHANGED <<cfg, idpTok, mcpTok, jag, ts, requested, passed>>

Next ==
  \/ \E i \in CfgURLs, m \in CfgURLs, ic \in BOOLEAN, mc \in BOOLEAN : Setup(i, m, ic, mc)
  \/ \E o \in IdOutcomes : FetchID(o)
  \/ \E o \in MetaOutcomes \cup {"skip"} : DiscoverIdP(o)
  \/ \E o \in ExOutcomes \cup {"skip"} : Exchange(o)
  \/ \E o \in MetaOutcomes \cup {"skip"} : DiscoverMCP(o)
  \/ \E o \in JwtOutcomes \cup {"skip"} : JwtBearer(o)
  \/ Install
  \/ \E r \in Results, c \in BOOLEAN : Finish(r, c)
  \/ NextRound

Spec == Init /\ [][Next]_vars
FairSpec == Spec /\ WF_vars(Next)

-----------------------------------------------------------------------------
TypeOK == /\ pc \in {"setup", "idtoken", "idpmeta", "exchange", "mcpmeta", "jwt", "install", "done", "again", "halt"}
          /\ round \in 1..Rounds /\ ts \in 0..Rounds /\ jag \in {"-", "idjag", "other"}
          /\ idpTok \in {"-", "https", "lo", "none"} /\ mcpTok \in {"-", "https", "lo", "none"}

\* request predicates (shared with the monitor OAuthRegMon, which evaluates them on the requests of the real handler)
ReqSafe(r) == r.carries # {} => Safe(r.cls)
ReqRightParty(r) == /\ (r.carries \cap {"idtoken", "idpsecret"} # {}) => r.kind = "idp_token"
                    /\ (r.carries \cap {"jag", "mcpsecret"} # {}) => r.kind = "mcp_token"
                    /\ r.kind \in {"idp_meta", "mcp_meta"} => r.carries = {}
ReqIDJAG(r) == "jag" \in r.carries => r.as = "idjag"
SecretsOnlyToSafe == \A r \in requested : ReqSafe(r)
SecretsToRightParty == \A r \in requested : ReqRightParty(r)
OnlyIDJAGForwarded == \A r \in requested : ReqIDJAG(r)
TokenOnlyIfAllPassed == ts # 0 => ts \in passed
NoTokenAfterFailure == [][failed => ts' = ts]_vars
ResultKnown == pc \in {"done", "again", "halt"} => result \in Results
OkIffInstalled == pc \in {"done", "again", "halt"} => ((result = "ok") <=> (round \in passed /\ ts = round /\ ~failed))
Termination == <>(pc = "halt")

\* witnesses (each must be VIOLATED: the state is reachable)
WitSecondRoundFailsAfterFirstPassed == ~(pc = "halt" /\ Rounds >= 2 /\ 1 \in passed /\ failed /\ ts = 1)
WitLoopbackSecrets == ~(\E r \in requested : r.cls = "lo" /\ "mcpsecret" \in r.carries)

\* the state graph modulo the ghosts (never read by an action)
CoverView == <<pc, round, cfg, idpTok, mcpTok, jag, ts, result, failed>>
=============================================================================
