SPECIFICATION CoverSpec
CONSTANTS
  Ids = {1,2,3,4,5}
  PageSizes = {1,2,3}
  MaxMut = 100
  MaxTrav = 100
CONSTANT HiddenSets <- AllHidden
CONSTANT ClassMaps <- MixedMap
VIEW CoverView
INVARIANTS CoverInv
