--------------------------- MODULE SSELegacyCliInd ---------------------------
(* Inductive invariant of SSELegacyCli (X02, client side of the legacy        *)
(* HTTP+SSE transport), discharged by Apalache:                               *)
(*   base   Init => IndInv                       (--length=0)                 *)
(*   step   IndInit /\ Next => IndInv'           (--length=1)                 *)
(* over the module's own Next (every status / first event / endpoint kind /   *)
(* event kind / ending / POST outcome: a superset of SSELegacyCliMC!MCNext    *)
(* and SettledNext) for MaxEv = 6, MaxRead = 8, MaxWrite = 4 - the size of    *)
(* SSELegacyCli_sim.cfg, which TLC only samples (its exhaustive configs are   *)
(* 3/4/2 with reduced kind sets).                                             *)
EXTENDS SSELegacyCli, Apalache

CInit == MaxEv = 6 /\ MaxRead = 8 /\ MaxWrite = 4

Live == ph \in {"up", "closed"}
\* Settled (= ~ENABLED Scan) spelled out: Apalache has no ENABLED
SettledX == ~(Live /\ ~rdone /\ (ph = "closed" \/ nscan < Len(stream) \/ ended # ""))
EndClosesX == (ended # "" /\ SettledX /\ ph # "failed") => ph = "closed"

IndInv ==
  \* ---- shape of every variable
  /\ ph \in {"init", "connecting", "up", "failed", "closed"} /\ ep \in EpKinds \cup {""}
  /\ hasBody \in BOOLEAN /\ bodyClosed \in BOOLEAN /\ rdone \in BOOLEAN /\ ended \in Ends \cup {""}
  /\ Len(stream) <= MaxEv + 1 /\ (ended = "" => Len(stream) <= MaxEv)
  /\ \A i \in DOMAIN stream : stream[i] \in EvKinds \cup {"trunc"}
  /\ nscan \in 0..Len(stream)
  /\ Len(inbox) <= nscan
  /\ \A j \in DOMAIN inbox : inbox[j] \in 1..nscan /\ stream[inbox[j]] # "comment"
  /\ Len(rds) <= MaxRead /\ \A i \in DOMAIN rds : rds[i][1] \in {"msg", "decode", "eof"}
  /\ Len(wrs) <= MaxWrite
  /\ \A i \in DOMAIN wrs : wrs[i].r \in {"ok", "err"} /\ wrs[i].posted \in BOOLEAN /\ wrs[i].cls \in WrKinds
  /\ nposts \in 0..MaxWrite
  \* ---- nothing happens before the endpoint event has been accepted; the reader ends only by closing
  /\ ~Live => (stream = <<>> /\ ended = "" /\ nscan = 0 /\ ~rdone /\ inbox = <<>> /\ rds = <<>> /\ wrs = <<>> /\ nposts = 0)
  /\ ph \in {"init", "connecting"} => ep = ""
  /\ ph = "connecting" => hasBody
  /\ ph = "up" => ~rdone
  \* ---- K1 K2 K3 K6, literally
  /\ EndpointFirst /\ PostTarget /\ WriteResult /\ CloseEnds /\ EndClosesX
  \* ---- K4 K5: a Read that is not EOF has its own rank as serial and no EOF before it
  /\ \A i \in DOMAIN rds : rds[i][1] # "eof" => (rds[i][2] = i /\ \A j \in DOMAIN rds : j < i => rds[j][1] # "eof")
  \* while the stream is up no Read has returned EOF, and the queue holds exactly the scanned non-comment events that
  \* have not been read, in order: the j-th of them has serial (Reads so far) + j
  /\ ph = "up" => /\ \A i \in DOMAIN rds : rds[i][1] # "eof"
                  /\ \A j \in DOMAIN inbox : Serial(inbox[j]) = Len(rds) + j
                  /\ Serial(nscan) = Len(rds) + Len(inbox)

IndInit == /\ stream = Gen(7) /\ inbox = Gen(7) /\ rds = Gen(8) /\ wrs = Gen(4)
           /\ ph \in {"init", "connecting", "up", "failed", "closed"} /\ ep \in EpKinds \cup {""}
           /\ hasBody \in BOOLEAN /\ bodyClosed \in BOOLEAN /\ rdone \in BOOLEAN /\ ended \in Ends \cup {""}
           /\ nscan \in 0..7 /\ nposts \in 0..4
           /\ IndInv

\* the state invariants of SSELegacyCli_mc*.cfg / _cover*.cfg / _sim.cfg that are not literal conjuncts: implied by IndInv
\* (--init=IndInit --inv=CfgInvs --length=0); TypeOK's Seq(..) memberships are the shape conjuncts above
CfgInvs == ReadOrder /\ EndSurfaces
\* sanity (must be VIOLATED from IndInit at length 0): IndInv has a state with a non-trivial queue and reads
NoBusyState == ~(ph = "up" /\ Len(inbox) >= 2 /\ Len(rds) >= 2 /\ nscan < Len(stream))
=============================================================================
