SPECIFICATION TSpec
CONSTANTS
  Unknown = "u"
  MaxLen = 2
  Calls = {1, 2, 3}
  HResults = {"accept", "decline", "cancel", "herr"}
  Ids = {"x", "y", "z"}
  MaxSpur = 1000
  Handlers = {TRUE}
  AllowCancel = TRUE
  DeclineNoCompl = FALSE
  TrackOwed = FALSE
  ListsOf <- TraceLists
  KindsOf <- TraceKinds
CONSTRAINT TMark
INVARIANTS Safety
POSTCONDITION TAccepted
CHECK_DEADLOCK FALSE
