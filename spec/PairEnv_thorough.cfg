SPECIFICATION Spec
CONSTANTS
  CCalls = {"k1","k2"}
  NestCalls = {"k1"}
  SCalls = {"q1","q2"}
  MaxLen = 6
CONSTRAINT EmitC
CHECK_DEADLOCK FALSE
