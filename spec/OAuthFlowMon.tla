---------------------------- MODULE OAuthFlowMon ----------------------------
(* Property monitor for C15, evaluated by TLC over observations of the REAL   *)
(* auth.AuthorizationCodeHandler.Authorize (one line per replayed behaviour,  *)
(* written by harness/auth/c15_oauthflow_test.go).  It uses the property      *)
(* predicates of OAuthFlow (ReqSafe, MatchOK, PkceOK, ScriptFree, StateOK,    *)
(* IssOK, PreOK) and states exactly the clauses of C15:                       *)
(*   OnlySafeURLs      every request made through the client is https/loopback*)
(*                     (the class of a request URL is a record [sch, auth,    *)
(*                     form] computed by the harness from the concrete URL:   *)
(*                     scheme class, authority class, opaque/hierarchical;    *)
(*                     OAuthFlow!Safe: https, or a loopback authority under a *)
(*                     scheme that is not script-capable)                     *)
(*   UsedOnlyIfMatching, PKCERequired, NoScriptSchemes                         *)
(*                     a served document from which a later request URL or    *)
(*                     the authorization URL was taken is matching / PKCE /    *)
(*                     free of script-capable URL fields                       *)
(*   ExchangeOnlyIfStateAndIss   a token request with the code implies state   *)
(*                     equal and the RFC 9207 check passing                    *)
(*   PreregBoundToIssuer  the pre-registered client id never travels to an     *)
(*                     authorization server with another issuer                *)
(*   NoFallbackAfterRejected  the predefined ("server without metadata")       *)
(*                     endpoints of an authorization server are used (request *)
(*                     or authorization URL) only if every metadata document   *)
(*                     that server answered with at one of its well-known      *)
(*                     locations is matching / PKCE / script-free: the decision*)
(*                     "no metadata" rests on those answers, a document that   *)
(*                     fails a check is not "no metadata"                      *)
(*   NoTokenAfterFailure  TokenSource() changed only if none of those failed   *)
(* The relation of an issuer identifier to the expected one (`match` of a     *)
(* served document, `pre` of a request carrying pre-registered credentials)  *)
(* is one of OAuthFlow!IssRels, computed by the harness from the concrete    *)
(* strings; OAuthFlow!IssMatch says which relations the property accepts     *)
(* (near misses such as another port are mismatches; any unknown class is).   *)
(* "drift" compares with the behaviour of the specification (not a verdict).  *)
EXTENDS VerifTrace, FiniteSets

F == INSTANCE OAuthFlow WITH pc <- "", ch <- "", mcp <- "", plist <- <<>>, idx <- 0, srv <- 0, asm <- 0,
       client <- "", pre <- "", ares <- 0, tokq <- "", result <- "", ts <- "", cause <- "", requested <- {}, used <- {},
       served <- {}, predef <- FALSE, exchanged <- FALSE, credsTo <- {}, failed <- FALSE

VARIABLE l
MInit == l = 1 /\ MarkInit

Reqs(e) == AsSet(e.reqs)
\* everything that carries a URL taken from a document: requests and the authorization URL
Uses(e) == {r.doc : r \in Reqs(e)} \cup (IF e.auth.called THEN {e.auth.doc} ELSE {})
UsedDocs(e) == {i \in DOMAIN e.served : i \in Uses(e)}

Exchanged(e) == \E r \in Reqs(e) : r.kind = "token" /\ r.grant = "authorization_code"
AuthOK(e) == e.auth.called /\ F!StateOK(e.ares.state) /\ F!IssOK(e.ares.iss, e.auth.adv)
CredUses(e) == {r.pre : r \in {x \in Reqs(e) : x.cred = "prereg"}} \cup (IF e.auth.called /\ e.auth.cred = "prereg" THEN {e.auth.pre} ELSE {})

OnlySafe(e) == \A r \in Reqs(e) : F!ReqSafe(r)
Matching(e) == \A i \in UsedDocs(e) : F!MatchOK(e.served[i])
Pkce(e) == \A i \in UsedDocs(e) : F!PkceOK(e.served[i])
NoScript(e) == \A i \in UsedDocs(e) : F!ScriptFree(e.served[i])
ExchangeOK(e) == Exchanged(e) => AuthOK(e)
PreregOK(e) == \A p \in CredUses(e) : F!PreOK(p)
\* authorization servers whose predefined endpoints were used
PredefAS(e) == {r.as : r \in {x \in Reqs(e) : x.predef}} \cup (IF e.auth.called /\ e.auth.predef THEN {e.auth.as} ELSE {})
NoFallback(e) == \A i \in DOMAIN e.served :
                    (e.served[i].kind = "asm" /\ e.served[i].for \in PredefAS(e)) => F!DocOK(e.served[i])
NoTokenAfterFailure(e) == e.out.changed => /\ OnlySafe(e) /\ Matching(e) /\ Pkce(e) /\ NoScript(e)
                                           /\ AuthOK(e) /\ PreregOK(e) /\ NoFallback(e)

MNext == /\ l <= NLines /\ l' = l + 1
         /\ LET e == TraceLog[l] IN
              /\ Check(l, "NoPanic", e.out.panic = "")
              /\ Check(l, "OnlySafeURLs", OnlySafe(e))
              /\ Check(l, "UsedOnlyIfMatching", Matching(e))
              /\ Check(l, "PKCERequired", Pkce(e))
              /\ Check(l, "NoScriptSchemes", NoScript(e))
              /\ Check(l, "ExchangeOnlyIfStateAndIss", ExchangeOK(e))
              /\ Check(l, "PreregBoundToIssuer", PreregOK(e))
              /\ Check(l, "NoFallbackAfterRejected", NoFallback(e))
              /\ Check(l, "NoTokenAfterFailure", NoTokenAfterFailure(e))
              /\ Check(l, "drift", e.exp.known => /\ e.exp.reqs = e.act
                                                  /\ e.exp.result = e.out.err
                                                  /\ e.exp.changed = e.out.changed)
MSpec == MInit /\ [][MNext]_l
MMark == MarkAt(l)
MAccepted == Accepted
=============================================================================
