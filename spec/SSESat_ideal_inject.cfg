SPECIFICATION Spec
CONSTANTS
  NSess = 1
  CC <- C1
  Nest <- C1
  NCN = 0
  NSN = 0
  MaxFaults = 1
  FaultKinds <- FInject
  HoldKinds <- HNone
  Combos = FALSE
  HandsAll = FALSE
  Bug = "none"
INVARIANTS C01_ErrorHasCause C01_OwnResponse
CHECK_DEADLOCK FALSE
