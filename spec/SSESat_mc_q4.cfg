SPECIFICATION Spec
CONSTANTS
  NSess = 1
  CC <- C1
  Nest <- NoNest
  NCN = 1
  NSN = 1
  MaxFaults = 1
  FaultKinds <- FCore
  HoldKinds <- HNone
  Combos = TRUE
  HandsAll = TRUE
  Bug = "none"
INVARIANTS TypeOK C01_OwnResponse C01_NotBlockedAfterTermination C01_ErrorHasCause C02_AnsweredOnce C02_AnsweredOnOwnSession C02_AnsweredWhenUsable C02_RejectedNotDropped C03_NotificationCompletesFirst C03_DispatchInSendOrder C03_SenderOrder C05_HandlersFinishBeforeTransportClosed C05_NoDispatchAfterClose C05_SessionRemoved
PROPERTIES C01_CompletesOnce C01_FailFast
CHECK_DEADLOCK FALSE
