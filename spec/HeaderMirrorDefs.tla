--------------------------- MODULE HeaderMirrorDefs ---------------------------
(* Decision table for the x-mcp-header mirror, property C12 part (b):         *)
(* "every request the SDK's own client produces for arguments valid under the *)
(* tool's schema satisfies the server's checks".                              *)
(*                                                                            *)
(*  Cases        tool schema shape (annotation depth 1..8, primitive type,    *)
(*               header name class, 0..2 further annotated properties in the  *)
(*               same object, all with different values) x argument value     *)
(*               class x client-side history (below)                          *)
(*  History      what the client did before the call and what happened on the *)
(*               server meanwhile: it decides which definition of the tool    *)
(*               (none / the current one / an outdated one) the client builds *)
(*               the Mcp-Param-* headers from.  A small state machine of the  *)
(*               client's tools/list cache (mcp.methodCache, ListTools,       *)
(*               lookupTool, callToolChangedHandler), transcribed             *)
(*  ClientHdr    mcp.generateParamHeaders / encodeHeaderValue, transcribed    *)
(*  OnWire       what an HTTP/1.1 hop does to a field value (Go net/http)     *)
(*  ServerAccepts mcp.validateParamHeaders / decodeHeaderValue /              *)
(*               primitiveEqual, transcribed over the same classes            *)
(*  BoundTo      mcp.collectParamHeaderAnnotations: which argument each       *)
(*               annotation's header is bound to                              *)
(*  Holds        Agreement: schema-valid, in-range arguments are accepted and *)
(*               reach the tool handler unaltered, and every Mcp-Param-*      *)
(*               header the client sends carries its own parameter's value -  *)
(*               whenever the client is Informed: the last tools/list answer  *)
(*               it obtained for the tool carries the definition the server   *)
(*               enforces now (the SDK client learns schemas from ListTools   *)
(*               only; without a definition it sends no Mcp-Param-* header,   *)
(*               which is the documented behaviour of lookupTool, not a       *)
(*               disagreement about a call "valid under the tool's schema")   *)
EXTENDS Integers, Sequences, FiniteSets, TLC

Depths == 1..8
NSibs == 0..2
Types == {"string", "integer", "boolean"}
HNames == {"plain", "lower", "special"}
\* value classes per type ("absent": the optional property is not sent; "null": JSON null)
StringVals == {"empty", "ascii", "innerspace", "leadsp", "trailsp", "leadtab", "trailtab", "nonascii", "control", "del",
               "sentinel", "sentprefix", "numlike", "boollike", "absent", "null"}
IntVals == {"zero", "small", "neg", "maxsafe", "minsafe", "nearsafe", "beyond", "negbeyond", "absent", "null"}
BoolVals == {"true", "false", "absent", "null"}
ValsOf(ty) == CASE ty = "string" -> StringVals [] ty = "integer" -> IntVals [] ty = "boolean" -> BoolVals

\* (schema shape, value class): the rows of the table; a case is a row plus a history (field hist, see below)
Rows == {[depth |-> d, ty |-> t, val |-> v, hname |-> h, nsib |-> s] :
            d \in Depths, t \in Types, v \in StringVals \cup IntVals \cup BoolVals, h \in HNames, s \in NSibs}
RowSet == {c \in Rows : c.val \in ValsOf(c.ty)}
WithHist(row, h) == [depth |-> row.depth, ty |-> row.ty, val |-> row.val, hname |-> row.hname, nsib |-> row.nsib, hist |-> h]

\* what the property quantifies over: schema-valid values, integers within +-(2^53-1)
InScope(c) == c.val \notin {"null", "beyond", "negbeyond"}

-----------------------------------------------------------------------------
\* Attributes of the value classes
ArgPresent(c) == c.val \notin {"absent", "null"}             \* lookupArgument finds a non-null value
Primitive(c) == ArgPresent(c) /\ c.val \notin {"beyond", "negbeyond"}   \* unmarshalPrimitive # nil
EdgeWS(c) == c.val \in {"leadsp", "trailsp", "leadtab", "trailtab"}
Ctl(c) == c.val \in {"control", "del"}
NonAscii(c) == c.val = "nonascii"
SentinelLike(c) == c.val = "sentinel"                        \* =?base64?...?=

\* Client: generateParamHeaders -> encodeHeaderValue -> requiresBase64Encoding
HdrForms == {"none", "empty", "raw", "b64"}
NeedsB64(c) == c.ty = "string" /\ c.val # "empty" /\ (EdgeWS(c) \/ Ctl(c) \/ NonAscii(c) \/ SentinelLike(c))
ClientHdr(c) == IF ~Primitive(c) THEN "none"
                ELSE IF c.ty = "string" /\ c.val = "empty" THEN "empty"
                ELSE IF NeedsB64(c) THEN "b64" ELSE "raw"

\* The hop: Go's transport refuses control characters in a field value; the receiving side strips optional
\* whitespace around it; an empty value is indistinguishable from an absent field for Header.Get.
\* Result: what the server's Header.Get yields, as a form relative to the argument value.
\* ("emptyval": the field is present with an empty value - the server tells it apart from an absent field
\* by looking at Header.Values, so an empty-string argument is mirrored by an empty header)
WireForms == {"refused", "blank", "emptyval", "same", "trimmed", "b64same"}
OnWire(c, h) ==
  CASE h = "none" -> "blank"
    [] h = "empty" -> "emptyval"
    [] h = "b64" -> "b64same"
    [] h = "raw" -> IF Ctl(c) THEN "refused" ELSE IF EdgeWS(c) THEN "trimmed" ELSE "same"

\* Server: validateParamHeaders on what arrived
ServerAcceptsWire(c, w) ==
  IF w = "refused" THEN FALSE                          \* the request never left the client
  ELSE IF ~ArgPresent(c) THEN w \in {"blank", "emptyval"}  \* a non-empty header for an absent / null parameter is a mismatch
  ELSE IF w = "blank" THEN FALSE                       \* "missing ... header for parameter"
  ELSE IF w = "emptyval" THEN c.ty = "string" /\ c.val = "empty"   \* decodes to "", equal to an empty string only
  ELSE IF ~Primitive(c) THEN FALSE                     \* body value is not a primitive
  ELSE IF w = "b64same" THEN TRUE                      \* decodes to the value; integers / booleans compare by value
  ELSE IF w = "trimmed" THEN FALSE                     \* differs from the body value
  ELSE ~SentinelLike(c)                                \* a raw sentinel would be base64-decoded into something else
ServerAccepts(c, h) == ServerAcceptsWire(c, OnWire(c, h))

\* Bindings: the annotated parameters of the tool are numbered 0 (the one the case varies) and 1..nsib (its
\* siblings in the same object, each with a value different from all others).  collectParamHeaderAnnotations
\* gives every annotation a path of its own (a fresh copy of the prefix plus the property name), whatever the
\* nesting depth: the header of parameter i is bound to the argument of parameter i, on the client
\* (generateParamHeaders) and on the server (validateParamHeaders) alike.
Params(c) == 0..c.nsib
BoundTo(c, i) == i
\* every header carries the value of its own parameter
OwnValues(c) == \A i \in Params(c) : BoundTo(c, i) = i
\* the siblings' values are plain in-range primitives: each is accepted iff its header is bound to itself
SiblingsAccepted(c) == \A i \in Params(c) \ {0} : BoundTo(c, i) = i

-----------------------------------------------------------------------------
\* Client-side history: where the client gets the tool definition from
\*
\* A history is [ttl, page, sub, steps]:
\*   ttl   "none": tools/list answers carry ttlMs = 0 (the server default); "pos": a positive ttlMs
\*   page  "first": the tool is on the first page of tools/list; "later": on a later page only (the first page is
\*         filled with other tools)
\*   sub   the client has a ToolListChangedHandler: it keeps a subscriptions/listen stream and the server's
\*         notifications/tools/list_changed reach it
\*   steps what happens, in order, before the call:
\*         "list"   the application lists the tools (every page: ClientSession.Tools)
\*         "wait"   more than the ttl passes (nothing else happens)
\*         "change" the server replaces the tool: every x-mcp-header annotation of it gets another header name
\*         "shrink" the server removes the tools that filled the first page: the tool is on the first page from now
\*                  on and the later page is gone (page = "later" only, at most once)
Ttls == {"none", "pos"}
Pages == {"first", "later"}
StepKinds == {"list", "wait", "change", "shrink"}
WellFormed(h) == LET sh == {i \in DOMAIN h.steps : h.steps[i] = "shrink"}
                 IN Cardinality(sh) <= (IF h.page = "later" THEN 1 ELSE 0)
SeqsUpTo(S, n) == UNION {[1..m -> S] : m \in 0..n}
Hists(n) == {h \in [ttl : Ttls, page : Pages, sub : BOOLEAN, steps : SeqsUpTo(StepKinds, n)] : WellFormed(h)}

\* The client's cache of tools/list answers (methodCache[*ListToolsResult]) holds one entry per cursor.  Two
\* cursors matter: "p1" (no cursor: the first page) and "pN" (the cursor of the later page of the original
\* layout).  An entry records which revision of the tool the page listed (NoVer: the page does not list it),
\* whether it is still servable (ttlMs > 0 and younger than ttlMs) and when it was fetched.
Keys == {"p1", "pN"}
NoVer == -1
NoEntry == [present |-> FALSE, ver |-> NoVer, fresh |-> FALSE, at |-> 0]
EmptyCache == [k \in Keys |-> NoEntry]
St0 == [sv |-> 0, shifted |-> FALSE, clock |-> 0, cache |-> EmptyCache]   \* sv: revision of the tool on the server

OnLater(h, st) == h.page = "later" /\ ~st.shifted
HomeKey(h, st) == IF OnLater(h, st) THEN "pN" ELSE "p1"
ServerKeys(h, st) == IF OnLater(h, st) THEN {"p1", "pN"} ELSE {"p1"}
\* methodCache.get serves an entry only while ttlMs > 0 and its age is below ttlMs (and drops it otherwise)
Servable(e) == e.present /\ e.fresh
\* ListTools page after page, all fetched at the same instant: every page of the server's current layout is
\* stored under its cursor (putIfCurrent); entries under cursors that no longer exist stay where they are
Fetched(h, st) == [k \in Keys |-> IF k \in ServerKeys(h, st)
                                  THEN [present |-> TRUE, ver |-> IF k = HomeKey(h, st) THEN st.sv ELSE NoVer,
                                        fresh |-> h.ttl = "pos", at |-> st.clock + 1]
                                  ELSE st.cache[k]]
\* notifications/tools/list_changed -> callToolChangedHandler -> methodCache.invalidate
Notified(h, c) == IF h.sub THEN EmptyCache ELSE c
Apply(h, st, s) ==
  CASE s = "list" -> IF Servable(st.cache["p1"]) THEN st   \* answered from the cache, page after page (same age)
                     ELSE [st EXCEPT !.cache = Fetched(h, st), !.clock = @ + 1]
    [] s = "wait" -> [st EXCEPT !.cache = [k \in Keys |-> [st.cache[k] EXCEPT !.fresh = FALSE]]]
    [] s = "change" -> [st EXCEPT !.sv = @ + 1, !.cache = Notified(h, @)]
    [] s = "shrink" -> IF st.shifted \/ h.page # "later" THEN st
                       ELSE [st EXCEPT !.shifted = TRUE, !.cache = Notified(h, @)]
RECURSIVE RunFrom(_, _, _)
RunFrom(h, st, i) == IF i > Len(h.steps) THEN st ELSE RunFrom(h, Apply(h, st, h.steps[i]), i + 1)
Final(h) == RunFrom(h, St0, 1)

\* the cached pages that list the tool
Holding(h) == LET st == Final(h) IN {k \in Keys : st.cache[k].present /\ st.cache[k].ver # NoVer}
KindOf(st, k) == IF st.cache[k].ver = st.sv THEN "current" ELSE "stale"
\* ClientSession.lookupTool ranges over the cached pages (a Go map: any order) and takes the first one that lists
\* the tool, servable or not; CallTool hands that definition to the transport (toolContextKey) - or nothing
DefKinds(h) == LET st == Final(h) IN IF Holding(h) = {} THEN {"none"} ELSE {KindOf(st, k) : k \in Holding(h)}
\* the page through which the client saw the tool last
LastKey(h) == LET st == Final(h) IN CHOOSE k \in Holding(h) : \A j \in Holding(h) : st.cache[j].at <= st.cache[k].at
\* Informed: the client has listed the tool, has not been told since that the list changed, and the last
\* tools/list answer it obtained for the tool carries the definition the server enforces now
Informed(h) == Holding(h) # {} /\ KindOf(Final(h), LastKey(h)) = "current"
\* where that definition sits (names the abstract failing case in signatures)
Source(h) == LET st == Final(h) IN
  IF Holding(h) = {} THEN [page |-> "none", age |-> "none", rev |-> "none", orphan |-> FALSE]
  ELSE LET k == LastKey(h) IN
       [page |-> IF k = "pN" THEN "later" ELSE IF h.page = "later" THEN "moved" ELSE "first",
        age |-> IF h.ttl = "none" THEN "nottl" ELSE IF st.cache[k].fresh THEN "fresh" ELSE "expired",
        rev |-> IF st.cache[k].ver > 0 THEN "changed" ELSE "orig",
        orphan |-> Cardinality(Holding(h)) > 1]

\* The code-shaped outcome of a real client call made with definition kind d ("none" / "current" / "stale")
\* via: which definition the request shows (Mcp-Param-* under the current names / outdated names / none at all)
Sends(c) == Primitive(c) \/ c.nsib > 0
ExpectedWith(c, d) ==
  IF d = "current"
  THEN LET h == ClientHdr(c)
           ok == ServerAccepts(c, h) /\ BoundTo(c, 0) = 0 /\ SiblingsAccepted(c)
       IN [accepted |-> ok, same |-> ok, code |-> IF ok THEN 0 ELSE -32020, hdr |-> h,
           own |-> BoundTo(c, 0) = 0, sibok |-> \A i \in Params(c) \ {0} : BoundTo(c, i) = i,
           via |-> IF Sends(c) THEN "current" ELSE "none"]
  ELSE \* no Mcp-Param-* header under a name the server knows: every annotated argument that is there is "missing"
       LET ok == ~ArgPresent(c) /\ c.nsib = 0
       IN [accepted |-> ok, same |-> ok, code |-> IF ok THEN 0 ELSE -32020, hdr |-> "none",
           own |-> TRUE, sibok |-> c.nsib = 0,
           via |-> IF d = "stale" /\ Sends(c) THEN "stale" ELSE "none"]
ExpectedSet(c) == {ExpectedWith(c, d) : d \in DefKinds(c.hist)}
\* the baseline: tools listed just now, no ttl, first page
Expected(c) == ExpectedWith(c, "current")

-----------------------------------------------------------------------------
\* The property
\* (sibling values are always in scope, so their clause does not depend on the value class)
Agreement(c, o) == /\ InScope(c) => (o.accepted /\ o.same /\ o.own)
                   /\ o.sibok
Holds(c, o) == Informed(c.hist) => Agreement(c, o)

\* design facts TLC checks on the transcription
\* (1) encoding is always safe: whatever the class, a base64 header of a primitive is accepted
B64AlwaysAccepted == \A c \in RowSet : Primitive(c) => ServerAccepts(c, "b64")
\* (2) the client's raw/b64 decision is exactly the set of classes that do not survive the hop unencoded
EncodeIffNeeded == \A c \in RowSet : (Primitive(c) /\ c.val # "empty") =>
                      (ClientHdr(c) = "b64" <=> (~ServerAccepts(c, "raw") \/ NonAscii(c)))
\* (3) history machine, for every history of at most n steps
Has(h, s) == \E i \in DOMAIN h.steps : h.steps[i] = s
\* once listed, with nothing changed on the server, the client holds the current definition and only that -
\* however old the answer is, with or without ttl, on whichever page
ListedStaysKnown(n) == \A h \in Hists(n) : (Has(h, "list") /\ ~Has(h, "change") /\ ~Has(h, "shrink")) =>
                          (Informed(h) /\ DefKinds(h) = {"current"})
NeverListedKnowsNothing(n) == \A h \in Hists(n) : ~Has(h, "list") => (~Informed(h) /\ DefKinds(h) = {"none"})
InformedHoldsCurrent(n) == \A h \in Hists(n) : Informed(h) => "current" \in DefKinds(h)
\* an informed client can pick an outdated definition only from a page whose cursor no longer exists
OutdatedOnlyFromOrphans(n) == \A h \in Hists(n) : (Informed(h) /\ DefKinds(h) # {"current"}) =>
                                 (Has(h, "shrink") /\ Has(h, "change") /\ ~h.sub /\ Source(h).orphan)
NotifiedNeverOutdated(n) == \A h \in Hists(n) : h.sub => "stale" \notin DefKinds(h)
=============================================================================
