--------------------------- MODULE HeaderMirrorDefs ---------------------------
(* Decision table for the x-mcp-header mirror, property C12 part (b):         *)
(* "every request the SDK's own client produces for arguments valid under the *)
(* tool's schema satisfies the server's checks".                              *)
(*                                                                            *)
(*  Cases        tool schema shape (annotation depth 1..8, primitive type,    *)
(*               header name class, 0..2 further annotated properties in the  *)
(*               same object, all with different values) x argument value     *)
(*               class x client-side history (below)                          *)
(*  History      what the client did before the call and what happened on the *)
(*               server meanwhile: it decides which definition of the tool    *)
(*               (none / the current one / an outdated one) the client builds *)
(*               the Mcp-Param-* headers from.  A small state machine of the  *)
(*               client's tools/list cache (mcp.methodCache, ListTools,       *)
(*               lookupTool, callToolChangedHandler), transcribed             *)
(*  ClientHdr    mcp.generateParamHeaders / encodeHeaderValue, transcribed    *)
(*  OnWire       what an HTTP/1.1 hop does to a field value (Go net/http)     *)
(*  ServerAccepts mcp.validateParamHeaders / decodeHeaderValue /              *)
(*               primitiveEqual, transcribed over the same classes            *)
(*  BoundTo      mcp.collectParamHeaderAnnotations: which argument each       *)
(*               annotation's header is bound to                              *)
(*  Holds        Agreement: schema-valid, in-range arguments are accepted and *)
(*               reach the tool handler unaltered, and every Mcp-Param-*      *)
(*               header the client sends carries its own parameter's value -  *)
(*               whenever the client is Informed: the last tools/list answer  *)
(*               it holds for the tool carries the definition the server      *)
(*               enforces now, or it has handled the list_changed notification *)
(*               for the server's present tool set and has listed the tools   *)
(*               again afterwards (the SDK client learns schemas from         *)
(*               ListTools only; without a definition it sends no Mcp-Param-* *)
(*               header, which is the documented behaviour of lookupTool, not *)
(*               a disagreement about a call "valid under the tool's schema") *)
(*  The listing is not atomic: ListSent / ListAnswered / ListDelivered per    *)
(*  page, with ToolChanged and NotifiedDelivered free to fall in between; the *)
(*  cache's generation counter (gen / putIfCurrent / invalidate) is part of   *)
(*  the transcribed client state.                                             *)
EXTENDS Integers, Sequences, FiniteSets, TLC

Depths == 1..8
NSibs == 0..2
Types == {"string", "integer", "boolean"}
HNames == {"plain", "lower", "special"}
\* value classes per type ("absent": the optional property is not sent; "null": JSON null)
StringVals == {"empty", "ascii", "innerspace", "leadsp", "trailsp", "leadtab", "trailtab", "nonascii", "control", "del",
               "sentinel", "sentprefix", "numlike", "boollike", "absent", "null"}
IntVals == {"zero", "small", "neg", "maxsafe", "minsafe", "nearsafe", "beyond", "negbeyond", "absent", "null"}
BoolVals == {"true", "false", "absent", "null"}
ValsOf(ty) == CASE ty = "string" -> StringVals [] ty = "integer" -> IntVals [] ty = "boolean" -> BoolVals

\* (schema shape, value class): the rows of the table; a case is a row plus a history (field hist, see below)
Rows == {[depth |-> d, ty |-> t, val |-> v, hname |-> h, nsib |-> s] :
            d \in Depths, t \in Types, v \in StringVals \cup IntVals \cup BoolVals, h \in HNames, s \in NSibs}
RowSet == {c \in Rows : c.val \in ValsOf(c.ty)}
WithHist(row, h) == [depth |-> row.depth, ty |-> row.ty, val |-> row.val, hname |-> row.hname, nsib |-> row.nsib, hist |-> h]

\* what the property quantifies over: schema-valid values, integers within +-(2^53-1)
InScope(c) == c.val \notin {"null", "beyond", "negbeyond"}

-----------------------------------------------------------------------------
\* Attributes of the value classes
ArgPresent(c) == c.val \notin {"absent", "null"}             \* lookupArgument finds a non-null value
Primitive(c) == ArgPresent(c) /\ c.val \notin {"beyond", "negbeyond"}   \* unmarshalPrimitive # nil
EdgeWS(c) == c.val \in {"leadsp", "trailsp", "leadtab", "trailtab"}
Ctl(c) == c.val \in {"control", "del"}
NonAscii(c) == c.val = "nonascii"
SentinelLike(c) == c.val = "sentinel"                        \* =?base64?...?=

\* Client: generateParamHeaders -> encodeHeaderValue -> requiresBase64Encoding
HdrForms == {"none", "empty", "raw", "b64"}
NeedsB64(c) == c.ty = "string" /\ c.val # "empty" /\ (EdgeWS(c) \/ Ctl(c) \/ NonAscii(c) \/ SentinelLike(c))
ClientHdr(c) == IF ~Primitive(c) THEN "none"
                ELSE IF c.ty = "string" /\ c.val = "empty" THEN "empty"
                ELSE IF NeedsB64(c) THEN "b64" ELSE "raw"

\* The hop: Go's transport refuses control characters in a field value; the receiving side strips optional
\* whitespace around it; an empty value is indistinguishable from an absent field for Header.Get.
\* Result: what the server's Header.Get yields, as a form relative to the argument value.
\* ("emptyval": the field is present with an empty value - the server tells it apart from an absent field
\* by looking at Header.Values, so an empty-string argument is mirrored by an empty header)
WireForms == {"refused", "blank", "emptyval", "same", "trimmed", "b64same"}
OnWire(c, h) ==
  CASE h = "none" -> "blank"
    [] h = "empty" -> "emptyval"
    [] h = "b64" -> "b64same"
    [] h = "raw" -> IF Ctl(c) THEN "refused" ELSE IF EdgeWS(c) THEN "trimmed" ELSE "same"

\* Server: validateParamHeaders on what arrived
ServerAcceptsWire(c, w) ==
  IF w = "refused" THEN FALSE                          \* the request never left the client
  ELSE IF ~ArgPresent(c) THEN w \in {"blank", "emptyval"}  \* a non-empty header for an absent / null parameter is a mismatch
  ELSE IF w = "blank" THEN FALSE                       \* "missing ... header for parameter"
  ELSE IF w = "emptyval" THEN c.ty = "string" /\ c.val = "empty"   \* decodes to "", equal to an empty string only
  ELSE IF ~Primitive(c) THEN FALSE                     \* body value is not a primitive
  ELSE IF w = "b64same" THEN TRUE                      \* decodes to the value; integers / booleans compare by value
  ELSE IF w = "trimmed" THEN FALSE                     \* differs from the body value
  ELSE ~SentinelLike(c)                                \* a raw sentinel would be base64-decoded into something else
ServerAccepts(c, h) == ServerAcceptsWire(c, OnWire(c, h))

\* Bindings: the annotated parameters of the tool are numbered 0 (the one the case varies) and 1..nsib (its
\* siblings in the same object, each with a value different from all others).  collectParamHeaderAnnotations
\* gives every annotation a path of its own (a fresh copy of the prefix plus the property name), whatever the
\* nesting depth: the header of parameter i is bound to the argument of parameter i, on the client
\* (generateParamHeaders) and on the server (validateParamHeaders) alike.
Params(c) == 0..c.nsib
BoundTo(c, i) == i
\* every header carries the value of its own parameter
OwnValues(c) == \A i \in Params(c) : BoundTo(c, i) = i
\* the siblings' values are plain in-range primitives: each is accepted iff its header is bound to itself
SiblingsAccepted(c) == \A i \in Params(c) \ {0} : BoundTo(c, i) = i

-----------------------------------------------------------------------------
\* Client-side history: where the client gets the tool definition from
\*
\* A history is [ttl, page, sub, steps]:
\*   ttl   "none": tools/list answers carry ttlMs = 0 (the server default); "pos": a positive ttlMs
\*   page  "first": the tool is on the first page of tools/list; "later": on a later page only (the first page is
\*         filled with other tools)
\*   sub   the client has a ToolListChangedHandler: it keeps a subscriptions/listen stream and the server's
\*         notifications/tools/list_changed reach it
\*   steps what happens, in order, before the call:
\*         "list"    the application lists the tools (every page: ClientSession.Tools), nothing else happens meanwhile
\*         "wait"    more than the ttl passes (nothing else happens)
\*         "change"  ToolChanged: the server replaces the tool: every x-mcp-header annotation of it gets another header
\*                   name; a subscribed client's notifications/tools/list_changed goes out (not yet delivered)
\*         "shrink"  the server removes the tools that filled the first page: the tool is on the first page from now
\*                   on and the later page is gone (page = "later" only, at most once); notification as for "change"
\*         "notify"  NotifiedDelivered: every list_changed notification on its way reaches the client and is handled
\*                   (callToolChangedHandler -> methodCache.invalidate, once per notification)
\*         "send"    ListSent: the application starts listing the tools (ClientSession.Tools); ListTools reads the
\*                   cache generation, looks the page up (methodCache.get) and - on a miss - its tools/list request
\*                   leaves the client.  Pages served from the cache cost no step
\*         "answer"  ListAnswered: the server answers the request in flight from its present tool set
\*         "deliver" ListDelivered: the answer reaches the client (methodCache.putIfCurrent with the generation read
\*                   when the request was sent); the listing goes on with the next page (as in "send") or ends
\*         ("list" = "send" and then "answer", "deliver" until the listing ends, with nothing in between)
Ttls == {"none", "pos"}
Pages == {"first", "later"}
StepKinds == {"list", "wait", "change", "shrink", "notify", "send", "answer", "deliver"}
EnvSteps == {"wait", "change", "shrink", "notify"}

\* What-if switch (overridden by HeaderMirrorHist_coldnobump.cfg only): methodCache.invalidate leaves the generation
\* alone when nothing is cached
ColdNoBump == FALSE

\* The client's cache of tools/list answers (methodCache[*ListToolsResult]) holds one entry per cursor and a
\* generation counter.  Two cursors matter: "p1" (no cursor: the first page) and "pN" (the cursor of the later page
\* of the original layout).  An entry records which revision of the tool the page listed (NoVer: the page does not
\* list it), whether the page named a next cursor (more: the cursor of pN), whether it is still servable (ttlMs > 0
\* and younger than ttlMs) and when it was stored.
Keys == {"p1", "pN"}
NoVer == -1
NoEntry == [present |-> FALSE, ver |-> NoVer, fresh |-> FALSE, at |-> 0, more |-> FALSE]
EmptyCache == [k \in Keys |-> NoEntry]
\* The listing in progress (at most one): ph "idle" / "sent" (request for page key on its way, gen = the generation
\* ListTools read before) / "ans" (answered with ver / more, not yet delivered); clean: the listing was started after
\* the client had handled the list_changed notification for the server's present tool set - and no notification has
\* arrived since (see Informed)
Idle == [ph |-> "idle", key |-> "p1", gen |-> 0, ver |-> NoVer, more |-> FALSE, clean |-> FALSE]
Sent(k, g, cl) == [ph |-> "sent", key |-> k, gen |-> g, ver |-> NoVer, more |-> FALSE, clean |-> cl]
\* sv: revision of the tool on the server; shifted: the first-page fillers are gone; gen: methodCache.generation;
\* pend: list_changed notifications sent and not yet delivered; told, relisted, npass: history variables (below)
St0 == [sv |-> 0, shifted |-> FALSE, clock |-> 0, cache |-> EmptyCache, gen |-> 0, pend |-> 0, fly |-> Idle,
        told |-> FALSE, relisted |-> FALSE, npass |-> 0]

OnLater(h, st) == h.page = "later" /\ ~st.shifted
\* methodCache.get serves an entry only while ttlMs > 0 and its age is below ttlMs - and deletes it otherwise
Servable(e) == e.present /\ e.fresh
Drop(st, k) == [st EXCEPT !.cache[k] = NoEntry]
\* the listing ends: ClientSession.Tools has returned every page to the application
Done(st, cl) == [st EXCEPT !.fly = Idle, !.relisted = @ \/ cl, !.npass = @ + 1]
\* ListTools(cursor of pN) / ListTools(no cursor): generation, then cache, then the wire
AskN(st, cl) == IF Servable(st.cache["pN"]) THEN Done(st, cl)
                ELSE [Drop(st, "pN") EXCEPT !.fly = Sent("pN", st.gen, cl)]
Ask1(st, cl) == IF Servable(st.cache["p1"]) THEN (IF st.cache["p1"].more THEN AskN(st, cl) ELSE Done(st, cl))
                ELSE [Drop(st, "p1") EXCEPT !.fly = Sent("p1", st.gen, cl)]
\* the server answers from its present tool set (paginateList: the cursor of pN means "after the last filler",
\* whether the fillers are still there or not)
Answer(h, st) == LET k == st.fly.key IN
  [st EXCEPT !.fly.ph = "ans",
             !.fly.ver = IF k = "pN" \/ ~OnLater(h, st) THEN st.sv ELSE NoVer,
             !.fly.more = (k = "p1" /\ OnLater(h, st))]
\* putIfCurrent: stored only if the cache has not been invalidated since the request was sent; either way ListTools
\* returns the answer and the listing goes on
Deliver(h, st) ==
  LET f == st.fly
      st1 == IF st.gen = f.gen
             THEN [st EXCEPT !.cache[f.key] = [present |-> TRUE, ver |-> f.ver, fresh |-> h.ttl = "pos",
                                               at |-> st.clock + 1, more |-> f.more],
                             !.clock = @ + 1]
             ELSE st
  IN IF f.more THEN AskN(st1, f.clean) ELSE Done(st1, f.clean)
Round(h, st) == IF st.fly.ph = "idle" THEN st ELSE Deliver(h, Answer(h, st))
ListAll(h, st) == Round(h, Round(h, Ask1(st, st.told)))
\* notifications/tools/list_changed -> callToolChangedHandler -> methodCache.invalidate, once per notification
Cold(st) == \A k \in Keys : ~st.cache[k].present
Invalidate(st) == [st EXCEPT !.cache = EmptyCache,
                             !.gen = @ + (IF ColdNoBump THEN (IF Cold(st) THEN 0 ELSE 1) ELSE st.pend)]

Enabled(h, st) ==
  {"wait", "change"}
  \cup (IF st.fly.ph = "idle" THEN {"list", "send"} ELSE {})
  \cup (IF st.fly.ph = "sent" THEN {"answer"} ELSE {})
  \cup (IF st.fly.ph = "ans" THEN {"deliver"} ELSE {})
  \cup (IF st.pend > 0 THEN {"notify"} ELSE {})
  \cup (IF OnLater(h, st) THEN {"shrink"} ELSE {})
Apply(h, st, s) ==
  CASE s = "list" -> ListAll(h, st)
    [] s = "send" -> Ask1(st, st.told)
    [] s = "answer" -> Answer(h, st)
    [] s = "deliver" -> Deliver(h, st)
    [] s = "wait" -> [st EXCEPT !.cache = [k \in Keys |-> [st.cache[k] EXCEPT !.fresh = FALSE]]]
    [] s = "change" -> [st EXCEPT !.sv = @ + 1, !.told = FALSE, !.pend = IF h.sub THEN @ + 1 ELSE @]
    [] s = "shrink" -> [st EXCEPT !.shifted = TRUE, !.told = FALSE, !.pend = IF h.sub THEN @ + 1 ELSE @]
    [] s = "notify" -> [Invalidate(st) EXCEPT !.pend = 0, !.told = TRUE, !.relisted = FALSE, !.fly.clean = FALSE]

\* every history of at most n steps in which each step is enabled when it is taken, with the state it leads to
Cfgs == [ttl : Ttls, page : Pages, sub : BOOLEAN]
WithSteps(g, steps) == [ttl |-> g.ttl, page |-> g.page, sub |-> g.sub, steps |-> steps]
RECURSIVE Grow(_, _, _)
Grow(g, front, n) ==
  IF n = 0 THEN front
  ELSE front \cup Grow(g, UNION {{<<Append(p[1], s), Apply(g, p[2], s)>> : s \in Enabled(g, p[2])} : p \in front}, n - 1)
Runs(g, n) == Grow(g, {<<(<< >>), St0>>}, n)
Hists(n) == UNION {{WithSteps(g, p[1]) : p \in Runs(g, n)} : g \in Cfgs}
RECURSIVE RunFrom(_, _, _)
RunFrom(h, st, i) == IF i > Len(h.steps) THEN st ELSE RunFrom(h, Apply(h, st, h.steps[i]), i + 1)
Final(h) == RunFrom(h, St0, 1)
RECURSIVE EnabledFrom(_, _, _)
EnabledFrom(h, st, i) == i > Len(h.steps) \/ (h.steps[i] \in Enabled(h, st) /\ EnabledFrom(h, Apply(h, st, h.steps[i]), i + 1))
WellFormed(h) == EnabledFrom(h, St0, 1)
\* something falls inside a listing (between a request and its answer, an answer and its delivery, or two pages), or
\* the call itself does
Racy(h) == LET n == Len(h.steps) IN
  \/ \E i \in 2..n : h.steps[i] \in {"answer", "deliver"} /\ h.steps[i - 1] \in EnvSteps
  \/ (n > 0 /\ Final(h).fly.ph # "idle")

\* the cached pages that list the tool
HoldingSt(st) == {k \in Keys : st.cache[k].present /\ st.cache[k].ver # NoVer}
KindOf(st, k) == IF st.cache[k].ver = st.sv THEN "current" ELSE "stale"
\* ClientSession.lookupTool ranges over the cached pages (a Go map: any order) and takes the first one that lists
\* the tool, servable or not; CallTool hands that definition to the transport (toolContextKey) - or nothing
DefKindsSt(st) == IF HoldingSt(st) = {} THEN {"none"} ELSE {KindOf(st, k) : k \in HoldingSt(st)}
\* the page through which the client saw the tool last
LastKeySt(st) == CHOOSE k \in HoldingSt(st) : \A j \in HoldingSt(st) : st.cache[j].at <= st.cache[k].at
\* Informed: when must the client's next call agree with the server?  Two sufficient conditions.
\* (by answer) the client has listed the tool, has not been told since that the list changed, and the last
\*   tools/list answer it holds for the tool carries the definition the server enforces now
ByAnswerSt(st) == HoldingSt(st) # {} /\ KindOf(st, LastKeySt(st)) = "current"
\* (by notice) the client has handled the list_changed notification for the server's present tool set (told: a
\*   "notify" step and no "change" / "shrink" since - every notification is sent after the change it announces), the
\*   application has then listed the tools again (relisted: a listing started after that "notify" has returned every
\*   page) and is not listing at the moment.  Stated on the history alone: whatever the cache did with the answers
\*   that were in flight when the notification arrived, a client that was told and asked again afterwards must know
ByNoticeSt(st) == st.told /\ st.relisted /\ st.fly.ph = "idle"
InformedSt(st) == ByAnswerSt(st) \/ ByNoticeSt(st)
Holding(h) == HoldingSt(Final(h))
DefKinds(h) == DefKindsSt(Final(h))
ByAnswer(h) == ByAnswerSt(Final(h))
ByNotice(h) == ByNoticeSt(Final(h))
Informed(h) == InformedSt(Final(h))
\* where the definition the client saw last sits (names the abstract failing case in signatures)
Source(h) == LET st == Final(h) IN
  IF HoldingSt(st) = {} THEN [page |-> "none", age |-> "none", rev |-> "none", orphan |-> FALSE, told |-> ByNoticeSt(st)]
  ELSE LET k == LastKeySt(st) IN
       [page |-> IF k = "pN" THEN "later" ELSE IF h.page = "later" THEN "moved" ELSE "first",
        age |-> IF h.ttl = "none" THEN "nottl" ELSE IF st.cache[k].fresh THEN "fresh" ELSE "expired",
        rev |-> IF st.cache[k].ver > 0 THEN "changed" ELSE "orig",
        orphan |-> Cardinality(HoldingSt(st)) > 1,
        told |-> ByNoticeSt(st)]

\* The code-shaped outcome of a real client call made with definition kind d ("none" / "current" / "stale")
\* via: which definition the request shows (Mcp-Param-* under the current names / outdated names / none at all)
Sends(c) == Primitive(c) \/ c.nsib > 0
ExpectedWith(c, d) ==
  IF d = "current"
  THEN LET h == ClientHdr(c)
           ok == ServerAccepts(c, h) /\ BoundTo(c, 0) = 0 /\ SiblingsAccepted(c)
       IN [accepted |-> ok, same |-> ok, code |-> IF ok THEN 0 ELSE -32020, hdr |-> h,
           own |-> BoundTo(c, 0) = 0, sibok |-> \A i \in Params(c) \ {0} : BoundTo(c, i) = i,
           via |-> IF Sends(c) THEN "current" ELSE "none"]
  ELSE \* no Mcp-Param-* header under a name the server knows: every annotated argument that is there is "missing"
       LET ok == ~ArgPresent(c) /\ c.nsib = 0
       IN [accepted |-> ok, same |-> ok, code |-> IF ok THEN 0 ELSE -32020, hdr |-> "none",
           own |-> TRUE, sibok |-> c.nsib = 0,
           via |-> IF d = "stale" /\ Sends(c) THEN "stale" ELSE "none"]
ExpectedSet(c) == {ExpectedWith(c, d) : d \in DefKinds(c.hist)}
\* the baseline: tools listed just now, no ttl, first page
Expected(c) == ExpectedWith(c, "current")

-----------------------------------------------------------------------------
\* The property
\* (sibling values are always in scope, so their clause does not depend on the value class)
Agreement(c, o) == /\ InScope(c) => (o.accepted /\ o.same /\ o.own)
                   /\ o.sibok
Holds(c, o) == Informed(c.hist) => Agreement(c, o)

\* design facts TLC checks on the transcription
\* (1) encoding is always safe: whatever the class, a base64 header of a primitive is accepted
B64AlwaysAccepted == \A c \in RowSet : Primitive(c) => ServerAccepts(c, "b64")
\* (2) the client's raw/b64 decision is exactly the set of classes that do not survive the hop unencoded
EncodeIffNeeded == \A c \in RowSet : (Primitive(c) /\ c.val # "empty") =>
                      (ClientHdr(c) = "b64" <=> (~ServerAccepts(c, "raw") \/ NonAscii(c)))
\* (3) history machine: facts about a history h and the state st it leads to (checked for every history of at most n
\* steps by HeaderMirror as assumptions and, deeper, by HeaderMirrorHist as invariants)
Has(h, s) == \E i \in DOMAIN h.steps : h.steps[i] = s
\* once listed, with nothing changed on the server and no listing in progress, the client holds the current
\* definition and only that - however old the answer is, with or without ttl, on whichever page
ListedStaysKnown(h, st) == (st.npass > 0 /\ st.fly.ph = "idle" /\ ~Has(h, "change") /\ ~Has(h, "shrink")) =>
                              (ByAnswerSt(st) /\ DefKindsSt(st) = {"current"})
NeverListedKnowsNothing(h, st) == (~Has(h, "list") /\ ~Has(h, "deliver")) => (~InformedSt(st) /\ DefKindsSt(st) = {"none"})
InformedHoldsCurrent(h, st) == InformedSt(st) => "current" \in DefKindsSt(st)
\* an informed client can pick an outdated definition only from a page whose cursor no longer exists - and only
\* while no notification has told it so
OutdatedOnlyFromOrphans(h, st) == (InformedSt(st) /\ DefKindsSt(st) # {"current"}) =>
                                     (Has(h, "shrink") /\ Has(h, "change") /\ (~h.sub \/ st.pend > 0) /\ Cardinality(HoldingSt(st)) > 1)
\* a subscribed client that has handled every notification sent so far holds no outdated definition - whatever was
\* in flight when the notifications arrived
NotifiedNeverOutdated(h, st) == (h.sub /\ st.pend = 0) => "stale" \notin DefKindsSt(st)
\* told and listed again afterwards: the client holds the current definition and only that (the history-only
\* condition of Informed never asks for more than the cache delivers)
NoticeSuffices(h, st) == ByNoticeSt(st) => (ByAnswerSt(st) /\ DefKindsSt(st) = {"current"})
\* an answer requested before an invalidation is never stored after it
StaleNeverStoredAfterNotice(h, st) == (st.told /\ h.sub) => \A k \in Keys : st.cache[k].present => st.cache[k].ver \in {NoVer, st.sv}
HistFacts(h, st) == /\ ListedStaysKnown(h, st) /\ NeverListedKnowsNothing(h, st) /\ InformedHoldsCurrent(h, st)
                    /\ OutdatedOnlyFromOrphans(h, st) /\ NotifiedNeverOutdated(h, st) /\ NoticeSuffices(h, st)
                    /\ StaleNeverStoredAfterNotice(h, st)
HistFactsUpTo(n) == \A g \in Cfgs : \A p \in Runs(g, n) : HistFacts(WithSteps(g, p[1]), p[2])
=============================================================================
