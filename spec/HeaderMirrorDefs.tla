--------------------------- MODULE HeaderMirrorDefs ---------------------------
(* Decision table for the x-mcp-header mirror, property C12 part (b):         *)
(* "every request the SDK's own client produces for arguments valid under the *)
(* tool's schema satisfies the server's checks".                              *)
(*                                                                            *)
(*  Cases        tool schema shape (annotation depth 1..8, primitive type,    *)
(*               header name class, 0..2 further annotated properties in the  *)
(*               same object, all with different values) x argument value     *)
(*               class                                                        *)
(*  ClientHdr    mcp.generateParamHeaders / encodeHeaderValue, transcribed    *)
(*  OnWire       what an HTTP/1.1 hop does to a field value (Go net/http)     *)
(*  ServerAccepts mcp.validateParamHeaders / decodeHeaderValue /              *)
(*               primitiveEqual, transcribed over the same classes            *)
(*  BoundTo      mcp.collectParamHeaderAnnotations: which argument each       *)
(*               annotation's header is bound to                              *)
(*  Holds        Agreement: schema-valid, in-range arguments are accepted and *)
(*               reach the tool handler unaltered, and every Mcp-Param-*      *)
(*               header the client sends carries its own parameter's value    *)
EXTENDS Integers, Sequences, FiniteSets, TLC

Depths == 1..8
NSibs == 0..2
Types == {"string", "integer", "boolean"}
HNames == {"plain", "lower", "special"}
\* value classes per type ("absent": the optional property is not sent; "null": JSON null)
StringVals == {"empty", "ascii", "innerspace", "leadsp", "trailsp", "leadtab", "trailtab", "nonascii", "control", "del",
               "sentinel", "sentprefix", "numlike", "boollike", "absent", "null"}
IntVals == {"zero", "small", "neg", "maxsafe", "minsafe", "nearsafe", "beyond", "negbeyond", "absent", "null"}
BoolVals == {"true", "false", "absent", "null"}
ValsOf(ty) == CASE ty = "string" -> StringVals [] ty = "integer" -> IntVals [] ty = "boolean" -> BoolVals

Cases == {[depth |-> d, ty |-> t, val |-> v, hname |-> h, nsib |-> s] :
            d \in Depths, t \in Types, v \in StringVals \cup IntVals \cup BoolVals, h \in HNames, s \in NSibs}
CaseSet == {c \in Cases : c.val \in ValsOf(c.ty)}

\* what the property quantifies over: schema-valid values, integers within +-(2^53-1)
InScope(c) == c.val \notin {"null", "beyond", "negbeyond"}

-----------------------------------------------------------------------------
\* Attributes of the value classes
ArgPresent(c) == c.val \notin {"absent", "null"}             \* lookupArgument finds a non-null value
Primitive(c) == ArgPresent(c) /\ c.val \notin {"beyond", "negbeyond"}   \* unmarshalPrimitive # nil
EdgeWS(c) == c.val \in {"leadsp", "trailsp", "leadtab", "trailtab"}
Ctl(c) == c.val \in {"control", "del"}
NonAscii(c) == c.val = "nonascii"
SentinelLike(c) == c.val = "sentinel"                        \* =?base64?...?=

\* Client: generateParamHeaders -> encodeHeaderValue -> requiresBase64Encoding
HdrForms == {"none", "empty", "raw", "b64"}
NeedsB64(c) == c.ty = "string" /\ c.val # "empty" /\ (EdgeWS(c) \/ Ctl(c) \/ NonAscii(c) \/ SentinelLike(c))
ClientHdr(c) == IF ~Primitive(c) THEN "none"
                ELSE IF c.ty = "string" /\ c.val = "empty" THEN "empty"
                ELSE IF NeedsB64(c) THEN "b64" ELSE "raw"

\* The hop: Go's transport refuses control characters in a field value; the receiving side strips optional
\* whitespace around it; an empty value is indistinguishable from an absent field for Header.Get.
\* Result: what the server's Header.Get yields, as a form relative to the argument value.
\* ("emptyval": the field is present with an empty value - the server tells it apart from an absent field
\* by looking at Header.Values, so an empty-string argument is mirrored by an empty header)
WireForms == {"refused", "blank", "emptyval", "same", "trimmed", "b64same"}
OnWire(c, h) ==
  CASE h = "none" -> "blank"
    [] h = "empty" -> "emptyval"
    [] h = "b64" -> "b64same"
    [] h = "raw" -> IF Ctl(c) THEN "refused" ELSE IF EdgeWS(c) THEN "trimmed" ELSE "same"

\* Server: validateParamHeaders on what arrived
ServerAcceptsWire(c, w) ==
  IF w = "refused" THEN FALSE                          \* the request never left the client
  ELSE IF ~ArgPresent(c) THEN w \in {"blank", "emptyval"}  \* a non-empty header for an absent / null parameter is a mismatch
  ELSE IF w = "blank" THEN FALSE                       \* "missing ... header for parameter"
  ELSE IF w = "emptyval" THEN c.ty = "string" /\ c.val = "empty"   \* decodes to "", equal to an empty string only
  ELSE IF ~Primitive(c) THEN FALSE                     \* body value is not a primitive
  ELSE IF w = "b64same" THEN TRUE                      \* decodes to the value; integers / booleans compare by value
  ELSE IF w = "trimmed" THEN FALSE                     \* differs from the body value
  ELSE ~SentinelLike(c)                                \* a raw sentinel would be base64-decoded into something else
ServerAccepts(c, h) == ServerAcceptsWire(c, OnWire(c, h))

\* Bindings: the annotated parameters of the tool are numbered 0 (the one the case varies) and 1..nsib (its
\* siblings in the same object, each with a value different from all others).  collectParamHeaderAnnotations
\* gives every annotation a path of its own (a fresh copy of the prefix plus the property name), whatever the
\* nesting depth: the header of parameter i is bound to the argument of parameter i, on the client
\* (generateParamHeaders) and on the server (validateParamHeaders) alike.
Params(c) == 0..c.nsib
BoundTo(c, i) == i
\* every header carries the value of its own parameter
OwnValues(c) == \A i \in Params(c) : BoundTo(c, i) = i
\* the siblings' values are plain in-range primitives: each is accepted iff its header is bound to itself
SiblingsAccepted(c) == \A i \in Params(c) \ {0} : BoundTo(c, i) = i

\* The code-shaped outcome of a real client call
Expected(c) == LET h == ClientHdr(c)
                   ok == ServerAccepts(c, h) /\ BoundTo(c, 0) = 0 /\ SiblingsAccepted(c)
               IN [accepted |-> ok, same |-> ok, code |-> IF ok THEN 0 ELSE -32020, hdr |-> h,
                   own |-> BoundTo(c, 0) = 0, sibok |-> \A i \in Params(c) \ {0} : BoundTo(c, i) = i]

-----------------------------------------------------------------------------
\* The property
\* (sibling values are always in scope, so their clause is unconditional)
Holds(c, o) == /\ InScope(c) => (o.accepted /\ o.same /\ o.own)
               /\ o.sibok

\* design facts TLC checks on the transcription
\* (1) encoding is always safe: whatever the class, a base64 header of a primitive is accepted
B64AlwaysAccepted == \A c \in CaseSet : Primitive(c) => ServerAccepts(c, "b64")
\* (2) the client's raw/b64 decision is exactly the set of classes that do not survive the hop unencoded
EncodeIffNeeded == \A c \in CaseSet : (Primitive(c) /\ c.val # "empty") =>
                      (ClientHdr(c) = "b64" <=> (~ServerAccepts(c, "raw") \/ NonAscii(c)))
=============================================================================
