\* cover: the standalone stream
SPECIFICATION SettledSpec
CONSTANTS
  NC = 1
  SASet = {TRUE}
  OAuthSet = {FALSE}
  DelSet = {"ok"}
  PostSet = {"json", "sse", "5xx", "404"}
  GetSet = {"sse", "405", "404", "4xx", "500", "200plain", "503sse", "neterr"}
  InitH = {"A"}
  HSet = {""}
  MaxNotify = 0
  MaxSaEv = 2
  MaxAuth = 0
  MaxClose = 2
  AllowCancel = FALSE
  FixCancel = FALSE
  FixStream = FALSE
INVARIANTS TypeOK SessionHeader VersionHeader OnePostPerMessage Standalone PerMessage Usable GoneStops GoneNoDelete GoneFailsAll
  TerminalFailsPending DeleteOnce DeleteWhenLive CloseWaits StandaloneCancelled RetiredOnce
VIEW CoverView
CHECK_DEADLOCK FALSE
