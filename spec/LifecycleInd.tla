---------------------------- MODULE LifecycleInd ----------------------------
(* Inductive invariant of the joint machine of LifecycleMC (code-shaped       *)
(* session state x the property's phase tracker), discharged by Apalache:     *)
(*   base   Init => IndInv                       (--length=0)                 *)
(*   step   IndInit /\ Next => IndInv'           (--length=1)                 *)
(* for the FULL alphabet and MaxLen = 0 (no bound on the number of messages). *)
(* It makes the design check of Lifecycle_table.cfg independent of TLC's VIEW *)
(* (which hides hist, and with it the message index st.at / mu.tag): whatever *)
(* the session has received, the next message - any letter - breaks no clause *)
(* of C06 (bad' = {}), i.e. every Inv* / Row* invariant of the Lifecycle_*.cfg *)
(* files holds in every reachable state of behaviours of any length.          *)
(* hist itself only counts the messages (Len(hist) + 1 is stored in st.at and *)
(* compared for equality); the step case takes it from Gen(4): any sequence   *)
(* of letters of length <= 4.                                                 *)
EXTENDS LifecycleMC, Apalache

CInit == MaxLen = 0 /\ AlphaSel = "full"

IndInv ==
  \* structure (LifecycleMC!TypeOK: the classes, ip = "nil" <=> at = 0, idp => ip # "nil", acc => ip # "nil",
  \* inited => acc, the tracker's snapshot is the session's)
  /\ TypeOK
  /\ mu.acc \in BOOLEAN /\ mu.inited \in BOOLEAN /\ mu.modern \in BOOLEAN
  /\ st.at >= 0 /\ st.at <= Len(hist)
  /\ seen \subseteq ClauseNames
  \* the design check: the last step broke no clause, and it was no instance of a lead
  /\ bad = {} /\ lead = FALSE
  \* the joint states (the 19 rows of the phase x message table are exactly the solutions of these three):
  \* after an accepted initialize InitializedParams is set iff an initialized notification was counted
  /\ (mu.acc => (st.idp = mu.inited))
  \* a session with InitializeParams but no accepted initialize got them from a served 2026-07-28 request
  /\ (~mu.acc => (st.ip = "nil" \/ (st.ip = "modern" /\ mu.modern)))
  /\ (st.ip = "nil" => ~mu.modern)
  \* the invariants of Lifecycle_seq*.cfg / Lifecycle_sim.cfg, literally
  /\ DesignOK /\ LeadBreaksGate
  /\ InvGateBeforeInit /\ InvDuplicateInitRejected /\ InvPrematureInitializedRejected /\ InvRepeatedInitializedRejected
  /\ InvFirstInitializedTakesEffect /\ InvPingAlways /\ InvModernServedIffMetaComplete /\ InvRemovedMethodsNotFound

IndInit == st = Gen(1) /\ mu = Gen(1) /\ hist = Gen(4) /\ bad = Gen(8) /\ lead = Gen(1) /\ seen = Gen(8) /\ IndInv

\* the invariants of Lifecycle_table.cfg (the whole row of the current joint state): implied by IndInv
\* (checked with --init=IndInit --inv=RowInvs --length=0)
RowInvs == /\ RowOK /\ RowGateBeforeInit /\ RowDuplicateInitRejected /\ RowPrematureInitializedRejected
           /\ RowRepeatedInitializedRejected /\ RowFirstInitializedTakesEffect /\ RowPingAlways
           /\ RowModernServedIffMetaComplete /\ RowRemovedMethodsNotFound /\ RowLeadBreaksGate
\* sanity: IndInit is satisfiable in every one of the 19 rows... (must be VIOLATED: a row exists)
NoRow == ~(st.ip = "modern" /\ ~mu.acc /\ st.idp)
=============================================================================
