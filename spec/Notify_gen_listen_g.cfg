SPECIFICATION GenSpec
CONSTANTS
  Sessions = {"M1"}
  Legacy = {}
  InitOn = {"M1"}
  InitSub = {}
  Kinds = {}
  NotifOf <- NotifStd
  Uris = {"u1", "u2"}
  Want <- WantAll
  CapOff = {}
  CapMode <- ModeInferred
  InitSize <- Size3
  MaxSize = 3
  Dirs = {"mod"}
  SendGate = "configured"
  TTLPos = FALSE
  D = 2
  MaxTime = 2
  MaxChanges = 0
  MaxUpdates = 1
  MaxCalls = 0
  NPages = 1
  ListenOwns = TRUE
  ResubRace = FALSE
  GenCheck = TRUE
  ColdBump = TRUE
  ModernUnsub = TRUE
  ForeignUnsub = FALSE
  Listeners = {"M1"}
  MaxListens = 2
  FailUndo = TRUE
  Stepwise = TRUE
  Gates = TRUE
  GateNames = {"unsub"}
  ClientFirst = FALSE
  MinSteps = 1
  MaxSteps = 5
  Bias = FALSE
  Script <- ScriptNone
  GenOps = {"listen", "unlisten", "updated", "hold", "release"}
INVARIANTS Export UpdatedExactlySubscribers SubsOnlyCurrent ForgottenOnClose
CHECK_DEADLOCK FALSE
