\* behaviour export: the two budgets crossed at the DEFAULT MaxRetries = 5 (the harness leaves the option unset): the grid of
\* Budgets1 in StreamCliMC.tla, 0..6 fruitless resumptions x 1..5 failed attempts in one reconnection (thorough tier)
\*  java -cp $TLA_CP tlc2.TLC -config StreamCli_genB5.cfg StreamCliMC
SPECIFICATION Spec
CONSTANTS
  KindSet = {"post", "sa"}
  ShapeSet <- FirstOnly
  SchemeSet = {"dec"}
  MSet = {2}
  MRSet = {5}
  MaxCuts = 7
  ClassSet = {"bnd"}
  AnswerSet = {"terr", "ok", "503"}
  TailSet = {"stuck"}
  RetrySet = {"none", "bare", "named", "idd"}
  FixScanner = FALSE
  FixCursor = TRUE
  Fix5xx = TRUE
CONSTRAINT Budgets1
INVARIANTS ExportBudgets1
CHECK_DEADLOCK FALSE
