\* thorough: larger profiles t1..t5 (three calls; standalone stream with two calls; OAuth with cancel and two closes; ids)
SPECIFICATION Spec
CONSTANTS
  NC = 3
  Profiles <- ProfMCT
  FixCancel = FALSE
  FixStream = FALSE
INVARIANTS TypeOK SessionHeader VersionHeader OnePostPerMessage Standalone PerMessage Usable GoneStops GoneNoDelete GoneFailsAll
  TerminalFailsPending DeleteOnce DeleteWhenLive CloseWaits StandaloneCancelled RetiredOnce
CHECK_DEADLOCK FALSE
