SPECIFICATION MCCoverSpec
CONSTANTS
  MaxSess = 2
  T = 3
  Stateless = TRUE
  MaxSlots = 2
  MaxParked = 2
  StoreModes = {}
VIEW CoverView
INVARIANTS NoTimeoutDuringPost ClosedAndForgotten TimerDiscipline
CHECK_DEADLOCK FALSE
