SPECIFICATION Spec
CONSTANTS
  Class = "stream"
  Ideal = FALSE
  KSet = {"n", "orph"}
  NW <- W33
  NR <- W33
  NC <- W22
  WMax = 3
  CMax = 2
INVARIANTS TypeOK Fifo NoSpuriousError NoLoss
CHECK_DEADLOCK FALSE
