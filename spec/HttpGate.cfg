CONSTANT K = 2
