SPECIFICATION Spec
CONSTANT K = 3
CONSTRAINT Emit
INVARIANT TypeOK
CHECK_DEADLOCK FALSE
