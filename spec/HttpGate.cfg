SPECIFICATION Spec
CONSTANT K = 3
CONSTRAINT Emit
INVARIANT TypeOK
INVARIANT ExpectedSound
CHECK_DEADLOCK FALSE
