SPECIFICATION Spec
CONSTANTS
  NS = 2
  MinLen = 2
  MaxLen = 3
  CallOK <- CallAll
  MaxHeld = 2
  Mode = "sync"
  LateRelease = TRUE
  AnyOrder = FALSE
  SymReduce = FALSE
  Canon = TRUE
CHECK_DEADLOCK FALSE
INVARIANTS ObservedInOrder NotificationCompletesFirst NoStuck
CONSTRAINT EmitC
