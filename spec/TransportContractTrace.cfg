SPECIFICATION TraceSpec
CONSTANTS
  Class = "rdv"
  Ideal = FALSE
  KSet = {"n", "orph"}
  NW <- TW
  NR <- TR
  NC <- TC
  WMax = 3
  CMax = 3
CONSTRAINT TMark
POSTCONDITION TAccepted
CHECK_DEADLOCK FALSE
