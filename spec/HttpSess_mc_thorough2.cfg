SPECIFICATION MCSpec
CONSTANTS
  MaxSess = 2
  T = 4
  Stateless = FALSE
  MaxSlots = 3
  MaxParked = 2
INVARIANTS MintOnlyOnCreate DeadStaysDead UserBound NoTimeoutDuringPost StatelessNoIds ClosedAndForgotten TimerDiscipline
PROPERTIES MintStep AtMostOneSession DeadForever ResAlways
VIEW MCView
CHECK_DEADLOCK FALSE
