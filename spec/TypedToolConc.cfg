SPECIFICATION Spec
CONSTANTS
  N = 2
  Shared = FALSE
INVARIANT TypeOK
INVARIANT PerCallOutput
INVARIANT NonInterference
INVARIANT ExportDone
CHECK_DEADLOCK FALSE
