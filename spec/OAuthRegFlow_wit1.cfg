SPECIFICATION Spec
CONSTANTS
  Rounds = 2
INVARIANT WitSecondRoundFailsAfterFirstPassed
CHECK_DEADLOCK FALSE
