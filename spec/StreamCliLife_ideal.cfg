\* the idealised design (D5, D6 repaired) satisfies NothingLeft and ConnectHonoursContext
SPECIFICATION Spec
CONSTANTS
  NC = 3
  Profiles <- ProfIdeal
  FixCancel = TRUE
  FixStream = TRUE
INVARIANTS TypeOK SessionHeader VersionHeader OnePostPerMessage Standalone PerMessage Usable GoneStops GoneNoDelete GoneFailsAll
  TerminalFailsPending DeleteOnce DeleteWhenLive CloseWaits StandaloneCancelled RetiredOnce NothingLeft ConnectHonoursContext
CHECK_DEADLOCK FALSE
