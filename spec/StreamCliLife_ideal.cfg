\* the idealised design (D5, D6 repaired) satisfies NothingLeft and ConnectHonoursContext
SPECIFICATION Spec
CONSTANTS
  NC = 2
  SASet = {TRUE}
  OAuthSet = {FALSE}
  DelSet = {"ok"}
  PostSet = {"json", "sse", "404", "http"}
  GetSet = {"sse", "405"}
  InitH = {"A"}
  HSet = {""}
  MaxNotify = 0
  MaxSaEv = 0
  MaxAuth = 0
  MaxClose = 1
  AllowCancel = TRUE
  FixCancel = TRUE
  FixStream = TRUE
INVARIANTS TypeOK SessionHeader VersionHeader OnePostPerMessage Standalone PerMessage Usable GoneStops GoneNoDelete GoneFailsAll
  TerminalFailsPending DeleteOnce DeleteWhenLive CloseWaits StandaloneCancelled RetiredOnce NothingLeft ConnectHonoursContext
CHECK_DEADLOCK FALSE
