---- MODULE TransportContractMC_TTrace_1790274180 ----
EXTENDS Sequences, TLCExt, TransportContractMC, Toolbox, Naturals, TLC

_expression ==
    LET TransportContractMC_TEExpression == INSTANCE TransportContractMC_TEExpression
    IN TransportContractMC_TEExpression!expression
----

_trace ==
    LET TransportContractMC_TETrace == INSTANCE TransportContractMC_TETrace
    IN TransportContractMC_TETrace!trace
----

_inv ==
    ~(
        TLCGet("level") = Len(_TETrace)
        /\
        rpc = ([A |-> "idle", B |-> "idle"])
        /\
        rtake = ([A |-> <<"none">>, B |-> <<"none">>])
        /\
        okBefore = ([A |-> <<{}, {}, {}>>, B |-> <<{}, {}, {}>>])
        /\
        nread = ([A |-> 0, B |-> 0])
        /\
        failed = ([A |-> FALSE, B |-> FALSE])
        /\
        closeRet = ([A |-> TRUE, B |-> FALSE])
        /\
        wpc = ([A |-> <<"sent", "idle", "idle">>, B |-> <<"idle", "idle", "idle">>])
        /\
        wLate = ([A |-> <<TRUE, FALSE, FALSE>>, B |-> <<FALSE, FALSE, FALSE>>])
        /\
        got = ([A |-> <<>>, B |-> <<>>])
        /\
        med = ([A |-> <<<<"A", 1>>>>, B |-> <<>>])
        /\
        anyClose = (TRUE)
        /\
        rLate = ([A |-> FALSE, B |-> FALSE])
        /\
        wkind = ([A |-> <<"n", "n", "n">>, B |-> <<"n", "n", "n">>])
        /\
        endBefore = ([A |-> <<{}, {}, {}>>, B |-> <<{}, {}, {}>>])
        /\
        cpc = ([A |-> <<"done", "idle">>, B |-> <<"idle", "idle">>])
        /\
        lateDeliv = ([A |-> FALSE, B |-> FALSE])
        /\
        exited = ([A |-> FALSE, B |-> FALSE])
        /\
        closed = ([A |-> TRUE, B |-> FALSE])
        /\
        peerGone = ([A |-> FALSE, B |-> FALSE])
        /\
        intake = ([A |-> "run", B |-> "run"])
        /\
        inbox = ([A |-> <<>>, B |-> <<>>])
        /\
        wres = ([A |-> <<"ok", "none", "none">>, B |-> <<"none", "none", "none">>])
    )
----

_init ==
    /\ peerGone = _TETrace[1].peerGone
    /\ wLate = _TETrace[1].wLate
    /\ intake = _TETrace[1].intake
    /\ rtake = _TETrace[1].rtake
    /\ lateDeliv = _TETrace[1].lateDeliv
    /\ rpc = _TETrace[1].rpc
    /\ okBefore = _TETrace[1].okBefore
    /\ exited = _TETrace[1].exited
    /\ endBefore = _TETrace[1].endBefore
    /\ anyClose = _TETrace[1].anyClose
    /\ rLate = _TETrace[1].rLate
    /\ wres = _TETrace[1].wres
    /\ got = _TETrace[1].got
    /\ cpc = _TETrace[1].cpc
    /\ failed = _TETrace[1].failed
    /\ closeRet = _TETrace[1].closeRet
    /\ nread = _TETrace[1].nread
    /\ closed = _TETrace[1].closed
    /\ wpc = _TETrace[1].wpc
    /\ med = _TETrace[1].med
    /\ inbox = _TETrace[1].inbox
    /\ wkind = _TETrace[1].wkind
----

_next ==
    /\ \E i,j \in DOMAIN _TETrace:
        /\ \/ /\ j = i + 1
              /\ i = TLCGet("level")
        /\ peerGone  = _TETrace[i].peerGone
        /\ peerGone' = _TETrace[j].peerGone
        /\ wLate  = _TETrace[i].wLate
        /\ wLate' = _TETrace[j].wLate
        /\ intake  = _TETrace[i].intake
        /\ intake' = _TETrace[j].intake
        /\ rtake  = _TETrace[i].rtake
        /\ rtake' = _TETrace[j].rtake
        /\ lateDeliv  = _TETrace[i].lateDeliv
        /\ lateDeliv' = _TETrace[j].lateDeliv
        /\ rpc  = _TETrace[i].rpc
        /\ rpc' = _TETrace[j].rpc
        /\ okBefore  = _TETrace[i].okBefore
        /\ okBefore' = _TETrace[j].okBefore
        /\ exited  = _TETrace[i].exited
        /\ exited' = _TETrace[j].exited
        /\ endBefore  = _TETrace[i].endBefore
        /\ endBefore' = _TETrace[j].endBefore
        /\ anyClose  = _TETrace[i].anyClose
        /\ anyClose' = _TETrace[j].anyClose
        /\ rLate  = _TETrace[i].rLate
        /\ rLate' = _TETrace[j].rLate
        /\ wres  = _TETrace[i].wres
        /\ wres' = _TETrace[j].wres
        /\ got  = _TETrace[i].got
        /\ got' = _TETrace[j].got
        /\ cpc  = _TETrace[i].cpc
        /\ cpc' = _TETrace[j].cpc
        /\ failed  = _TETrace[i].failed
        /\ failed' = _TETrace[j].failed
        /\ closeRet  = _TETrace[i].closeRet
        /\ closeRet' = _TETrace[j].closeRet
        /\ nread  = _TETrace[i].nread
        /\ nread' = _TETrace[j].nread
        /\ closed  = _TETrace[i].closed
        /\ closed' = _TETrace[j].closed
        /\ wpc  = _TETrace[i].wpc
        /\ wpc' = _TETrace[j].wpc
        /\ med  = _TETrace[i].med
        /\ med' = _TETrace[j].med
        /\ inbox  = _TETrace[i].inbox
        /\ inbox' = _TETrace[j].inbox
        /\ wkind  = _TETrace[i].wkind
        /\ wkind' = _TETrace[j].wkind

\* Uncomment the ASSUME below to write the states of the error trace
\* to the given file in Json format. Note that you can pass any tuple
\* to `JsonSerialize`. For example, a sub-sequence of _TETrace.
    \* ASSUME
    \*     LET J == INSTANCE Json
    \*         IN J!JsonSerialize("TransportContractMC_TTrace_1790274180.json", _TETrace)

=============================================================================

 Note that you can extract this module `TransportContractMC_TEExpression`
  to a dedicated file to reuse `expression` (the module in the 
  dedicated `TransportContractMC_TEExpression.tla` file takes precedence 
  over the module `TransportContractMC_TEExpression` below).

---- MODULE TransportContractMC_TEExpression ----
EXTENDS Sequences, TLCExt, TransportContractMC, Toolbox, Naturals, TLC

expression == 
    [
        \* To hide variables of the `TransportContractMC` spec from the error trace,
        \* remove the variables below.  The trace will be written in the order
        \* of the fields of this record.
        peerGone |-> peerGone
        ,wLate |-> wLate
        ,intake |-> intake
        ,rtake |-> rtake
        ,lateDeliv |-> lateDeliv
        ,rpc |-> rpc
        ,okBefore |-> okBefore
        ,exited |-> exited
        ,endBefore |-> endBefore
        ,anyClose |-> anyClose
        ,rLate |-> rLate
        ,wres |-> wres
        ,got |-> got
        ,cpc |-> cpc
        ,failed |-> failed
        ,closeRet |-> closeRet
        ,nread |-> nread
        ,closed |-> closed
        ,wpc |-> wpc
        ,med |-> med
        ,inbox |-> inbox
        ,wkind |-> wkind
        
        \* Put additional constant-, state-, and action-level expressions here:
        \* ,_stateNumber |-> _TEPosition
        \* ,_peerGoneUnchanged |-> peerGone = peerGone'
        
        \* Format the `peerGone` variable as Json value.
        \* ,_peerGoneJson |->
        \*     LET J == INSTANCE Json
        \*     IN J!ToJson(peerGone)
        
        \* Lastly, you may build expressions over arbitrary sets of states by
        \* leveraging the _TETrace operator.  For example, this is how to
        \* count the number of times a spec variable changed up to the current
        \* state in the trace.
        \* ,_peerGoneModCount |->
        \*     LET F[s \in DOMAIN _TETrace] ==
        \*         IF s = 1 THEN 0
        \*         ELSE IF _TETrace[s].peerGone # _TETrace[s-1].peerGone
        \*             THEN 1 + F[s-1] ELSE F[s-1]
        \*     IN F[_TEPosition - 1]
    ]

=============================================================================



Parsing and semantic processing can take forever if the trace below is long.
 In this case, it is advised to uncomment the module below to deserialize the
 trace from a generated binary file.

\*
\*---- MODULE TransportContractMC_TETrace ----
\*EXTENDS IOUtils, TransportContractMC, TLC
\*
\*trace == IODeserialize("TransportContractMC_TTrace_1790274180.bin", TRUE)
\*
\*=============================================================================
\*

---- MODULE TransportContractMC_TETrace ----
EXTENDS TransportContractMC, TLC

trace == 
    <<
    ([rpc |-> [A |-> "idle", B |-> "idle"],rtake |-> [A |-> <<"none">>, B |-> <<"none">>],okBefore |-> [A |-> <<{}, {}, {}>>, B |-> <<{}, {}, {}>>],nread |-> [A |-> 0, B |-> 0],failed |-> [A |-> FALSE, B |-> FALSE],closeRet |-> [A |-> FALSE, B |-> FALSE],wpc |-> [A |-> <<"idle", "idle", "idle">>, B |-> <<"idle", "idle", "idle">>],wLate |-> [A |-> <<FALSE, FALSE, FALSE>>, B |-> <<FALSE, FALSE, FALSE>>],got |-> [A |-> <<>>, B |-> <<>>],med |-> [A |-> <<>>, B |-> <<>>],anyClose |-> FALSE,rLate |-> [A |-> FALSE, B |-> FALSE],wkind |-> [A |-> <<"n", "n", "n">>, B |-> <<"n", "n", "n">>],endBefore |-> [A |-> <<{}, {}, {}>>, B |-> <<{}, {}, {}>>],cpc |-> [A |-> <<"idle", "idle">>, B |-> <<"idle", "idle">>],lateDeliv |-> [A |-> FALSE, B |-> FALSE],exited |-> [A |-> FALSE, B |-> FALSE],closed |-> [A |-> FALSE, B |-> FALSE],peerGone |-> [A |-> FALSE, B |-> FALSE],intake |-> [A |-> "run", B |-> "run"],inbox |-> [A |-> <<>>, B |-> <<>>],wres |-> [A |-> <<"none", "none", "none">>, B |-> <<"none", "none", "none">>]]),
    ([rpc |-> [A |-> "idle", B |-> "idle"],rtake |-> [A |-> <<"none">>, B |-> <<"none">>],okBefore |-> [A |-> <<{}, {}, {}>>, B |-> <<{}, {}, {}>>],nread |-> [A |-> 0, B |-> 0],failed |-> [A |-> FALSE, B |-> FALSE],closeRet |-> [A |-> FALSE, B |-> FALSE],wpc |-> [A |-> <<"idle", "idle", "idle">>, B |-> <<"idle", "idle", "idle">>],wLate |-> [A |-> <<FALSE, FALSE, FALSE>>, B |-> <<FALSE, FALSE, FALSE>>],got |-> [A |-> <<>>, B |-> <<>>],med |-> [A |-> <<>>, B |-> <<>>],anyClose |-> TRUE,rLate |-> [A |-> FALSE, B |-> FALSE],wkind |-> [A |-> <<"n", "n", "n">>, B |-> <<"n", "n", "n">>],endBefore |-> [A |-> <<{}, {}, {}>>, B |-> <<{}, {}, {}>>],cpc |-> [A |-> <<"begun", "idle">>, B |-> <<"idle", "idle">>],lateDeliv |-> [A |-> FALSE, B |-> FALSE],exited |-> [A |-> FALSE, B |-> FALSE],closed |-> [A |-> FALSE, B |-> FALSE],peerGone |-> [A |-> FALSE, B |-> FALSE],intake |-> [A |-> "run", B |-> "run"],inbox |-> [A |-> <<>>, B |-> <<>>],wres |-> [A |-> <<"none", "none", "none">>, B |-> <<"none", "none", "none">>]]),
    ([rpc |-> [A |-> "idle", B |-> "idle"],rtake |-> [A |-> <<"none">>, B |-> <<"none">>],okBefore |-> [A |-> <<{}, {}, {}>>, B |-> <<{}, {}, {}>>],nread |-> [A |-> 0, B |-> 0],failed |-> [A |-> FALSE, B |-> FALSE],closeRet |-> [A |-> FALSE, B |-> FALSE],wpc |-> [A |-> <<"idle", "idle", "idle">>, B |-> <<"idle", "idle", "idle">>],wLate |-> [A |-> <<FALSE, FALSE, FALSE>>, B |-> <<FALSE, FALSE, FALSE>>],got |-> [A |-> <<>>, B |-> <<>>],med |-> [A |-> <<>>, B |-> <<>>],anyClose |-> TRUE,rLate |-> [A |-> FALSE, B |-> FALSE],wkind |-> [A |-> <<"n", "n", "n">>, B |-> <<"n", "n", "n">>],endBefore |-> [A |-> <<{}, {}, {}>>, B |-> <<{}, {}, {}>>],cpc |-> [A |-> <<"did", "idle">>, B |-> <<"idle", "idle">>],lateDeliv |-> [A |-> FALSE, B |-> FALSE],exited |-> [A |-> FALSE, B |-> FALSE],closed |-> [A |-> TRUE, B |-> FALSE],peerGone |-> [A |-> FALSE, B |-> FALSE],intake |-> [A |-> "run", B |-> "run"],inbox |-> [A |-> <<>>, B |-> <<>>],wres |-> [A |-> <<"none", "none", "none">>, B |-> <<"none", "none", "none">>]]),
    ([rpc |-> [A |-> "idle", B |-> "idle"],rtake |-> [A |-> <<"none">>, B |-> <<"none">>],okBefore |-> [A |-> <<{}, {}, {}>>, B |-> <<{}, {}, {}>>],nread |-> [A |-> 0, B |-> 0],failed |-> [A |-> FALSE, B |-> FALSE],closeRet |-> [A |-> TRUE, B |-> FALSE],wpc |-> [A |-> <<"idle", "idle", "idle">>, B |-> <<"idle", "idle", "idle">>],wLate |-> [A |-> <<FALSE, FALSE, FALSE>>, B |-> <<FALSE, FALSE, FALSE>>],got |-> [A |-> <<>>, B |-> <<>>],med |-> [A |-> <<>>, B |-> <<>>],anyClose |-> TRUE,rLate |-> [A |-> FALSE, B |-> FALSE],wkind |-> [A |-> <<"n", "n", "n">>, B |-> <<"n", "n", "n">>],endBefore |-> [A |-> <<{}, {}, {}>>, B |-> <<{}, {}, {}>>],cpc |-> [A |-> <<"done", "idle">>, B |-> <<"idle", "idle">>],lateDeliv |-> [A |-> FALSE, B |-> FALSE],exited |-> [A |-> FALSE, B |-> FALSE],closed |-> [A |-> TRUE, B |-> FALSE],peerGone |-> [A |-> FALSE, B |-> FALSE],intake |-> [A |-> "run", B |-> "run"],inbox |-> [A |-> <<>>, B |-> <<>>],wres |-> [A |-> <<"none", "none", "none">>, B |-> <<"none", "none", "none">>]]),
    ([rpc |-> [A |-> "idle", B |-> "idle"],rtake |-> [A |-> <<"none">>, B |-> <<"none">>],okBefore |-> [A |-> <<{}, {}, {}>>, B |-> <<{}, {}, {}>>],nread |-> [A |-> 0, B |-> 0],failed |-> [A |-> FALSE, B |-> FALSE],closeRet |-> [A |-> TRUE, B |-> FALSE],wpc |-> [A |-> <<"begun", "idle", "idle">>, B |-> <<"idle", "idle", "idle">>],wLate |-> [A |-> <<TRUE, FALSE, FALSE>>, B |-> <<FALSE, FALSE, FALSE>>],got |-> [A |-> <<>>, B |-> <<>>],med |-> [A |-> <<>>, B |-> <<>>],anyClose |-> TRUE,rLate |-> [A |-> FALSE, B |-> FALSE],wkind |-> [A |-> <<"n", "n", "n">>, B |-> <<"n", "n", "n">>],endBefore |-> [A |-> <<{}, {}, {}>>, B |-> <<{}, {}, {}>>],cpc |-> [A |-> <<"done", "idle">>, B |-> <<"idle", "idle">>],lateDeliv |-> [A |-> FALSE, B |-> FALSE],exited |-> [A |-> FALSE, B |-> FALSE],closed |-> [A |-> TRUE, B |-> FALSE],peerGone |-> [A |-> FALSE, B |-> FALSE],intake |-> [A |-> "run", B |-> "run"],inbox |-> [A |-> <<>>, B |-> <<>>],wres |-> [A |-> <<"none", "none", "none">>, B |-> <<"none", "none", "none">>]]),
    ([rpc |-> [A |-> "idle", B |-> "idle"],rtake |-> [A |-> <<"none">>, B |-> <<"none">>],okBefore |-> [A |-> <<{}, {}, {}>>, B |-> <<{}, {}, {}>>],nread |-> [A |-> 0, B |-> 0],failed |-> [A |-> FALSE, B |-> FALSE],closeRet |-> [A |-> TRUE, B |-> FALSE],wpc |-> [A |-> <<"sent", "idle", "idle">>, B |-> <<"idle", "idle", "idle">>],wLate |-> [A |-> <<TRUE, FALSE, FALSE>>, B |-> <<FALSE, FALSE, FALSE>>],got |-> [A |-> <<>>, B |-> <<>>],med |-> [A |-> <<<<"A", 1>>>>, B |-> <<>>],anyClose |-> TRUE,rLate |-> [A |-> FALSE, B |-> FALSE],wkind |-> [A |-> <<"n", "n", "n">>, B |-> <<"n", "n", "n">>],endBefore |-> [A |-> <<{}, {}, {}>>, B |-> <<{}, {}, {}>>],cpc |-> [A |-> <<"done", "idle">>, B |-> <<"idle", "idle">>],lateDeliv |-> [A |-> FALSE, B |-> FALSE],exited |-> [A |-> FALSE, B |-> FALSE],closed |-> [A |-> TRUE, B |-> FALSE],peerGone |-> [A |-> FALSE, B |-> FALSE],intake |-> [A |-> "run", B |-> "run"],inbox |-> [A |-> <<>>, B |-> <<>>],wres |-> [A |-> <<"ok", "none", "none">>, B |-> <<"none", "none", "none">>]])
    >>
----


=============================================================================

---- CONFIG TransportContractMC_TTrace_1790274180 ----
CONSTANTS
    Class = "stdio"
    Ideal = FALSE
    KSet = { "n" }
    NW <- W11
    NR <- W11
    NC <- W11
    WMax = 3
    CMax = 2

INVARIANT
    _inv

CHECK_DEADLOCK
    \* CHECK_DEADLOCK off because of PROPERTY or INVARIANT above.
    FALSE

INIT
    _init

NEXT
    _next

CONSTANT
    _TETrace <- _trace

ALIAS
    _expression
=============================================================================
\* Generated on Thu Sep 24 18:23:02 UTC 2026