--------------------------- MODULE StreamCliLifeMC ---------------------------
(* Bounded configurations of StreamCliLife: every interleaving of the SDK's   *)
(* internal steps with the environment (Spec / FairSpec), and the seam-level   *)
(* graph for the transition cover and for simulation (SettledSpec: the         *)
(* scripted server and the application act only when the SDK has settled).     *)
EXTENDS StreamCliLife

\* seam-level wrappers (their names, minus the S, and their parameters are the operations of a history)
Seam == ~Locked /\ Settled
ConnectS == Seam /\ Connect
CancelConnectS == Seam /\ CancelConnect
CallS(k) == Seam /\ Call(k)
NotifyS == Seam /\ Notify
CloseS == Seam /\ Close
AnsPostS(t, c, h) == Seam /\ AnsPost(t, c, h)
AuthS(t, o) == Seam /\ Auth(t, o)
EvS(t, w) == Seam /\ Ev(t, w)
AnsGetS(c) == Seam /\ AnsGet(c)
SaEvS(k) == Seam /\ SaEv(k)
DelTimeoutS == Settled /\ DelTimeout
SettledNext == \/ DelTimeoutS
               \/ ~Locked /\ (TClose \/ Done)
               \/ ~Locked /\ ~Urgent /\ (ConnInit \/ Reader \/ ReaderFail \/ ReaderEOF)
               \/ ConnectS \/ CancelConnectS \/ NotifyS \/ CloseS
               \/ \E k \in 1..NC : CallS(k)
               \/ \E t \in PostTags, c \in PostClasses, h \in {"", "A", "B"} : AnsPostS(t, c, h)
               \/ \E t \in PostTags, o \in {"ok", "fail"} : AuthS(t, o)
               \/ \E t \in CallTags, w \in {"resp", "eof"} : EvS(t, w)
               \/ \E c \in GetClasses : AnsGetS(c)
               \/ \E k \in {"note", "ping"} : SaEvS(k)
SettledSpec == Init /\ [][SettledNext]_vars

\* the cover graph forgets the ghosts, the header snapshots (functions of sid / pv at the time of sending) and the
\* result classes of what has been retired (they do not influence what can happen next)
CoverView == <<SA, OAuth, DelCls, conn, cph, cancelled, sid, pv, fail, [t \in Tags |-> <<rq[t].st, rq[t].att>>], reg,
               [t \in CallTags |-> IF t = "init" THEN ret[t] ELSE IF ret[t] # "" THEN "x" ELSE ""], stream, inbox, nt \in {"new", "writing"}, nt = "new", sa, ping, nsaev,
               closing, rerr, werr, reading, nnotif, incoming, tc, jdone, closeIss, closeRet, nauth>>

\* reachability witnesses (each must be violated)
NeverGone == rerr # "gone"
NeverLateId == ~(sid = "B" /\ ret["init"] = "ok")
NeverRetry == \A t \in Tags : rq[t].att < 2
NeverCloseWaits == ~(closeIss > closeRet /\ reg # {})
NeverImplicitDelete == ~(ndel = 1 /\ closeIss = 0 /\ conn = "ok")
NeverConnectDelete == ~(ndel = 1 /\ conn = "err")
NeverPingAnswered == ping # "done"
NeverRetiredWhileWriting == ~(\E t \in AppCalls : ret[t] # "" /\ rq[t].st = "open")
NeverSecondClose == closeRet < 2
=============================================================================
