--------------------------- MODULE StreamCliLifeMC ---------------------------
(* Bounded configurations of StreamCliLife: every interleaving of the SDK's   *)
(* internal steps with the environment (Spec / FairSpec), and the seam-level   *)
(* graph for the transition cover and for simulation (SettledSpec: the         *)
(* scripted server and the application act only when the SDK has settled).     *)
EXTENDS StreamCliLife

\* seam-level wrappers (their names, minus the S, and their parameters are the operations of a history)
Seam == ~Locked /\ Settled
ConnectS == Seam /\ Connect
CancelConnectS == Seam /\ CancelConnect
CallS(k) == Seam /\ Call(k)
NotifyS == Seam /\ Notify
CloseS == Seam /\ Close
AnsPostS(t, c, h) == Seam /\ AnsPost(t, c, h)
AuthS(t, o) == Seam /\ Auth(t, o)
EvS(t, w) == Seam /\ Ev(t, w)
AnsGetS(c) == Seam /\ AnsGet(c)
SaEvS(k) == Seam /\ SaEv(k)
DelTimeoutS == Settled /\ DelTimeout
SettledNext == \/ DelTimeoutS
               \/ SDKNext
               \/ ConnectS \/ CancelConnectS \/ NotifyS \/ CloseS
               \/ \E k \in 1..NC : CallS(k)
               \/ \E t \in PostTags, c \in PostClasses, h \in {"", "A", "B"} : AnsPostS(t, c, h)
               \/ \E t \in PostTags, o \in {"ok", "fail"} : AuthS(t, o)
               \/ \E t \in CallTags, w \in {"resp", "eof"} : EvS(t, w)
               \/ \E c \in GetClasses : AnsGetS(c)
               \/ \E k \in {"note", "ping"} : SaEvS(k)
SettledSpec == Init /\ [][SettledNext]_vars

\* the cover graph forgets the ghosts, the header snapshots (functions of sid / pv at the time of sending) and the
\* result classes of what has been retired (they do not influence what can happen next)
CoverView == <<P, conn, cph, cancelled, sid, pv, fail, [t \in Tags |-> <<rq[t].st, rq[t].att>>], reg,
               [t \in CallTags |-> IF t = "init" THEN ret[t] ELSE IF ret[t] # "" THEN "x" ELSE ""], stream, inbox, nt \in {"new", "writing"}, nt = "new", sa, ping, nsaev,
               closing, rerr, werr, reading, nnotif, incoming, tc, jdone, closeIss, closeRet, nauth>>

-----------------------------------------------------------------------------
(* profiles: one TLC run explores all profiles of a set (several initial states) *)
AllPost == {"json", "badjson", "sse", "202", "badct", "rpcerr", "rpc404", "404", "http", "401", "5xx", "neterr"}
AllGet  == {"sse", "405", "404", "4xx", "500", "200plain", "503sse", "neterr"}
Prof(pname, pnc, psa, poauth, pdel, ppost, pget, pinith, phset, pnotify, psaev, pauth, pclose, pcancel) ==
  [name |-> pname, nc |-> pnc, sa |-> psa, oauth |-> poauth, del |-> pdel, post |-> ppost, get |-> pget, inith |-> pinith,
   hset |-> phset, notify |-> pnotify, saev |-> psaev, auth |-> pauth, close |-> pclose, cancel |-> pcancel]

\* a: terminal and per-message answers, response streams, two calls      b: the standalone stream
\* c: session ids (none, at initialize, late, changing)                   d: OAuth handler
\* e: Connect's context cancelled, failing DELETE, second Close           f: the DELETE is never answered (only with
\* g: the remaining answer classes                                           non-terminal answers: D7)
PA == Prof("a", 2, FALSE, FALSE, "ok", {"json", "sse", "rpcerr", "404", "http", "badct"}, {"405"}, {"A"}, {""}, 1, 0, 0, 1, FALSE)
PB == Prof("b", 1, TRUE, FALSE, "ok", {"json", "sse", "5xx", "404"}, AllGet, {"A"}, {""}, 0, 2, 0, 2, FALSE)
PC == Prof("c", 2, FALSE, FALSE, "404", {"json", "sse", "202"}, {"405"}, {"", "A"}, {"", "A", "B"}, 0, 0, 0, 1, FALSE)
PD == Prof("d", 1, FALSE, TRUE, "405", {"json", "401", "404", "5xx"}, {"405"}, {"A"}, {""}, 0, 0, 2, 1, FALSE)
PE == Prof("e", 1, TRUE, FALSE, "neterr", {"json", "http", "neterr"}, {"sse", "405"}, {"A"}, {""}, 0, 0, 0, 2, TRUE)
PF == Prof("f", 1, TRUE, FALSE, "timeout", {"json", "sse", "5xx"}, {"sse", "405"}, {"A"}, {""}, 0, 0, 0, 2, FALSE)
PG == Prof("g", 1, FALSE, FALSE, "ok", {"json", "badjson", "rpc404", "5xx", "neterr", "202"}, {"405"}, {"", "A"}, {""}, 1, 0, 0, 1, FALSE)
ProfCover == {PA, PB, PC, PD, PE, PF, PG}
\* exhaustive (every interleaving), quick: the same profiles, d with two calls, e also without the standalone stream
PD2 == [PD EXCEPT !.name = "d2", !.nc = 2]
PE2 == [PE EXCEPT !.name = "e2", !.sa = FALSE, !.del = "ok"]
ProfMC == {PA, PB, PC, PD2, PE, PE2, PF, PG}
\* liveness under fairness
PLa == Prof("la", 1, FALSE, FALSE, "ok", {"json", "sse", "rpcerr", "404", "http"}, {"405"}, {"A"}, {""}, 1, 0, 0, 1, FALSE)
PLb == Prof("lb", 1, TRUE, TRUE, "timeout", {"json", "401", "404"}, {"sse", "405"}, {"A"}, {""}, 0, 0, 1, 1, TRUE)
ProfLive == {PLa, PLb}
\* the idealised design / the leads
PI == Prof("i", 2, TRUE, FALSE, "ok", {"json", "sse", "404", "http"}, {"sse", "405"}, {"A"}, {""}, 0, 0, 0, 1, TRUE)
ProfIdeal == {PI}
ProfLeadStream == {Prof("ls", 2, FALSE, FALSE, "ok", {"json", "sse", "404"}, {"405"}, {"A"}, {""}, 0, 0, 0, 1, FALSE)}
ProfLeadCancel == {Prof("lc", 1, TRUE, FALSE, "ok", {"json"}, {"sse", "405"}, {"A"}, {""}, 0, 0, 0, 1, TRUE)}
\* simulation (seam level): larger
PSa == Prof("sa", 3, TRUE, FALSE, "ok", AllPost \ {"401"}, AllGet, {"", "A"}, {"", "A", "B"}, 1, 3, 0, 2, FALSE)
PSb == Prof("sb", 3, FALSE, TRUE, "405", AllPost, {"405"}, {"", "A"}, {"", "A"}, 1, 0, 3, 2, FALSE)
PSc == Prof("sc", 2, TRUE, FALSE, "neterr", {"json", "sse", "202", "rpcerr", "404", "http", "5xx", "neterr"}, AllGet, {"A"}, {"", "A", "B"}, 1, 2, 0, 2, TRUE)
PSd == Prof("sd", 2, TRUE, TRUE, "404", AllPost, {"sse", "405", "404"}, {"A"}, {"", "A"}, 1, 2, 2, 2, FALSE)
ProfSim == {PSa, PSb, PSc, PSd}
\* thorough
PT1 == Prof("t1", 3, FALSE, FALSE, "ok", {"json", "sse", "404", "http"}, {"405"}, {"A"}, {""}, 0, 0, 0, 1, FALSE)
PT2 == Prof("t2", 2, TRUE, FALSE, "ok", {"json", "sse", "404", "http"}, {"sse", "405", "503sse", "neterr"}, {"A"}, {""}, 0, 2, 0, 1, FALSE)
PT3 == Prof("t3", 2, TRUE, TRUE, "405", {"json", "sse", "401", "404", "5xx", "202"}, {"sse", "405"}, {"A"}, {"", "A"}, 0, 0, 2, 2, TRUE)
PT4 == [PT3 EXCEPT !.name = "t4", !.sa = FALSE, !.del = "neterr"]
PT5 == Prof("t5", 2, FALSE, FALSE, "404", {"json", "sse", "202", "404"}, {"405"}, {"", "A"}, {"", "A", "B"}, 1, 0, 0, 2, FALSE)
ProfMCT == {PT1, PT2, PT3, PT5}
PLt1 == Prof("lt1", 1, TRUE, FALSE, "timeout", {"json", "sse", "404", "http"}, {"sse", "405"}, {"A"}, {""}, 0, 1, 0, 1, FALSE)
PLt2 == Prof("lt2", 2, FALSE, FALSE, "ok", {"json", "404", "http"}, {"405"}, {"A"}, {""}, 0, 0, 0, 1, FALSE)
PLt3 == Prof("lt3", 1, TRUE, TRUE, "ok", {"json", "401", "404", "badct"}, {"sse", "405", "503sse"}, {"A"}, {"", "B"}, 1, 1, 1, 2, TRUE)
ProfLiveT == {PLt1, PLt2, PLt3}

\* reachability witnesses (each must be violated)
NeverGone == rerr # "gone"
NeverLateId == ~(sid = "B" /\ ret["init"] = "ok")
NeverRetry == \A t \in Tags : rq[t].att < 2
NeverCloseWaits == ~(closeIss > closeRet /\ reg # {})
NeverImplicitDelete == ~(ndel = 1 /\ closeIss = 0 /\ conn = "ok")
NeverConnectDelete == ~(ndel = 1 /\ conn = "err")
NeverPingAnswered == ping # "done"
NeverRetiredWhileWriting == ~(\E t \in AppCalls : ret[t] # "" /\ rq[t].st = "open")
NeverSecondClose == closeRet < 2
NeverDeleteTimeout == ~(tc = "closed" /\ DelCls = "timeout" /\ ndel = 1)
NeverCancelledWhileGet == ~(cancelled /\ cph = "sa")
NeverMismatch == ~(werr /\ fail = "" /\ sid = "A" /\ "B" \in issued)
=============================================================================
