SPECIFICATION CoverSpec
CONSTANTS
  Keys = {"a", "b"}
  MaxRetries = 3
  MaxShed = 2
  MaxCalls = 1
  MaxManual = 2
  Modes = {"new", "newoff", "old", "oldoff"}
  Others = {FALSE, TRUE}
  HandlerMaps <- GenMaps
INVARIANTS CoverInv
VIEW MCView
CHECK_DEADLOCK FALSE
