---------------------------- MODULE OAuthRegMon ----------------------------
(* Property monitor of X13, evaluated by TLC over the observations of the REAL *)
(* functions (harness/auth/x13_*_test.go): one line per concretised case       *)
(* {t, c, o, panic} for the tables of OAuthRegDefs (t = D R X A W K M L) and   *)
(* one line per replayed behaviour of OAuthRegFlow (t = F).                    *)
(* Verdict clauses are the Holds predicates of OAuthRegDefs and the request    *)
(* predicates of OAuthRegFlow, split by property name so that a failure names  *)
(* the clause; "drift" compares the outcome with the code-shaped Expected /    *)
(* the behaviour of the specification and is not a verdict; "lead" reports the *)
(* named hardening deviations (DHardened, XHardened) and is not a verdict.     *)
EXTENDS VerifTrace, FiniteSets
T == INSTANCE OAuthRegDefs
F == INSTANCE OAuthRegFlow WITH Rounds <- 2, pc <- "", round <- 1, cfg <- 0, idpTok <- "", mcpTok <- "", jag <- "", ts <- 0,
       result <- "", failed <- FALSE, requested <- {}, passed <- {}

VARIABLE l
MInit == l = 1 /\ MarkInit

\* ---- D
DCheck(n, c, o) ==
  /\ Check(n, "D.Request", (o.sent <=> c.ep # "none") /\ (o.sent => o.reqok))
  /\ Check(n, "D.NoErrorAsSuccess", (o.ok => c.net = "ok" /\ c.status \in {200, 201}) /\ ~(o.ok /\ o.regerr) /\ ~o.nilnil
                                     /\ (o.regerr => c.net = "ok" /\ c.status >= 400))
  /\ Check(n, "D.ClientIDRequired", o.ok => T!DHasId(c.body))
  /\ Check(n, "D.NoScriptSchemes", o.ok => (c.fld # "-" => ~T!Script(c.ucls)))
  /\ Check(n, "D.Echo", o.ok => o.id = "match" /\ o.secret = T!DSecretOf(c.sec) /\ o.exp = T!DExpOf(c.sec) /\ o.echo)
  /\ Check(n, "D.Accepts", T!DMustAccept(c) => o.ok)
  /\ Check(n, "D.ErrorObject", (c.ep # "none" /\ c.net = "ok" /\ c.status = 400 /\ c.body \in {"err", "errmin"}) => o.regerr /\ o.code = "match")
  /\ Check(n, "D.Holds", T!DHolds(c, o))
  /\ Check(n, "lead", T!DHardened(c, o))
  /\ Check(n, "drift", o = T!DExpected(c))
\* the case in which the code is known to panic: only NoPanic is judged (there is no outcome), and drift says whether
\* the panic is (still) there
DRow(n, e) == IF e.panic # "" THEN Check(n, "drift", T!DPanics(e.c))
              ELSE DCheck(n, e.c, e.o) /\ Check(n, "drift", ~T!DPanics(e.c))

\* ---- R
RCheck(n, c, o) ==
  /\ Check(n, "R.RoundTrip", T!RRoundTrip(c, o))
  /\ Check(n, "R.SecretExpiry", T!RSecretExpiry(c, o))
  /\ Check(n, "drift", o = T!RExpected(c))

\* ---- X
XCheck(n, c, o) ==
  /\ Check(n, "X.ValidateBeforeSend", (o.sent <=> o.nreq >= 1) /\ (o.sent => T!XValidInputs(c)))
  /\ Check(n, "X.Request", o.sent => o.bad = <<>> /\ o.nreq = 1)
  /\ Check(n, "X.NoErrorAsSuccess", o.ok => o.sent /\ c.net = "ok" /\ c.status \in 200..299 /\ c.body # "err")
  /\ Check(n, "X.IssuedTokenType", o.ok => T!XGoodBody(c))
  /\ Check(n, "X.Echo", o.ok => o.at = "match" /\ o.issued = T!XIssuedOf(c))
  /\ Check(n, "X.Accepts", T!XMustAccept(c) => o.ok)
  /\ Check(n, "X.ErrorPropagated", (o.sent /\ c.net = "ok" /\ c.body = "err" /\ c.status \in {200, 400, 401}) => ~o.ok /\ o.rerr = "match")
  /\ Check(n, "X.Holds", T!XHolds(c, o))
  /\ Check(n, "lead", T!XHardened(c, o))
  /\ Check(n, "drift", o = T!XExpected(c))

\* ---- A
ACheck(n, c, o) ==
  /\ Check(n, "A.Match", T!AHolds(c, o))
  /\ Check(n, "drift", o = T!AExpected(c))

\* ---- W
WOut(o) == [err |-> o.err, ch |-> [i \in 1..Len(o.ch) |-> [sch |-> o.ch[i].sch, ps |-> AsSet(o.ch[i].ps)]]]
WCheck(n, c, o) ==
  /\ Check(n, "W.Parse", T!WHolds(c, WOut(o)))
  /\ Check(n, "drift", T!WRealClass(c, WOut(o)) = T!WClass(c))

\* ---- K
KCheck(n, c, o) ==
  /\ Check(n, "K.WellKnown", T!KHolds(c, o))
  /\ Check(n, "drift", o = T!KExpected(c))

\* ---- M
MCheck(n, c, o) ==
  /\ Check(n, "M.Status", /\ (c.status \in 400..499 => o.res = "nil")
                          /\ ((c.status \notin 400..499 /\ c.status # 200) => o.res = "err")
                          /\ (c.status = 200 => o.res # "nil"))
  /\ Check(n, "M.ContentType", o.res = "meta" => T!MJsonCt(c.ct))
  /\ Check(n, "M.PKCE", o.res = "meta" => c.pkce \notin {"absent", "empty"})
  /\ Check(n, "M.Holds", T!MHolds(c, o))
  /\ Check(n, "drift", o = T!MExpected(c))

\* ---- L
LCheck(n, c, o) ==
  /\ Check(n, "L.SafeDiscovery", o.discovered => T!Safe(c.iss) /\ T!LConfigOK(c))
  /\ Check(n, "L.AuthURL", o.authCalled => o.discovered /\ c.meta = "good" /\ o.urlbad = <<>>)
  /\ Check(n, "L.StateChecked", o.exchanged => o.authCalled /\ c.fetch = "ok" /\ c.state = "equal")
  /\ Check(n, "L.Verifier", o.exchanged => o.exbad = <<>>)
  /\ Check(n, "L.IDTokenPresent", o.ok => o.exchanged /\ c.tok = "good" /\ o.hasid)
  /\ Check(n, "L.Holds", T!LHolds(c, o))
  /\ Check(n, "drift", o = T!LExpected(c))

\* ---- F: one behaviour, a sequence of rounds on one handler
FReq(r) == [kind |-> r.kind, cls |-> r.cls, carries |-> AsSet(r.carries), as |-> r.as]
FReqs(rd) == {FReq(rd.reqs[i]) : i \in DOMAIN rd.reqs}
\* every step of the round was served its good outcome, with endpoints the handler may use
FAllGood(cf, c) == /\ F!Safe(cf.idp) /\ F!Safe(cf.mcp)
                   /\ c.idf = "ok" /\ c.im \in {"good", "good_lo"} /\ c.ex \in F!ExGood /\ c.mm \in {"good", "good_lo"} /\ c.jw = "good"
FRound(n, cf, rd) ==
  /\ Check(n, "F.SecretsOnlyToSafe", \A r \in FReqs(rd) : F!ReqSafe(r))
  /\ Check(n, "F.SecretsToRightParty", \A r \in FReqs(rd) : F!ReqRightParty(r))
  /\ Check(n, "F.OnlyIDJAGForwarded", \A r \in FReqs(rd) : F!ReqIDJAG(r))
  /\ Check(n, "F.NoTokenAfterFailure", /\ (rd.changed => rd.err = "ok" /\ FAllGood(cf, rd.c) /\ rd.tokmatch)
                                       /\ (rd.err = "ok" => ~rd.tsnil /\ rd.changed))
  /\ Check(n, "drift", rd.exp.result = rd.err /\ rd.exp.changed = rd.changed /\ rd.exp.kinds = rd.act)
FCheck(n, c, o) == \A i \in DOMAIN o.rounds : FRound(n, c.cfg, o.rounds[i])

MNext == /\ l <= NLines /\ l' = l + 1
         /\ LET e == TraceLog[l] IN
              /\ Check(l, "NoPanic", e.panic = "")
              /\ CASE e.t = "D" -> DRow(l, e)
                   [] e.t = "R" -> RCheck(l, e.c, e.o)
                   [] e.t = "X" -> XCheck(l, e.c, e.o)
                   [] e.t = "A" -> ACheck(l, e.c, e.o)
                   [] e.t = "W" -> WCheck(l, e.c, e.o)
                   [] e.t = "K" -> KCheck(l, e.c, e.o)
                   [] e.t = "M" -> MCheck(l, e.c, e.o)
                   [] e.t = "L" -> LCheck(l, e.c, e.o)
                   [] e.t = "F" -> FCheck(l, e.c, e.o)
                   [] OTHER -> Fail(l, "unknown-table")
MSpec == MInit /\ [][MNext]_l
MMark == MarkAt(l)
MAccepted == Accepted
=============================================================================
