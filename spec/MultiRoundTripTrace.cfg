SPECIFICATION TSpec
CONSTANTS
  Keys = {"a", "b", "c"}
  MaxRetries = 10
  MaxShed = 3
  MaxCalls = 1000
  MaxManual = 1000
  Modes = {"new", "newoff", "old", "oldoff"}
  Others = {FALSE, TRUE}
CONSTRAINT TMark
INVARIANTS Bounded EchoExact CliJustified FinalOutcome EndsForAReason WireOK Channel NoOrphanOnNew PassThrough
POSTCONDITION TAccepted
CHECK_DEADLOCK FALSE
