SPECIFICATION SeamSpec
CONSTANTS
  Sess = {"s1"}
  Reqs = {"r1"}
  Gets = {"g1","g2"}
  Cfgs <- CfgStorePrime
  MaxEmit = 1
  MaxSreq = 0
  MaxSa = 0
  MaxBc = 0
  DupOf <- NoDup
  Gates = TRUE
VIEW MCView
CHECK_DEADLOCK FALSE
