SPECIFICATION GenSpec
CONSTANTS
  Calls = {"k1", "k2", "k3"}
  CCl = {"c1", "c2"}
  SCl = {}
  Stateless = TRUE
  Timeout = FALSE
  Sse = FALSE
  Nested = FALSE
  Faults = {"cut", "net", "vanish"}
  DelModes = {}
  Helds = TRUE
  Notifs = FALSE
  Cancels = TRUE
  AwaitHandlers = TRUE
  StopSseOnClose = TRUE
CONSTRAINT Export
INVARIANTS TypeOK NothingDispatchedAfterClose RunningHandlersFinish SessionRemoved
CHECK_DEADLOCK FALSE
