----------------------------- MODULE PairSubMon -----------------------------
(* Monitor for the modern pair scenarios of PairSub.tla (two real sessions,   *)
(* protocol 2026-07-28, subscriptions/listen streams, failing writes).        *)
(*                                                                            *)
(* Premises, mirroring the provisos of C05: before "quiesce1" the harness has *)
(* released every gated handler (handlers return), and the transport honours  *)
(* Close (the wrappers pass Close and reads straight to the SDK's in-memory   *)
(* transport).  A write that fails - with a plain error or with one wrapping  *)
(* ErrRejected - is NOT an excuse: "also when the peer vanishes or writes     *)
(* start failing midway".  The only other debt the environment pays in the    *)
(* drain stage: when the SERVER's transport refuses messages but lives on,    *)
(* answers have been lost without either session being able to know, and the  *)
(* callers of those calls give up (logged as ctx.cancel).  Whatever is still  *)
(* blocked at "quiesce1" is the SDK's doing.                                  *)
EXTENDS VerifTrace, FiniteSets
VARIABLES l, m
M0 == [closeB |-> {}, closeE |-> {}, closing |-> {}, waitB |-> {}, waitE |-> {}, cancelled |-> {}, ended |-> {},
       running |-> {}, closed |-> {}, fault |-> FALSE, gone |-> FALSE, cleanup |-> FALSE]
MInit == l = 1 /\ m = M0 /\ MarkInit

\* the sessions are over for good: some side asked for it, or the pipe was taken away
Over == m.closeB # {} \/ m.gone

Step(e) ==
  CASE e.ev = "reset" -> m' = M0
    [] e.ev = "cleanup" -> m' = [m EXCEPT !.cleanup = TRUE]
    [] m.cleanup /\ e.ev \notin {"final", "panic", "bubble.leak"} -> m' = m
    [] e.ev = "close.begin" -> m' = [m EXCEPT !.closeB = @ \cup {e.c}, !.closing = @ \cup {e.side}]
    [] e.ev = "close.end" -> m' = [m EXCEPT !.closeE = @ \cup {e.c}, !.closed = @ \cup {e.side}]
    [] e.ev = "wait.begin" -> m' = [m EXCEPT !.waitB = @ \cup {e.w}]
    [] e.ev = "wait.end" -> m' = [m EXCEPT !.waitE = @ \cup {e.w}]
    [] e.ev = "ctx.cancel" -> m' = [m EXCEPT !.cancelled = @ \cup {e.k}]
    [] e.ev = "wfail" -> m' = [m EXCEPT !.fault = TRUE]
    [] e.ev = "peergone" -> m' = [m EXCEPT !.fault = TRUE, !.gone = TRUE]
    [] e.ev = "call.end" -> /\ Check(l, "C01.PairSubCompleteOnce", e.k \notin m.ended)
                            /\ m' = [m EXCEPT !.ended = @ \cup {e.k}]
    \* stops new requests from being dispatched: once Close has been called on a side, no request or
    \* notification that arrives afterwards reaches a handler of that side
    [] e.ev = "h.start" -> /\ Check(l, "C05.PairSubNoDispatchAfterClose", "server" \notin m.closing)
                           /\ m' = [m EXCEPT !.running = @ \cup {e.r}]
    [] e.ev = "h.sub" -> /\ Check(l, "C05.PairSubNoDispatchAfterClose", "server" \notin m.closing)
                         /\ m' = m
    [] e.ev \in {"n.updated", "n.toolsChanged"} ->
                         /\ Check(l, "C05.PairSubNoDispatchAfterClose", "client" \notin m.closing)
                         /\ m' = m
    \* lets handlers that are already running run to completion: nothing but the caller's own cancellation
    \* or a broken transport takes the context away from a running handler
    [] e.ev = "h.ctxdone" -> /\ Check(l, "C05.PairSubHandlerNotCancelled", e.r \in m.cancelled \/ m.fault)
                             /\ m' = m
    [] e.ev = "h.end" -> m' = [m EXCEPT !.running = @ \ {e.r}]
    \* closes the transport only after they have returned
    [] e.ev = "tr.close" -> /\ Check(l, "C05.PairSubTransportClosedAfterHandlers", e.side = "server" => m.running = {})
                            /\ m' = m
    [] e.ev = "quiesce1" ->
         /\ m' = m
         /\ Check(l, "C05.PairSubCallsComplete", e.blockedCalls = <<>>)
         /\ Check(l, "C05.PairSubCloseReturns", m.closeB \subseteq m.closeE)
         /\ Check(l, "C05.PairSubWaitReturns", Over => m.waitB \subseteq m.waitE)
         /\ Check(l, "C05.PairSubRemoved", Over => (~e.clientListed /\ ~e.serverListed /\ e.serverSubs = 0))
         \* leaves no goroutine behind: once the client's Close has returned (and with it the pipe is gone, so the
         \* server's session is over too) and every application goroutine has returned, the bubble is empty.
         \* (A client session that was ended by its peer keeps its listen watchers until the application calls Close.)
         /\ Check(l, "C05.PairSubNoLeakAfterClose", "client" \in m.closed => e.goroutines = <<>>)
    [] e.ev = "bubble.leak" -> m' = m /\ Fail(l, "C05.PairSubNoLeak")
    [] e.ev = "final" -> /\ m' = m
                         /\ Check(l, "C05.PairSubNoLeak", e.leaks = <<>>)
                         /\ Check(l, "C05.PairSubFinalCloseReturns", e.closeReturned)
    [] e.ev = "panic" -> m' = m /\ Fail(l, "C05.PairSubNoPanic")
    [] e.ev = "setup.error" -> m' = m /\ Fail(l, "X.Setup")
    [] OTHER -> m' = m

MNext == /\ l <= NLines /\ l' = l + 1 /\ Step(TraceLog[l])
MSpec == MInit /\ [][MNext]_<<l, m>>
MMark == MarkAt(l)
MAccepted == Accepted
=============================================================================
