------------------------------ MODULE StreamCli ------------------------------
(* Property C09: the client side of the streamable HTTP transport             *)
(* (mcp/streamable.go handleSSE / processStream / connectSSE / checkResponse, *)
(* mcp/event.go scanEvents) under cuts of the SSE response body.              *)
(*                                                                            *)
(* A logical stream is the sequence of messages 1..M the server wants the     *)
(* client to have (for a POST response stream message M is the call's         *)
(* response; for the standalone GET stream all M are notifications).  Every   *)
(* message travels in one SSE event; when the stream has ids the event of     *)
(* message k carries the cursor k, a priming event carries the cursor of the  *)
(* position it is sent at and no data.  Cursors: k >= 0 "the id issued for    *)
(* position k", None "no id / no Last-Event-ID header", Bogus "a string the   *)
(* server never issued" (a truncated id).                                     *)
(*                                                                            *)
(* Part 1 (constant level) states the property over an OBSERVATION of one     *)
(* run: the bodies the server put on the wire (where each started, where and  *)
(* how it was cut, which ids had been transmitted completely by then), the    *)
(* reconnects it saw (Last-Event-ID, what it answered), the messages the      *)
(* connection handed to the session, the outcome of the pending call.  These  *)
(* operators are shared by the design check below and by the monitor          *)
(* StreamCliMon, which evaluates them on observations of the real code.       *)
(*                                                                            *)
(* Part 2 is the code-shaped state machine: one action per response body      *)
(* (processStream + the bookkeeping of handleSSE after it), one per reconnect *)
(* attempt (connectSSE + checkResponse).  The environment chooses the cut of  *)
(* every body and the outcome of every attempt: an attempt is answered with   *)
(* 200, a transport error or an HTTP status - the statuses are VALUES, the     *)
(* transient ones form the class TransientStatus, every member of which must   *)
(* be retried within the budget.  The environment may also be "stuck": once    *)
(* its scripted cuts are used up it keeps ending every body at offset 0 for    *)
(* ever, so "never retries for ever" is a property of the model (Terminates)   *)
(* and an observable of the replay.  Three switches replace the                *)
(* code's behaviour by the behaviour the property asks for (FixScanner,       *)
(* FixCursor, Fix5xx); with all three the design check passes, with none the  *)
(* model is the code as it stands and TLC's counterexamples are leads that    *)
(* the harness replays on the real client.                                    *)
(*                                                                            *)
(* Two budgets bound the client, both set by MaxRetries ("the maximum number  *)
(* of times to attempt a reconnect before giving up", default 5) and both     *)
(* explicit state here: `att`, the attempts of ONE reconnection (connectSSE:  *)
(* every reconnection has MaxRetries attempts of its own, whatever happened   *)
(* to the stream before), and `rwp`, the resumptions in a row that were       *)
(* answered 200 but brought no new event id across (handleSSE: more than      *)
(* MaxRetries of them and the stream is given up).  The environment crosses   *)
(* them freely: per attempt it answers refused / a transient status / 200,    *)
(* and a 200 body brings progress or none - and, independently, may open with *)
(* an event that carries the SSE `retry:` field (RetrySet: alone, with an     *)
(* event name as the SDK's server writes it when it closes a stream on        *)
(* purpose, or with the id the client resumed from).  Such an event brings no *)
(* NEW id across: whatever fields a body carries, only a new id is progress.  *)
EXTENDS Integers, Sequences, FiniteSets, TLC

None == -1
Bogus == -2

-----------------------------------------------------------------------------
(* Part 1: the property over observations                                     *)
(*                                                                            *)
(* o.kind   "post" | "sa"          o.ids  "all" | "none"                      *)
(* o.M      number of messages     o.mr   retry budget (MaxRetries, 0 = none) *)
(* o.bodies Seq([c, d, knd, ...])  c: cursor of the last id'd event that had  *)
(*          been transmitted COMPLETELY (through its blank line) when this    *)
(*          body ended, over all bodies so far; d: the same, also counting an *)
(*          event whose last content line had been transmitted when this body *)
(*          ended cleanly (only its blank line is missing);                   *)
(*          knd: "err" | "eof" | "none" (not cut)                             *)
(*          rt: the `retry:` event the body opened with ("none" | "bare" |    *)
(*          "named" | "idd", see RetryKinds) - recorded, never judged: c and  *)
(*          d already say which ids came across                               *)
(* o.recon  Seq([sent, outs])      reconnect i follows body i: the cursor in  *)
(*          its Last-Event-ID header, the answers the attempts got: "ok"      *)
(*          (200 + a body), "terr" (transport error), the HTTP status as a    *)
(*          string ("500", "404", ...: no body), or a non-2xx, non-transient  *)
(*          status whose BODY is a JSON-RPC error response, "<status>:<id>"   *)
(*          with id own | other | null (see ErrBodyAnswers)                   *)
(* o.rd     messages returned by Connection.Read (index, -1 = not a message   *)
(*          of the stream: truncated or altered payload)                      *)
(* o.notes  notifications the session's handler saw (same encoding)           *)
(* o.outcome post: "resp" | "err" | "hang"     sa: "open" | "failed"          *)
(* o.respok the call's result is the server's response, intact                *)

\* the HTTP statuses that say nothing about the stream or the session (isTransientHTTPStatus documents
\* exactly these): each of them, answering a reconnect attempt, is a failed attempt like a transport error
TransientStatus == {"429", "500", "502", "503", "504"}
Transient == {"terr"} \cup TransientStatus   \* a failed attempt that says nothing about the session

MaxOf(S) == CHOOSE x \in S : \A y \in S : y <= x
Iota(n) == [i \in 1..n |-> i]
Good(s) == SelectSeq(s, LAMBDA x : x >= 1)
IsPrefixOf(s, t) == Len(s) <= Len(t) /\ \A i \in 1..Len(s) : s[i] = t[i]
StrictlyInc(s) == \A i \in 2..Len(s) : s[i] > s[i - 1]

NNotes(o) == IF o.kind = "post" THEN o.M - 1 ELSE o.M
NoCut(o) == \A i \in 1..Len(o.bodies) : o.bodies[i].knd = "none"
\* the client has been given a resume point: ids are in use and the first body got
\* at least one id'd event across completely (later bodies can only add to that)
Resumable(o) == o.ids = "all" /\ Len(o.bodies) >= 1 /\ o.bodies[1].c # None
\* body i was cut without a single new id'd event having come across
NoProg(o, i) == /\ o.bodies[i].knd # "none"
                /\ o.bodies[i].c = (IF i = 1 THEN None ELSE o.bodies[i - 1].c)
\* The two budgets the SDK documents, both given by MaxRetries ("the maximum number of times to attempt a reconnect
\* before giving up"): the connection attempts ONE reconnection may make, and the resumptions in a row that may be
\* answered 200 without bringing a new id across.  They are separate budgets: neither is charged to the other, and the
\* first is per reconnection - the stream's history of fruitless resumptions does not shorten it.
AttemptBudget(o) == o.mr
NoProgressBudget(o) == o.mr
\* ... read conservatively: fewer failed attempts than AttemptBudget in every reconnect (so the last attempt the budget
\* allows is answered 200), no answer that says "gone" (404) or "bad request", fewer fruitless bodies in a row than
\* NoProgressBudget
AttemptsWithinBudget(o) ==
  \A i \in 1..Len(o.recon) :
        LET outs == o.recon[i].outs IN
        /\ \A j \in 1..Len(outs) : outs[j] \in Transient \cup {"ok"}
        /\ Cardinality({j \in 1..Len(outs) : outs[j] \in Transient}) < AttemptBudget(o)
ProgressWithinBudget(o) ==
  ~\E i \in 1..Len(o.bodies) :
        /\ i + NoProgressBudget(o) - 1 <= Len(o.bodies)
        /\ \A j \in i..(i + NoProgressBudget(o) - 1) : NoProg(o, j)
WithinBudget(o) == AttemptsWithinBudget(o) /\ ProgressWithinBudget(o)

\* the budget also bounds the client: after mr + 1 bodies IN A ROW that brought nothing new across it has
\* given up ("retries exhausted without progress": it makes progress or gives up, it never retries for ever).
\* Read leniently, like the cursors: an event whose content was complete when a body ended cleanly (d) may have
\* counted as progress.  Nothing else is progress: a body that carries a `retry:` field, an event name, or again the id
\* the client resumed from has brought nothing NEW across (the bodies' field rt is not consulted).
Fruitless(o, i) == /\ o.bodies[i].knd # "none"
                   /\ o.bodies[i].d = (IF i = 1 THEN None ELSE o.bodies[i - 1].c)
BoundedRetries(o) ==
  ~\E i \in 1..Len(o.bodies) :
        /\ i + NoProgressBudget(o) + 1 <= Len(o.bodies)
        /\ \A j \in i..(i + NoProgressBudget(o) + 1) : Fruitless(o, j)

\* a sequence of delivered indices is fine: only messages of the stream, each at most once,
\* in stream order; without gaps whenever the client had the means to resume
SeqOK(o, s, n) ==
  /\ \A i \in 1..Len(s) : s[i] \in 1..n
  /\ StrictlyInc(s)
  /\ (o.kind = "post" \/ Resumable(o)) => IsPrefixOf(s, Iota(n))
ExactlyOnceInOrder(o) == SeqOK(o, Good(o.rd), o.M) /\ SeqOK(o, Good(o.notes), NNotes(o))

NoTruncatedSurfaced(o) ==
  /\ \A i \in 1..Len(o.rd) : o.rd[i] # -1
  /\ \A i \in 1..Len(o.notes) : o.notes[i] # -1
  /\ o.outcome = "resp" => o.respok

\* every reconnect carries the id of the last event received completely.  An event whose
\* content had arrived in full when a body ended cleanly may or may not count; a client that
\* counted it keeps that cursor on later reconnects until a later id supersedes it.
GoodCursors(o, i) == {o.bodies[i].c} \cup {o.bodies[k].d : k \in {j \in 1..i : o.bodies[j].d >= o.bodies[i].c}}
ResumeCursor(o) ==
  /\ Len(o.recon) <= Len(o.bodies)
  /\ \A i \in 1..Len(o.recon) : o.recon[i].sent \in GoodCursors(o, i)

Complete(o) ==
  IF o.kind = "post"
  THEN o.outcome = "resp" /\ o.respok /\ Good(o.rd) = Iota(o.M) /\ Good(o.notes) = Iota(o.M - 1)
  ELSE o.outcome = "open" /\ Good(o.rd) = Iota(o.M) /\ Good(o.notes) = Iota(o.M)
\* "within budgets the client never fails": if neither budget is exhausted and the server finally serves the rest
\* (it does: a run of the scripted server ends with whole bodies unless the server is stuck, and then ProgressWithinBudget
\* is false), the pending call completes with its own response and every message is delivered exactly once, in order
WithinBudgetsNeverFails(o) == (Resumable(o) /\ WithinBudget(o)) => Complete(o)
RealResponseWithinBudget(o) == (NoCut(o) => Complete(o)) /\ WithinBudgetsNeverFails(o)

\* whatever happened, the pending call has returned once everything has settled
CleanFailure(o) == o.outcome # "hang"

Holds(o) == /\ ExactlyOnceInOrder(o) /\ NoTruncatedSurfaced(o) /\ ResumeCursor(o)
            /\ RealResponseWithinBudget(o) /\ CleanFailure(o) /\ BoundedRetries(o)

-----------------------------------------------------------------------------
(* Part 2: the client as the code has it                                      *)

CONSTANTS KindSet,     \* subset of {"post", "sa"}
          ShapeSet,    \* subset of Shapes below: which events carry ids / a priming event
          SchemeSet,   \* subset of {"dec", "nested"}: how ids are spelled (which truncations are ids)
          MSet,        \* stream lengths
          MRSet,       \* retry budgets
          MaxCuts,     \* how many bodies the environment may cut
          ClassSet,    \* position classes the environment may cut at (see ClassesOf; "bnd" = event boundary)
          AnswerSet,   \* what a reconnect attempt may be answered with: subset of {"terr", "ok"} \cup Statuses
          TailSet,     \* subset of {"good", "stuck"}: what the server does once MaxCuts bodies have been cut (see Body)
          RetrySet,    \* subset of RetryKinds: the `retry:` event a body may open with
          FixScanner,  \* at end of input an incomplete event is discarded
          FixCursor,   \* the resume cursor survives from one body to the next
          Fix5xx       \* a transient status on reconnect is retried like a transport error

\* ids: all events / no event carries an id.  prime: a data-less id'd event opens the
\* first body ("first", as the SDK's server does) / every body ("every") / none.
Shapes == {[ids |-> "all", prime |-> "first"], [ids |-> "all", prime |-> "every"],
           [ids |-> "all", prime |-> "none"], [ids |-> "none", prime |-> "none"]}

\* statuses a reconnect attempt may be answered with besides 200: the transient class and statuses that
\* are NOT transient: session gone (404), refused (403), a 5xx outside the class (501)
Statuses == TransientStatus \cup {"404", "403", "501"}
\* ... and the same kind of refusal (a non-2xx status outside the transient class) whose BODY is a JSON-RPC error response
\* (Content-Type application/json, {"jsonrpc":"2.0","id":..,"error":{..}}), as a server or gateway that speaks JSON-RPC
\* answers a request it rejects.  The id of that response is a value too: the id of the call pending on the stream ("own"),
\* an id no call of this client has ("other"), null ("null").  What the property demands is the same as for the bare status:
\* the stream cannot be resumed, the answer is not one of Transient \cup {"ok"}, so WithinBudget is false and nothing is
\* promised about the real response - but every call pending on the stream must END (CleanFailure: an error, never a hang).
\* Whether the client fails the connection as a whole or only the calls of that stream is not demanded; the code as it
\* stands fails the connection (checkResponse reports an error - for a decodable error body one that wraps ErrRejected -
\* and handleSSE calls c.fail whatever the error wraps), which is what Recon below says for every answer of this kind.
ErrBodyIds == {"own", "other", "null"}
ErrBodyAnswers == {"400:own", "400:other", "400:null", "409:own", "409:other", "409:null", "404:own"}
ASSUME AnswerSet \subseteq {"terr", "ok"} \cup Statuses \cup ErrBodyAnswers
ASSUME TailSet \subseteq {"good", "stuck"}

\* A body may open with one complete data-less event that carries the SSE `retry:` field (the delay the server asks for
\* before the next reconnection); it is not one of the stream's elements and is never cut:
\*   bare   retry: N                                   (no event name, no id)
\*   named  event: close / retry: N / data:            (what the SDK's server writes for CloseSSEStream{RetryAfter})
\*   idd    event: close / id: <from> / retry: N / data:   the id of the position the body starts after - the id the
\*          client resumed with (like a priming event: not a NEW id); only on streams with ids
\* A body cut at offset 0 that opens with one of them is "200 with `retry:` only".
RetryKinds == {"none", "bare", "named", "idd"}
ASSUME RetrySet \subseteq RetryKinds

VARIABLES
  cfg,       \* [kind, ids, prime, scheme, M, mr, tail]
  pc,        \* "body" | "recon" | "done"
  from,      \* the body about to be served starts after message `from`
  primed,    \* ... and opens with a priming event
  wire,      \* server side: highest message at least partly written to some body
  ncut,      \* bodies cut so far
  bodies,    \* history: one record per body served (see Part 1 and BodyRec)
  recon,     \* history: one record per reconnect that made at least one attempt
  prev,      \* handleSSE: prevLastEventID
  rwp,       \* handleSSE: retriesWithoutProgress
  last,      \* the cursor handed to connectSSE (processStream's result)
  att,       \* connectSSE: attempt
  outs,      \* answers given to the attempts of the current reconnect
  rd,        \* messages pushed to c.incoming and read by the session
  failed,    \* c.fail was called
  outcome    \* "pending" | "resp" | "err" | "open" | "failed"

vars == <<cfg, pc, from, primed, wire, ncut, bodies, recon, prev, rwp, last, att, outs, rd, failed, outcome>>

Configs == {c \in [kind : KindSet, ids : {"all", "none"}, prime : {"first", "every", "none"},
                   scheme : SchemeSet, M : MSet, mr : MRSet, tail : TailSet] :
              /\ [ids |-> c.ids, prime |-> c.prime] \in ShapeSet
              /\ c.ids = "none" => c.scheme = "dec"
              /\ c.kind = "post" => c.M >= 1}

\* the elements of a body that starts after message fr: [cur, msg]; msg = 0 for a priming event
Elems(fr, pr) ==
  (IF pr THEN <<[cur |-> fr, msg |-> 0]>> ELSE <<>>) \o
  [i \in 1..(cfg.M - fr) |-> [cur |-> (IF cfg.ids = "all" THEN fr + i ELSE None), msg |-> fr + i]]

\* Position classes inside an element `event: ..\n id: ..\n data: ..\n \n`:
\*   field    inside a field name, no colon yet (any line)
\*   name     the event-name line, or an id/data line whose value has not started: nothing of value read
\*   id       inside the id value (a non-empty strict prefix)
\*   idfull   the id value is complete, the data value has not started (message events)
\*   data     inside the data value (a non-empty strict prefix)
\*   datafull the last content line is complete in content (with or without its newline), the
\*            blank line is missing; for a priming event: from the complete id value on
\*   bnd      on an event boundary (nothing of the next element read)
ClassesOf(e) == {"field", "name", "datafull"} \cup (IF e.msg > 0 THEN {"data"} ELSE {})
                \cup (IF e.cur # None THEN {"id"} ELSE {})
                \cup (IF e.cur # None /\ e.msg > 0 THEN {"idfull"} ELSE {})
\* which proper prefixes of the id of cursor k are themselves ids the server issued:
\*   dec     s_<k>: s_1 is a prefix of s_10..s_19, ...
\*   nested  s_1, s_12, s_123, ...: every earlier id is a prefix
Aliases(k) == IF k < 1 THEN {}
              ELSE IF cfg.scheme = "nested" THEN 1..(k - 1)
              ELSE IF k >= 10 THEN {k \div 10} ELSE {}

NoCutRec == [n |-> 0, cls |-> "none", knd |-> "none", al |-> None, rt |-> "none"]
\* forced end of a POST body that does not contain the response any more: the server has
\* nothing to send and closes
EndRec(es) == [n |-> Len(es), cls |-> "bnd", knd |-> "eof", al |-> None, rt |-> "none"]

RtChoices == {r \in RetrySet : r = "idd" => cfg.ids = "all"}
CutChoices(es) ==
  {[n |-> n, cls |-> "bnd", knd |-> k, al |-> None, rt |-> r] :
       n \in (IF "bnd" \in ClassSet THEN 0..(IF cfg.kind = "post" THEN Len(es) - 1 ELSE Len(es)) ELSE {}),
       k \in {"err", "eof"}, r \in RtChoices}
  \cup UNION {UNION {{[n |-> n, cls |-> c, knd |-> k, al |-> a, rt |-> r] :
                         k \in {"err", "eof"}, r \in RtChoices,
                         a \in (IF c = "id" THEN {Bogus} \cup Aliases(es[n + 1].cur) ELSE {None})} :
                     c \in ClassesOf(es[n + 1]) \cap ClassSet} : n \in 0..(Len(es) - 1)}
\* a body served whole, with or without the opening `retry:` event
WholeChoices == {[NoCutRec EXCEPT !.rt = r] : r \in RtChoices}
\* the id an opening "idd" event carries: the position the body starts after
HeadCurs(cut) == IF cut.rt = "idd" THEN {from} ELSE {}

\* what processStream makes of a body cut like this
\*   last: lastEventID at the end; add: messages pushed; end: "resp" (own response seen),
\*   "fail" (c.fail), "cut" (stream over, not closed by the client), "hold" (never ends)
Scan(es, cut, start) ==
  LET n == IF cut.cls = "none" THEN Len(es) ELSE cut.n
      p == IF Len(es) > 0 /\ es[1].msg = 0 THEN 1 ELSE 0
      k == IF n > p THEN n - p ELSE 0                                  \* complete message events
      curs == ({es[i].cur : i \in 1..n} \cup HeadCurs(cut)) \ {None}
      l0 == IF curs = {} THEN start ELSE MaxOf(curs)
      add0 == [i \in 1..k |-> from + i]
      partial == cut.cls \notin {"none", "bnd"} /\ cut.knd = "eof" /\ ~FixScanner
      e == es[n + 1]
      withId(l) == IF e.cur # None THEN e.cur ELSE l
  IN
  IF cfg.kind = "post" /\ k >= 1 /\ from + k = cfg.M THEN [last |-> l0, add |-> add0, end |-> "resp"]
  ELSE IF cut.cls = "none" THEN [last |-> l0, add |-> add0, end |-> "hold"]
  ELSE IF ~partial THEN [last |-> l0, add |-> add0, end |-> "cut"]
  ELSE CASE cut.cls = "field" -> [last |-> l0, add |-> add0, end |-> "fail"]          \* errMalformedEvent
         [] cut.cls = "name" -> [last |-> l0, add |-> add0, end |-> "cut"]
         [] cut.cls = "id" -> [last |-> cut.al, add |-> add0, end |-> "cut"]
         [] cut.cls = "idfull" -> [last |-> e.cur, add |-> add0, end |-> "cut"]
         [] cut.cls = "data" -> [last |-> withId(l0), add |-> add0, end |-> "fail"]    \* decode error
         [] cut.cls = "datafull" ->
              IF e.msg = 0 THEN [last |-> withId(l0), add |-> add0, end |-> "cut"]
              ELSE [last |-> withId(l0), add |-> Append(add0, e.msg),
                    end |-> IF cfg.kind = "post" /\ e.msg = cfg.M THEN "resp" ELSE "cut"]

\* ground truth for the observation: what had been transmitted completely
BodyRec(es, cut) ==
  LET n == IF cut.cls = "none" THEN Len(es) ELSE cut.n
      cPrev == IF bodies = <<>> THEN None ELSE bodies[Len(bodies)].c
      c == MaxOf({cPrev} \cup (({es[i].cur : i \in 1..n} \cup HeadCurs(cut)) \ {None}))
      d == IF cut.cls = "datafull" /\ cut.knd = "eof" /\ es[n + 1].cur # None THEN MaxOf({c, es[n + 1].cur}) ELSE c
  IN [from |-> from, primed |-> primed, n |-> cut.n, cls |-> cut.cls, knd |-> cut.knd, al |-> cut.al,
      rt |-> cut.rt, c |-> c, d |-> d]

Fail == failed' = TRUE /\ outcome' = (IF cfg.kind = "post" THEN "err" ELSE "failed")

Init ==
  /\ cfg \in Configs
  /\ pc = "body" /\ from = 0 /\ primed = (cfg.prime # "none") /\ wire = 0 /\ ncut = 0
  /\ bodies = <<>> /\ recon = <<>> /\ prev = None /\ rwp = 0 /\ last = None /\ att = 0 /\ outs = <<>>
  /\ rd = <<>> /\ failed = FALSE /\ outcome = "pending"

\* one response body: processStream, then handleSSE's bookkeeping up to the call of connectSSE
Body ==
  /\ pc = "body"
  /\ LET es == Elems(from, primed)
         ended == cfg.kind = "post" /\ from >= cfg.M
         \* a stuck server: once the scripted cuts are used up, if the last body ended at offset 0 so does
         \* every later one, for ever (a proxy that accepts the GET with 200 and closes - or a server that answers every
         \* resumption with the same `retry:` event and nothing else; not counted in ncut's bound)
         lb == bodies[Len(bodies)]
         stuck == /\ cfg.tail = "stuck" /\ bodies # <<>>
                  /\ lb.knd # "none" /\ lb.cls = "bnd" /\ lb.n = 0
         choices == IF ended THEN {EndRec(es)}
                    ELSE IF ncut < MaxCuts THEN CutChoices(es) \cup WholeChoices
                    ELSE IF stuck THEN {[n |-> 0, cls |-> "bnd", knd |-> lb.knd, al |-> None, rt |-> lb.rt]}
                    ELSE {NoCutRec}
     IN \E cut \in choices :
        LET start == IF FixCursor THEN prev ELSE None
            r == Scan(es, cut, start)
            n == IF cut.cls = "none" THEN Len(es) ELSE cut.n
            touched == IF cut.cls \in {"none", "bnd"} THEN n ELSE n + 1
            w == IF touched = 0 THEN 0 ELSE es[touched].msg
        IN
        /\ bodies' = Append(bodies, BodyRec(es, cut))
        /\ ncut' = (IF cut.cls = "none" \/ ended THEN ncut ELSE ncut + 1)
        /\ wire' = (IF w > wire THEN w ELSE wire)
        /\ rd' = rd \o r.add
        /\ UNCHANGED <<cfg, from, primed, recon, outs>>
        /\ CASE r.end = "resp" ->
                  /\ outcome' = "resp" /\ pc' = "done" /\ UNCHANGED <<prev, rwp, last, failed>>
             [] r.end = "hold" ->
                  /\ outcome' = "open" /\ pc' = "done" /\ UNCHANGED <<prev, rwp, last, failed>>
             [] r.end = "fail" ->
                  /\ Fail /\ pc' = "done" /\ UNCHANGED <<prev, rwp, last>>
             [] r.end = "cut" ->
                  IF r.last = None /\ cfg.kind = "post" THEN
                     \* nothing to resume from: synthetic error response for the call
                     /\ outcome' = "err" /\ pc' = "done" /\ UNCHANGED <<prev, rwp, last, failed>>
                  ELSE IF r.last # None /\ r.last # prev THEN
                     /\ rwp' = 0 /\ prev' = r.last /\ last' = r.last /\ pc' = "recon"
                     /\ UNCHANGED <<failed, outcome>>
                  ELSE IF rwp + 1 > cfg.mr THEN
                     /\ rwp' = rwp + 1 /\ Fail /\ pc' = "done" /\ UNCHANGED <<prev, last>>
                  ELSE
                     /\ rwp' = rwp + 1 /\ last' = r.last /\ pc' = "recon"
                     /\ UNCHANGED <<prev, failed, outcome>>
  /\ att' = (IF pc' = "recon" THEN 1 ELSE att)     \* connectSSE(initial = false) starts at attempt 1

\* an id the server never issued cannot be served: 400 Bad Request (as the SDK's own server answers)
Answers == IF last = Bogus THEN ({"terr"} \cap AnswerSet) \cup {"400"} ELSE AnswerSet
Closed(o) == IF o = <<>> THEN recon ELSE Append(recon, [sent |-> last, outs |-> o])

\* one iteration of connectSSE's loop (or its exit), then checkResponse
Recon ==
  /\ pc = "recon"
  /\ UNCHANGED <<cfg, wire, ncut, bodies, prev, rwp, last, rd>>
  /\ IF att > cfg.mr THEN
        /\ Fail /\ pc' = "done" /\ recon' = Closed(outs)
        /\ UNCHANGED <<from, primed, att, outs>>
     ELSE \E a \in Answers :
        LET o2 == Append(outs, a) IN
        IF a = "terr" \/ (a \in TransientStatus /\ Fix5xx) THEN
           /\ att' = att + 1 /\ outs' = o2
           /\ UNCHANGED <<pc, from, primed, recon, failed, outcome>>
        ELSE IF a = "ok" THEN
           /\ recon' = Closed(o2) /\ outs' = <<>> /\ pc' = "body"
           /\ from' = (IF last >= 0 THEN last ELSE wire)
           /\ primed' = (cfg.prime = "every")
           /\ UNCHANGED <<att, failed, outcome>>
        ELSE \* any other status (404, 403, 501, 400; a transient one without Fix5xx), with or without a JSON-RPC error
             \* body (ErrBodyAnswers): checkResponse reports an error, handleSSE fails the connection
           /\ Fail /\ pc' = "done" /\ recon' = Closed(o2) /\ outs' = <<>>
           /\ UNCHANGED <<from, primed, att>>

Next == Body \/ Recon
Spec == Init /\ [][Next]_vars /\ WF_vars(Next)

-----------------------------------------------------------------------------
(* Design check                                                               *)

Done == pc = "done"
NotesOf(s) == IF cfg.kind = "post" THEN SelectSeq(s, LAMBDA x : x # cfg.M) ELSE s

\* the observation the server, the session and the caller would make of the current state
ObsOf == [kind |-> cfg.kind, ids |-> cfg.ids, M |-> cfg.M, mr |-> cfg.mr,
          bodies |-> bodies, recon |-> recon, rd |-> rd, notes |-> NotesOf(rd),
          outcome |-> (IF outcome = "pending" THEN "hang" ELSE outcome), respok |-> TRUE]

TypeOK ==
  /\ pc \in {"body", "recon", "done"} /\ from \in 0..cfg.M /\ wire \in 0..cfg.M
  /\ rwp \in 0..(cfg.mr + 1) /\ att \in 0..(cfg.mr + 1)
  /\ outcome \in {"pending", "resp", "err", "open", "failed"}
  /\ Done <=> outcome # "pending"

InvExactlyOnce == Done => ExactlyOnceInOrder(ObsOf)
InvNoTruncated == Done => NoTruncatedSurfaced(ObsOf)
InvResumeCursor == ResumeCursor(ObsOf)
InvRealResponse == Done => RealResponseWithinBudget(ObsOf)
InvCleanFailure == Done => CleanFailure(ObsOf)
InvBoundedRetries == BoundedRetries(ObsOf)
\* every run ends: the call never stays pending - also against a stuck server
Terminates == <>[]Done
=============================================================================
