\* behaviour export: the two budgets crossed, EVERY sequence of attempt outcomes (BudgetsAll in StreamCliMC.tla) for
\* MaxRetries 1 and 2 (thorough tier; the quick tier has KindSet = {"post"})
\*  java -cp $TLA_CP tlc2.TLC -config StreamCli_genBA.cfg StreamCliMC
SPECIFICATION Spec
CONSTANTS
  KindSet = {"post", "sa"}
  ShapeSet <- FirstOnly
  SchemeSet = {"dec"}
  MSet = {2}
  MRSet = {1, 2}
  MaxCuts = 5
  ClassSet = {"bnd"}
  AnswerSet = {"terr", "ok", "503"}
  TailSet = {"stuck"}
  RetrySet = {"none", "bare", "named", "idd"}
  FixScanner = FALSE
  FixCursor = TRUE
  Fix5xx = TRUE
CONSTRAINT BudgetsAll
INVARIANTS ExportBudgetsAll
CHECK_DEADLOCK FALSE
