-------------------------------- MODULE Codec --------------------------------
(* Design-level check and case export for C19; definitions in CodecDefs.      *)
(* TLC (a) checks that the code-shaped expectations satisfy the property on    *)
(* every abstract case except the lead classes (which are printed and must be  *)
(* confirmed or refuted on the real code), (b) checks non-vacuity, (c) exports *)
(* the four complete case products for the Go harness.                         *)
EXTENDS CodecDefs, Json, SequencesExt

\* --- design: Holds(c, Expected(c)) wherever no lead is declared, and every lead really is one
MsgDesign  == \A c \in MsgCaseSet  : HoldsMsg(c, ExpectedMsg(c)) <=> ~MsgLead(c)
WireDesign == \A c \in WireCaseSet : HoldsWire(c, ExpectedWire(c), ExpectedWire(Effective(c)))
ValDesign  == \A c \in ValCaseSet  : HoldsVal(c, ExpectedVal(c)) <=> ~ValLead(c)
ReqDesign  == \A c \in ReqCaseSet  : HoldsReq(c, ExpectedReq(c)) <=> ~ReqLead(c)
VcDesign   == \A c \in VcCaseSet   : HoldsVc(c, ExpectedVc(c)) <=> ~VcLead(c)

\* Classify is idempotent under Effective and total
ClassifyTotal == \A c \in WireCaseSet : Classify(c).cls \in {"reject", "call", "notif", "result", "error"}
\* every valid wire shape is accepted by the transcribed decoder with the wanted class
ValidAccepted == \A c \in WireCaseSet : ValidWire(c) => Classify(c).cls = WantWireCls(c)

\* --- vacuity witnesses
Witnesses ==
  /\ \A k \in {"reject", "call", "notif", "result", "error"} : \E c \in WireCaseSet : Classify(c).cls = k
  /\ \A w \in {"syntax", "version", "idtype", "invalidreq"} : \E c \in WireCaseSet : Classify(c).why = w
  /\ \E c \in WireCaseSet : ValidWire(c)
  /\ \E c \in WireCaseSet : c.casing # "exact" /\ Classify(c) # Classify([c EXCEPT !.casing = "exact"])
  /\ \A fr \in Framings, d \in Dirs, k \in {"call", "notif", "result", "error", "errordata"} :
        \E c \in MsgCaseSet : c.framing = fr /\ c.dir = d /\ c.kind = k /\ ~MsgLead(c)
  /\ \E c \in MsgCaseSet : MsgLead(c)

LeadIds == {c.id : c \in {x \in MsgCaseSet : ~HoldsMsg(x, ExpectedMsg(x)) /\ x.method # "empty"}}

SetSeq(S) == SetToSeq(S)
ValJson(c) == c
Export ==
  /\ ndJsonSerialize("cases_msg.ndjson", SetSeq(MsgCaseSet))
  /\ ndJsonSerialize("cases_wire.ndjson", SetSeq(WireCaseSet))
  /\ ndJsonSerialize("cases_val.ndjson", SetSeq(ValCaseSet))
  /\ ndJsonSerialize("cases_req.ndjson", SetSeq(ReqCaseSet))
  /\ ndJsonSerialize("cases_vc.ndjson", SetSeq(VcCaseSet))

ASSUME MsgDesign
ASSUME WireDesign
ASSUME ValDesign
ASSUME ReqDesign
ASSUME VcDesign
ASSUME ClassifyTotal /\ ValidAccepted
ASSUME Witnesses
ASSUME PrintT(ToJson([msg |-> Cardinality(MsgCaseSet), wire |-> Cardinality(WireCaseSet),
                      val |-> Cardinality(ValCaseSet), req |-> Cardinality(ReqCaseSet), vc |-> Cardinality(VcCaseSet),
                      msgLeads |-> Cardinality({c \in MsgCaseSet : MsgLead(c)}),
                      valLeads |-> Cardinality({c \in ValCaseSet : ValLead(c)}),
                      reqLeads |-> Cardinality({c \in ReqCaseSet : ReqLead(c)}),
                      vcLeads |-> Cardinality({c \in VcCaseSet : VcLead(c)}),
                      leadIds |-> SetSeq(LeadIds)]))
ASSUME Export
=============================================================================
