-------------------------------- MODULE Codec --------------------------------
(* Design-level check and case export for C19; definitions in CodecDefs.      *)
(* TLC (a) checks that the code-shaped expectations satisfy the property on    *)
(* every abstract case except the lead classes (which are printed and must be  *)
(* confirmed or refuted on the real code), (b) checks non-vacuity, (c) exports *)
(* the complete case products of all tables for the Go harness.                *)
EXTENDS CodecCases, Json, SequencesExt

\* --- design: Holds(c, Expected(c)) wherever no lead is declared, and every lead really is one
MsgDesign  == \A c \in MsgCaseSet  : HoldsMsg(c, ExpectedMsg(c)) <=> ~MsgLead(c)
WireDesign == \A c \in WireCaseSet : HoldsWire(c, ExpectedWire(c), ExpectedWire(Effective(c)))
ValDesign  == \A c \in ValCaseSet  : HoldsVal(c, ExpectedVal(c)) <=> ~ValLead(c)
ReqDesign  == \A c \in ReqCaseSet  : HoldsReq(c, ExpectedReq(c)) <=> ~ReqLead(c)
VcDesign   == \A c \in VcCaseSet   : HoldsVc(c, ExpectedVc(c)) <=> ~VcLead(c)
\* every outcome the code-shaped expectation allows for a frame satisfies the property, and is an outcome
FrDesign   == \A c \in FrCaseSet   : /\ ExpectedFr(c) # {} /\ ExpectedFr(c) \subseteq FrOuts
                                      /\ \A out \in ExpectedFr(c) : HoldsFr(c, [out |-> out])
ArDesign   == \A c \in ArCaseSet   : HoldsAr(c, ExpectedAr(c)) <=> ~ArLead(c)
LtDesign   == \A c \in LtCaseSet   : HoldsLt(c, ExpectedLt(c)) <=> ~LtLead(c)
LbDesign   == \A c \in LbCaseSet   : \A n \in {1, 5, 200} : HoldsLb(c, ExpectedLb(c, n))
\* one row per (type, member)
ArTableFn  == \A r1, r2 \in ArTable : (r1[1] = r2[1] /\ r1[2] = r2[2]) => r1 = r2

\* Classify is idempotent under Effective and total
ClassifyTotal == \A c \in WireCaseSet : Classify(c).cls \in {"reject", "call", "notif", "result", "error"}
\* every valid wire shape is accepted by the transcribed decoder with the wanted class
ValidAccepted == \A c \in WireCaseSet : ValidWire(c) => Classify(c).cls = WantWireCls(c)

\* --- vacuity witnesses
Witnesses ==
  /\ \A k \in {"reject", "call", "notif", "result", "error"} : \E c \in WireCaseSet : Classify(c).cls = k
  /\ \A w \in {"syntax", "version", "idtype", "invalidreq"} : \E c \in WireCaseSet : Classify(c).why = w
  /\ \E c \in WireCaseSet : ValidWire(c)
  /\ \E c \in WireCaseSet : c.casing # "exact" /\ Classify(c) # Classify([c EXCEPT !.casing = "exact"])
  /\ \A fr \in Framings, d \in Dirs, k \in {"call", "notif", "result", "error", "errordata"} :
        \E c \in MsgCaseSet : c.framing = fr /\ c.dir = d /\ c.kind = k /\ ~MsgLead(c)
  /\ \E c \in MsgCaseSet : MsgLead(c)
  \* frames: every path sees the empty batch with every kind of white space; the three kinds of expectation occur
  /\ \A pa \in FrPaths, p \in FrPads : \E c \in FrCaseSet : c.path = pa /\ c.pad = p /\ c.shape = "arr-empty"
  /\ \A pa \in FrNdPaths, t \in FrTerms \ {"na"} : \E c \in FrCaseSet : c.path = pa /\ c.term = t /\ c.shape = "arr-empty"
  /\ \A e \in {{"value"}, {"error"}, {"value", "error"}} : \E c \in FrCaseSet : ExpectedFr(c) = e
  /\ \A o \in {"panic", "crash"} : \A c \in FrCaseSet : ~HoldsFr(c, [out |-> o])
  \* arity: members that distinguish nil from empty exist, and for them a decoder that returns nil for empty fails
  /\ {r[2] : r \in {x \in ArTable : ArDistinguished(x[1], x[2])}} = {"inputRequests"}
  /\ \A t \in ArMrtr : ArDistinguished(t, "inputRequests")
  /\ \A c \in ArCaseSet : (ArDistinguished(c.type, c.member) /\ c.arity = "empty")
        => ~HoldsAr(c, [ExpectedAr(c) EXCEPT !.isnil = TRUE])
  /\ \A c \in ArCaseSet : (~ArDistinguished(c.type, c.member) /\ c.arity # "one")
        => HoldsAr(c, [ExpectedAr(c) EXCEPT !.isnil = ~@])

\* lifetime: a decoder whose raw members are views of its input fails exactly for the kinds that have a raw
\* member, on exactly that member, and for every way of reusing the buffer; every owner of a buffer occurs
LtWitnesses ==
  /\ \A c \in LtCaseSet : HoldsLt(c, LtOutcome(c, TRUE)) <=> (LtRaw(c.kind) = {})
  /\ \A c \in LtCaseSet : \A m \in LtMembers :
        (LtValueOK(c, LtOutcome(c, TRUE), m) /\ LtReencOK(c, LtOutcome(c, TRUE), m)) <=> (m \notin LtRaw(c.kind))
  /\ UNION {LtRaw(k) : k \in LtKinds} = {"params", "result", "errData"}
  /\ \A pa \in LtPaths, k \in LtKinds : \E c \in LtCaseSet : c.path = pa /\ c.kind = k
  /\ \A ru \in LtReuses : \E c \in LtCaseSet : c.reuse = ru
  /\ \A c \in LbCaseSet : ~HoldsLb(c, [n |-> 5, answered |-> 5, intact |-> 4])
  /\ \A c \in LbCaseSet : ~HoldsLb(c, [n |-> 5, answered |-> 4, intact |-> 4])
\* write side: the predicate on what the peer reads (the machine is checked in CodecWrite.tla)
WwWitnesses ==
  /\ FramesIntact([k |-> 2], [errs |-> 0, frames |-> <<2, 1>>, peer |-> <<2, 1>>, peerEnd |-> "eof"])
  /\ ~FramesIntact([k |-> 2], [errs |-> 0, frames |-> <<0, 2>>, peer |-> <<>>, peerEnd |-> "error"])   \* a torn line
  /\ ~FramesIntact([k |-> 2], [errs |-> 0, frames |-> <<1, 1>>, peer |-> <<1, 1>>, peerEnd |-> "eof"])     \* one twice, one lost
  /\ ~FramesIntact([k |-> 2], [errs |-> 0, frames |-> <<1>>, peer |-> <<1>>, peerEnd |-> "eof"])
  /\ ~FramesIntact([k |-> 3], [errs |-> 1, frames |-> <<1, 2, 3>>, peer |-> <<1, 2, 3>>, peerEnd |-> "eof"])
  /\ ~FramesIntact([k |-> 2], [errs |-> 0, frames |-> <<1, 2>>, peer |-> <<1>>, peerEnd |-> "error"])

LeadIds == {c.id : c \in {x \in MsgCaseSet : ~HoldsMsg(x, ExpectedMsg(x)) /\ x.method # "empty"}}

SetSeq(S) == SetToSeq(S)
ValJson(c) == c
Export ==
  /\ ndJsonSerialize("cases_msg.ndjson", SetSeq(MsgCaseSet))
  /\ ndJsonSerialize("cases_wire.ndjson", SetSeq(WireCaseSet))
  /\ ndJsonSerialize("cases_val.ndjson", SetSeq(ValCaseSet))
  /\ ndJsonSerialize("cases_req.ndjson", SetSeq(ReqCaseSet))
  /\ ndJsonSerialize("cases_vc.ndjson", SetSeq(VcCaseSet))
  /\ ndJsonSerialize("cases_fr.ndjson", SetSeq(FrCaseSet))
  /\ ndJsonSerialize("cases_ar.ndjson", SetSeq(ArCaseSet))
  /\ ndJsonSerialize("cases_lt.ndjson", SetSeq(LtCaseSet))
  /\ ndJsonSerialize("cases_lb.ndjson", SetSeq(LbCaseSet))

ASSUME MsgDesign
ASSUME WireDesign
ASSUME ValDesign
ASSUME ReqDesign
ASSUME VcDesign
ASSUME FrDesign
ASSUME ArTableFn /\ ArDesign
ASSUME LtDesign /\ LbDesign
ASSUME ClassifyTotal /\ ValidAccepted
ASSUME Witnesses
ASSUME LtWitnesses
ASSUME WwWitnesses
ASSUME PrintT(ToJson([msg |-> Cardinality(MsgCaseSet), wire |-> Cardinality(WireCaseSet),
                      val |-> Cardinality(ValCaseSet), req |-> Cardinality(ReqCaseSet), vc |-> Cardinality(VcCaseSet),
                      fr |-> Cardinality(FrCaseSet), ar |-> Cardinality(ArCaseSet),
                      lt |-> Cardinality(LtCaseSet), lb |-> Cardinality(LbCaseSet),
                      msgLeads |-> Cardinality({c \in MsgCaseSet : MsgLead(c)}),
                      valLeads |-> Cardinality({c \in ValCaseSet : ValLead(c)}),
                      reqLeads |-> Cardinality({c \in ReqCaseSet : ReqLead(c)}),
                      vcLeads |-> Cardinality({c \in VcCaseSet : VcLead(c)}),
                      leadIds |-> SetSeq(LeadIds)]))
ASSUME Export
=============================================================================
