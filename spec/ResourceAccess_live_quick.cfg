SPECIFICATION FairSpec
CONSTANTS
  Readers = {"r1", "r2"}
  XE = {"E2"}
  XT = {"Tp"}
  MaxMut = 2
  MaxRead = 3
CONSTANT XU <- URIs2
INVARIANTS TypeOK Linearizable
PROPERTY ReadsEnd
CHECK_DEADLOCK FALSE
