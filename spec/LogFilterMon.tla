---------------------------- MODULE LogFilterMon ----------------------------
(* Monitor for X03, evaluated by TLC over obs.ndjson recorded from the REAL   *)
(* mcp.Server / ServerSession / LoggingHandler / Client (harness/mcp/         *)
(* x03_logging_test.go).  One line per step of a scenario:                    *)
(*   reset     era (from the NEGOTIATED protocol version), d (MinInterval of  *)
(*             family fd, microseconds)                                       *)
(*   SetLevel  L, ok          OpenReq  c, L, ok        CloseReq  c, ok         *)
(*   LogDirect c, lvl, logger, sent                                            *)
(*   SlogEnabled f, k, c, sl, en, logger      SlogHandle  applied, sent       *)
(*   Tick dt   Settle recv    end recv                                        *)
(*   http      era, L (request level), lvl, sent   (stateless HTTP table)     *)
(* `sent` = what the server's sending middleware saw during the step; `recv`  *)
(* = what the client's LoggingMessageHandler received since the last Settle.  *)
(*                                                                            *)
(* VERDICT part: the o* variables are built from observations only (levels    *)
(* the client set / sent with a request and whose response it saw, times of   *)
(* sends) and the predicates are those of LogFilterDefs - exactly P1..P5.     *)
(* DRIFT part: the variables of LogFilter follow the same steps through the   *)
(* actions of the specification; an outcome that differs from the code-shaped *)
(* model is reported as "drift" (never a violation).                          *)
EXTENDS LogFilterMC, VerifTrace

VARIABLES l, oEra, oSess, oReqs, oPend, oLast, oD, oSent
mvars == <<vars, l, oEra, oSess, oReqs, oPend, oLast, oD, oSent>>

OThr(c) == IF c # "bg" /\ oEra = "modern" THEN oReqs[c] ELSE oSess

DataOK(r) == ~r.dlevel /\ r.dmsg /\ r.dtime /\ r.dattr
\* one sent record against the call that produced it
RecOK(e, r, lvl) == r.n = e.i /\ r.lvl = lvl /\ r.logger = e.logger /\ DataOK(r)

NSeq(s) == [j \in DOMAIN s |-> s[j].n]
SameBag(a, b) == Len(a) = Len(b) /\ \A x \in AsSet(a) \cup AsSet(b) :
                    Cardinality({j \in DOMAIN a : a[j] = x}) = Cardinality({j \in DOMAIN b : b[j] = x})

\* ---- drift: follow the specification
Follow(A) == IF ENABLED A THEN A ELSE UNCHANGED vars /\ Fail(l, "unfollowable")
SpecReset(e) == /\ era' = e.era /\ sess' = "unset" /\ reqs' = [r \in Reqs |-> "closed"]
                /\ adm' = D /\ del' = D /\ pend' = PendOff /\ flight' = 0

ObsReset(e) == /\ oEra' = e.oera /\ oSess' = "unset" /\ oReqs' = [r \in Reqs |-> "closed"]
               /\ oPend' = PendOff /\ oLast' = -1 /\ oD' = e.d /\ oSent' = <<>>
SameObs == UNCHANGED <<oEra, oSess, oReqs, oPend, oLast, oD, oSent>>
Quiet(e) == Check(l, "NoSpurious", e.sent = <<>>)

DeliveryCheck(e) ==
  IF e.recv = oSent THEN TRUE
  ELSE IF NSeq(e.recv) = NSeq(oSent) THEN Fail(l, "Fidelity")
  ELSE IF SameBag(NSeq(e.recv), NSeq(oSent)) THEN Fail(l, "Order")
  ELSE Fail(l, "Delivery")

Step(e) ==
  CASE e.op = "SetLevel" ->
         /\ IF e.ok THEN Follow(SetLevel(e.L)) ELSE UNCHANGED vars
         /\ Check(l, "drift", e.ok)
         /\ Quiet(e)
         /\ oSess' = IF e.ok THEN e.L ELSE oSess
         /\ oPend' = IF e.ok /\ oPend.on THEN [oPend EXCEPT !.raced = TRUE] ELSE oPend
         /\ UNCHANGED <<oEra, oReqs, oLast, oD, oSent>>
    [] e.op = "OpenReq" ->
         /\ IF e.ok THEN Follow(OpenReq(e.c, e.L)) ELSE UNCHANGED vars
         /\ Check(l, "drift", e.ok)
         /\ Quiet(e)
         /\ oReqs' = IF e.ok THEN [oReqs EXCEPT ![e.c] = e.L] ELSE oReqs
         /\ UNCHANGED <<oEra, oSess, oPend, oLast, oD, oSent>>
    [] e.op = "CloseReq" ->
         /\ Follow(CloseReq(e.c))
         /\ Check(l, "drift", e.ok)
         /\ Quiet(e)
         /\ oReqs' = [oReqs EXCEPT ![e.c] = "closed"]
         /\ UNCHANGED <<oEra, oSess, oPend, oLast, oD, oSent>>
    [] e.op = "LogDirect" ->
         LET ws == {OThr(e.c)}
             send == Len(e.sent) >= 1
             exp == LogDecision(ThrOf(e.c), e.lvl)
         IN /\ Follow(LogDirect(e.c, e.lvl))
            /\ Check(l, "drift", send = exp)
            /\ Check(l, "Once", Len(e.sent) <= 1)
            /\ IF e.lvl \in NameSet
               THEN /\ Check(l, "NoLeak", NoLeakOK(ws, SlogOf(e.lvl), send))
                    /\ Check(l, "Complete", CompleteNamedOK(ws, SlogOf(e.lvl), FALSE, send))
                    /\ Check(l, "Fidelity", send => RecOK(e, e.sent[1], e.lvl))
               ELSE TRUE
            /\ oSent' = oSent \o e.sent
            /\ UNCHANGED <<oEra, oSess, oReqs, oPend, oLast, oD>>
    [] e.op = "SlogEnabled" ->
         /\ IF e.en = EnabledCode(e.c, e.sl) THEN Follow(SlogEnabled(e.f, e.k, e.c, e.sl))
            ELSE \* drift: keep following with what the code did
                 /\ pend' = IF e.en THEN [on |-> TRUE, f |-> e.f, c |-> e.c, sl |-> e.sl, thrE |-> ThrOf(e.c), raced |-> FALSE] ELSE PendOff
                 /\ UNCHANGED <<era, sess, reqs, adm, del, flight>>
         /\ Check(l, "drift", e.en = EnabledCode(e.c, e.sl))
         /\ Quiet(e)
         /\ Check(l, "Enabled", EnabledOK(OThr(e.c), e.sl, e.en))
         /\ oPend' = IF e.en THEN [on |-> TRUE, f |-> e.f, c |-> e.c, sl |-> e.sl, thrE |-> OThr(e.c), raced |-> FALSE]
                     ELSE PendOff
         /\ UNCHANGED <<oEra, oSess, oReqs, oLast, oD, oSent>>
    [] e.op = "SlogHandle" ->
         LET send == Len(e.sent) >= 1
             nm == IF send THEN e.sent[1].lvl ELSE "-"
             ws == IF oPend.raced THEN {oPend.thrE, OThr(oPend.c)} ELSE {oPend.thrE}
             lim == oPend.f = "fd" /\ oD > 0
             since == IF oLast < 0 THEN oD ELSE e.t - oLast
         IN /\ IF pend.on
               THEN /\ Check(l, "drift", e.applied /\ send = HandleOutcome.send /\ (send => nm = HandleOutcome.nm))
                    /\ Follow(SlogHandle)
               ELSE /\ Check(l, "drift", ~e.applied) /\ UNCHANGED vars
            /\ Check(l, "Once", Len(e.sent) <= 1)
            /\ IF e.applied /\ oPend.on
               THEN /\ Check(l, "NoLeak", NoLeakOK(ws, oPend.sl, send))
                    /\ Check(l, "Complete", CompleteNamedOK(ws, oPend.sl, lim, send))
                    /\ Check(l, "EnabledButFiltered", CompleteAnyOK(ws, oPend.sl, lim, send) \/ ~CompleteNamedOK(ws, oPend.sl, lim, send))
                    /\ Check(l, "Level", LevelOK(ws, oPend.sl, send, nm))
                    /\ Check(l, "Fidelity", send => (e.sent[1].n = e.i /\ e.sent[1].logger = e.logger /\ DataOK(e.sent[1])))
                    /\ Check(l, "Spacing", SpacingOK(lim, send, since, oD))
                    /\ Check(l, "Excess", ExcessOK(ws, oPend.sl, lim, send, since, oD))
               ELSE Check(l, "NoSpurious", ~send)
            /\ oLast' = IF lim /\ send THEN e.t ELSE oLast
            /\ oPend' = PendOff
            /\ oSent' = oSent \o e.sent
            /\ UNCHANGED <<oEra, oSess, oReqs, oD>>
    [] e.op = "Tick" ->
         /\ Follow(Tick(e.dt)) /\ Quiet(e) /\ SameObs
    [] e.op = "Settle" ->
         /\ IF flight > 0 THEN Settle ELSE UNCHANGED vars
         /\ Quiet(e)
         /\ DeliveryCheck(e)
         /\ oSent' = <<>>
         /\ UNCHANGED <<oEra, oSess, oReqs, oPend, oLast, oD>>
    [] e.op = "end" ->
         /\ UNCHANGED vars /\ Quiet(e) /\ DeliveryCheck(e)
         /\ Check(l, "stuck", ~e.stuck)
         /\ oSent' = <<>>
         /\ UNCHANGED <<oEra, oSess, oReqs, oPend, oLast, oD>>
    [] e.op = "http" ->
         LET c == [era |-> e.oera, rl |-> e.L, l |-> e.lvl]
             send == Len(e.sent) >= 1
         IN /\ UNCHANGED vars /\ SameObs
            /\ Check(l, "drift", send = HttpExpected(c))
            /\ Check(l, "Once", Len(e.sent) <= 1)
            /\ Check(l, "HttpNoLeak", NoLeakOK({HttpThr(c)}, SlogOf(c.l), send))
            /\ Check(l, "HttpComplete", CompleteNamedOK({HttpThr(c)}, SlogOf(c.l), FALSE, send))
            /\ Check(l, "Fidelity", send => (e.sent[1].lvl = e.lvl /\ e.sent[1].logger = e.logger /\ DataOK(e.sent[1])))

MInit == /\ Init /\ l = 1 /\ MarkInit
         /\ oEra = "legacy" /\ oSess = "unset" /\ oReqs = [r \in Reqs |-> "closed"]
         /\ oPend = PendOff /\ oLast = -1 /\ oD = 0 /\ oSent = <<>>

MNext == /\ l <= NLines /\ l' = l + 1
         /\ LET e == TraceLog[l] IN
              IF e.ev = "reset" THEN SpecReset(e) /\ ObsReset(e) ELSE Step(e)

MSpec == MInit /\ [][MNext]_mvars
MMark == MarkAt(l)
MAccepted == Accepted
=============================================================================
