------------------------------ MODULE CodecMon -------------------------------
(* Monitor for C19: evaluates the property predicates of CodecDefs (verdict)   *)
(* and equality with the code-shaped expectations (strict / drift) on the      *)
(* comparison results recorded from the real encoders, decoders and framers.   *)
EXTENDS VerifTrace, FiniteSets
D == INSTANCE CodecDefs
S == INSTANCE CodecSSEDefs

VARIABLE l
MInit == l = 1 /\ MarkInit

MsgChecks(e) ==
  LET c == e.c
      o == [cls |-> e.o.cls, frame |-> e.o.frame, evmeta |-> e.o.evmeta, f |-> e.o.f]
      p == IF c.dir = "enc" THEN "RoundTrip." ELSE "Preserve."
  IN /\ Check(l, p \o "Class", D!ClsOK(c, o))
     /\ Check(l, p \o "Frame", D!FrameOK(c, o))
     /\ Check(l, p \o "IdType", D!IdTypeOK(c, o))
     /\ Check(l, p \o "IdValue", D!IdValueOK(c, o))
     /\ Check(l, p \o "Method", D!MethodOK(c, o))
     /\ Check(l, p \o "Params", D!ParamsOK(c, o))
     /\ Check(l, p \o "Result", D!ResultOK(c, o))
     /\ Check(l, p \o "ErrCode", D!ErrCodeOK(c, o))
     /\ Check(l, p \o "ErrMsg", D!ErrMsgOK(c, o))
     /\ Check(l, p \o "ErrData", D!ErrDataOK(c, o))
     /\ Check(l, "drift", o = D!ExpectedMsg(c))

WireChecks(e) ==
  /\ Check(l, "NoPanic", D!NoPanic(e.o) /\ D!NoPanic(e.sib))
  /\ Check(l, "Accepts", D!Accepts(e.c, e.o))
  /\ Check(l, "CaseSensitive", D!CaseSensitive(e.c, e.o, e.sib))
  /\ Check(l, "drift", e.o = D!ExpectedWire(e.c))

ValChecks(e) ==
  LET o == [ok |-> e.o.ok, lost |-> AsSet(e.o.lost), missing |-> AsSet(e.o.missing)]
  IN /\ Check(l, "ValRoundTrip", D!ValRoundTrip(e.c, o))
     /\ Check(l, "RequiredPresentVal", D!RequiredPresentVal(e.c, o))
     /\ Check(l, "drift", o = D!ExpectedVal(e.c))

ReqChecks(e) ==
  /\ Check(l, "Answered", D!Answered(e.c, e.o))
  /\ Check(l, "RequiredPresent", D!RequiredPresent(e.c, e.o))
  /\ Check(l, "drift", e.o = D!ExpectedReq(e.c))

VcChecks(e) ==
  /\ Check(l, "CaseSensitiveVal", D!CaseSensitiveVal(e.c, e.o))
  /\ Check(l, "drift", e.o.same = D!ExpectedVc(e.c).same)

FuzzChecks(e) == Check(l, "NeverPanics", D!NeverPanics(e))

\* frames through the read loops of the real transports ("crash": the process died with this case in flight)
FrChecks(e) ==
  /\ Check(l, "NoPanicFr", D!NoPanicFr(e.c, e.o))
  /\ Check(l, "drift", e.o.out \in D!ExpectedFr(e.c))

ArChecks(e) ==
  /\ Check(l, "ArDecodes", D!ArDecodes(e.c, e.o))
  /\ Check(l, "ArSameLen", D!ArSameLen(e.c, e.o))
  /\ Check(l, "ArSameElems", D!ArSameElems(e.c, e.o))
  /\ Check(l, "ArOthersKept", D!ArOthersKept(e.c, e.o))
  /\ Check(l, "ArNilKept", D!ArNilKept(e.c, e.o))
  /\ Check(l, "drift", e.o = D!ExpectedAr(e.c))

\* a decoded message after the buffer it was decoded from has been reused
LtChecks(e) ==
  LET c == e.c
      o == [cls |-> e.o.cls, later |-> e.o.later, enc |-> e.o.enc, f |-> e.o.f, g |-> e.o.g]
      Val(name, m) == Check(l, "Lifetime." \o name, D!LtValueOK(c, o, m))
      Rec(name, m) == Check(l, "Lifetime.Reencode." \o name, D!LtReencOK(c, o, m))
  IN /\ Check(l, "Lifetime.Class", D!LtClsOK(c, o))
     /\ Check(l, "Lifetime.Later", D!LtLaterOK(c, o))
     /\ Val("IdType", "idType") /\ Val("IdValue", "idValue") /\ Val("Method", "method") /\ Val("Params", "params")
     /\ Val("Result", "result") /\ Val("ErrCode", "errCode") /\ Val("ErrMsg", "errMsg") /\ Val("ErrData", "errData")
     /\ Check(l, "Lifetime.Reencode", D!LtEncodes(c, o))
     /\ Rec("IdType", "idType") /\ Rec("IdValue", "idValue") /\ Rec("Method", "method") /\ Rec("Params", "params")
     /\ Rec("Result", "result") /\ Rec("ErrCode", "errCode") /\ Rec("ErrMsg", "errMsg") /\ Rec("ErrData", "errData")
     /\ Check(l, "drift", o = D!ExpectedLt(c))

\* a burst of calls through a buffer-reusing connection into a real session
LbChecks(e) ==
  /\ Check(l, "BurstAnswered", D!BurstAnswered(e.c, e.o))
  /\ Check(l, "BurstIntact", D!BurstIntact(e.c, e.o))

\* concurrent writers over a non-atomic io.Writer: the byte stream the peer reads; the frame order is one the
\* machine CodecWrite allows for this plan (drift)
WwChecks(e) ==
  /\ Check(l, "FramesIntact", D!FramesIntact(e.c, e.o))
  /\ Check(l, "drift", e.o.frames \in AsSet(e.c.orders))

\* a stream that breaks under the real readers (machine: CodecSSE.tla): the case carries what TLC derived for it -
\* frames written (n), frames whole before the cut (k), the same counted in messages for the streamable client
\* (nm, km) and the code-shaped outcome (exp; for scanEvents and ioConn)
ScChecks(e) ==
  LET c == e.c
      o == [evs |-> e.o.evs, err |-> e.o.err, lastid |-> e.o.lastid]
      n == IF c.path = "stream" THEN c.nm ELSE c.n
      k == IF c.path = "stream" THEN c.km ELSE c.k
  IN /\ Check(l, "ScDelivered", S!ScDelivered(n, o))
     /\ Check(l, "ScNoGaps", S!ScNoGaps(k, o))
     /\ Check(l, "drift", c.path = "stream" \/ o = c.exp)

MNext == /\ l <= NLines /\ l' = l + 1
         /\ LET e == TraceLog[l] IN
              CASE e.k = "msg"  -> MsgChecks(e)
                [] e.k = "wire" -> WireChecks(e)
                [] e.k = "val"  -> ValChecks(e)
                [] e.k = "req"  -> ReqChecks(e)
                [] e.k = "vc"   -> VcChecks(e)
                [] e.k = "fuzz" -> FuzzChecks(e)
                [] e.k = "fr"   -> FrChecks(e)
                [] e.k = "ar"   -> ArChecks(e)
                [] e.k = "lt"   -> LtChecks(e)
                [] e.k = "lb"   -> LbChecks(e)
                [] e.k = "ww"   -> WwChecks(e)
                [] e.k = "sc"   -> ScChecks(e)
MSpec == MInit /\ [][MNext]_l
MMark == MarkAt(l)
MAccepted == Accepted
=============================================================================
