------------------------------ MODULE Dispatch ------------------------------
(* X15 (extension): the METHOD DISPATCH LAYER of both peers - middleware      *)
(* composition, custom-method registration and requests in flight.            *)
(* (mcp/shared.go addMiddleware, handleSend / handleNotify / handleReceive,   *)
(* default{Sending,Receiving}MethodHandler; Client/Server                     *)
(* Add{Sending,Receiving}Middleware; AddReceivingCustomMethod,                *)
(* AddSendingCustomMethod, CallCustomMethod; NotifyProgress.)                 *)
(* The decision tables of X15 (raw dispatch of custom methods, result typing  *)
(* of CallCustomMethod, progress tokens, concurrent registration) are in      *)
(* DispatchDefs.tla.                                                          *)
(*                                                                            *)
(* PROPERTIES (what a user of the SDK relies on; sources: doc comments of     *)
(* Add*Middleware, MethodHandler, Middleware, Add*CustomMethod,               *)
(* CallCustomMethod, NotifyProgress; design/design.md "Middleware",           *)
(* "Progress handling"; docs/protocol.md "Progress")                          *)
(*                                                                            *)
(*  M1 chain     For every request or notification a peer sends (receives),   *)
(*               the user middleware it traverses is exactly the documented   *)
(*               composition of the Add{Sending,Receiving}Middleware calls    *)
(*               completed on that Client / Server before the request was     *)
(*               issued (dispatched): Add(m1,m2,m3) yields m1(m2(m3(h))) of   *)
(*               the CURRENT handler h, so later calls wrap earlier ones and  *)
(*               the first argument of a call is outermost; an Add that       *)
(*               completes after that instant never affects the request.      *)
(*               A Server's sending middleware sees the requests and          *)
(*               notifications the server initiates (also from inside a       *)
(*               handler), a Client's those of the client - never the peer's. *)
(*  M2 once      Every middleware of that chain down to the first one that    *)
(*               does not call next is entered exactly once and left exactly  *)
(*               once for the request, in nested (LIFO) order; middleware     *)
(*               below a short-circuit and the method handler never see it.   *)
(*  M3 effect    What every layer sees is the functional composition: a       *)
(*               params rewrite by an outer layer is seen by every inner      *)
(*               layer (across the wire as well) and by the handler; a result *)
(*               or error rewrite by an inner layer is seen by every outer    *)
(*               layer; the caller receives what the outermost layer returns. *)
(*  D2 inflight  A custom method is served by a handler that was registered   *)
(*               for it at some instant of the request's life; a request      *)
(*               whose whole life lies before the first (after a) registration*)
(*               is answered -32601 (is not); CallCustomMethod on a method    *)
(*               never registered fails without writing anything; changing    *)
(*               the registration while requests are in flight never panics.  *)
(*  G2 token     A progress notification a handler sends for the request it   *)
(*               serves reaches the requester's progress handler with that    *)
(*               request's token, never with another request's.  (Its order   *)
(*               before the response is C03's clause; not restated here.)     *)
(*  L  live      If every middleware and handler eventually returns, every    *)
(*               request issued eventually returns to its caller.             *)
(*                                                                            *)
(* MODEL.  One action per API call / per gate.  A request r is two legs:      *)
(* the SEND leg at the sender (chain snapshot taken by handleSend /           *)
(* handleNotify when the call is made) and the RECEIVE leg at the receiver    *)
(* (snapshot taken by handleReceive when jsonrpc2 dispatches the message).    *)
(* A leg with chain <<m1..mn>> has the gates pre(1) .. pre(n), h (the method  *)
(* handler, receive leg only), post(n) .. post(1); Step releases one gate and *)
(* the goroutine runs to its next gate.  jsonrpc2 dispatches in order and a   *)
(* NOTIFICATION occupies the receiver's dispatcher until its leg is finished  *)
(* (calls release it before the middleware runs), so messages queue behind a  *)
(* notification in progress and take their snapshot when dispatched.          *)
(* A handler (gate h of a call) may issue nested requests; it is blocked      *)
(* while the nested call's send leg is in progress.                           *)
(* Deviation modelled as the code has it (D-REREG): handleReceive decodes the *)
(* params with the registration found at dispatch, defaultReceivingMethod-    *)
(* Handler looks the method up AGAIN below the middleware and calls THAT      *)
(* handler: a re-registration with another params type in between panics      *)
(* (RegTypes = {"A","B"}; lead configuration).                                *)
EXTENDS DispatchFn

CONSTANTS MaxMw,      \* middleware values ever added (ids 1..MaxMw, in order of the Add calls)
          MaxReq,     \* requests ever issued
          Behs,       \* behaviours a middleware may have: subset of {"pass","short","tagp","tagr","fail"}
          AddLens,    \* how many middleware one Add call may carry
          Eras,       \* {"legacy","modern"}: 2025-11-25 (initialize) / 2026-07-28 (discover)
          Kinds,      \* subset of {"cc","cn","sc","sn"}
          RegTypes,   \* params types a re-registration may use: {"A"} or {"A","B"}
          Nest        \* BOOLEAN: handlers may issue nested requests

VARIABLES era, chain, doc, beh, nmw, regS, regR, req, nreq, q
vars == <<era, chain, doc, beh, nmw, regS, regR, req, nreq, q>>

NoLeg == [ch |-> <<>>, at |-> "none", i |-> 0, pt |-> <<>>, out |-> NoOut, ty |-> "-", hid |-> 0]
NoReq == [k |-> "-", par |-> 0, tok |-> 0, s |-> NoLeg, r |-> NoLeg, done |-> FALSE, res |-> NoOut]
Parked == {"pre", "h", "post"}

\* ------------------------------------------------------------ code-shaped pieces
\* addMiddleware: for _, m := range slices.Backward(middleware) { *handlerp = m(*handlerp) }
RECURSIVE AddMiddleware(_, _, _)
AddMiddleware(h, ids, j) == IF j = 0 THEN h ELSE AddMiddleware(<<ids[j]>> \o h, ids, j - 1)

Inward(lg, j) == IF j <= Len(lg.ch) THEN [lg EXCEPT !.at = "pre", !.i = j] ELSE [lg EXCEPT !.at = "bottom", !.i = Len(lg.ch)]
Outward(lg, j, out) == IF j >= 1 THEN [lg EXCEPT !.at = "post", !.i = j, !.out = out]
                       ELSE [lg EXCEPT !.at = "done", !.i = 0, !.out = out]

Started(W) == {r \in DOMAIN W.req : W.req[r].k # "-"}
\* a notification occupies the receiver's dispatcher until its receive leg has finished
Busy(W, p) == \E r \in Started(W) : ~IsCall(W.req[r].k) /\ Rcv(W.req[r].k) = p /\ W.req[r].r.at \in Parked \cup {"bottom"}

\* the send leg has passed its last middleware: conn.Call / conn.Notify writes the message
SendBottom(W, r) ==
  LET x == W.req[r]
      s2 == IF IsCall(x.k) THEN [x.s EXCEPT !.at = "wait"] ELSE Outward(x.s, Len(x.s.ch), Ok(0, <<>>)) IN
  [req |-> [W.req EXCEPT ![r].s = s2], q |-> [W.q EXCEPT ![Rcv(x.k)] = Append(@, r)]]
\* the receive leg has passed its last middleware: defaultReceivingMethodHandler looks the method up (again)
RecvBottom(W, r) ==
  LET x == W.req[r]
      r2 == IF x.k = "cc" /\ regR.ty # x.r.ty
            THEN Outward(x.r, Len(x.r.ch), Err(CodePanic))            \* D-REREG: req.(*ServerRequest[P]) fails
            ELSE [x.r EXCEPT !.at = "h", !.hid = IF x.k = "cc" THEN regR.h ELSE 1] IN
  [W EXCEPT !.req[r].r = r2]
\* the response of a call reaches the caller's goroutine, which continues upward through the send leg
Deliver(W, r) ==
  LET x == W.req[r] IN
  [W EXCEPT !.req[r].s = Outward(x.s, Len(x.s.ch), x.r.out), !.req[r].r.at = "fin"]
Finish(W, r) == [W EXCEPT !.req[r].done = TRUE, !.req[r].res = W.req[r].s.out]
\* jsonrpc2 hands the next queued message of peer p to handleReceive: checkRequest, unmarshalParams, chain snapshot
Dispatch(W, p) ==
  LET r == Head(W.q[p])
      x == W.req[r]
      W1 == [W EXCEPT !.q[p] = Tail(@)] IN
  IF x.k = "cc" /\ regR.h = 0
  THEN [W1 EXCEPT !.req[r].s = Outward(x.s, Len(x.s.ch), Err(CodeNotFound)), !.req[r].r.at = "fin"]
  ELSE [W1 EXCEPT !.req[r].r = Inward([NoLeg EXCEPT !.ch = chain[Key(p, "recv")], !.pt = x.s.pt,
                                                     !.ty = IF x.k = "cc" THEN regR.ty ELSE "-"], 1)]

RECURSIVE Settle(_)
Settle(W) ==
  LET S == Started(W) IN
  IF \E r \in S : W.req[r].s.at = "bottom" THEN Settle(SendBottom(W, CHOOSE r \in S : W.req[r].s.at = "bottom"))
  ELSE IF \E r \in S : W.req[r].r.at = "bottom" THEN Settle(RecvBottom(W, CHOOSE r \in S : W.req[r].r.at = "bottom"))
  ELSE IF \E r \in S : W.req[r].r.at = "done" /\ W.req[r].s.at = "wait"
       THEN Settle(Deliver(W, CHOOSE r \in S : W.req[r].r.at = "done" /\ W.req[r].s.at = "wait"))
  ELSE IF \E r \in S : W.req[r].s.at = "done" /\ ~W.req[r].done
       THEN Settle(Finish(W, CHOOSE r \in S : W.req[r].s.at = "done" /\ ~W.req[r].done))
  ELSE IF \E p \in {"c", "s"} : ~Busy(W, p) /\ W.q[p] # <<>>
       THEN Settle(Dispatch(W, CHOOSE p \in {"c", "s"} : ~Busy(W, p) /\ W.q[p] # <<>>))
  ELSE W

World == [req |-> req, q |-> q]
Commit(W) == LET W2 == Settle(W) IN req' = W2.req /\ q' = W2.q

\* one gate of leg lg (side sd) of a request of kind k is released
Release(lg, k) ==
  CASE lg.at = "pre" ->
         LET m == lg.ch[lg.i] IN
         IF beh[m] = "short" THEN Outward(lg, lg.i, ShortOut(m, k))
         ELSE Inward([lg EXCEPT !.pt = IF beh[m] = "tagp" THEN Append(@, m) ELSE @], lg.i + 1)
    [] lg.at = "h" -> Outward(lg, Len(lg.ch), IF IsCall(k) THEN Ok(lg.hid, <<>>) ELSE Ok(0, <<>>))
    [] lg.at = "post" -> LET m == lg.ch[lg.i] IN Outward(lg, lg.i - 1, PostEff(beh[m], m, k, lg.out))

OpenChild(par) == \E c \in 1..nreq : req[c].par = par /\ ~req[c].done

\* ------------------------------------------------------------ actions
BehSeqs == UNION {[1..n -> Behs] : n \in AddLens}

Init == /\ era \in Eras
        /\ chain = [x \in Keys |-> <<>>] /\ doc = [x \in Keys |-> <<>>]
        /\ beh = [m \in 1..MaxMw |-> "-"] /\ nmw = 0
        /\ regS = FALSE /\ regR = [h |-> 0, ty |-> "-"]
        /\ req = [r \in 1..MaxReq |-> NoReq] /\ nreq = 0
        /\ q = [p \in {"c", "s"} |-> <<>>]

\* Client/Server.Add{Sending,Receiving}Middleware(bs...)
Add(p, d, bs) ==
  /\ nmw + Len(bs) <= MaxMw
  /\ LET ids == [j \in 1..Len(bs) |-> nmw + j] IN
       /\ beh' = [m \in 1..MaxMw |-> IF m \in nmw + 1..nmw + Len(bs) THEN bs[m - nmw] ELSE beh[m]]
       /\ chain' = [chain EXCEPT ![Key(p, d)] = AddMiddleware(@, ids, Len(ids))]
       /\ doc' = [doc EXCEPT ![Key(p, d)] = ids \o @]          \* the documentation: m1(m2(m3(current)))
       /\ nmw' = nmw + Len(bs)
  /\ UNCHANGED <<era, regS, regR, req, nreq, q>>

\* AddSendingCustomMethod[*P, *R](client, "x/do")
RegSend == /\ ~regS /\ regS' = TRUE
           /\ UNCHANGED <<era, chain, doc, beh, nmw, regR, req, nreq, q>>
\* AddReceivingCustomMethod(server, "x/do", handler h taking params of type ty): the first registration is (1, "A"), a
\* second one replaces it
RegRecv(h, ty) ==
  /\ \/ h = 1 /\ regR.h = 0 /\ ty = "A"
     \/ h = 2 /\ regR.h = 1 /\ ty \in RegTypes
  /\ regR' = [h |-> h, ty |-> ty]
  /\ UNCHANGED <<era, chain, doc, beh, nmw, regS, req, nreq, q>>

\* a request of kind k is issued: by the application (par = 0) or by the handler that serves request par
Start(k, par) ==
  /\ nreq < MaxReq /\ k \in Kinds
  /\ \/ par = 0
     \/ /\ Nest /\ par \in 1..nreq /\ req[par].r.at = "h" /\ ~OpenChild(par)
        /\ \/ req[par].k = "cc" /\ k \in {"sn", "sc"}
           \/ req[par].k = "sc" /\ k = "cn"
  /\ LET r == nreq + 1
         base == [NoReq EXCEPT !.k = k, !.par = par, !.tok = par]
         x == IF k = "cc" /\ ~regS THEN [base EXCEPT !.s.at = "done", !.s.out = Err(CodeUnreg)]
              ELSE IF k = "sc" /\ era = "modern" THEN [base EXCEPT !.s.at = "done", !.s.out = Err(CodeRefused)]
              ELSE [base EXCEPT !.s = Inward([NoLeg EXCEPT !.ch = chain[Key(Snd(k), "send")]], 1)] IN
       /\ nreq' = r
       /\ Commit([req |-> [req EXCEPT ![r] = x], q |-> q])
  /\ UNCHANGED <<era, chain, doc, beh, nmw, regS, regR>>

\* the gate at which leg sd ("s" / "r") of request r is parked is opened
Step(r, sd) ==
  /\ r \in 1..nreq
  /\ LET lg == IF sd = "s" THEN req[r].s ELSE req[r].r IN
       /\ lg.at \in Parked
       /\ lg.at = "h" => ~OpenChild(r)
       /\ LET lg2 == Release(lg, req[r].k) IN
            Commit([req |-> IF sd = "s" THEN [req EXCEPT ![r].s = lg2] ELSE [req EXCEPT ![r].r = lg2], q |-> q])
  /\ UNCHANGED <<era, chain, doc, beh, nmw, regS, regR, nreq>>

Next == \/ \E p \in {"c", "s"}, d \in {"send", "recv"}, bs \in BehSeqs : Add(p, d, bs)
        \/ RegSend
        \/ \E h \in {1, 2}, ty \in {"A", "B"} : RegRecv(h, ty)
        \/ \E k \in Kinds, par \in 0..MaxReq : Start(k, par)
        \/ \E r \in 1..MaxReq, sd \in {"s", "r"} : Step(r, sd)

Spec == Init /\ [][Next]_vars
FairSpec == Spec /\ \A r \in 1..MaxReq, sd \in {"s", "r"} : WF_vars(Step(r, sd))

\* ------------------------------------------------------------ what an observer of the real code can see of a state
AtStr(lg) == IF lg.at \in {"pre", "post"} THEN lg.at \o ":" \o ToString(lg.ch[lg.i]) ELSE IF lg.at = "h" THEN "h" ELSE "-"
Proj == [r \in 1..nreq |-> [sa |-> AtStr(req[r].s), ra |-> AtStr(req[r].r), done |-> req[r].done,
                             ok |-> req[r].res.ok, src |-> req[r].res.src, tags |-> req[r].res.tags, code |-> req[r].res.code]]
=============================================================================
