\* cover: Connect's context cancelled, failing DELETE, second Close
SPECIFICATION SettledSpec
CONSTANTS
  NC = 1
  SASet = {TRUE}
  OAuthSet = {FALSE}
  DelSet = {"neterr"}
  PostSet = {"json", "http", "neterr"}
  GetSet = {"sse", "405"}
  InitH = {"A"}
  HSet = {""}
  MaxNotify = 0
  MaxSaEv = 0
  MaxAuth = 0
  MaxClose = 2
  AllowCancel = TRUE
  FixCancel = FALSE
  FixStream = FALSE
INVARIANTS TypeOK SessionHeader VersionHeader OnePostPerMessage Standalone PerMessage Usable GoneStops GoneNoDelete GoneFailsAll
  TerminalFailsPending DeleteOnce DeleteWhenLive CloseWaits StandaloneCancelled RetiredOnce
VIEW CoverView
CHECK_DEADLOCK FALSE
