----------------------------- MODULE FanoutMon ------------------------------
(* Monitor of the fan-out satellite of C03 over the observation log of        *)
(* harness/mcp/c03_fanout_test.go.  One goroutine executes a program of       *)
(* notifying methods (some of which fan out over several sessions) and calls; *)
(* the log has, per op, `issue` (with the sessions it is addressed to) and    *)
(* `ret` (the method returned), and per message <<op, session>> the start and *)
(* the end of the peer's handler.                                             *)
(*                                                                            *)
(* The statement (properties.jsonl, C03), per session s: for messages m1 = <<k1, s>> and m2 = <<k2, s>> *)
(* such that the method of op k1 had RETURNED (without reporting an error)    *)
(* when op k2 was issued, the peer starts handling m2                         *)
(*   C03.FanoutObservedInOrder             only after it started handling m1, *)
(*   C03.FanoutNotificationCompletesFirst  and, when m1 is a notification,    *)
(*                                         only after m1's handler finished   *)
(*                                         (an m1 that has not even started   *)
(*                                         is reported by the first clause).  *)
(* Nothing is said about messages of different sessions, about calls          *)
(* overlapping later messages, or about how the sender gets there.            *)
EXTENDS VerifTrace, FiniteSets
VARIABLES l, m
M0 == [kind      |-> <<>>,   \* op -> "F" | "N" | "C"
       targets   |-> <<>>,   \* op -> sessions the op sends a message to
       retBefore |-> <<>>,   \* op -> ops whose method had returned when it was issued
       retd      |-> {},     \* ops whose method has returned
       failed    |-> {},     \* ops whose method reported an error (they do not claim to have sent anything)
       started   |-> {},     \* <<op, session>> whose handler has started
       ended     |-> {}]     \* <<op, session>> whose handler has returned
MInit == l = 1 /\ m = M0 /\ MarkInit

Put(f, k, v) == [y \in DOMAIN f \cup {k} |-> IF y = k THEN v ELSE f[y]]

\* the earlier messages to session e.s whose method had returned before op e.op was issued
Prior(e) == IF e.op \notin DOMAIN m.retBefore THEN {}
            ELSE {k \in m.retBefore[e.op] : k \in DOMAIN m.targets /\ e.s \in m.targets[k] /\ k \notin m.failed}

Step(e) ==
  CASE e.ev = "reset" -> m' = M0
    [] e.ev = "issue" -> m' = [m EXCEPT !.kind = Put(@, e.op, e.kind), !.targets = Put(@, e.op, AsSet(e.targets)),
                                        !.retBefore = Put(@, e.op, m.retd)]
    [] e.ev = "ret" -> m' = [m EXCEPT !.retd = @ \cup {e.op}, !.failed = IF e.err THEN @ \cup {e.op} ELSE @]
    [] e.ev = "h.start" /\ e.op # 0 ->
         /\ Check(l, "C03.FanoutObservedInOrder", \A k \in Prior(e) : <<k, e.s>> \in m.started)
         /\ Check(l, "C03.FanoutNotificationCompletesFirst", \A k \in Prior(e) : (m.kind[k] # "C" /\ <<k, e.s>> \in m.started) => <<k, e.s>> \in m.ended)
         /\ m' = [m EXCEPT !.started = @ \cup {<<e.op, e.s>>}]
    [] e.ev = "h.end" /\ e.op # 0 -> m' = [m EXCEPT !.ended = @ \cup {<<e.op, e.s>>}]
    [] e.ev = "panic" -> m' = m /\ Fail(l, "C03.FanoutNoPanic")
    [] e.ev = "setup.error" -> m' = m /\ Fail(l, "X.Setup")
    [] OTHER -> m' = m

MNext == /\ l <= NLines /\ l' = l + 1 /\ Step(TraceLog[l])
MSpec == MInit /\ [][MNext]_<<l, m>>
MMark == MarkAt(l)
MAccepted == Accepted
=============================================================================
