----------------------------- MODULE CodecWrite ------------------------------
(* C19, write side of the newline-delimited framing under concurrency.        *)
(*                                                                            *)
(* k goroutines call Connection.Write on ONE ioConn (IOTransport) at the same *)
(* time.  The io.Writer under the connection is not atomic: it delivers the   *)
(* bytes of one Write call in chunks[w] pieces and yields between the pieces. *)
(* The environment (the scheduler of the goroutines and the underlying        *)
(* writer) is the adversary: it follows a PLAN, a sequence of offers          *)
(*     <<w1, w2, ...>>                                                        *)
(* each letting one writer take its next step: the first offer to w lets w    *)
(* call Write, every further offer lets the underlying writer put w's next    *)
(* piece on the stream - if w is inside the underlying writer at that moment. *)
(* An offer to a writer that is not inside (it waits for the connection) is   *)
(* declined.  When the plan is used up the environment lets everybody finish  *)
(* (Drain).  The plans are all interleavings of the writers' step sequences   *)
(* (1 + chunks[w] steps each): every way two or three Write calls and the     *)
(* pieces of their frames can be ordered in time.                             *)
(*                                                                            *)
(* Guarded = TRUE is the specification of ioConn.Write: a frame is put on the *)
(* stream under mutual exclusion (writeMu), so a writer that calls Write      *)
(* while another one is inside waits, and when the one inside has delivered   *)
(* its frame ANY waiting writer goes next.  TLC checks Contiguous (the pieces *)
(* of different frames never interleave: the stream is a sequence of whole    *)
(* frames, every frame exactly once at the end) on every plan and every       *)
(* hand-over, that every run ends with all writers done, and exports every    *)
(* (case, plan) with the frame order of the run for the Go harness, which     *)
(* drives the REAL ioConn over a gated, chunking io.Writer along the plan; the *)
(* monitor CodecMon judges the byte stream the peer reads                     *)
(* (CodecDefs!FramesIntact).                                                  *)
(* Guarded = FALSE is the witness: without the exclusion the same plans tear  *)
(* the frames (TLC must report Contiguous violated).                          *)
EXTENDS Integers, Sequences, FiniteSets, TLC, Json
D == INSTANCE CodecWriteDefs

CONSTANTS Guarded,   \* TRUE: ioConn.Write as specified; FALSE: no exclusion (witness)
          Max2,      \* two writers: 1..Max2 pieces per frame
          Max3,      \* three writers: 1..Max3 pieces per frame (0: no case with three writers)
          Attrs3     \* TRUE: three writers with every mix and cut; FALSE: mix "mixed" and cut "even" only

VARIABLES cs,       \* the case: [k, chunks, mix, cut]
          pc,       \* writer -> "idle" | "waiting" | "inside" | "done"
          sent,     \* writer -> pieces of its frame on the stream
          left,     \* writer -> offers the plan still has for it
          plan,     \* the offers made so far
          stream    \* what the peer reads: sequence of <<writer, piece>>
vars == <<cs, pc, sent, left, plan, stream>>

Tuples(k, m) == [1..k -> 1..m]
CaseParams ==
  { [k |-> 2, chunks |-> ch, mix |-> mx, cut |-> ct] :
      ch \in Tuples(2, Max2), mx \in D!WwMixes, ct \in D!WwCuts }
  \cup
  (IF Max3 = 0 THEN {} ELSE
  { [k |-> 3, chunks |-> ch, mix |-> mx, cut |-> ct] :
      ch \in Tuples(3, Max3), mx \in (IF Attrs3 THEN D!WwMixes ELSE {"mixed"}), ct \in (IF Attrs3 THEN D!WwCuts ELSE {"even"}) })
\* where the cuts are matters only if something is cut
ValidCase(c) == (\A w \in 1..c.k : c.chunks[w] = 1) => c.cut = "even"

W == 1..cs.k
InsideSet(p)  == {w \in DOMAIN p : p[w] = "inside"}
WaitingSet(p) == {w \in DOMAIN p : p[w] = "waiting"}

Init == /\ cs \in {c \in CaseParams : ValidCase(c)}
        /\ pc = [w \in 1..cs.k |-> "idle"]
        /\ sent = [w \in 1..cs.k |-> 0]
        /\ left = [w \in 1..cs.k |-> 1 + cs.chunks[w]]
        /\ plan = <<>>
        /\ stream = <<>>

\* the underlying writer puts w's next piece on the stream; with the last piece the Write call returns and
\* (Guarded) the connection passes to one of the writers that wait for it, whichever
Deliver(w) ==
  /\ pc[w] = "inside" /\ sent[w] < cs.chunks[w]
  /\ sent' = [sent EXCEPT ![w] = @ + 1]
  /\ stream' = Append(stream, <<w, sent[w] + 1>>)
  /\ IF sent[w] + 1 < cs.chunks[w] THEN pc' = pc
     ELSE IF WaitingSet(pc) = {} THEN pc' = [pc EXCEPT ![w] = "done"]
     ELSE \E v \in WaitingSet(pc) : pc' = [pc EXCEPT ![w] = "done", ![v] = "inside"]

Offer(w) ==
  /\ left[w] > 0
  /\ left' = [left EXCEPT ![w] = @ - 1]
  /\ plan' = Append(plan, w)
  /\ cs' = cs
  /\ CASE pc[w] = "idle" ->        \* w calls Write: it gets the stream at once, or waits while another is inside
            /\ pc' = [pc EXCEPT ![w] = IF Guarded /\ InsideSet(pc) # {} THEN "waiting" ELSE "inside"]
            /\ UNCHANGED <<sent, stream>>
       [] pc[w] = "inside" -> Deliver(w)
       [] OTHER -> UNCHANGED <<pc, sent, stream>>       \* declined: w is not inside the underlying writer

PlanDone == \A w \in W : left[w] = 0
Drain(w) == PlanDone /\ Deliver(w) /\ UNCHANGED <<cs, left, plan>>

Terminal == \A w \in W : pc[w] = "done"
Done == Terminal /\ UNCHANGED vars

Next == (\E w \in W : Offer(w) \/ Drain(w)) \/ Done
Spec == Init /\ [][Next]_vars /\ WF_vars(Next)

TypeOK == /\ pc \in [W -> {"idle", "waiting", "inside", "done"}]
          /\ \A w \in W : sent[w] \in 0..cs.chunks[w] /\ left[w] \in 0..(1 + cs.chunks[w])
          /\ Guarded => Cardinality(InsideSet(pc)) <= 1                   \* mutual exclusion
          /\ (Guarded /\ InsideSet(pc) = {}) => WaitingSet(pc) = {}        \* nobody waits for a free connection

SumChunks == LET f[i \in 0..cs.k] == IF i = 0 THEN 0 ELSE f[i - 1] + cs.chunks[i] IN f[cs.k]

\* FramesIntact on the level of pieces: the pieces of one frame are adjacent and in order, at the end every
\* frame is there, whole, once
Contiguous ==
  /\ \A i, j \in 1..Len(stream) : (i < j /\ stream[i][1] = stream[j][1]) =>
        /\ stream[i][2] < stream[j][2]
        /\ \A m \in i..j : stream[m][1] = stream[i][1]
  /\ Terminal => /\ Len(stream) = SumChunks
                 /\ \A w \in W : \A p \in 1..cs.chunks[w] : \E i \in 1..Len(stream) : stream[i] = <<w, p>>

\* the order in which the frames are on the stream
FrameOrder == LET firsts == SelectSeq(stream, LAMBDA e : e[2] = 1) IN [i \in 1..Len(firsts) |-> firsts[i][1]]

Export == IF Terminal
          THEN PrintT(ToJson([ww |-> TRUE, k |-> cs.k, chunks |-> cs.chunks, mix |-> cs.mix, cut |-> cs.cut,
                              plan |-> plan, order |-> FrameOrder]))
          ELSE TRUE

\* every run ends with every Write returned
Finishes == <>Terminal
=============================================================================
