SPECIFICATION Spec
CONSTANTS
  NConn = 2
  ServerWide = FALSE
  Fine = TRUE
  Family = "pair"
INVARIANT TypeOK
INVARIANT ConcSound
INVARIANT ConcNoModernOverLegacyTransport
INVARIANT ConcExact
INVARIANT ConcFallback
INVARIANT ConcUsable
INVARIANT NonInterference
INVARIANT NonInterferenceList
INVARIANT ExportDone
CHECK_DEADLOCK FALSE
