---------------------------- MODULE LogFilterMC ----------------------------
(* Exhaustive / cover configurations of LogFilter (X03):                      *)
(*   LogFilter_mc_asis*.cfg   the code (AsIs = TRUE): every property that the *)
(*                            code is expected to satisfy, plus liveness       *)
(*   LogFilter_mc_ideal.cfg   the idealised design: ALL properties             *)
(*   LogFilter_cover_*.cfg    state graphs dumped for tools/graphwalk.py       *)
EXTENDS LogFilter

\* slog level sets (a .cfg file cannot hold negative numbers): named levels, levels in between,
\* below debug, above emergency
SlogAll == {-8, -4, -2, 0, 1, 2, 3, 4, 6, 8, 9, 12, 14, 16, 18, 20, 24}
SlogMid == {-8, -4, 1, 4, 9}
SlogFew == {-4, 1, 8}
SlogTwo == {0, 9}
AllNames == NameSet
AllSet == NameSet \cup {"bogus"}
AllReq == NameSet \cup {"bogus", "absent"}

\* reachability witnesses (each must be VIOLATED, otherwise the model is vacuous)
NeverSent      == flight = 0
NeverDropped   == ~(pend.on /\ PLim /\ adm < D)
NeverRaced     == ~pend.raced
NeverStarved   == adm = del
NeverReqLevel  == ~(era = "modern" /\ \E r \in Reqs : reqs[r] \in NameSet /\ reqs[r] # sess /\ sess \in NameSet)
=============================================================================
