SPECIFICATION Spec
CONSTANTS
  N = 2
  SharedFields = {"state"}
  RegModes = {"dcr", "pre"}
  AdvChoices <- AdvUniform
  LaterServers = {"S1", "S2"}
  CbKinds = {"own", "other", "stale", "badiss"}
  TokenOutcomes = {"good"}
INVARIANT ExchangeOnlyOwnState
CHECK_DEADLOCK FALSE
