------------------------------- MODULE SSESat -------------------------------
(* HTTP+SSE satellite of the connection properties C01, C02, C03, C05:        *)
(* 1-2 REAL SDK session pairs (mcp.Client + SSEClientTransport  <->           *)
(* SSEHandler + mcp.Server) over the legacy HTTP+SSE transport (mcp/sse.go),  *)
(* composed with the jsonrpc2 connection on both ends (abstracted to what     *)
(* decides admission, completion and shutdown: internal/jsonrpc2/conn.go).    *)
(*                                                                            *)
(* One action per protocol step / critical section, named after mcp/sse.go:   *)
(*   client -> server   CCall / CNote / CliRespond  sseClientConn.Write: POST *)
(*                      PostArrive   SSEHandler.ServeHTTP: table lookup       *)
(*                      PostPush     SSEServerTransport.ServeHTTP: select     *)
(*                                   {incoming <- msg | <-done}, 202 / 400    *)
(*                      PostBack     the POST's status reaches the writer     *)
(*                      SrvRead      sseServerConn.Read + acceptRequest       *)
(*   server -> client   SrvRespond / HNest / SNote  sseServerConn.Write under *)
(*                                   t.mu: closed check, writeEvent on the    *)
(*                                   hanging GET                              *)
(*                      CliScan      reader goroutine: scanEvents -> incoming *)
(*                      CliRead      sseClientConn.Read + readIncoming        *)
(*   dispatch           SrvDispatch / CliDispatch   handleAsync: one at a     *)
(*                                   time, a notification holds the queue     *)
(*   shutdown           CliConnClose / SrvConnClose  closer.Close when idle   *)
(*                      CliReaderExit, CliReadEOF, SrvReadEOF, CliDone,       *)
(*                      SrvDone (onDone: Server.disconnect), GetWake (the GET *)
(*                      handler's select fires: deferred ss.Close()), GetExit *)
(*                      (deferred delete from SSEHandler.sessions)            *)
(* Environment: Connect, CCall, CNote (optionally followed by a call from the *)
(* same goroutine), HRet (optionally preceded by a notification from the      *)
(* handler), HNest, HAbandon, CHRet, SNote, SNRet, CNRet, faults: Cut (both   *)
(* ends notice / only the client's read fails), an armed POST failure (before *)
(* / after the server saw it), CClose, SClose, Inject (a stream element that  *)
(* is not a message event), holds of the network (stream / POSTs).            *)
(*                                                                            *)
(* Request ids are per-connection sequence numbers, so the k-th call of every *)
(* session carries the SAME id: overlapping ids across sessions are the rule. *)
(* A message carries `src`, the <<session, index>> it was made for: payloads  *)
(* are unique per call, a crossed response is visible.                        *)
EXTENDS Integers, Sequences, FiniteSets, TLC

CONSTANTS NSess,       \* sessions 1..NSess, connected in this order
          CC,          \* client->server tool calls of a session (1..n), issued in this order
          Nest,        \* calls whose handler may make one nested server->client call
          NCN, NSN,    \* client->server / server->client notifications per session
          MaxFaults,   \* faults (cut, close, armed POST failure, inject) per behaviour
          FaultKinds,  \* subset of {"cutB","cutQ","cclose","sclose","pfB","pfA","inject"}
          HoldKinds,   \* subset of {"stream","post"}
          Combos,      \* TRUE: CNote-then-call and note-then-HRet composite actions
          HandsAll,    \* the client's reader hands EVERY block of the stream to the session (as implemented)
          Bug          \* "none" | "route" | "asyncnote" | "noclose" (sensitivity switches)

Sess == 1..NSess
CN == 1..NCN
SN == 1..NSN
ErrOuts == {<<"err">>, <<"closed">>, <<"ctx">>}
None == <<"none">>

VARIABLES up, tab, listed, tr, net, cli, posts, cj, sj, cc, sh, nc, ch, cn, cns, sn, cfu, cl, faults, hurt,
          wrote, cwrote, srd, crd, late, fol
vars == <<up, tab, listed, tr, net, cli, posts, cj, sj, cc, sh, nc, ch, cn, cns, sn, cfu, cl, faults, hurt,
          wrote, cwrote, srd, crd, late, fol>>

J0 == [closing |-> FALSE, rd |-> "run", werr |-> FALSE, tclosed |-> FALSE, done |-> FALSE,
       out |-> {}, inc |-> {}, canc |-> {}, hq |-> <<>>, sync |-> 0, nw |-> 0, pend |-> {}]
Shut(j) == j.closing \/ j.rd = "err" \/ j.werr
Idle(j) == j.out = {} /\ j.inc = {} /\ j.hq = <<>> /\ j.sync = 0 /\ j.nw = 0

NoCall == [st |-> "idle", out |-> None]

Init ==
  /\ up = [s \in Sess |-> FALSE] /\ tab = {} /\ listed = {}
  /\ tr = [s \in Sess |-> [st |-> "none", get |-> "none", q |-> <<>>]]
  /\ net = [s \in Sess |-> [cend |-> "no", swr |-> FALSE, sctx |-> FALSE, buf |-> <<>>, hold |-> FALSE, phold |-> FALSE, pfail |-> "no"]]
  /\ cli = [s \in Sess |-> [st |-> "none", rdr |-> "none", inc |-> <<>>]]
  /\ posts = {}
  /\ cj = [s \in Sess |-> J0] /\ sj = [s \in Sess |-> J0]
  /\ cc = [s \in Sess |-> [k \in CC |-> NoCall]]
  /\ sh = [s \in Sess |-> [k \in CC |-> [st |-> "none", src |-> <<0, 0>>]]]
  /\ nc = [s \in Sess |-> [k \in CC |-> NoCall]]
  /\ ch = [s \in Sess |-> [k \in CC |-> [st |-> "none", src |-> <<0, 0>>]]]
  /\ cn = [s \in Sess |-> [n \in CN |-> "none"]] /\ cns = [s \in Sess |-> [n \in CN |-> "none"]]
  /\ sn = [s \in Sess |-> [n \in SN |-> "none"]]
  /\ cfu = [s \in Sess |-> 0]
  /\ cl = [s \in Sess |-> [c |-> FALSE, s |-> FALSE]]
  /\ faults = 0 /\ hurt = [s \in Sess |-> FALSE]
  /\ wrote = [s \in Sess |-> <<>>] /\ cwrote = [s \in Sess |-> <<>>]
  /\ srd = [s \in Sess |-> <<>>] /\ crd = [s \in Sess |-> <<>>]
  /\ late = [s \in Sess |-> {}] /\ fol = [s \in Sess |-> {}]

-----------------------------------------------------------------------------
\* helpers

\* a jsonrpc2 connection learns that its Writer is broken: every incoming call in flight is cancelled
WErr(j) == [j EXCEPT !.werr = TRUE, !.canc = @ \cup j.inc]

\* sseServerConn.Write: succeeds while the transport is open and the GET response can be written
SrvCanWrite(s) == tr[s].st = "open" /\ net[s].swr
\* a failed write on the dead response: the HTTP server cancels the request at the latest now
NetAfterFailedWrite(s) == IF tr[s].st = "open" /\ ~net[s].swr THEN [net[s] EXCEPT !.sctx = TRUE] ELSE net[s]

\* the client's body is closed by the client (sseClientConn.Close): the server notices
\* (after a cut of the network the server cannot see the client hanging up)
NetClientClosed(n) == [n EXCEPT !.cend = IF @ = "no" THEN "closed" ELSE @, !.buf = <<>>, !.swr = FALSE,
                                !.sctx = IF n.cend = "cut" THEN @ ELSE TRUE]

NextIdle(f, D) == {x \in D : f[x] = "none" /\ \A y \in D : y < x => f[y] # "none"}

-----------------------------------------------------------------------------
\* ENVIRONMENT: connection set-up (GET, endpoint event, initialize handshake: not modelled step by step)
Connect(s) ==
  /\ ~up[s] /\ \A y \in Sess : y < s => up[y]
  /\ up' = [up EXCEPT ![s] = TRUE] /\ tab' = tab \cup {s} /\ listed' = listed \cup {s}
  /\ tr' = [tr EXCEPT ![s] = [st |-> "open", get |-> "run", q |-> <<>>]]
  /\ net' = [net EXCEPT ![s] = [@ EXCEPT !.swr = TRUE]]
  /\ cli' = [cli EXCEPT ![s] = [st |-> "up", rdr |-> "run", inc |-> <<>>]]
  /\ UNCHANGED <<posts, cj, sj, cc, sh, nc, ch, cn, cns, sn, cfu, cl, faults, hurt, wrote, cwrote, srd, crd, late, fol>>

\* ---------------------------------------------------------------- client -> server
NewPost(s, m) == [s |-> s, m |-> m, ph |-> "transit", fate |-> net[s].pfail, status |-> 0, tgt |-> 0, late |-> (tr[s].get = "exited")]

\* ClientSession.CallTool: jsonrpc2.Call registers the call, then sseClientConn.Write POSTs it
DoCCall(s, k) ==
  IF Shut(cj[s])
  THEN /\ cc' = [cc EXCEPT ![s][k] = [st |-> "done", out |-> <<"closed">>]]
       /\ UNCHANGED <<cj, posts, net>>
  ELSE IF cli[s].st = "closed"
  THEN /\ cc' = [cc EXCEPT ![s][k] = [st |-> "done", out |-> <<"err">>]]
       /\ cj' = [cj EXCEPT ![s] = WErr(@)]
       /\ UNCHANGED <<posts, net>>
  ELSE /\ cc' = [cc EXCEPT ![s][k] = [st |-> "reg", out |-> None]]
       /\ cj' = [cj EXCEPT ![s].out = @ \cup {k}]
       /\ posts' = posts \cup {NewPost(s, [t |-> "call", k |-> k, src |-> <<s, k>>])}
       /\ net' = [net EXCEPT ![s].pfail = "no"]
CallNext(s, k) == cc[s][k].st = "idle" /\ \A y \in CC : y < k => cc[s][y].st # "idle"
CCall(s, k) ==
  /\ up[s] /\ CallNext(s, k) /\ cfu[s] = 0
  /\ DoCCall(s, k)
  /\ UNCHANGED <<up, tab, listed, tr, cli, sj, sh, nc, ch, cn, cns, sn, cfu, cl, faults, hurt, wrote, cwrote, srd, crd, late, fol>>

\* ClientSession.NotifyProgress: jsonrpc2.Notify admission, then the POST; fu # 0: the same goroutine calls tool fu
\* as soon as NotifyProgress has returned
CNote(s, n, fu) ==
  /\ up[s] /\ n \in NextIdle(cns[s], CN) /\ cfu[s] = 0
  /\ (fu # 0 => (Combos /\ CallNext(s, fu)))
  /\ IF Shut(cj[s]) /\ cj[s].out = {} /\ cj[s].inc = {}
     THEN cns' = [cns EXCEPT ![s][n] = "refused"] /\ UNCHANGED <<cj, posts, net>>
     ELSE IF cli[s].st = "closed"
     THEN cns' = [cns EXCEPT ![s][n] = "failed"] /\ cj' = [cj EXCEPT ![s] = WErr(@)] /\ UNCHANGED <<posts, net>>
     ELSE /\ cns' = [cns EXCEPT ![s][n] = "posting"]
          /\ cj' = [cj EXCEPT ![s].nw = @ + 1]
          /\ posts' = posts \cup {NewPost(s, [t |-> "note", k |-> n, src |-> <<s, n>>])}
          /\ net' = [net EXCEPT ![s].pfail = "no"]
  /\ cfu' = [cfu EXCEPT ![s] = fu]
  /\ fol' = IF fu # 0 THEN [fol EXCEPT ![s] = @ \cup {<<n, fu>>}] ELSE fol
  /\ UNCHANGED <<up, tab, listed, tr, cli, sj, cc, sh, nc, ch, cn, sn, cl, faults, hurt, wrote, cwrote, srd, crd, late>>

\* the goroutine that sent a notification goes on with its call once NotifyProgress has returned
CliFollowUp(s) ==
  /\ cfu[s] # 0 /\ \A n \in CN : cns[s][n] # "posting"
  /\ DoCCall(s, cfu[s])
  /\ cfu' = [cfu EXCEPT ![s] = 0]
  /\ UNCHANGED <<up, tab, listed, tr, cli, sj, sh, nc, ch, cn, cns, sn, cl, faults, hurt, wrote, cwrote, srd, crd, late, fol>>

\* SSEHandler.ServeHTTP (POST): the request reaches the server (unless the network held or lost it)
PostArrive(p) ==
  /\ p \in posts /\ p.ph = "transit" /\ ~net[p.s].phold
  /\ \/ /\ p.fate = "B"
        /\ posts' = (posts \ {p}) \cup {[p EXCEPT !.ph = "back", !.status = -1]}
     \/ /\ p.fate # "B"
        /\ \E t \in (IF Bug = "route" THEN tab \cup {p.s} ELSE {p.s}) :
             posts' = (posts \ {p}) \cup {IF t \in tab THEN [p EXCEPT !.ph = "body", !.tgt = t]
                                                     ELSE [p EXCEPT !.ph = "back", !.status = 404]}
  /\ UNCHANGED <<up, tab, listed, tr, net, cli, cj, sj, cc, sh, nc, ch, cn, cns, sn, cfu, cl, faults, hurt, wrote, cwrote, srd, crd, late, fol>>

\* SSEServerTransport.ServeHTTP: select { t.incoming <- msg: 202 | <-t.done: 400 } (no lock: with the transport
\* closed and room in the queue both cases are ready)
PostPush(p) ==
  /\ p \in posts /\ p.ph = "body"
  /\ LET st(code) == IF p.fate = "A" THEN -1 ELSE code IN
     \/ /\ tr[p.tgt].st = "closed"
        /\ posts' = (posts \ {p}) \cup {[p EXCEPT !.ph = "back", !.status = st(400)]}
        /\ UNCHANGED tr
     \/ /\ tr' = [tr EXCEPT ![p.tgt].q = Append(@, p.m)]
        /\ posts' = (posts \ {p}) \cup {[p EXCEPT !.ph = "back", !.status = st(202)]}
  /\ UNCHANGED <<up, tab, listed, net, cli, cj, sj, cc, sh, nc, ch, cn, cns, sn, cfu, cl, faults, hurt, wrote, cwrote, srd, crd, late, fol>>

\* sseClientConn.Write returns to jsonrpc2.write
PostBack(p) ==
  /\ p \in posts /\ p.ph = "back"
  /\ posts' = posts \ {p}
  /\ LET s == p.s
         ok == p.status = 202
         j1 == IF ok THEN cj[s] ELSE WErr(cj[s]) IN
     CASE p.m.t = "call" ->
            /\ IF p.m.k \in cj[s].out
               THEN IF ok THEN cc' = [cc EXCEPT ![s][p.m.k].st = "wait"] /\ cj' = [cj EXCEPT ![s] = j1]
                    ELSE /\ cc' = [cc EXCEPT ![s][p.m.k] = [st |-> "done", out |-> <<"err">>]]
                         /\ cj' = [cj EXCEPT ![s] = [j1 EXCEPT !.out = @ \ {p.m.k}]]
               ELSE cc' = cc /\ cj' = [cj EXCEPT ![s] = j1]
            /\ UNCHANGED cns
       [] p.m.t = "note" ->
            /\ cns' = [cns EXCEPT ![s][p.m.k] = IF ok THEN "acked" ELSE "failed"]
            /\ cj' = [cj EXCEPT ![s] = [j1 EXCEPT !.nw = @ - 1]]
            /\ UNCHANGED cc
       [] OTHER ->   \* the response to a nested call: processResult decrements `incoming` after the write
            /\ cj' = [cj EXCEPT ![s] = [j1 EXCEPT !.inc = @ \ {p.m.k}]]
            /\ UNCHANGED <<cc, cns>>
  /\ UNCHANGED <<up, tab, listed, tr, net, cli, sj, sh, nc, ch, cn, sn, cfu, cl, faults, hurt, wrote, cwrote, srd, crd, late, fol>>

\* sseServerConn.Read + readIncoming / acceptRequest on the server
SrvRead(s) ==
  /\ sj[s].rd = "run" /\ tr[s].q # <<>>
  /\ LET m == Head(tr[s].q) IN
     /\ tr' = [tr EXCEPT ![s].q = Tail(@)]
     /\ CASE m.t = "call" ->
               /\ srd' = [srd EXCEPT ![s] = Append(@, <<"call", m.k>>)]
               /\ IF Shut(sj[s])
                  THEN /\ sj' = [sj EXCEPT ![s].inc = @ \cup {m.k}, ![s].pend = @ \cup {[k |-> m.k, o |-> <<"err">>]}]
                       /\ late' = [late EXCEPT ![s] = @ \cup {m.k}]
                       /\ UNCHANGED sh
                  ELSE /\ sj' = [sj EXCEPT ![s].inc = @ \cup {m.k}, ![s].hq = Append(@, <<"call", m.k>>)]
                       /\ sh' = [sh EXCEPT ![s][m.k] = [st |-> "queued", src |-> m.src]]
                       /\ UNCHANGED late
               /\ UNCHANGED <<nc, cn>>
          [] m.t = "note" ->
               /\ IF Shut(sj[s])
                  THEN cn' = [cn EXCEPT ![s][m.k] = "lost"] /\ UNCHANGED <<sj, srd>>
                  ELSE /\ sj' = [sj EXCEPT ![s].hq = Append(@, <<"note", m.k>>)]
                       /\ srd' = [srd EXCEPT ![s] = Append(@, <<"note", m.k>>)]
                       /\ UNCHANGED cn
               /\ UNCHANGED <<sh, nc, late>>
          [] OTHER ->    \* response to a nested call: matched by id only
               /\ IF m.k \in sj[s].out
                  THEN /\ sj' = [sj EXCEPT ![s].out = @ \ {m.k}]
                       /\ nc' = [nc EXCEPT ![s][m.k] = [st |-> "done", out |-> m.o]]
                       /\ sh' = [sh EXCEPT ![s][m.k].st = IF @ = "nest" THEN "run" ELSE @]
                  ELSE UNCHANGED <<sj, nc, sh>>
               /\ UNCHANGED <<cn, srd, late>>
  /\ UNCHANGED <<up, tab, listed, net, cli, posts, cj, cc, ch, cns, sn, cfu, cl, faults, hurt, wrote, cwrote, crd, fol>>

\* handleAsync on the server: one request at a time; a call releases the queue at once (jsonrpc2.Async), a
\* notification holds it until its handler has returned
SrvDispatch(s) ==
  /\ sj[s].hq # <<>> /\ sj[s].sync = 0
  /\ LET x == Head(sj[s].hq) IN
     IF x[1] = "call"
     THEN IF x[2] \in sj[s].canc
          THEN /\ sj' = [sj EXCEPT ![s].hq = Tail(@), ![s].pend = @ \cup {[k |-> x[2], o |-> <<"err">>]}]
               /\ sh' = [sh EXCEPT ![s][x[2]].st = "skip"] /\ UNCHANGED cn
          ELSE /\ sj' = [sj EXCEPT ![s].hq = Tail(@)]
               /\ sh' = [sh EXCEPT ![s][x[2]].st = "run"] /\ UNCHANGED cn
     ELSE /\ sj' = [sj EXCEPT ![s].hq = Tail(@), ![s].sync = IF Bug = "asyncnote" THEN 0 ELSE x[2]]
          /\ cn' = [cn EXCEPT ![s][x[2]] = "run"] /\ UNCHANGED sh
  /\ UNCHANGED <<up, tab, listed, tr, net, cli, posts, cj, cc, nc, ch, cns, sn, cfu, cl, faults, hurt, wrote, cwrote, srd, crd, late, fol>>

\* ENVIRONMENT: the server's notification handler returns
SNRet(s, n) ==
  /\ cn[s][n] = "run"
  /\ cn' = [cn EXCEPT ![s][n] = "end"]
  /\ sj' = [sj EXCEPT ![s].sync = IF @ = n THEN 0 ELSE @]
  /\ UNCHANGED <<up, tab, listed, tr, net, cli, posts, cj, cc, sh, nc, ch, cns, sn, cfu, cl, faults, hurt, wrote, cwrote, srd, crd, late, fol>>

\* ---------------------------------------------------------------- server -> client
\* a notification written by the server session: jsonrpc2.Notify admission, then sseServerConn.Write
NoteOutcome(s) == IF Shut(sj[s]) /\ sj[s].out = {} /\ sj[s].inc = {} THEN "refused"
                  ELSE IF SrvCanWrite(s) THEN "sent" ELSE "failed"
SjAfterNote(s) == IF NoteOutcome(s) = "failed" THEN WErr(sj[s]) ELSE sj[s]
NetAfterNote(s, n) == IF NoteOutcome(s) = "sent" THEN [net[s] EXCEPT !.buf = Append(@, [t |-> "note", k |-> n, src |-> <<s, n>>])]
                      ELSE IF NoteOutcome(s) = "failed" THEN NetAfterFailedWrite(s) ELSE net[s]
SNote(s, n) ==
  /\ up[s] /\ s \in listed /\ n \in NextIdle(sn[s], SN)
  /\ sn' = [sn EXCEPT ![s][n] = NoteOutcome(s)]
  /\ sj' = [sj EXCEPT ![s] = SjAfterNote(s)]
  /\ net' = [net EXCEPT ![s] = NetAfterNote(s, n)]
  /\ UNCHANGED <<up, tab, listed, tr, cli, posts, cj, cc, sh, nc, ch, cn, cns, cfu, cl, faults, hurt, wrote, cwrote, srd, crd, late, fol>>

\* ENVIRONMENT: the tool handler returns its result (wn: it sends a progress notification first, same goroutine)
HRet(s, k, wn) ==
  /\ sh[s][k].st = "run"
  /\ (wn => (Combos /\ NextIdle(sn[s], SN) # {}))
  /\ sh' = [sh EXCEPT ![s][k].st = "ret"]
  /\ IF wn
     THEN \E n \in NextIdle(sn[s], SN) :
            /\ sn' = [sn EXCEPT ![s][n] = NoteOutcome(s)]
            /\ sj' = [sj EXCEPT ![s] = [SjAfterNote(s) EXCEPT !.pend = @ \cup {[k |-> k, o |-> sh[s][k].src]}]]
            /\ net' = [net EXCEPT ![s] = NetAfterNote(s, n)]
     ELSE /\ sj' = [sj EXCEPT ![s].pend = @ \cup {[k |-> k, o |-> sh[s][k].src]}]
          /\ UNCHANGED <<sn, net>>
  /\ UNCHANGED <<up, tab, listed, tr, cli, posts, cj, cc, nc, ch, cn, cns, cfu, cl, faults, hurt, wrote, cwrote, srd, crd, late, fol>>

\* processResult on the server: the response is written (responses are admitted while the Writer works) and the
\* request leaves the in-flight set
SrvRespond(s, r) ==
  /\ r \in sj[s].pend
  /\ LET j1 == [sj[s] EXCEPT !.pend = @ \ {r}, !.inc = @ \ {r.k}, !.canc = @ \ {r.k}] IN
     IF sj[s].werr
     THEN sj' = [sj EXCEPT ![s] = j1] /\ UNCHANGED <<net, wrote>>
     ELSE IF SrvCanWrite(s)
     THEN /\ sj' = [sj EXCEPT ![s] = j1]
          /\ net' = [net EXCEPT ![s].buf = Append(@, [t |-> "resp", k |-> r.k, o |-> r.o])]
          /\ wrote' = [wrote EXCEPT ![s] = Append(@, r)]
     ELSE /\ sj' = [sj EXCEPT ![s] = WErr(j1)]
          /\ net' = [net EXCEPT ![s] = NetAfterFailedWrite(s)]
          /\ UNCHANGED wrote
  /\ IF sh[s][r.k].st = "ret" THEN sh' = [sh EXCEPT ![s][r.k].st = "end"] ELSE UNCHANGED sh
  /\ UNCHANGED <<up, tab, listed, tr, cli, posts, cj, cc, nc, ch, cn, cns, sn, cfu, cl, faults, hurt, cwrote, srd, crd, late, fol>>

\* ENVIRONMENT: the running tool handler makes a nested call to the client (its own context); wn: the same goroutine
\* sends a progress notification first
NestAfter(s, k, j, nt) ==     \* the nested call, issued in connection state j over network state nt
  IF Shut(j)
  THEN /\ nc' = [nc EXCEPT ![s][k] = [st |-> "done", out |-> <<"closed">>]] /\ sj' = [sj EXCEPT ![s] = j]
       /\ net' = [net EXCEPT ![s] = nt] /\ UNCHANGED sh
  ELSE IF tr[s].st = "open" /\ nt.swr
  THEN /\ nc' = [nc EXCEPT ![s][k] = [st |-> "wait", out |-> None]]
       /\ sj' = [sj EXCEPT ![s] = [j EXCEPT !.out = @ \cup {k}]]
       /\ net' = [net EXCEPT ![s] = [nt EXCEPT !.buf = Append(@, [t |-> "sreq", k |-> k, src |-> <<s, k>>])]]
       /\ sh' = [sh EXCEPT ![s][k].st = "nest"]
  ELSE /\ nc' = [nc EXCEPT ![s][k] = [st |-> "done", out |-> <<"err">>]]
       /\ sj' = [sj EXCEPT ![s] = WErr(j)]
       /\ net' = [net EXCEPT ![s] = IF tr[s].st = "open" /\ ~nt.swr THEN [nt EXCEPT !.sctx = TRUE] ELSE nt]
       /\ UNCHANGED sh
HNest(s, k, wn) ==
  /\ sh[s][k].st = "run" /\ k \in Nest /\ nc[s][k].st = "idle"
  /\ (wn => (Combos /\ NextIdle(sn[s], SN) # {}))
  /\ IF wn
     THEN \E n \in NextIdle(sn[s], SN) :
            /\ sn' = [sn EXCEPT ![s][n] = NoteOutcome(s)]
            /\ NestAfter(s, k, SjAfterNote(s), NetAfterNote(s, n))
     ELSE NestAfter(s, k, sj[s], net[s]) /\ UNCHANGED sn
  /\ UNCHANGED <<up, tab, listed, tr, cli, posts, cj, cc, ch, cn, cns, cfu, cl, faults, hurt, wrote, cwrote, srd, crd, late, fol>>

\* ENVIRONMENT: the handler gives its nested call up (cancels the call's own context; the notice is C04's business)
HAbandon(s, k) ==
  /\ sh[s][k].st = "nest" /\ nc[s][k].st = "wait"
  /\ nc' = [nc EXCEPT ![s][k] = [st |-> "done", out |-> <<"ctx">>]]
  /\ sj' = [sj EXCEPT ![s].out = @ \ {k}]
  /\ sh' = [sh EXCEPT ![s][k].st = "run"]
  /\ UNCHANGED <<up, tab, listed, tr, net, cli, posts, cj, cc, ch, cn, cns, sn, cfu, cl, faults, hurt, wrote, cwrote, srd, crd, late, fol>>

\* the reader goroutine of SSEClientTransport.Connect: next block of the stream -> s.incoming
CliScan(s) ==
  /\ cli[s].rdr = "run" /\ cli[s].st = "up" /\ net[s].buf # <<>> /\ ~net[s].hold /\ net[s].cend \in {"no", "eof"}
  /\ LET m == Head(net[s].buf) IN
     /\ net' = [net EXCEPT ![s].buf = Tail(@)]
     /\ cli' = IF m.t = "other" /\ ~HandsAll THEN cli ELSE [cli EXCEPT ![s].inc = Append(@, m)]
  /\ UNCHANGED <<up, tab, listed, tr, posts, cj, sj, cc, sh, nc, ch, cn, cns, sn, cfu, cl, faults, hurt, wrote, cwrote, srd, crd, late, fol>>

\* ... its end: the body failed, ended, or the connection was closed; `defer s.Close()`
CliReaderExit(s) ==
  /\ cli[s].rdr = "run"
  /\ \/ net[s].cend \in {"cut", "closed"} \/ cli[s].st = "closed"
     \/ (net[s].cend = "eof" /\ net[s].buf = <<>> /\ ~net[s].hold)
  /\ cli' = [cli EXCEPT ![s].rdr = "exit", ![s].st = IF Bug = "noclose" THEN @ ELSE "closed"]
  /\ net' = IF cli[s].st = "up" /\ Bug # "noclose" THEN [net EXCEPT ![s] = NetClientClosed(@)] ELSE net
  /\ UNCHANGED <<up, tab, listed, tr, posts, cj, sj, cc, sh, nc, ch, cn, cns, sn, cfu, cl, faults, hurt, wrote, cwrote, srd, crd, late, fol>>

\* the read loop of the client's jsonrpc2 connection ends: every outstanding call is retired
ReaderDown(j) == [j EXCEPT !.rd = "err", !.out = {}, !.canc = @ \cup j.inc]
CliReadEOF(s) ==
  /\ cj[s].rd = "run" /\ cli[s].st = "closed"
  /\ cj' = [cj EXCEPT ![s] = ReaderDown(@)]
  /\ cc' = [cc EXCEPT ![s] = [k \in CC |-> IF k \in cj[s].out THEN [st |-> "done", out |-> <<"err">>] ELSE cc[s][k]]]
  /\ UNCHANGED <<up, tab, listed, tr, net, cli, posts, sj, sh, nc, ch, cn, cns, sn, cfu, cl, faults, hurt, wrote, cwrote, srd, crd, late, fol>>

\* sseClientConn.Read + readIncoming / acceptRequest on the client
CliRead(s) ==
  /\ cj[s].rd = "run" /\ cli[s].st = "up" /\ cli[s].inc # <<>>
  /\ LET m == Head(cli[s].inc) IN
     /\ cli' = [cli EXCEPT ![s].inc = Tail(@)]
     /\ CASE m.t = "resp" ->
               /\ IF m.k \in cj[s].out
                  THEN /\ cj' = [cj EXCEPT ![s].out = @ \ {m.k}]
                       /\ cc' = [cc EXCEPT ![s][m.k] = [st |-> "done", out |-> m.o]]
                  ELSE UNCHANGED <<cj, cc>>
               /\ UNCHANGED <<ch, sn, crd>>
          [] m.t = "sreq" ->
               /\ crd' = [crd EXCEPT ![s] = Append(@, <<"call", m.k>>)]
               /\ IF Shut(cj[s])
                  THEN /\ cj' = [cj EXCEPT ![s].inc = @ \cup {m.k}, ![s].pend = @ \cup {[k |-> m.k, o |-> <<"err">>]}]
                       /\ UNCHANGED ch
                  ELSE /\ cj' = [cj EXCEPT ![s].inc = @ \cup {m.k}, ![s].hq = Append(@, <<"call", m.k>>)]
                       /\ ch' = [ch EXCEPT ![s][m.k] = [st |-> "queued", src |-> m.src]]
               /\ UNCHANGED <<cc, sn>>
          [] m.t = "note" ->
               /\ IF Shut(cj[s])
                  THEN sn' = [sn EXCEPT ![s][m.k] = "lost"] /\ UNCHANGED <<cj, crd>>
                  ELSE /\ cj' = [cj EXCEPT ![s].hq = Append(@, <<"note", m.k>>)]
                       /\ crd' = [crd EXCEPT ![s] = Append(@, <<"note", m.k>>)]
                       /\ UNCHANGED sn
               /\ UNCHANGED <<cc, ch>>
          [] OTHER ->   \* a block that is not a message: jsonrpc2.DecodeMessage fails, the read loop ends
               /\ cj' = [cj EXCEPT ![s] = ReaderDown(@)]
               /\ cc' = [cc EXCEPT ![s] = [k \in CC |-> IF k \in cj[s].out THEN [st |-> "done", out |-> <<"err">>] ELSE cc[s][k]]]
               /\ UNCHANGED <<ch, sn, crd>>
  /\ UNCHANGED <<up, tab, listed, tr, net, posts, sj, sh, nc, cn, cns, cfu, cl, faults, hurt, wrote, cwrote, srd, late, fol>>

CliDispatch(s) ==
  /\ cj[s].hq # <<>> /\ cj[s].sync = 0
  /\ LET x == Head(cj[s].hq) IN
     IF x[1] = "call"
     THEN IF x[2] \in cj[s].canc
          THEN /\ cj' = [cj EXCEPT ![s].hq = Tail(@), ![s].pend = @ \cup {[k |-> x[2], o |-> <<"err">>]}]
               /\ ch' = [ch EXCEPT ![s][x[2]].st = "skip"] /\ UNCHANGED sn
          ELSE /\ cj' = [cj EXCEPT ![s].hq = Tail(@)]
               /\ ch' = [ch EXCEPT ![s][x[2]].st = "run"] /\ UNCHANGED sn
     ELSE /\ cj' = [cj EXCEPT ![s].hq = Tail(@), ![s].sync = IF Bug = "asyncnote" THEN 0 ELSE x[2]]
          /\ sn' = [sn EXCEPT ![s][x[2]] = "run"] /\ UNCHANGED ch
  /\ UNCHANGED <<up, tab, listed, tr, net, cli, posts, sj, cc, sh, nc, cn, cns, cfu, cl, faults, hurt, wrote, cwrote, srd, crd, late, fol>>

\* ENVIRONMENT: the client's handlers return
CNRet(s, n) ==
  /\ sn[s][n] = "run"
  /\ sn' = [sn EXCEPT ![s][n] = "end"]
  /\ cj' = [cj EXCEPT ![s].sync = IF @ = n THEN 0 ELSE @]
  /\ UNCHANGED <<up, tab, listed, tr, net, cli, posts, sj, cc, sh, nc, ch, cn, cns, cfu, cl, faults, hurt, wrote, cwrote, srd, crd, late, fol>>
CHRet(s, k) ==
  /\ ch[s][k].st = "run"
  /\ ch' = [ch EXCEPT ![s][k].st = "ret"]
  /\ cj' = [cj EXCEPT ![s].pend = @ \cup {[k |-> k, o |-> ch[s][k].src]}]
  /\ UNCHANGED <<up, tab, listed, tr, net, cli, posts, sj, cc, sh, nc, cn, cns, sn, cfu, cl, faults, hurt, wrote, cwrote, srd, crd, late, fol>>

\* processResult on the client: the response is POSTed
CliRespond(s, r) ==
  /\ r \in cj[s].pend
  /\ LET j1 == [cj[s] EXCEPT !.pend = @ \ {r}, !.canc = @ \ {r.k}] IN
     IF cj[s].werr
     THEN cj' = [cj EXCEPT ![s] = [j1 EXCEPT !.inc = @ \ {r.k}]] /\ UNCHANGED <<posts, net, cwrote>>
     ELSE IF cli[s].st = "closed"
     THEN cj' = [cj EXCEPT ![s] = WErr([j1 EXCEPT !.inc = @ \ {r.k}])] /\ UNCHANGED <<posts, net, cwrote>>
     ELSE /\ cj' = [cj EXCEPT ![s] = j1]
          /\ posts' = posts \cup {NewPost(s, [t |-> "resp", k |-> r.k, o |-> r.o, src |-> <<s, r.k>>])}
          /\ net' = [net EXCEPT ![s].pfail = "no"]
          /\ cwrote' = [cwrote EXCEPT ![s] = Append(@, r)]
  /\ IF ch[s][r.k].st = "ret" THEN ch' = [ch EXCEPT ![s][r.k].st = "end"] ELSE UNCHANGED ch
  /\ UNCHANGED <<up, tab, listed, tr, cli, sj, cc, sh, nc, cn, cns, sn, cfu, cl, faults, hurt, wrote, srd, crd, late, fol>>

\* ---------------------------------------------------------------- shutdown
\* jsonrpc2: idle and shutting down -> closer.Close().  sseClientConn.Close closes the GET body
CliConnClose(s) ==
  /\ up[s] /\ Shut(cj[s]) /\ Idle(cj[s]) /\ ~cj[s].tclosed
  /\ cj' = [cj EXCEPT ![s].tclosed = TRUE]
  /\ cli' = [cli EXCEPT ![s].st = "closed"]
  /\ net' = IF cli[s].st = "up" THEN [net EXCEPT ![s] = NetClientClosed(@)] ELSE net
  /\ UNCHANGED <<up, tab, listed, tr, posts, sj, cc, sh, nc, ch, cn, cns, sn, cfu, cl, faults, hurt, wrote, cwrote, srd, crd, late, fol>>
CliDone(s) ==
  /\ cj[s].tclosed /\ cj[s].rd = "err" /\ Idle(cj[s]) /\ ~cj[s].done
  /\ cj' = [cj EXCEPT ![s].done = TRUE]
  /\ UNCHANGED <<up, tab, listed, tr, net, cli, posts, sj, cc, sh, nc, ch, cn, cns, sn, cfu, cl, faults, hurt, wrote, cwrote, srd, crd, late, fol>>

\* sseServerConn.Close: closed flag, done channel
SrvConnClose(s) ==
  /\ up[s] /\ Shut(sj[s]) /\ Idle(sj[s]) /\ ~sj[s].tclosed
  /\ sj' = [sj EXCEPT ![s].tclosed = TRUE]
  /\ tr' = [tr EXCEPT ![s].st = "closed"]
  /\ UNCHANGED <<up, tab, listed, net, cli, posts, cj, cc, sh, nc, ch, cn, cns, sn, cfu, cl, faults, hurt, wrote, cwrote, srd, crd, late, fol>>
SrvReadEOF(s) ==
  /\ sj[s].rd = "run" /\ tr[s].st = "closed"
  /\ sj' = [sj EXCEPT ![s] = ReaderDown(@)]
  /\ nc' = [nc EXCEPT ![s] = [k \in CC |-> IF k \in sj[s].out THEN [st |-> "done", out |-> <<"err">>] ELSE nc[s][k]]]
  /\ sh' = [sh EXCEPT ![s] = [k \in CC |-> IF k \in sj[s].out /\ sh[s][k].st = "nest" THEN [sh[s][k] EXCEPT !.st = "run"] ELSE sh[s][k]]]
  /\ UNCHANGED <<up, tab, listed, tr, net, cli, posts, cj, cc, ch, cn, cns, sn, cfu, cl, faults, hurt, wrote, cwrote, srd, crd, late, fol>>
\* the connection is done: OnDone -> Server.disconnect
SrvDone(s) ==
  /\ sj[s].tclosed /\ sj[s].rd = "err" /\ Idle(sj[s]) /\ ~sj[s].done
  /\ sj' = [sj EXCEPT ![s].done = TRUE]
  /\ listed' = listed \ {s}
  /\ UNCHANGED <<up, tab, tr, net, cli, posts, cj, cc, sh, nc, ch, cn, cns, sn, cfu, cl, faults, hurt, wrote, cwrote, srd, crd, late, fol>>

\* SSEHandler.ServeHTTP (GET): select { <-req.Context().Done() | <-transport.done } fires; deferred ss.Close()
GetWake(s) ==
  /\ tr[s].get = "run" /\ (net[s].sctx \/ tr[s].st = "closed")
  /\ tr' = [tr EXCEPT ![s].get = "woken"]
  /\ sj' = [sj EXCEPT ![s].closing = TRUE]
  /\ UNCHANGED <<up, tab, listed, net, cli, posts, cj, cc, sh, nc, ch, cn, cns, sn, cfu, cl, faults, hurt, wrote, cwrote, srd, crd, late, fol>>
\* ... ss.Close() has returned: deferred delete from the table, the response ends
GetExit(s) ==
  /\ tr[s].get = "woken" /\ sj[s].done
  /\ tr' = [tr EXCEPT ![s].get = "exited"]
  /\ tab' = tab \ {s}
  /\ net' = [net EXCEPT ![s].cend = IF @ = "no" THEN "eof" ELSE @, ![s].swr = FALSE]
  /\ UNCHANGED <<up, listed, cli, posts, cj, sj, cc, sh, nc, ch, cn, cns, sn, cfu, cl, faults, hurt, wrote, cwrote, srd, crd, late, fol>>

\* ---------------------------------------------------------------- ENVIRONMENT: faults and holds
Fault(s, kind) == /\ kind \in FaultKinds /\ faults < MaxFaults /\ faults' = faults + 1
                  /\ hurt' = IF kind = "inject" THEN hurt ELSE [hurt EXCEPT ![s] = TRUE]
Cut(s, how) ==
  /\ up[s] /\ net[s].cend = "no" /\ Fault(s, IF how = "B" THEN "cutB" ELSE "cutQ")
  /\ net' = [net EXCEPT ![s].cend = "cut", ![s].buf = <<>>, ![s].swr = FALSE, ![s].sctx = (how = "B")]
  /\ UNCHANGED <<up, tab, listed, tr, cli, posts, cj, sj, cc, sh, nc, ch, cn, cns, sn, cfu, cl, wrote, cwrote, srd, crd, late, fol>>
CClose(s) ==
  /\ up[s] /\ ~cl[s].c /\ Fault(s, "cclose")
  /\ cl' = [cl EXCEPT ![s].c = TRUE]
  /\ cj' = [cj EXCEPT ![s].closing = TRUE]
  /\ UNCHANGED <<up, tab, listed, tr, net, cli, posts, sj, cc, sh, nc, ch, cn, cns, sn, cfu, wrote, cwrote, srd, crd, late, fol>>
SClose(s) ==
  /\ up[s] /\ ~cl[s].s /\ s \in listed /\ Fault(s, "sclose")
  /\ cl' = [cl EXCEPT ![s].s = TRUE]
  /\ sj' = [sj EXCEPT ![s].closing = TRUE]
  /\ UNCHANGED <<up, tab, listed, tr, net, cli, posts, cj, cc, sh, nc, ch, cn, cns, sn, cfu, wrote, cwrote, srd, crd, late, fol>>
ArmPF(s, how) ==
  /\ up[s] /\ net[s].pfail = "no" /\ cli[s].st = "up" /\ Fault(s, IF how = "B" THEN "pfB" ELSE "pfA")
  /\ net' = [net EXCEPT ![s].pfail = how]
  /\ UNCHANGED <<up, tab, listed, tr, cli, posts, cj, sj, cc, sh, nc, ch, cn, cns, sn, cfu, cl, wrote, cwrote, srd, crd, late, fol>>
Inject(s) ==
  /\ up[s] /\ net[s].cend = "no" /\ net[s].swr /\ Fault(s, "inject")
  /\ net' = [net EXCEPT ![s].buf = Append(@, [t |-> "other", k |-> 0])]
  /\ UNCHANGED <<up, tab, listed, tr, cli, posts, cj, sj, cc, sh, nc, ch, cn, cns, sn, cfu, cl, wrote, cwrote, srd, crd, late, fol>>
HoldStream(s) ==
  /\ "stream" \in HoldKinds /\ up[s] /\ ~net[s].hold /\ net[s].cend = "no"
  /\ net' = [net EXCEPT ![s].hold = TRUE]
  /\ UNCHANGED <<up, tab, listed, tr, cli, posts, cj, sj, cc, sh, nc, ch, cn, cns, sn, cfu, cl, faults, hurt, wrote, cwrote, srd, crd, late, fol>>
RelStream(s) ==
  /\ net[s].hold
  /\ net' = [net EXCEPT ![s].hold = FALSE]
  /\ UNCHANGED <<up, tab, listed, tr, cli, posts, cj, sj, cc, sh, nc, ch, cn, cns, sn, cfu, cl, faults, hurt, wrote, cwrote, srd, crd, late, fol>>
HoldPost(s) ==
  /\ "post" \in HoldKinds /\ up[s] /\ ~net[s].phold /\ cli[s].st = "up"
  /\ net' = [net EXCEPT ![s].phold = TRUE]
  /\ UNCHANGED <<up, tab, listed, tr, cli, posts, cj, sj, cc, sh, nc, ch, cn, cns, sn, cfu, cl, faults, hurt, wrote, cwrote, srd, crd, late, fol>>
RelPost(s) ==
  /\ net[s].phold
  /\ net' = [net EXCEPT ![s].phold = FALSE]
  /\ UNCHANGED <<up, tab, listed, tr, cli, posts, cj, sj, cc, sh, nc, ch, cn, cns, sn, cfu, cl, faults, hurt, wrote, cwrote, srd, crd, late, fol>>

-----------------------------------------------------------------------------
Internal ==
  \/ \E p \in posts : PostArrive(p)
  \/ \E p \in posts : PostPush(p)
  \/ \E p \in posts : PostBack(p)
  \/ \E s \in Sess : SrvRead(s)
  \/ \E s \in Sess : SrvDispatch(s)
  \/ \E s \in Sess : CliScan(s)
  \/ \E s \in Sess : CliReaderExit(s)
  \/ \E s \in Sess : CliReadEOF(s)
  \/ \E s \in Sess : CliRead(s)
  \/ \E s \in Sess : CliDispatch(s)
  \/ \E s \in Sess : CliFollowUp(s)
  \/ \E s \in Sess : CliConnClose(s)
  \/ \E s \in Sess : CliDone(s)
  \/ \E s \in Sess : SrvConnClose(s)
  \/ \E s \in Sess : SrvReadEOF(s)
  \/ \E s \in Sess : SrvDone(s)
  \/ \E s \in Sess : GetWake(s)
  \/ \E s \in Sess : GetExit(s)
  \/ \E s \in Sess : \E r \in sj[s].pend : SrvRespond(s, r)
  \/ \E s \in Sess : \E r \in cj[s].pend : CliRespond(s, r)
Env ==
  \/ \E s \in Sess : Connect(s)
  \/ \E s \in Sess, k \in CC : CCall(s, k)
  \/ \E s \in Sess, k \in CC, wn \in BOOLEAN : HNest(s, k, wn)
  \/ \E s \in Sess, k \in CC : HAbandon(s, k)
  \/ \E s \in Sess, k \in CC : CHRet(s, k)
  \/ \E s \in Sess, k \in CC, wn \in BOOLEAN : HRet(s, k, wn)
  \/ \E s \in Sess, n \in CN : SNRet(s, n)
  \/ \E s \in Sess, n \in CN, fu \in CC \cup {0} : CNote(s, n, fu)
  \/ \E s \in Sess, n \in SN : SNote(s, n)
  \/ \E s \in Sess, n \in SN : CNRet(s, n)
  \/ \E s \in Sess, how \in {"B", "Q"} : Cut(s, how)
  \/ \E s \in Sess, how \in {"B", "A"} : ArmPF(s, how)
  \/ \E s \in Sess : CClose(s)
  \/ \E s \in Sess : SClose(s)
  \/ \E s \in Sess : Inject(s)
  \/ \E s \in Sess : HoldStream(s)
  \/ \E s \in Sess : RelStream(s)
  \/ \E s \in Sess : HoldPost(s)
  \/ \E s \in Sess : RelPost(s)
Next == Internal \/ Env
Spec == Init /\ [][Next]_vars

\* fairness: the SDK's goroutines run; the environment pays its debts (handlers return, a handler whose peer
\* cannot answer gives its nested call up, the network releases what it holds)
Fair ==
  /\ WF_vars(\E p \in posts : PostArrive(p)) /\ WF_vars(\E p \in posts : PostPush(p)) /\ WF_vars(\E p \in posts : PostBack(p))
  /\ \A s \in Sess :
       /\ WF_vars(SrvRead(s)) /\ WF_vars(SrvDispatch(s)) /\ WF_vars(CliScan(s)) /\ WF_vars(CliReaderExit(s))
       /\ WF_vars(CliReadEOF(s)) /\ WF_vars(CliRead(s)) /\ WF_vars(CliDispatch(s)) /\ WF_vars(CliFollowUp(s))
       /\ WF_vars(CliConnClose(s)) /\ WF_vars(CliDone(s)) /\ WF_vars(SrvConnClose(s)) /\ WF_vars(SrvReadEOF(s))
       /\ WF_vars(SrvDone(s)) /\ WF_vars(GetWake(s)) /\ WF_vars(GetExit(s))
       /\ WF_vars(\E r \in sj[s].pend : SrvRespond(s, r)) /\ WF_vars(\E r \in cj[s].pend : CliRespond(s, r))
       /\ WF_vars(RelStream(s)) /\ WF_vars(RelPost(s))
       /\ \A k \in CC : WF_vars(HRet(s, k, FALSE)) /\ WF_vars(CHRet(s, k)) /\ WF_vars(HAbandon(s, k))
       /\ \A n \in CN : WF_vars(SNRet(s, n))
       /\ \A n \in SN : WF_vars(CNRet(s, n))
FairSpec == Spec /\ Fair

-----------------------------------------------------------------------------
\* PROPERTIES: the clauses of C01, C02, C03, C05 restated for this transport

IsPayload(o) == o \notin ErrOuts /\ o # None

\* C01: a call completes with the payload made for that very call, or with an error; once
C01_OwnResponse ==
  \A s \in Sess : \A k \in CC :
    /\ (cc[s][k].st = "done" /\ IsPayload(cc[s][k].out)) => cc[s][k].out = <<s, k>>
    /\ (nc[s][k].st = "done" /\ IsPayload(nc[s][k].out)) => nc[s][k].out = <<s, k>>
C01_CompletesOnce ==
  [][\A s \in Sess : \A k \in CC : /\ cc[s][k].st = "done" => cc'[s][k] = cc[s][k]
                                   /\ nc[s][k].st = "done" => nc'[s][k] = nc[s][k]]_vars
\* never blocked once the session has terminated; calls begun afterwards fail at once as "closed"
C01_NotBlockedAfterTermination ==
  \A s \in Sess : /\ cj[s].done => \A k \in CC : cc[s][k].st \in {"idle", "done"}
                  /\ sj[s].done => \A k \in CC : nc[s][k].st \in {"idle", "done"}
C01_FailFast ==
  [][\A s \in Sess : \A k \in CC : (cj[s].done /\ cc[s][k].st = "idle" /\ cc'[s][k].st # "idle")
                                      => cc'[s][k] = [st |-> "done", out |-> <<"closed">>]]_vars
\* an error has a cause: the caller's context, a Close, a fault of the network, or the end of the stream
Disturbed(s) == hurt[s] \/ net[s].cend # "no"
C01_ErrorHasCause ==
  \A s \in Sess : \A k \in CC : (cc[s][k].st = "done" /\ cc[s][k].out \in ErrOuts) => Disturbed(s)

\* C02: at most one response per request id per session, and only on the session the request was sent on
C02_AnsweredOnce ==
  \A s \in Sess : /\ \A i, j \in DOMAIN wrote[s] : i # j => wrote[s][i].k # wrote[s][j].k
                  /\ \A i, j \in DOMAIN cwrote[s] : i # j => cwrote[s][i].k # cwrote[s][j].k
C02_AnsweredOnOwnSession ==
  \A s \in Sess : /\ \A i \in DOMAIN wrote[s] : wrote[s][i].o = <<"err">> \/ wrote[s][i].o[1] = s
                  /\ \A k \in CC : sh[s][k].st \notin {"none"} => sh[s][k].src[1] = s
                  /\ \A k \in CC : ch[s][k].st # "none" => ch[s][k].src[1] = s
\* a request that arrives after its session has ended is rejected, not acknowledged and dropped
C02_RejectedNotDropped == \A p \in posts : (p.late /\ p.ph = "back") => p.status # 202
\* on a session that nothing disturbed, a call whose handler has returned is answered
C02_AnsweredWhenUsable ==
  \A s \in Sess : (~Disturbed(s) /\ ~ENABLED Internal) =>
     \A k \in CC : sh[s][k].st = "end" => \E i \in DOMAIN wrote[s] : wrote[s][i].k = k

\* C03: per direction, in read order: a notification's handler has finished before the handler of any later
\* message starts
SrvStarted(s, x) == IF x[1] = "call" THEN sh[s][x[2]].st \in {"run", "nest", "ret", "end"} ELSE cn[s][x[2]] \in {"run", "end"}
CliStarted(s, x) == IF x[1] = "call" THEN ch[s][x[2]].st \in {"run", "ret", "end"} ELSE sn[s][x[2]] \in {"run", "end"}
C03_NotificationCompletesFirst ==
  \A s \in Sess :
    /\ \A i, j \in DOMAIN srd[s] : (i < j /\ srd[s][i][1] = "note" /\ SrvStarted(s, srd[s][j])) => cn[s][srd[s][i][2]] = "end"
    /\ \A i, j \in DOMAIN crd[s] : (i < j /\ crd[s][i][1] = "note" /\ CliStarted(s, crd[s][j])) => sn[s][crd[s][i][2]] = "end"
\* messages of one peer are dispatched in the order they were sent (read): nothing overtakes in the queue
SrvTaken(s, x) == SrvStarted(s, x) \/ (x[1] = "call" /\ sh[s][x[2]].st = "skip")
CliTaken(s, x) == CliStarted(s, x) \/ (x[1] = "call" /\ ch[s][x[2]].st = "skip")
C03_DispatchInSendOrder ==
  \A s \in Sess :
    /\ \A i, j \in DOMAIN srd[s] : (i < j /\ SrvTaken(s, srd[s][j])) => SrvTaken(s, srd[s][i])
    /\ \A i, j \in DOMAIN crd[s] : (i < j /\ CliTaken(s, crd[s][j])) => CliTaken(s, crd[s][i])
\* a call sent by the goroutine whose NotifyProgress had returned (accepted by the peer) is read after that notification
C03_SenderOrder ==
  \A s \in Sess : \A f \in fol[s] : \A j \in DOMAIN srd[s] :
    (srd[s][j] = <<"call", f[2]>> /\ cns[s][f[1]] = "acked") =>
        (cn[s][f[1]] = "lost" \/ \E i \in DOMAIN srd[s] : i < j /\ srd[s][i] = <<"note", f[1]>>)

\* C05: the transport is closed only after running handlers have returned; nothing read after Close began is
\* dispatched; the ended session is removed
C05_HandlersFinishBeforeTransportClosed ==
  \A s \in Sess : /\ sj[s].tclosed => (\A k \in CC : sh[s][k].st \notin {"run", "nest"}) /\ (\A n \in CN : cn[s][n] # "run")
                  /\ cj[s].tclosed => (\A k \in CC : ch[s][k].st # "run") /\ (\A n \in SN : sn[s][n] # "run")
C05_NoDispatchAfterClose == \A s \in Sess : \A k \in late[s] : sh[s][k].st \in {"none", "skip"}
C05_SessionRemoved ==
  \A s \in Sess : /\ sj[s].done => s \notin listed
                  /\ tr[s].get = "exited" => (s \notin tab /\ sj[s].done)
                  /\ (up[s] /\ s \notin tab) => tr[s].get = "exited"

TypeOK ==
  /\ tab \subseteq Sess /\ listed \subseteq Sess /\ faults \in 0..MaxFaults
  /\ \A s \in Sess : /\ tr[s].st \in {"none", "open", "closed"} /\ tr[s].get \in {"none", "run", "woken", "exited"}
                     /\ cli[s].st \in {"none", "up", "closed"} /\ net[s].cend \in {"no", "cut", "eof", "closed"}
                     /\ cj[s].nw >= 0 /\ sj[s].nw = 0
                     /\ \A k \in CC : cc[s][k].st \in {"idle", "reg", "wait", "done"} /\ nc[s][k].st \in {"idle", "wait", "done"}

\* liveness (FairSpec): after a Close from either side or a cut that both ends notice, everything ends: pending
\* calls, Close, the peer's Wait, the hanging GET; the session leaves the server and the handler's table
Rest(s) == /\ cj[s].done /\ sj[s].done /\ s \notin listed /\ s \notin tab /\ tr[s].get = "exited"
           /\ \A k \in CC : cc[s][k].st \in {"idle", "done"} /\ nc[s][k].st \in {"idle", "done"}
           /\ \A p \in posts : p.s # s
Ending(s) == up[s] /\ (cl[s].c \/ cl[s].s \/ (net[s].cend \in {"cut", "closed"} /\ net[s].sctx))
C05_Terminates == \A s \in Sess : Ending(s) ~> Rest(s)
\* every call ends once the stream is cut (client side), whatever the server knows
C01_CallsEndOnBreak == \A s \in Sess : (net[s].cend # "no") ~> (\A k \in CC : cc[s][k].st \in {"idle", "done"})

Settled == ~ENABLED Internal
=============================================================================
