SPECIFICATION Spec
CONSTANTS
  Unknown = "u"
  MaxLen = 2
  Calls = {1, 2}
  HResults = {"accept", "herr"}
  Ids = {"x", "y"}
  MaxSpur = 1
  Handlers = {TRUE}
  AllowCancel = TRUE
  DeclineNoCompl = FALSE
  TrackOwed = FALSE
  ListsOf <- ListsShared
  KindsOf <- QuickKinds
INVARIANTS Safety
VIEW MCView
CHECK_DEADLOCK FALSE
